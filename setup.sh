#!/bin/bash
# Builds the checker offline and warms the Go build cache for /repo (export data used by go/packages).
set -e
here=$(cd "$(dirname "$0")" && pwd)
export GOFLAGS=-mod=mod GOPROXY=off GOSUMDB=off GOTOOLCHAIN=local
unset GOWORK
export PATH="$(go1.26 env GOROOT)/bin:$PATH"
mkdir -p "$here/bin" "$here/evidence"
(cd "$here/checker" && go build -o "$here/bin/verifcheck" .)
(cd /repo && go build ./... ) || true
(cd /repo && go list -export -deps ./... >/dev/null 2>&1) || true
echo setup done
