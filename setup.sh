#!/bin/bash
# Builds the checker offline and warms the Go build cache for /repo (export data used by go/packages).
set -e
here=$(cd "$(dirname "$0")" && pwd)
export GOFLAGS=-mod=mod GOPROXY=off GOSUMDB=off GOTOOLCHAIN=local
unset GOWORK
export PATH="$(go1.26 env GOROOT)/bin:$PATH"
mkdir -p "$here/bin" "$here/evidence"
(cd "$here/checker" && go build -o "$here/bin/verifcheck" .)
(cd /repo && go build ./... ) || true
# the loader runs 'go list -export' with -trimpath so that scratch copies of the tree (mutation self-test) share the cache
(cd /repo && GOFLAGS='-mod=mod -trimpath' go list -export -deps ./... >/dev/null 2>&1) || true
echo setup done
