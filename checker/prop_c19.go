package main

import (
	"fmt"
	"go/ast"
	"go/token"
	"go/types"
)

func init() {
	register(&propDef{
		id: "C19", title: "Scheduled messages are delivered as scheduled, and cancelled ones stop",
		technique: "guard dominance in the job closure (delivery only by the winner of the cluster claim), key-composition dataflow, put-if-absent mapping rule, error-edge rule for unknown references",
		explanation: "Decides the part of the property that is visible in the code shape: (1) cluster cron at-most-once per tick: in the job function the Tell is reached only when no claim is configured or the claim was won; a claim error or a lost claim never delivers; the claim key is composed of the schedule reference and the tick's run time; ClaimScheduleFire writes with put-if-absent plus the TTL and maps key-found to ErrScheduleFireClaimed, which claimClusterFire maps to 'not won'; a tick later than the TTL is skipped before any claim is attempted; (2) CancelSchedule / PauseSchedule / ResumeSchedule return ErrScheduledReferenceNotFound on the unknown-reference edge and act on the quartz job whose key was looked up under that reference; cancel forgets the reference on every exit; all three run under the scheduler's mutex. NOT decided: 'not before its delay', interval fidelity and 'at most one in-flight delivery after cancel' are timing behaviour of the third-party quartz scheduler. Added after seed C19a: the claim entry is written with the same ttl the stale-tick guard compares against. Added after seed C19b: the reference maps (scheduledKeys, scheduledMeta) lose an entry only in CancelSchedule (or when the scheduler stops): a live schedule stays cancellable.",
		assumptions: []string{"quartz scheduler timing and its DeleteJob/PauseJob semantics", "olric put-if-absent atomicity across nodes", "clock skew between nodes smaller than the claim TTL"},
		minObl:     14,
		run:        runC19,
	})
}

func runC19(c *Ctx) {
	c.Rule("claim-gates-delivery", func() {
		mj := c.Func("actor", "scheduler.makeJobFn")
		info := mj.Info()
		var lit *ast.FuncLit
		ast.Inspect(mj.Decl.Body, func(n ast.Node) bool {
			if r, ok := n.(*ast.ReturnStmt); ok && len(r.Results) == 1 {
				if l, ok := r.Results[0].(*ast.FuncLit); ok {
					lit = l
				}
			}
			return true
		})
		if lit == nil {
			c.Fail("makeJobFn: job closure not found")
		}
		f := c.NewLitFlow("scheduler.makeJobFn$job", info, lit)
		tell := func(n ast.Node) bool {
			call, ok := n.(*ast.CallExpr)
			if !ok {
				return false
			}
			cal := callee(info, call)
			return cal != nil && cal.Name() == "Tell"
		}
		claimFn := c.FuncObj("actor", "scheduler.claimClusterFire")
		noClaim := f.EdgesWhere(func(cond ast.Expr) (bool, bool) {
			cm, ok := asCmp(cond, true)
			if ok && cm.Op == token.NEQ && isNilIdent(info, cm.R) {
				// the claim descriptor: makeJobFn's pointer parameter that is handed to claimClusterFire
				ps := mj.Obj.Type().(*types.Signature).Params()
				for i := 0; i < ps.Len(); i++ {
					if n := namedOf(ps.At(i).Type()); n != nil && n.Obj().Name() == "scheduleFireClaim" && objOf(info, cm.L) == types.Object(ps.At(i)) {
						return true, false
					}
				}
			}
			return false, false
		})
		wonVars := map[types.Object]bool{} // the boolean result of claimClusterFire
		ast.Inspect(lit.Body, func(n ast.Node) bool {
			if as, ok := n.(*ast.AssignStmt); ok && len(as.Lhs) == 2 && len(as.Rhs) == 1 {
				if call, ok := as.Rhs[0].(*ast.CallExpr); ok && callee(info, call) == claimFn {
					if id, ok := as.Lhs[0].(*ast.Ident); ok {
						wonVars[info.ObjectOf(id)] = true
					}
				}
			}
			return true
		})
		won := f.EdgesWhere(func(cond ast.Expr) (bool, bool) {
			if id, ok := cond.(*ast.Ident); ok && wonVars[info.ObjectOf(id)] {
				return true, true
			}
			return false, false
		})
		all := map[Edge]bool{}
		for e := range noClaim {
			all[e] = true
		}
		for e := range won {
			all[e] = true
		}
		w := f.search(searchSpec{avoidEdges: all, target: tell})
		c.Check(w == nil && len(noClaim) > 0 && len(won) > 0 && len(f.Find(tell)) == 1, "tell-only-if-won", "a tick is delivered only when no cluster claim is configured or this node won the claim", c.P.Pos(lit.Pos()), f.describe(w))
		fail, n := f.ErrEdgesOf(f.CallTo(claimFn), true)
		w = f.AfterEdgesMayReach(fail, nil, nil, tell)
		c.Check(n == 1 && w == nil, "claim-error⇏tell", "a failed claim never delivers", c.P.Pos(lit.Pos()), f.describe(w))
	})

	c.Rule("claim", func() {
		cf := c.Func("actor", "scheduler.claimClusterFire")
		f := c.NewFlow(cf)
		info := f.Info
		claim := func(n ast.Node) bool {
			call, ok := n.(*ast.CallExpr)
			if !ok {
				return false
			}
			cal := callee(info, call)
			return cal != nil && cal.Name() == "ClaimScheduleFire"
		}
		// key = Sprintf(format, claim.reference, metadata.RunTime)
		okKey := false
		ast.Inspect(cf.Decl.Body, func(n ast.Node) bool {
			call, ok := n.(*ast.CallExpr)
			if !ok {
				return true
			}
			if cal := callee(info, call); cal != nil && cal.Name() == "Sprintf" {
				ref, rt := false, false
				for _, a := range call.Args {
					if f := selField(info, a); f != nil && f.Name() == "reference" {
						ref = true
					}
					if f := selField(info, a); f != nil && f.Name() == "RunTime" {
						rt = true
					}
				}
				okKey = ref && rt
			}
			return true
		})
		c.Check(okKey, "key=reference@runTime", "the claim key is built from the schedule reference and the tick's run time (one key per tick)", c.P.Pos(cf.Decl.Pos()), "")
		stale := f.EdgesWhere(func(cond ast.Expr) (bool, bool) {
			cm, ok := asCmp(cond, true)
			if ok && cm.Op == token.GTR {
				if f := selField(info, cm.R); f != nil && f.Name() == "ttl" {
					return true, true
				}
			}
			return false, false
		})
		w := f.AfterEdgesMayReach(stale, nil, nil, claim)
		c.Check(w == nil && len(stale) > 0, "stale⇏claim", "a tick older than the claim TTL is skipped before any claim is attempted", c.P.Pos(cf.Decl.Pos()), f.describe(w))
		fresh := f.FactEdges(func(cm cmp) bool {
			fv := selField(info, cm.R)
			return cm.Op == token.LEQ && fv != nil && fv.Name() == "ttl"
		})
		c.guardedBy(f, fresh, claim, "claim-only-if-fresh", "a claim is attempted only over the edge on which the tick is not older than the claim TTL", c.P.Pos(cf.Decl.Pos()))
		// the claim entry's expiry is the same ttl the stale-tick guard compares against: a claim that expires earlier lets a
		// lagging node (still inside the guard) win the same tick again
		okTTL := false
		for _, a := range f.Find(claim) {
			call := a.N.(*ast.CallExpr)
			if len(call.Args) >= 3 {
				fv := selField(info, call.Args[2])
				okTTL = fv != nil && fv.Name() == "ttl"
			}
		}
		c.Check(okTTL, "claim-ttl=guard-ttl", "the claim is written with the same ttl the stale-tick guard uses (the winner's claim outlives every tick that may still be claimed)", c.P.Pos(cf.Decl.Pos()), "ClaimScheduleFire is not given claim.ttl")
		// the switch maps ErrScheduleFireClaimed to (false, nil)
		mapped := false
		ast.Inspect(cf.Decl.Body, func(n ast.Node) bool {
			cc, ok := n.(*ast.CaseClause)
			if !ok {
				return true
			}
			mentions := false
			for _, e := range cc.List {
				ast.Inspect(e, func(m ast.Node) bool {
					if id, ok := m.(*ast.Ident); ok && id.Name == "ErrScheduleFireClaimed" {
						mentions = true
					}
					return true
				})
			}
			if mentions {
				for _, st := range cc.Body {
					if r, ok := st.(*ast.ReturnStmt); ok && len(r.Results) == 2 {
						if id, ok := r.Results[0].(*ast.Ident); ok && id.Name == "false" && isNilIdent(info, r.Results[1]) {
							mapped = true
						}
					}
				}
			}
			return true
		})
		c.Check(mapped, "claimed⇒not-won", "an already claimed tick is reported as 'not won' (not as an error, not as won)", c.P.Pos(cf.Decl.Pos()), "")
		cl := c.Func("internal/cluster", "cluster.ClaimScheduleFire")
		cinfo := cl.Info()
		nx, ex, mapErr := false, false, false
		ast.Inspect(cl.Decl.Body, func(n ast.Node) bool {
			switch x := n.(type) {
			case *ast.CallExpr:
				if cal := callee(cinfo, x); cal != nil {
					if cal.Name() == "putRecordIfAbsent" {
						nx = true
					}
					if cal.Name() == "EX" {
						ex = true
					}
				}
			case *ast.ReturnStmt:
				if len(x.Results) == 1 {
					if o := objOf(cinfo, x.Results[0]); o != nil && o.Name() == "ErrScheduleFireClaimed" {
						mapErr = true
					}
				}
			}
			return true
		})
		c.Check(nx && ex && mapErr, "cluster/put-if-absent+ttl", "ClaimScheduleFire writes with put-if-absent and an expiry and reports an existing key as ErrScheduleFireClaimed", c.P.Pos(cl.Decl.Pos()), "")
	})

	c.Rule("reference-bookkeeping", func() {
		// "until cancelled": CancelSchedule / PauseSchedule / ResumeSchedule find a live schedule through the reference
		// maps, so an entry is removed only by CancelSchedule (and wholesale when the scheduler stops). A rollback that
		// deletes by reference after a rejected duplicate registration removes the LIVE schedule's entry: it keeps
		// firing and can no longer be cancelled.
		n := 0
		for _, fld := range []string{"scheduledKeys", "scheduledMeta"} {
			fv := c.Field("actor", "scheduler", fld)
			for _, u := range c.UsesOf(fv) {
				if u.Sel == nil || len(u.Path) < 2 {
					continue
				}
				sel, ok := u.Path[len(u.Path)-2].(*ast.SelectorExpr)
				if !ok {
					continue
				}
				switch sel.Sel.Name {
				case "Delete", "Remove", "Clear", "Reset":
				default:
					continue
				}
				n++
				name := funcName(u.EnclObj)
				ok = name == "actor.(*scheduler).CancelSchedule" || name == "actor.(*scheduler).Stop" || name == "actor.(*scheduler).reset"
				c.Check(ok, "remove-"+fld+"@"+u.EnclName(), "a schedule's reference entry is removed only by CancelSchedule (or when the scheduler stops)", u.Where(c.P), "entry removed in "+name+": a live schedule registered under the same reference becomes uncancellable")
			}
		}
		if n < 2 {
			c.Undecided("count", "CancelSchedule removes the reference from both maps", "-", fmt.Sprintf("found %d removal sites", n))
		}
	})

	c.Rule("cancel-pause-resume", func() {
		mu := c.Field("actor", "scheduler", "mu")
		for name, job := range map[string]string{"scheduler.CancelSchedule": "DeleteJob", "scheduler.PauseSchedule": "PauseJob", "scheduler.ResumeSchedule": "ResumeJob"} {
			fn := c.Func("actor", name)
			f := c.NewFlow(fn)
			info := f.Info
			errNF := c.pkg("errors").Types.Scope().Lookup("ErrScheduledReferenceNotFound")
			var okObj, keyObj types.Object
			ast.Inspect(fn.Decl.Body, func(n ast.Node) bool {
				if as, ok := n.(*ast.AssignStmt); ok && len(as.Lhs) == 2 && len(as.Rhs) == 1 {
					if call, ok := as.Rhs[0].(*ast.CallExpr); ok {
						if sel, ok := call.Fun.(*ast.SelectorExpr); ok && sel.Sel.Name == "Get" {
							if fv := selField(info, sel.X); fv != nil && fv.Name() == "scheduledKeys" {
								keyObj, okObj = info.ObjectOf(as.Lhs[0].(*ast.Ident)), info.ObjectOf(as.Lhs[1].(*ast.Ident))
							}
						}
					}
				}
				return true
			})
			missing := f.CondEdges(func(e ast.Expr) bool { id, ok := e.(*ast.Ident); return ok && okObj != nil && info.ObjectOf(id) == okObj }, false)
			retNF := func(n ast.Node) bool {
				r, ok := n.(*ast.ReturnStmt)
				return ok && len(r.Results) == 1 && objOf(info, r.Results[0]) == errNF
			}
			w := f.AfterEdgesMustPass(missing, retNF, nil)
			c.Check(w == nil && len(missing) > 0, name+"/unknown⇒error", "an unknown reference is reported as ErrScheduledReferenceNotFound", c.P.Pos(fn.Decl.Pos()), f.describe(w))
			jobCall := f.Find(func(n ast.Node) bool {
				call, ok := n.(*ast.CallExpr)
				if !ok {
					return false
				}
				cal := callee(info, call)
				return cal != nil && cal.Name() == job
			})
			okArg := len(jobCall) == 1
			for _, a := range jobCall {
				call := a.N.(*ast.CallExpr)
				if len(call.Args) != 1 || objOf(info, call.Args[0]) != keyObj || keyObj == nil {
					okArg = false
				}
			}
			c.Check(okArg, name+"/acts-on-looked-up-job", "the quartz job acted on is the one registered under the given reference", c.P.Pos(fn.Decl.Pos()), "")
			w = f.AfterEdgesMayReach(missing, nil, nil, func(n ast.Node) bool { return len(jobCall) == 1 && n == jobCall[0].N })
			c.Check(w == nil, name+"/unknown⇏job-op", "no job operation for an unknown reference", c.P.Pos(fn.Decl.Pos()), f.describe(w))
			la := f.Locks(nil)
			for _, a := range jobCall {
				c.Check(la.At(a)[mu] == 2, name+"/under-mutex", "the lookup and the job operation run in one critical section of the scheduler", c.P.Pos(a.N.Pos()), "")
			}
		}
		// cancel forgets the reference on every exit
		cs := c.Func("actor", "scheduler.CancelSchedule")
		cf := c.NewFlow(cs)
		del := func(n ast.Node) bool {
			call, ok := n.(*ast.CallExpr)
			if !ok {
				return false
			}
			sel, ok := call.Fun.(*ast.SelectorExpr)
			if !ok || sel.Sel.Name != "Delete" {
				return false
			}
			fv := selField(cf.Info, sel.X)
			return fv != nil && fv.Name() == "scheduledKeys"
		}
		w := cf.ExitReachable(nil, del, nil, nil)
		c.Check(w == nil, "cancel/forgets-reference", "after CancelSchedule the reference is no longer registered, on every exit", c.P.Pos(cs.Decl.Pos()), cf.describe(w))
	})
}
