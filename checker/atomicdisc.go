package main

import (
	"go/ast"
	"go/types"
	"strings"
)

// E4 atomic discipline: a struct field that is passed by address to a
// sync/atomic function anywhere must be accessed that way everywhere
// (composite-literal initialisation and accesses through an object constructed
// in the same function are exempt).
func (c *Ctx) AtomicDiscipline(key string, pkgRels ...string) int {
	isAtomicCall := func(info *types.Info, call *ast.CallExpr) bool {
		cal := callee(info, call)
		return cal != nil && cal.Pkg() != nil && cal.Pkg().Path() == "sync/atomic" && cal.Type().(*types.Signature).Recv() == nil
	}
	atomicFields := map[*types.Var]string{}
	inPkg := func(p string) bool {
		for _, r := range pkgRels {
			if relPkg(p) == r {
				return true
			}
		}
		return false
	}
	for _, pk := range c.P.Pkgs {
		if !inPkg(pk.PkgPath) {
			continue
		}
		for _, file := range pk.Syntax {
			ast.Inspect(file, func(n ast.Node) bool {
				call, ok := n.(*ast.CallExpr)
				if !ok || !isAtomicCall(pk.TypesInfo, call) || len(call.Args) == 0 {
					return true
				}
				if ue, ok := ast.Unparen(call.Args[0]).(*ast.UnaryExpr); ok {
					if fv := selField(pk.TypesInfo, ue.X); fv != nil {
						atomicFields[fv] = c.P.Pos(call.Pos())
					}
				}
				return true
			})
		}
	}
	n := 0
	for fv, where := range atomicFields {
		for _, u := range c.UsesOf(fv) {
			if u.Sel == nil {
				continue // composite literal key
			}
			n++
			ok := false
			// &x.f as first argument of an atomic call
			if u.IsAddr && len(u.Path) >= 3 {
				for i := len(u.Path) - 1; i >= 0 && i >= len(u.Path)-4; i-- {
					if call, isCall := u.Path[i].(*ast.CallExpr); isCall && isAtomicCall(u.Pkg.TypesInfo, call) {
						ok = true
					}
				}
			}
			k := key + "/" + fieldOwner(fv) + "." + fv.Name() + "@" + u.EnclName()
			if ok {
				c.Ok(k, "field is accessed through sync/atomic (it is accessed atomically at "+where+")", u.Where(c.P))
				continue
			}
			if freshReceiver(u) || (u.EnclObj != nil && strings.HasPrefix(u.EnclObj.Name(), "New")) || (u.EnclObj != nil && strings.HasPrefix(u.EnclObj.Name(), "new")) {
				c.Ok(k+"/constructor", "plain access on an object that is not yet shared (constructor)", u.Where(c.P))
				continue
			}
			c.Bad(k, "a field accessed with sync/atomic anywhere is accessed with sync/atomic everywhere", u.Where(c.P), "plain access to "+fv.Name()+" which is accessed atomically at "+where)
		}
	}
	return n
}
