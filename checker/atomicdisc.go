package main

import (
	"go/ast"
	"go/types"
	"strings"
)

// E4 atomic discipline: a struct field that is passed by address to a
// sync/atomic function anywhere must be accessed that way everywhere
// (composite-literal initialisation and accesses through an object constructed
// in the same function are exempt).
func (c *Ctx) AtomicDiscipline(key string, pkgRels ...string) int {
	isAtomicCall := func(info *types.Info, call *ast.CallExpr) bool {
		cal := callee(info, call)
		return cal != nil && cal.Pkg() != nil && cal.Pkg().Path() == "sync/atomic" && cal.Type().(*types.Signature).Recv() == nil
	}
	atomicFields := map[*types.Var]string{}
	inPkg := func(p string) bool {
		for _, r := range pkgRels {
			if relPkg(p) == r {
				return true
			}
		}
		return false
	}
	for _, pk := range c.P.Pkgs {
		if !inPkg(pk.PkgPath) {
			continue
		}
		for _, file := range pk.Syntax {
			ast.Inspect(file, func(n ast.Node) bool {
				call, ok := n.(*ast.CallExpr)
				if !ok || !isAtomicCall(pk.TypesInfo, call) || len(call.Args) == 0 {
					return true
				}
				if ue, ok := ast.Unparen(call.Args[0]).(*ast.UnaryExpr); ok {
					if fv := selField(pk.TypesInfo, ue.X); fv != nil {
						atomicFields[fv] = c.P.Pos(call.Pos())
					}
				}
				return true
			})
		}
	}
	n := 0
	for fv, where := range atomicFields {
		for _, u := range c.UsesOf(fv) {
			if u.Sel == nil {
				continue // composite literal key
			}
			n++
			ok := false
			// &x.f as first argument of an atomic call
			if u.IsAddr && len(u.Path) >= 3 {
				for i := len(u.Path) - 1; i >= 0 && i >= len(u.Path)-4; i-- {
					if call, isCall := u.Path[i].(*ast.CallExpr); isCall && isAtomicCall(u.Pkg.TypesInfo, call) {
						ok = true
					}
				}
			}
			k := key + "/" + fieldOwner(fv) + "." + fv.Name() + "@" + u.EnclName()
			if ok {
				c.Ok(k, "field is accessed through sync/atomic (it is accessed atomically at "+where+")", u.Where(c.P))
				continue
			}
			if freshReceiver(u) || (u.EnclObj != nil && strings.HasPrefix(u.EnclObj.Name(), "New")) || (u.EnclObj != nil && strings.HasPrefix(u.EnclObj.Name(), "new")) {
				c.Ok(k+"/constructor", "plain access on an object that is not yet shared (constructor)", u.Where(c.P))
				continue
			}
			c.Bad(k, "a field accessed with sync/atomic anywhere is accessed with sync/atomic everywhere", u.Where(c.P), "plain access to "+fv.Name()+" which is accessed atomically at "+where)
		}
	}
	return n
}

// atomicOp classifies a call as an atomic operation on a struct field, in either
// form (atomic.AddInt64(&x.f, …) or x.f.Add(…) on a sync/atomic / uber atomic
// typed field). It returns the field, the operation class (Load, Store, Add,
// Swap, CompareAndSwap, …) and the operands after the address.
func atomicOp(info *types.Info, call *ast.CallExpr) (*types.Var, string, []ast.Expr) {
	fv, op, args, _ := atomicOpOn(info, call)
	return fv, op, args
}

// atomicOpOn additionally returns the expression denoting the field (x.f).
func atomicOpOn(info *types.Info, call *ast.CallExpr) (*types.Var, string, []ast.Expr, ast.Expr) {
	cal := callee(info, call)
	if cal == nil || cal.Pkg() == nil {
		return nil, "", nil, nil
	}
	pp := cal.Pkg().Path()
	if pp != "sync/atomic" && pp != "go.uber.org/atomic" {
		return nil, "", nil, nil
	}
	class := func(name string) string {
		for _, p := range []string{"CompareAndSwap", "CompareAndSwap", "Load", "Store", "Swap", "Add", "Sub", "Inc", "Dec", "And", "Or", "Toggle", "CAS"} {
			if strings.HasPrefix(name, p) {
				return p
			}
		}
		return name
	}
	if cal.Type().(*types.Signature).Recv() == nil {
		if len(call.Args) == 0 {
			return nil, "", nil, nil
		}
		ue, ok := ast.Unparen(call.Args[0]).(*ast.UnaryExpr)
		if !ok {
			return nil, "", nil, nil
		}
		fv := selField(info, ue.X)
		if fv == nil {
			return nil, "", nil, nil
		}
		return fv, class(cal.Name()), call.Args[1:], ue.X
	}
	sel, ok := ast.Unparen(call.Fun).(*ast.SelectorExpr)
	if !ok {
		return nil, "", nil, nil
	}
	fv := selField(info, sel.X)
	if fv == nil {
		return nil, "", nil, nil
	}
	return fv, class(cal.Name()), call.Args, sel.X
}

// NoLostUpdate: a field that some party updates with an atomic read-modify-write
// (Add, Swap, CompareAndSwap, …) is never written with a Store whose value was
// derived from a Load of the same field: an update landing between that load and
// the store would be overwritten (each access is atomic, the pair is not).
func (c *Ctx) NoLostUpdate(key string, pkgRels ...string) int {
	inPkg := func(p string) bool {
		for _, r := range pkgRels {
			if relPkg(p) == r {
				return true
			}
		}
		return len(pkgRels) == 0
	}
	type storeSite struct {
		call  *ast.CallExpr
		on    string
		val   ast.Expr
		info  *types.Info
		decl  *ast.FuncDecl
		where string
		encl  string
	}
	rmw := map[*types.Var]string{}
	stores := map[*types.Var][]storeSite{}
	for _, pk := range c.P.Pkgs {
		if !inPkg(pk.PkgPath) {
			continue
		}
		info := pk.TypesInfo
		for _, file := range pk.Syntax {
			for _, d := range file.Decls {
				fd, ok := d.(*ast.FuncDecl)
				if !ok || fd.Body == nil {
					continue
				}
				encl := fd.Name.Name
				if obj, ok := info.Defs[fd.Name].(*types.Func); ok {
					encl = funcName(obj)
				}
				ast.Inspect(fd.Body, func(n ast.Node) bool {
					call, ok := n.(*ast.CallExpr)
					if !ok {
						return true
					}
					fv, op, args, on := atomicOpOn(info, call)
					if fv == nil {
						return true
					}
					switch op {
					case "Load":
					case "Store":
						if len(args) == 1 {
							stores[fv] = append(stores[fv], storeSite{call, types.ExprString(on), args[0], info, fd, c.P.Pos(call.Pos()), encl})
						}
					default:
						rmw[fv] = c.P.Pos(call.Pos())
					}
					return true
				})
			}
		}
	}
	n := 0
	for fv, sites := range stores {
		at, shared := rmw[fv]
		if !shared {
			continue
		}
		for _, s := range sites {
			n++
			derived := false
			var walk func(e ast.Expr, depth int)
			walk = func(e ast.Expr, depth int) {
				if e == nil || depth > 6 || derived {
					return
				}
				ast.Inspect(e, func(m ast.Node) bool {
					switch x := m.(type) {
					case *ast.CallExpr:
						if f2, op, _, on := atomicOpOn(s.info, x); f2 == fv && op == "Load" && types.ExprString(on) == s.on {
							derived = true
						}
					case *ast.Ident:
						if def := singleLocalDef(s.info, s.decl, s.info.ObjectOf(x)); def != nil {
							walk(def, depth+1)
						}
					}
					return !derived
				})
			}
			walk(s.val, 0)
			k := key + "/" + fieldOwner(fv) + "." + fv.Name() + "@" + s.encl
			c.Check(!derived, k, "a counter that is also updated by atomic read-modify-write is never overwritten with a value computed from an earlier load of it", s.where, "Store of a value derived from Load of "+fv.Name()+", which is updated with a read-modify-write at "+at+": a concurrent update between the load and the store is lost")
		}
	}
	return n
}
