package main

import (
	"go/ast"
	"go/types"
)

func init() {
	register(&propDef{
		id: "C29", title: "Per-message context metadata is restored on the receiver",
		technique: "field-coverage + dataflow rule: the per-message Metadata is computed from the caller's context at submit time and restored from the same message on the server; enrich-before-send ordering on the non-coalesced paths",
		explanation: "Decides: (1) coalesced tells: the RemoteMessage handed to the coalescer sets Metadata from injectMessageMetadata(ctx) with the caller's own ctx, computed on the caller's goroutine before submit; the coalescer's writer never touches Metadata (headers cannot be mixed up between callers that share a batch); injectMessageMetadata copies every injected header into the map; (2) non-coalesced tells/asks: the request context is enriched (enrichContext) before SendProto and the enriched context is the one passed to it, every error of the enrichment aborts the send; (3) server: for each message of a batch the context handed to the delivery is messageMetadata(ctx, m.GetMetadata()) of that same message m, with the request-level ctx only as parent; messageMetadata copies every map entry into the header set given to Extract; a metadata failure dead-letters that message only. Added after seed C29a: the header carrier handed to the propagator's Inject is a map allocated in that call, never taken from shared storage. Added after seed C29b: the coalescer's writer goroutine neither reads any message's metadata nor attaches request-level metadata to the batch RPC.",
		assumptions: []string{"header equality for all maps (multi-valued headers keep their first value by design)", "the user-supplied ContextPropagator is deterministic"},
		minObl:     60,
		run:        runC29,
	})
}

func runC29(c *Ctx) {
	inject := c.FuncObj("internal/remoteclient", "client.injectMessageMetadata")
	c.Rule("coalesced-client", func() {
		rt := c.Func("internal/remoteclient", "client.RemoteTell")
		f := c.NewFlow(rt)
		info := f.Info
		ctxParam := info.Defs[rt.Decl.Type.Params.List[0].Names[0]]
		var mdObj types.Object
		okCtx := false
		ast.Inspect(rt.Decl.Body, func(n ast.Node) bool {
			if as, ok := n.(*ast.AssignStmt); ok && len(as.Rhs) == 1 && len(as.Lhs) == 2 {
				if call, ok := as.Rhs[0].(*ast.CallExpr); ok && callee(info, call) == inject {
					mdObj = info.ObjectOf(as.Lhs[0].(*ast.Ident))
					okCtx = objOf(info, call.Args[0]) == ctxParam
				}
			}
			return true
		})
		c.Check(mdObj != nil && okCtx, "metadata-from-caller-ctx", "the per-message headers are injected from the caller's own context", c.P.Pos(rt.Decl.Pos()), "")
		// the literal given to submit carries Metadata: md
		submit := c.FuncObj("internal/remoteclient", "coalescer.submit")
		okLit := false
		var msgObj types.Object
		ast.Inspect(rt.Decl.Body, func(n ast.Node) bool {
			if as, ok := n.(*ast.AssignStmt); ok && len(as.Rhs) == 1 {
				if ue, ok := as.Rhs[0].(*ast.UnaryExpr); ok {
					if cl, ok := ue.X.(*ast.CompositeLit); ok {
						if t := info.TypeOf(cl); t != nil && isNamed(t, "RemoteMessage") {
							for _, el := range cl.Elts {
								if kv, ok := el.(*ast.KeyValueExpr); ok && kv.Key.(*ast.Ident).Name == "Metadata" && objOf(info, kv.Value) == mdObj && mdObj != nil {
									okLit = true
									msgObj = info.ObjectOf(as.Lhs[0].(*ast.Ident))
								}
							}
						}
					}
				}
			}
			return true
		})
		subs := f.Find(f.CallTo(submit))
		okArg := len(subs) == 1
		for _, a := range subs {
			if objOf(info, a.N.(*ast.CallExpr).Args[1]) != msgObj || msgObj == nil {
				okArg = false
			}
		}
		c.Check(okLit && okArg, "submitted-message-carries-metadata", "the message handed to the coalescer carries those headers", c.P.Pos(rt.Decl.Pos()), "RemoteMessage literal without Metadata: md")
		w := f.MustPrecede(f.CallTo(inject), nil, f.CallTo(submit))
		c.Check(w == nil, "inject≺submit", "headers are captured on the caller's goroutine before the message is queued", c.P.Pos(rt.Decl.Pos()), f.describe(w))
		// the writer never assigns Metadata
		mdField := c.Field("internal/internalpb", "RemoteMessage", "Metadata")
		bad := ""
		for _, u := range c.UsesOf(mdField) {
			if u.IsWrite && relPkg(u.Pkg.PkgPath) == "internal/remoteclient" {
				bad = u.Where(c.P)
			}
		}
		co := c.Func("internal/remoteclient", "coalescer.run")
		touches := false
		ast.Inspect(co.Decl.Body, func(n ast.Node) bool {
			if sel, ok := n.(*ast.SelectorExpr); ok && sel.Sel.Name == "Metadata" {
				touches = true
			}
			// neither does it read one message's headers or attach request-level metadata to the batch RPC: the
			// receiver overlays per-message metadata on the request-level context, so anything attached to the
			// batch becomes the base layer of EVERY message in it (one caller's headers restored for another's)
			if call, ok := n.(*ast.CallExpr); ok {
				if cal := callee(co.Info(), call); cal != nil && (cal.Name() == "GetMetadata" || cal.Name() == "ContextWithMetadata") {
					touches = true
				}
			}
			return true
		})
		c.Check(bad == "" && !touches, "writer-leaves-metadata-alone", "the flush goroutine never sets, rewrites or reads per-message metadata and attaches no request-level metadata to the batch RPC (per-caller headers travel only inside each message)", c.P.Pos(co.Decl.Pos()), "Metadata touched in the writer goroutine "+bad)
		// injectMessageMetadata copies every header
		ij := c.Func("internal/remoteclient", "client.injectMessageMetadata")
		iinfo := ij.Info()
		copies := false
		var injected types.Object // the carrier handed to the propagator's Inject
		ast.Inspect(ij.Decl.Body, func(n ast.Node) bool {
			if call, ok := n.(*ast.CallExpr); ok && len(call.Args) == 2 {
				if cal := callee(iinfo, call); cal != nil && cal.Name() == "Inject" {
					injected = objOf(iinfo, call.Args[1])
				}
			}
			return true
		})
		ast.Inspect(ij.Decl.Body, func(n ast.Node) bool {
			if r, ok := n.(*ast.RangeStmt); ok {
				if o := objOf(iinfo, r.X); o != nil && o == injected {
					ast.Inspect(r.Body, func(m ast.Node) bool {
						if as, ok := m.(*ast.AssignStmt); ok {
							if ix, ok := as.Lhs[0].(*ast.IndexExpr); ok && objOf(iinfo, ix.Index) == iinfo.ObjectOf(r.Key.(*ast.Ident)) {
								copies = true
							}
						}
						return true
					})
				}
			}
			return true
		})
		c.Check(copies, "inject-copies-every-header", "every header the propagator injected is copied into the message metadata under its own key", c.P.Pos(ij.Decl.Pos()), "")
	})

	c.Rule("fresh-carrier", func() {
		// the scratch header map handed to the propagator is allocated by the call that uses it: a carrier taken from
		// shared storage (a pool, a field) can hand one caller's headers to another caller's message
		n := 0
		for _, name := range []string{"client.injectMessageMetadata", "client.enrichContext"} {
			fn := c.Func("internal/remoteclient", name)
			info := fn.Info()
			ast.Inspect(fn.Decl.Body, func(nd ast.Node) bool {
				call, ok := nd.(*ast.CallExpr)
				if !ok || !isCallNamed(info, call, "Inject") || len(call.Args) != 2 {
					return true
				}
				n++
				fresh := false
				if id, ok := ast.Unparen(call.Args[1]).(*ast.Ident); ok {
					if def := singleLocalDef(info, fn.Decl, info.ObjectOf(id)); def != nil {
						switch d := ast.Unparen(def).(type) {
						case *ast.CompositeLit:
							fresh = true
						case *ast.CallExpr:
							if fid, ok := d.Fun.(*ast.Ident); ok && fid.Name == "make" {
								fresh = true
							}
						}
					}
				}
				c.Check(fresh, "fresh-carrier/"+name, "the header carrier passed to Inject is a map allocated in this call (make / literal), used for this message only", c.P.Pos(call.Pos()), "the carrier is "+types.ExprString(call.Args[1])+", not a fresh allocation of this call")
				return true
			})
		}
		if n < 2 {
			c.Undecided("fresh-carrier/sites", "Inject call sites found", "-", "found "+itoa(n))
		}
	})

	c.Rule("enrich-before-send", func() {
		enrich := c.FuncObj("internal/remoteclient", "client.enrichContext")
		n := 0
		seen := map[*types.Func]bool{}
		for _, u := range c.UsesOf(enrich) {
			if u.Call == nil || u.EnclObj == nil || seen[u.EnclObj] {
				continue
			}
			seen[u.EnclObj] = true
			fn := c.fnOfObj(u.EnclObj)
			f := c.NewFlow(fn)
			info := f.Info
			send := func(nd ast.Node) bool {
				call, ok := nd.(*ast.CallExpr)
				if !ok {
					return false
				}
				cal := callee(info, call)
				return cal != nil && cal.Pkg() != nil && relPkg(cal.Pkg().Path()) == "internal/net" && len(cal.Name()) > 4 && cal.Name()[:4] == "Send"
			}
			sends := f.Find(send)
			if len(sends) == 0 {
				continue
			}
			n++
			// sends after the enrich call use the (re)assigned ctx; a send on the coalesced fast path precedes enrich and is exempt
			en := f.Find(f.CallTo(enrich))
			fail, _ := f.ErrEdgesOf(f.CallTo(enrich), true)
			w := f.AfterEdgesMayReach(fail, nil, nil, send)
			c.Check(w == nil, fn.String()+"/enrich-error⇏send", "a failed metadata injection aborts the send", c.P.Pos(fn.Decl.Pos()), f.describe(w))
			reach := f.MayReach(en, nil, send)
			c.Check(reach != nil, fn.String()+"/enrich≺send", "the request context is enriched on the path to the send", c.P.Pos(fn.Decl.Pos()), "no send follows enrichContext")
			// the result of enrichContext is assigned to the ctx variable that the send uses
			okAssign := false
			ast.Inspect(fn.Decl.Body, func(m ast.Node) bool {
				if as, ok := m.(*ast.AssignStmt); ok && len(as.Rhs) == 1 && len(as.Lhs) == 2 {
					if call, ok := as.Rhs[0].(*ast.CallExpr); ok && callee(info, call) == enrich {
						// ctx, err = enrichContext(ctx, …): the enriched context replaces the one it was derived from
						if o := objOf(info, as.Lhs[0]); o != nil && objOf(info, call.Args[0]) == o {
							okAssign = true
						}
					}
				}
				return true
			})
			c.Check(okAssign, fn.String()+"/enriched-ctx-is-used", "the enriched context replaces the request context used for the send", c.P.Pos(fn.Decl.Pos()), "result of enrichContext is not assigned back to ctx")
		}
		if n < 3 {
			c.Undecided("count", "at least 3 non-coalesced send paths enrich their context", "-", "found fewer")
		}
	})

	c.Rule("server", func() {
		dl := c.Func("actor", "actorSystem.deliverRemoteTellMessage")
		f := c.NewFlow(dl)
		info := f.Info
		mm := c.FuncObj("actor", "actorSystem.messageMetadata")
		msgParam := info.Defs[dl.Decl.Type.Params.List[1].Names[0]]
		ctxParam := info.Defs[dl.Decl.Type.Params.List[0].Names[0]]
		var msgCtx types.Object
		okArgs := false
		ast.Inspect(dl.Decl.Body, func(n ast.Node) bool {
			if as, ok := n.(*ast.AssignStmt); ok && len(as.Rhs) == 1 && len(as.Lhs) == 2 {
				if call, ok := as.Rhs[0].(*ast.CallExpr); ok && callee(info, call) == mm {
					msgCtx = info.ObjectOf(as.Lhs[0].(*ast.Ident))
					if objOf(info, call.Args[0]) == ctxParam {
						if gm, ok := call.Args[1].(*ast.CallExpr); ok {
							if cal := callee(info, gm); cal != nil && cal.Name() == "GetMetadata" && objOf(info, recvExpr(gm)) == msgParam {
								okArgs = true
							}
						}
					}
				}
			}
			return true
		})
		c.Check(okArgs && msgCtx != nil, "ctx-from-this-message", "the delivery context is built from the metadata of the message being delivered, with the request context as parent", c.P.Pos(dl.Decl.Pos()), "")
		hrt := c.FuncObj("actor", "actorSystem.handleRemoteTell")
		okUse := false
		for _, a := range f.Find(f.CallTo(hrt)) {
			if objOf(info, a.N.(*ast.CallExpr).Args[0]) == msgCtx {
				okUse = true
			}
		}
		c.Check(okUse, "delivery-uses-message-ctx", "the message is dispatched under its own restored context", c.P.Pos(dl.Decl.Pos()), "handleRemoteTell is not given the per-message context")
		w := f.MustPrecede(f.CallTo(mm), nil, f.CallTo(hrt))
		c.Check(w == nil, "restore≺dispatch", "metadata is restored before the message is dispatched", c.P.Pos(dl.Decl.Pos()), f.describe(w))
		// messageMetadata copies every entry
		mf := c.Func("actor", "actorSystem.messageMetadata")
		minfo := mf.Info()
		copies, extracts := false, false
		ast.Inspect(mf.Decl.Body, func(n ast.Node) bool {
			if r, ok := n.(*ast.RangeStmt); ok {
				if o := objOf(minfo, r.X); o != nil && isMapParam(mf.Obj, o) {
					ast.Inspect(r.Body, func(m ast.Node) bool {
						if call, ok := m.(*ast.CallExpr); ok {
							if cal := callee(minfo, call); cal != nil && cal.Name() == "Set" && len(call.Args) == 2 {
								if objOf(minfo, call.Args[0]) == minfo.ObjectOf(r.Key.(*ast.Ident)) && objOf(minfo, call.Args[1]) == minfo.ObjectOf(r.Value.(*ast.Ident)) {
									copies = true
								}
							}
						}
						return true
					})
				}
			}
			if call, ok := n.(*ast.CallExpr); ok {
				if cal := callee(minfo, call); cal != nil && cal.Name() == "Extract" {
					extracts = true
				}
			}
			return true
		})
		c.Check(copies && extracts, "restore-copies-every-entry", "every metadata entry is handed to the propagator's Extract under its own key", c.P.Pos(mf.Decl.Pos()), "")
	})
}

// isMapParam: o is a map-typed parameter of fn.
func isMapParam(fn *types.Func, o types.Object) bool {
	ps := fn.Type().(*types.Signature).Params()
	for i := 0; i < ps.Len(); i++ {
		if _, isMap := ps.At(i).Type().Underlying().(*types.Map); isMap && o == types.Object(ps.At(i)) {
			return true
		}
	}
	return false
}
