package main

import (
	"strings"
	"go/ast"
	"go/token"
	"go/types"
)

func init() {
	register(&propDef{
		id: "C46", title: "Stream junctions preserve elements and per-branch order",
		technique: "per-message-case CFG rules (every path through an element-handling case forwards or buffers the element; forwarding sites carry the received value to the intended branch), guard dominance with edge facts, FIFO-shape rule on the junction queue",
		explanation: "Decides element conservation and routing shape of the junction actors: for the hubs of Broadcast, Balance and Partition and the fan-in actors of Merge, weighted Merge, Concat and ZipN: (1) in the case that handles an incoming element every path either forwards the received value (streamElement with value = the received value) or buffers it; Partition may drop only on its documented out-of-range / cancelled-branch edge; (2) Broadcast forwards inside a loop over all slots in which only cancelled (nil) slots are skipped; Balance forwards at most once per element, to a slot chosen under demand > 0 and not cancelled; Partition forwards to the slot its function returned for that value, with that slot's subscription id; (3) fan-in actors emit only values popped from their buffers, under demand > 0, decrementing demand; they complete only on the edge 'all inputs done and buffers empty'; Concat starts the next input only from the done notification of the current one, in index order; ZipN pops exactly one value per slot in slot order into the same tuple position and emits only when every slot has a value; (4) hubs pull from upstream only when nothing is in flight and never more than the demand they can serve (total demand for Balance, minimum demand for Broadcast/Partition); (5) the junction queue is FIFO (push appends at the tail, pop takes from the head). Ordering across actors relies on per-sender FIFO mailboxes (C04) and is not re-derived; fairness of Balance is not decided. Added after seed C46a: every tuple Zip emits is a slice of its own: the argument of combineFn is a local defined once, by make, inside the emission loop (the documented 'fresh slice on every call'). Added after seed C46b: no queue-typed buffer field of a stream stage is re-assigned outside a constructor or the stageWire (wiring) case.",
		assumptions: []string{"per-sender FIFO delivery between stage actors (C04)", "actor turn atomicity"},
		minObl:     52,
		run:        runC46,
	})
}

// caseFlow builds a flow over the body of the type-switch case for the named message type in fn.
func (c *Ctx) caseFlow(fn *Fn, typeName string) (*Flow, *ast.CaseClause) {
	info := fn.Info()
	var clause *ast.CaseClause
	ast.Inspect(fn.Decl.Body, func(n ast.Node) bool {
		ts, ok := n.(*ast.TypeSwitchStmt)
		if !ok {
			return true
		}
		for _, st := range ts.Body.List {
			cc := st.(*ast.CaseClause)
			for _, e := range cc.List {
				if named := namedOf(info.TypeOf(e)); named != nil && named.Obj().Name() == typeName {
					clause = cc
				}
			}
		}
		return true
	})
	if clause == nil {
		return nil, nil
	}
	return c.newFlow(fn.String()+"/case "+typeName, info, &ast.BlockStmt{List: clause.Body, Lbrace: clause.Colon, Rbrace: clause.End()}), clause
}

type elemTell struct {
	call              *ast.CallExpr
	target            ast.Expr
	value, subID, seq ast.Expr
}

// asElemTell recognises rctx.Tell(target, &streamElement{...}).
func asElemTell(info *types.Info, n ast.Node, litType string) (elemTell, bool) {
	call, ok := n.(*ast.CallExpr)
	if !ok || len(call.Args) != 2 {
		return elemTell{}, false
	}
	sel, ok := call.Fun.(*ast.SelectorExpr)
	if !ok || sel.Sel.Name != "Tell" {
		return elemTell{}, false
	}
	un, ok := ast.Unparen(call.Args[1]).(*ast.UnaryExpr)
	if !ok || un.Op != token.AND {
		return elemTell{}, false
	}
	lit, ok := un.X.(*ast.CompositeLit)
	if !ok {
		return elemTell{}, false
	}
	named := namedOf(info.TypeOf(lit))
	if named == nil || named.Obj().Name() != litType {
		return elemTell{}, false
	}
	et := elemTell{call: call, target: call.Args[0]}
	for _, el := range lit.Elts {
		if kv, ok := el.(*ast.KeyValueExpr); ok {
			switch kv.Key.(*ast.Ident).Name {
			case "value":
				et.value = kv.Value
			case "subID":
				et.subID = kv.Value
			case "seqNo":
				et.seq = kv.Value
			}
		}
	}
	return et, true
}

func runC46(c *Ctx) {
	isElemTell := func(info *types.Info) Match {
		return func(n ast.Node) bool { _, ok := asElemTell(info, n, "streamElement"); return ok }
	}
	isTellOf := func(info *types.Info, typ string) Match {
		return func(n ast.Node) bool { _, ok := asElemTell(info, n, typ); return ok }
	}
	shape := func(info *types.Info, e ast.Expr) string {
		if e == nil {
			return "<none>"
		}
		return exprShape(info, e)
	}
	isPush := func(info *types.Info) Match {
		return func(n ast.Node) bool {
			call, ok := n.(*ast.CallExpr)
			return ok && isCallNamed(info, call, "push") && len(call.Args) == 1 && exprShape(info, call.Args[0]) == ".value"
		}
	}
	fieldOf := func(typ, f string) *types.Var { return c.Field("stream", typ, f) }

	// ---- fan-out hubs ----
	c.Rule("balance", func() {
		fn := c.Func("stream", "balanceHubActor.Receive")
		f, clause := c.caseFlow(fn, "streamElement")
		if f == nil {
			c.Undecided("case", "element case found", c.P.Pos(fn.Decl.Pos()), "no streamElement case")
			return
		}
		where := c.P.Pos(clause.Pos())
		hubBuf := c.tryField("stream", "balanceHubActor", "buf")
		isHubPop := func(info *types.Info, e ast.Expr) bool {
			call, ok := ast.Unparen(e).(*ast.CallExpr)
			return ok && isCallNamed(info, call, "pop") && hubBuf != nil && isFieldSel(info, recvExpr(call), hubBuf)
		}
		w := f.search(searchSpec{avoid: Or(isElemTell(f.Info), isPush(f.Info)), exits: true})
		c.Check(w == nil, "element⇒forwarded-or-buffered", "every element the Balance hub receives is given to a branch (or kept until one has demand)", where,
			"an element is dropped when no active branch has outstanding demand (a branch that cancelled had contributed to the pulled batch): "+f.describe(w))

		// forwarding sites: in the element case itself and in the hub's helper methods
		type site struct {
			f    *Flow
			name string
		}
		sites := []site{{f, "case streamElement"}}
		for _, m := range c.methodsOf(c.Named("stream", "balanceHubActor")) {
			if m.Obj.Name() != "Receive" {
				sites = append(sites, site{c.NewFlow(m), m.Obj.Name()})
			}
		}
		nSites := 0
		var popSite *Fn
		for _, st := range sites {
			sf := st.f
			info := sf.Info
			tells := sf.FindOnce(isElemTell(info))
			if len(tells) == 0 {
				continue
			}
			nSites += len(tells)
			key := "forward@" + st.name
			for _, a := range tells {
				et, _ := asElemTell(info, a.N, "streamElement")
				direct := shape(info, et.value) == ".value"
				popped := isHubPop(info, et.value)
				c.Check(direct || popped, key+"/value-preserved", "the forwarded element carries the received value (directly or from the hub's FIFO buffer)", c.P.Pos(et.call.Pos()), "value is "+shape(info, et.value))
				if direct {
					w := sf.search(searchSpec{starts: sf.Find(isElemTell(info)), target: isElemTell(info)})
					c.Check(w == nil, key+"/at-most-once", "an element is given to at most one branch", c.P.Pos(et.call.Pos()), sf.describe(w))
				} else {
					c.Ok(key+"/at-most-once", "an element is given to at most one branch (each forward takes a distinct element off the buffer)", c.P.Pos(et.call.Pos()))
					for _, m := range c.methodsOf(c.Named("stream", "balanceHubActor")) {
						if m.Obj.Name() == st.name {
							popSite = m
						}
					}
				}
				ti, ok1 := et.target.(*ast.IndexExpr)
				si, ok2 := et.subID.(*ast.IndexExpr)
				okIdx := ok1 && ok2 && isFieldSel(info, ti.X, fieldOf("balanceHubActor", "slots")) && isFieldSel(info, si.X, fieldOf("balanceHubActor", "slotSubIDs")) && types.ExprString(ti.Index) == types.ExprString(si.Index)
				c.Check(okIdx, key+"/target=chosen-slot", "the element goes to the chosen slot under that slot's subscription id", c.P.Pos(et.call.Pos()), "target "+types.ExprString(et.target)+", subID "+shape(info, et.subID))
				if !ok1 {
					continue
				}
				chosen, _ := ti.Index.(*ast.Ident)
				if chosen == nil {
					c.Undecided(key+"/chosen", "the slot index is a variable", c.P.Pos(et.call.Pos()), "index expression "+types.ExprString(ti.Index))
					continue
				}
				obj := info.ObjectOf(chosen)
				assign := func(n ast.Node) bool {
					as, ok := n.(*ast.AssignStmt)
					if !ok || as.Tok != token.ASSIGN || len(as.Lhs) != 1 {
						return false
					}
					id, ok := as.Lhs[0].(*ast.Ident)
					return ok && info.ObjectOf(id) == obj
				}
				hasDemand := sf.FactEdges(func(cm cmp) bool {
					ix, ok := ast.Unparen(cm.L).(*ast.IndexExpr)
					v, isC := constInt(info, cm.R)
					return ok && cm.Op == token.GTR && isC && v == 0 && isFieldSel(info, ix.X, fieldOf("balanceHubActor", "demand"))
				})
				active := sf.NilCheckEdges(func(e ast.Expr) bool {
					ix, ok := e.(*ast.IndexExpr)
					return ok && isFieldSel(info, ix.X, fieldOf("balanceHubActor", "slots"))
				}, true)
				c.guardedBy(sf, hasDemand, assign, key+"/chosen⇒demand", "a branch is chosen only when it has outstanding demand", c.P.Pos(et.call.Pos()))
				c.guardedBy(sf, active, assign, key+"/chosen⇒active", "a branch is chosen only when it has not cancelled", c.P.Pos(et.call.Pos()))
				nonNeg := sf.FactEdges(func(cm cmp) bool {
					id, ok := ast.Unparen(cm.L).(*ast.Ident)
					v, isC := constInt(info, cm.R)
					return ok && info.ObjectOf(id) == obj && cm.Op == token.GEQ && isC && v == 0
				})
				c.guardedBy(sf, nonNeg, isElemTell(info), key+"/forward⇒chosen", "forwarding happens only when a branch was chosen", c.P.Pos(et.call.Pos()))
			}
			dec := func(n ast.Node) bool {
				s, ok := n.(*ast.IncDecStmt)
				if !ok || s.Tok != token.DEC {
					return false
				}
				ix, ok := s.X.(*ast.IndexExpr)
				return ok && isFieldSel(info, ix.X, fieldOf("balanceHubActor", "demand"))
			}
			w := sf.search(searchSpec{starts: sf.Find(isElemTell(info)), avoid: dec, exits: true})
			w2 := sf.search(searchSpec{starts: sf.Find(isElemTell(info)), avoid: dec, target: isElemTell(info)})
			c.Check(w == nil && w2 == nil, key+"/forward⇒demand--", "forwarding consumes one unit of the branch's demand", where, sf.describe(w)+sf.describe(w2))
		}
		c.Check(nSites == 1, "one-forward-site", "the hub has one forwarding site for elements", where, itoa(nSites)+" sites")
		if popSite != nil {
			// buffered elements are delivered when demand arrives, and completion waits for the buffer
			for _, cs := range []string{"streamElement", "slotDemand"} {
				cf, ccl := c.caseFlow(fn, cs)
				if cf == nil {
					c.Undecided("buffer/"+cs, "case found", where, "no case "+cs)
					continue
				}
				w := cf.search(searchSpec{avoid: cf.CallTo(popSite.Obj), exits: true})
				c.Check(w == nil, "buffer/dispatch-on-"+cs, "buffered elements are handed out whenever an element or new demand arrives", c.P.Pos(ccl.Pos()), cf.describe(w))
			}
			compl := func(info *types.Info) Match { return isTellOf(info, "streamComplete") }
			cf, ccl := c.caseFlow(fn, "streamComplete")
			if cf != nil {
				info := cf.Info
				drained := cf.BoolEdges(func(e ast.Expr) bool {
					call, ok := e.(*ast.CallExpr)
					return ok && isCallNamed(info, call, "empty") && isFieldSel(info, recvExpr(call), hubBuf)
				}, true)
				var completers []*types.Func
				for _, m := range c.methodsOf(c.Named("stream", "balanceHubActor")) {
					if m.Obj.Name() != "Receive" && len(c.NewFlow(m).Find(compl(m.Info()))) > 0 {
						completers = append(completers, m.Obj)
					}
				}
				target := Or(compl(info), cf.CallTo(completers...))
				c.guardedBy(cf, drained, target, "buffer/complete⇒drained", "upstream completion is passed on only when no element is still buffered", c.P.Pos(ccl.Pos()))
			}
		}
	})

	c.Rule("broadcast", func() {
		fn := c.Func("stream", "broadcastHubActor.Receive")
		_, clause := c.caseFlow(fn, "streamElement")
		if clause == nil {
			c.Undecided("case", "element case found", c.P.Pos(fn.Decl.Pos()), "no streamElement case")
			return
		}
		info := fn.Info()
		where := c.P.Pos(clause.Pos())
		var rng *ast.RangeStmt
		for _, st := range clause.Body {
			if r, ok := st.(*ast.RangeStmt); ok && isFieldSel(info, r.X, fieldOf("broadcastHubActor", "slots")) {
				rng = r
			}
		}
		if !c.Check(rng != nil, "loop-over-all-slots", "the hub visits every slot for each element", where, "no range over a.slots in the element case") {
			return
		}
		// no forwarding outside the loop
		n := 0
		ast.Inspect(&ast.BlockStmt{List: clause.Body}, func(x ast.Node) bool {
			if _, ok := asElemTell(info, x, "streamElement"); ok {
				n++
			}
			return true
		})
		bf := c.newFlow(fn.String()+"/broadcast loop body", info, rng.Body)
		tells := bf.FindOnce(isElemTell(info))
		c.Check(len(tells) == 1 && n == 1, "one-forward-site", "the only forwarding site is inside the loop over all slots", where, "")
		slotVar, _ := rng.Value.(*ast.Ident)
		keyVar, _ := rng.Key.(*ast.Ident)
		skip := bf.NilCheckEdges(func(e ast.Expr) bool {
			id, ok := e.(*ast.Ident)
			return ok && slotVar != nil && info.ObjectOf(id) == info.ObjectOf(slotVar)
		}, false)
		w := bf.search(searchSpec{avoid: isElemTell(info), avoidEdges: skip, exits: true})
		c.Check(w == nil && len(skip) > 0, "every-active-slot", "every slot that has not cancelled receives the element", where, "a slot is skipped for another reason than having cancelled: "+bf.describe(w))
		for _, a := range tells {
			et, _ := asElemTell(info, a.N, "streamElement")
			c.Check(shape(info, et.value) == ".value", "value-preserved", "each branch receives the received value", c.P.Pos(et.call.Pos()), "value is "+shape(info, et.value))
			tid, ok1 := ast.Unparen(et.target).(*ast.Ident)
			si, ok2 := et.subID.(*ast.IndexExpr)
			okT := ok1 && slotVar != nil && info.ObjectOf(tid) == info.ObjectOf(slotVar)
			okS := false
			if ok2 && keyVar != nil {
				if id, ok := si.Index.(*ast.Ident); ok {
					okS = info.ObjectOf(id) == info.ObjectOf(keyVar) && isFieldSel(info, si.X, fieldOf("broadcastHubActor", "slotSubIDs"))
				}
			}
			c.Check(okT && okS, "target=loop-slot", "the element goes to the visited slot under that slot's subscription id", c.P.Pos(et.call.Pos()), "target "+types.ExprString(et.target)+", subID "+shape(info, et.subID))
		}
	})

	c.Rule("partition", func() {
		fn := c.Func("stream", "partitionHubActor.Receive")
		f, clause := c.caseFlow(fn, "streamElement")
		if f == nil {
			c.Undecided("case", "element case found", c.P.Pos(fn.Decl.Pos()), "no streamElement case")
			return
		}
		info := f.Info
		where := c.P.Pos(clause.Pos())
		// slot := a.partitionFn(msg.value)
		var slotObj types.Object
		ast.Inspect(&ast.BlockStmt{List: clause.Body}, func(n ast.Node) bool {
			if as, ok := n.(*ast.AssignStmt); ok && as.Tok == token.DEFINE && len(as.Rhs) == 1 {
				if call, ok := as.Rhs[0].(*ast.CallExpr); ok && isFieldSel(info, call.Fun, fieldOf("partitionHubActor", "partitionFn")) && len(call.Args) == 1 && exprShape(info, call.Args[0]) == ".value" {
					slotObj = info.Defs[as.Lhs[0].(*ast.Ident)]
				}
			}
			return true
		})
		if !c.Check(slotObj != nil, "slot=partitionFn(value)", "the branch is the one the partition function selects for the received value", where, "no slot := a.partitionFn(msg.value)") {
			return
		}
		isSlot := func(e ast.Expr) bool { id, ok := ast.Unparen(e).(*ast.Ident); return ok && info.ObjectOf(id) == slotObj }
		tells := f.FindOnce(isElemTell(info))
		c.Check(len(tells) == 1, "one-forward-site", "one forwarding site", where, "")
		for _, a := range tells {
			et, _ := asElemTell(info, a.N, "streamElement")
			ti, ok1 := et.target.(*ast.IndexExpr)
			si, ok2 := et.subID.(*ast.IndexExpr)
			c.Check(ok1 && ok2 && isSlot(ti.Index) && isSlot(si.Index) && isFieldSel(info, ti.X, fieldOf("partitionHubActor", "slots")) && isFieldSel(info, si.X, fieldOf("partitionHubActor", "slotSubIDs")),
				"target=selected-slot", "the element goes to the selected slot under that slot's subscription id", c.P.Pos(et.call.Pos()), "target "+types.ExprString(et.target))
			c.Check(shape(info, et.value) == ".value", "value-preserved", "the forwarded element carries the received value", c.P.Pos(et.call.Pos()), "value is "+shape(info, et.value))
		}
		// dropping only on the documented edges: slot out of range or branch cancelled
		documented := func(cm cmp) bool {
			if isSlot(cm.L) {
				if v, isC := constInt(info, cm.R); isC && v == 0 && cm.Op == token.LSS {
					return true
				}
				if cm.Op == token.GEQ && isFieldSel(info, cm.R, fieldOf("partitionHubActor", "n")) {
					return true
				}
			}
			if ix, ok := ast.Unparen(cm.L).(*ast.IndexExpr); ok && cm.Op == token.EQL && isNilIdent(info, cm.R) {
				return isSlot(ix.Index) && isFieldSel(info, ix.X, fieldOf("partitionHubActor", "slots"))
			}
			return false
		}
		drop := f.FactEdges(documented)
		for e := range f.AllFalseEdges(documented) {
			drop[e] = true
		}
		w := f.search(searchSpec{avoid: isElemTell(info), avoidEdges: drop, exits: true})
		c.Check(w == nil && len(drop) >= 1, "drop-only-documented", "an element is dropped only when its selected branch is out of range or has cancelled (documented)", where, f.describe(w))
		w = f.search(searchSpec{starts: f.Find(isElemTell(info)), target: isElemTell(info)})
		c.Check(w == nil, "at-most-once", "an element is given to at most one branch", where, f.describe(w))
	})

	c.Rule("pull", func() {
		for _, spec := range []struct{ typ, via string }{{"balanceHubActor", "totalDemand"}, {"broadcastHubActor", "minDemand"}, {"partitionHubActor", "minDemand"}} {
			fn := c.Func("stream", spec.typ+".maybePull")
			f := c.NewFlow(fn)
			info := f.Info
			req := isTellOf(info, "streamRequest")
			idle := f.FactEdges(func(cm cmp) bool {
				v, isC := constInt(info, cm.R)
				return cm.Op == token.LEQ && isC && v == 0 && isFieldSel(info, cm.L, fieldOf(spec.typ, "pending"))
			})
			c.guardedBy(f, idle, req, spec.typ+"/pull-only-when-idle", "the hub pulls from upstream only when no requested element is still in flight", c.P.Pos(fn.Decl.Pos()))
			// n is the value computed from the demand table
			okN := false
			var nObj types.Object
			ast.Inspect(fn.Decl.Body, func(n ast.Node) bool {
				if as, ok := n.(*ast.AssignStmt); ok && as.Tok == token.DEFINE && len(as.Rhs) == 1 {
					rhs := ast.Unparen(as.Rhs[0])
					if be, ok := rhs.(*ast.BinaryExpr); ok && be.Op == token.SUB {
						rhs = ast.Unparen(be.X) // demand minus what is already buffered: still never more than the demand
					}
					if isCallNamed(info, rhs, spec.via) {
						nObj = info.Defs[as.Lhs[0].(*ast.Ident)]
					}
				}
				if call, ok := n.(*ast.CallExpr); ok && req(call) {
					lit := call.Args[1].(*ast.UnaryExpr).X.(*ast.CompositeLit)
					for _, el := range lit.Elts {
						kv := el.(*ast.KeyValueExpr)
						if kv.Key.(*ast.Ident).Name == "n" {
							if id, ok := kv.Value.(*ast.Ident); ok && nObj != nil && info.Uses[id] == nObj {
								okN = true
							}
						}
					}
				}
				return true
			})
			c.Check(okN, spec.typ+"/pull="+spec.via, "the hub requests exactly "+spec.via+"() elements, never more than its branches can take", c.P.Pos(fn.Decl.Pos()), "streamRequest.n is not the "+spec.via+"() result")
			// pending records the request
			w := f.MustFollow(f.Find(req), assignTo(info, fieldOf(spec.typ, "pending")), nil)
			c.Check(w == nil, spec.typ+"/pull⇒pending", "a request is recorded as in flight", c.P.Pos(fn.Decl.Pos()), f.describe(w))
		}
	})

	// ---- fan-in actors ----
	fanIn := func(typ, bufField string, perSlot bool) {
		fn := c.Func("stream", typ+".Receive")
		f, clause := c.caseFlow(fn, "mergeSubValue")
		if f == nil {
			c.Undecided(typ+"/case", "value case found", c.P.Pos(fn.Decl.Pos()), "no mergeSubValue case")
			return
		}
		info := f.Info
		where := c.P.Pos(clause.Pos())
		push := func(n ast.Node) bool {
			call, ok := n.(*ast.CallExpr)
			if !ok || !isPush(info)(call) {
				return false
			}
			recv := recvExpr(call)
			if perSlot {
				ix, ok := ast.Unparen(recv).(*ast.IndexExpr)
				return ok && isFieldSel(info, ix.X, fieldOf(typ, bufField)) && exprShape(info, ix.Index) == ".slot"
			}
			return isFieldSel(info, recv, fieldOf(typ, bufField))
		}
		w := f.search(searchSpec{avoid: push, exits: true})
		c.Check(w == nil, typ+"/value⇒buffered", "every value a sub-source delivers is buffered (in its own slot's buffer where there is one)", where, f.describe(w))
		flush := c.FuncObj("stream", typ+"."+map[bool]string{true: "tryEmit", false: "tryFlush"}[typ == "zipNSourceActor"])
		w = f.MustFollow(f.Find(push), f.CallTo(flush), nil)
		c.Check(w == nil, typ+"/buffered⇒flush", "buffering is followed by an emission attempt", where, f.describe(w))

		// emission: only popped values, under demand
		ef := c.NewFlow(c.fnOfObj(flush))
		einfo := ef.Info
		ewhere := c.P.Pos(c.fnOfObj(flush).Decl.Pos())
		hasDemand := ef.FactEdges(func(cm cmp) bool {
			v, isC := constInt(einfo, cm.R)
			return cm.Op == token.GTR && isC && v == 0 && isFieldSel(einfo, cm.L, fieldOf(typ, "demand"))
		})
		c.guardedBy(ef, hasDemand, isElemTell(einfo), typ+"/emit⇒demand", "an element is emitted only under outstanding downstream demand", ewhere)
		dec := func(n ast.Node) bool {
			s, ok := n.(*ast.IncDecStmt)
			return ok && s.Tok == token.DEC && isFieldSel(einfo, s.X, fieldOf(typ, "demand"))
		}
		w = ef.MustFollow(ef.Find(isElemTell(einfo)), dec, nil)
		c.Check(w == nil, typ+"/emit⇒demand--", "each emission consumes one unit of demand", ewhere, ef.describe(w))
		if typ != "zipNSourceActor" {
			for _, a := range ef.FindOnce(isElemTell(einfo)) {
				et, _ := asElemTell(einfo, a.N, "streamElement")
				c.Check(isCallNamed(einfo, et.value, "pop") && shape(einfo, et.target) == ".downstream", typ+"/emit=pop", "the emitted value is the one taken from the head of the buffer and goes downstream", c.P.Pos(et.call.Pos()), "value "+shape(einfo, et.value)+", target "+shape(einfo, et.target))
			}
		}
		// pops happen nowhere else
		pops := 0
		for _, u := range c.UsesOf(c.FuncObj("stream", "queue.pop")) {
			if u.EnclObj != nil && u.EnclObj.Origin() == flush.Origin() {
				pops++
			}
		}
		c.Check(pops >= 1, typ+"/pop-site", "the buffer is drained by the emission routine", ewhere, "no pop in "+funcName(flush))
	}
	c.Rule("merge", func() {
		fanIn("mergeSourceActor", "buf", false)
		fn := c.Func("stream", "mergeSourceActor.tryFlush")
		f := c.NewFlow(fn)
		info := f.Info
		allDone := f.FactEdges(func(cm cmp) bool { return cm.Op == token.GEQ && isFieldSel(info, cm.L, fieldOf("mergeSourceActor", "doneCount")) && exprShape(info, cm.R) == "len(.subStages)" })
		empty := f.BoolEdges(func(e ast.Expr) bool { return isCallNamed(info, e, "empty") }, true)
		comp := isTellOf(info, "streamComplete")
		c.guardedBy(f, allDone, comp, "mergeSourceActor/complete⇒all-done", "Merge completes only when every source is done", c.P.Pos(fn.Decl.Pos()))
		c.guardedBy(f, empty, comp, "mergeSourceActor/complete⇒drained", "Merge completes only when its buffer is drained", c.P.Pos(fn.Decl.Pos()))
		c.checkWrites("merge", fieldOf("mergeSourceActor", "doneCount"), map[string][]string{"stream.(*mergeSourceActor).Receive": {"++"}}, "one done notification counts once")
	})
	c.Rule("weighted-merge", func() {
		fanIn("weightedMergeSourceActor", "bufs", true)
		fn := c.Func("stream", "weightedMergeSourceActor.tryFlush")
		f := c.NewFlow(fn)
		info := f.Info
		done := f.BoolEdges(func(e ast.Expr) bool { return isCallNamed(info, e, "allDoneAndEmpty") }, true)
		c.guardedBy(f, done, isTellOf(info, "streamComplete"), "weightedMergeSourceActor/complete⇒all-done-and-drained", "weighted Merge completes only when every source is done and every buffer drained", c.P.Pos(fn.Decl.Pos()))
	})
	c.Rule("concat", func() {
		fanIn("concatSourceActor", "buf", false)
		fn := c.Func("stream", "concatSourceActor.tryFlush")
		f := c.NewFlow(fn)
		info := f.Info
		done := f.BoolEdges(func(e ast.Expr) bool { return isFieldSel(info, e, fieldOf("concatSourceActor", "done")) }, true)
		empty := f.BoolEdges(func(e ast.Expr) bool { return isCallNamed(info, e, "empty") }, true)
		comp := isTellOf(info, "streamComplete")
		c.guardedBy(f, done, comp, "complete⇒last-done", "Concat completes only after its last source is done", c.P.Pos(fn.Decl.Pos()))
		c.guardedBy(f, empty, comp, "complete⇒drained", "Concat completes only when its buffer is drained", c.P.Pos(fn.Decl.Pos()))
		// sources are started one at a time, in order, from the done notification of the current one
		spawn := c.FuncObj("stream", "concatSourceActor.spawnNext")
		rc := c.Func("stream", "concatSourceActor.Receive")
		c.WhoMayCall("who", spawn, map[string]string{"stream.(*concatSourceActor).Receive": "first source on wiring, next source on done"})
		for _, cs := range []string{"streamRequest", "mergeSubValue", "streamCancel"} {
			cf, _ := c.caseFlow(rc, cs)
			c.Check(cf != nil && len(cf.Find(cf.CallTo(spawn))) == 0, "no-spawn-in/"+cs, "a further source is started only from the done notification of the current one", c.P.Pos(rc.Decl.Pos()), "spawnNext is called while handling "+cs)
		}
		df, dclause := c.caseFlow(rc, "mergeSubDone")
		if df != nil {
			dinfo := df.Info
			more := df.FactEdges(func(cm cmp) bool { return cm.Op == token.LSS && exprShape(dinfo, cm.L) == ".current+1" && exprShape(dinfo, cm.R) == "len(.subStages)" })
			c.guardedBy(df, more, df.CallTo(spawn), "next⇒has-more", "the next source is started only when one remains", c.P.Pos(dclause.Pos()))
			last := df.FactEdges(func(cm cmp) bool { return cm.Op == token.GEQ && exprShape(dinfo, cm.L) == ".current+1" && exprShape(dinfo, cm.R) == "len(.subStages)" })
			c.guardedBy(df, last, assignTo(dinfo, fieldOf("concatSourceActor", "done")), "done⇒was-last", "Concat is marked done only by the last source's done notification", c.P.Pos(dclause.Pos()))
		}
		c.checkWrites("concat", fieldOf("concatSourceActor", "current"), map[string][]string{"stream.newConcatSourceActor": {"const:-1"}, "stream.(*concatSourceActor).spawnNext": {"++"}}, "sources are consumed in index order")
		sn := c.Func("stream", "concatSourceActor.spawnNext")
		okIdx := false
		ast.Inspect(sn.Decl.Body, func(n ast.Node) bool {
			if ix, ok := n.(*ast.IndexExpr); ok && isFieldSel(sn.Info(), ix.X, fieldOf("concatSourceActor", "subStages")) && isFieldSel(sn.Info(), ix.Index, fieldOf("concatSourceActor", "current")) {
				okIdx = true
			}
			return true
		})
		c.Check(okIdx, "spawn=subStages[current]", "the started source is the one at the current index", c.P.Pos(sn.Decl.Pos()), "")
	})
	c.Rule("zip", func() {
		fanIn("zipNSourceActor", "bufs", true)
		fn := c.Func("stream", "zipNSourceActor.tryEmit")
		f := c.NewFlow(fn)
		info := f.Info
		ready := f.BoolEdges(func(e ast.Expr) bool { return isCallNamed(info, e, "allReady") }, true)
		c.guardedBy(f, ready, isElemTell(info), "emit⇒all-ready", "a tuple is emitted only when every input has a value", c.P.Pos(fn.Decl.Pos()))
		// tuple position i is filled from buffer i, exactly one pop per slot
		okPos := false
		ast.Inspect(fn.Decl.Body, func(n ast.Node) bool {
			rng, ok := n.(*ast.RangeStmt)
			if !ok || !isFieldSel(info, rng.X, fieldOf("zipNSourceActor", "bufs")) {
				return true
			}
			key, _ := rng.Key.(*ast.Ident)
			if key == nil {
				return true
			}
			kobj := info.ObjectOf(key)
			popOK, storeOK, pops := false, false, 0
			var vObj types.Object
			ast.Inspect(rng.Body, func(m ast.Node) bool {
				switch x := m.(type) {
				case *ast.CallExpr:
					if isCallNamed(info, x, "pop") {
						pops++
						if ix, ok := ast.Unparen(recvExpr(x)).(*ast.IndexExpr); ok {
							if id, ok := ix.Index.(*ast.Ident); ok && info.ObjectOf(id) == kobj {
								popOK = true
							}
						}
					}
				case *ast.AssignStmt:
					if len(x.Lhs) == 2 && x.Tok == token.DEFINE {
						if ta, ok := x.Rhs[0].(*ast.TypeAssertExpr); ok && isCallNamed(info, ta.X, "pop") {
							vObj = info.Defs[x.Lhs[0].(*ast.Ident)]
						}
					}
					if len(x.Lhs) == 1 {
						if ix, ok := x.Lhs[0].(*ast.IndexExpr); ok {
							if id, ok := ix.Index.(*ast.Ident); ok && info.ObjectOf(id) == kobj {
								if rv, ok := x.Rhs[0].(*ast.Ident); ok && vObj != nil && info.ObjectOf(rv) == vObj {
									storeOK = true
								}
							}
						}
					}
				}
				return true
			})
			if popOK && storeOK && pops == 1 {
				okPos = true
			}
			return true
		})
		c.Check(okPos, "tuple[i]=pop(bufs[i])", "position i of the emitted tuple is the head of input i's buffer (positional pairing), one value per input", c.P.Pos(fn.Decl.Pos()), "tuple construction does not pop bufs[i] into tup[i] exactly once")
		// each emitted tuple is a slice of its own ("combine receives a fresh slice of length N on every call"): the
		// argument of combineFn is a local defined exactly once, by an allocation, inside the emission loop
		nComb := 0
		var stack []ast.Node
		ast.Inspect(fn.Decl.Body, func(n ast.Node) bool {
			if n == nil {
				stack = stack[:len(stack)-1]
				return true
			}
			stack = append(stack, n)
			call, ok := n.(*ast.CallExpr)
			if !ok || !isFieldSel(info, call.Fun, fieldOf("zipNSourceActor", "combineFn")) || len(call.Args) != 1 {
				return true
			}
			nComb++
			var loop ast.Stmt
			for _, s := range stack {
				switch s.(type) {
				case *ast.ForStmt, *ast.RangeStmt:
					loop = s.(ast.Stmt)
				}
			}
			fresh, why := false, "the argument of combineFn is not a local variable"
			if id, ok := ast.Unparen(call.Args[0]).(*ast.Ident); ok {
				obj := info.ObjectOf(id)
				def := singleLocalDefIn(info, fn.Decl.Body, obj)
				switch {
				case def == nil:
					why = "the tuple variable is assigned more than once (or not by a definition): emissions may share one backing array"
				case loop == nil || obj.Pos() < loop.Pos() || obj.Pos() >= loop.End():
					why = "the tuple is allocated outside the emission loop: every tuple of one flush shares its backing array"
				default:
					if mk, ok := ast.Unparen(def).(*ast.CallExpr); ok {
						if b, ok := mk.Fun.(*ast.Ident); ok && b.Name == "make" && info.Uses[b] == types.Universe.Lookup("make") {
							fresh = true
						}
					}
					why = "the tuple is not defined by make(...)"
				}
			}
			c.Check(fresh, "tuple-is-fresh", "every emitted tuple is a freshly allocated slice (one allocation per emission, inside the emission loop)", c.P.Pos(call.Pos()), why)
			return true
		})
		if nComb == 0 {
			c.Undecided("tuple-is-fresh", "every emitted tuple is a freshly allocated slice", c.P.Pos(fn.Decl.Pos()), "no combineFn call found in tryEmit")
		}
		ar := c.Func("stream", "zipNSourceActor.allReady")
		af := c.NewFlow(ar)
		emptyEdge := af.BoolEdges(func(e ast.Expr) bool { return isCallNamed(af.Info, e, "empty") }, true)
		retTrue := func(n ast.Node) bool {
			r, ok := n.(*ast.ReturnStmt)
			if !ok || len(r.Results) != 1 {
				return false
			}
			id, ok := r.Results[0].(*ast.Ident)
			return ok && id.Name == "true"
		}
		w := af.AfterEdgesMayReach(emptyEdge, nil, nil, retTrue)
		c.Check(w == nil && len(emptyEdge) > 0, "allReady⇒none-empty", "allReady reports true only if no input buffer is empty", c.P.Pos(ar.Decl.Pos()), af.describe(w))
	})
	c.Rule("buffers-never-replaced", func() {
		// a junction's element buffer holds elements that were received but not yet demanded downstream: it is only
		// pushed to and popped from; assigning a fresh queue to it (outside a constructor) silently drops them
		q := c.Named("stream", "queue")
		n := 0
		pk := c.pkg("stream")
		for _, name := range pk.Types.Scope().Names() {
			tn, ok := pk.Types.Scope().Lookup(name).(*types.TypeName)
			if !ok {
				continue
			}
			st, ok := tn.Type().Underlying().(*types.Struct)
			if !ok {
				continue
			}
			for i := 0; i < st.NumFields(); i++ {
				fv := st.Field(i)
				ft := fv.Type()
				if sl, ok := ft.Underlying().(*types.Slice); ok {
					ft = sl.Elem()
				}
				if nt := namedOf(ft); nt == nil || nt.Origin().Obj() != q.Origin().Obj() {
					continue
				}
				for _, u := range c.UsesOf(fv) {
					if !u.IsWrite || u.Sel == nil || u.EnclObj == nil {
						continue
					}
					// only whole-field assignments (x.buf = …), not x.bufs[i].push(…)
					if len(u.Path) >= 2 {
						if as, ok := u.Path[len(u.Path)-2].(*ast.AssignStmt); ok {
							isLhs := false
							for _, l := range as.Lhs {
								if l == u.Path[len(u.Path)-1] {
									isLhs = true
								}
							}
							if !isLhs {
								continue
							}
						} else {
							continue
						}
					}
					n++
					ctor := strings.HasPrefix(u.EnclObj.Name(), "new") || strings.HasPrefix(u.EnclObj.Name(), "New")
					// sizing the buffers while the stage is being wired (case *stageWire, before any sub-pipeline runs) is
					// construction too
					for _, pn := range u.Path {
						if cc, ok := pn.(*ast.CaseClause); ok {
							for _, e := range cc.List {
								if nt := namedOf(u.Pkg.TypesInfo.TypeOf(e)); nt != nil && nt.Obj().Name() == "stageWire" {
									ctor = true
								}
							}
						}
					}
					c.Check(ctor, "replace@"+u.EnclName()+"/"+tn.Name()+"."+fv.Name(), "a stage's element buffer is never replaced after construction (buffered, not yet demanded elements would be dropped)", u.Where(c.P), "the buffer is re-assigned in "+u.EnclName())
				}
			}
		}
		c.Ok("scanned", "every queue-typed field of the stream stages was examined", "-")
		_ = n
	})

	c.Rule("queue-fifo", func() {
		push, pop := c.Func("stream", "queue.push"), c.Func("stream", "queue.pop")
		data, head := c.Field("stream", "queue", "data"), c.Field("stream", "queue", "head")
		okPush := false
		ast.Inspect(push.Decl.Body, func(n ast.Node) bool {
			if as, ok := n.(*ast.AssignStmt); ok && len(as.Lhs) == 1 && selField(push.Info(), as.Lhs[0]) == data {
				okPush = rhsKind(push.Info(), as.Rhs[0], data) == "append(self)"
			}
			return true
		})
		c.Check(okPush, "push=append-at-tail", "push appends at the tail", c.P.Pos(push.Decl.Pos()), "")
		okPop := false
		ast.Inspect(pop.Decl.Body, func(n ast.Node) bool {
			if as, ok := n.(*ast.AssignStmt); ok && as.Tok == token.DEFINE && len(as.Rhs) == 1 {
				if ix, ok := as.Rhs[0].(*ast.IndexExpr); ok && isFieldSel(pop.Info(), ix.X, data) && isFieldSel(pop.Info(), ix.Index, head) {
					if r := lastReturn(pop.Decl); r != nil && len(r.Results) == 1 {
						if id, ok := r.Results[0].(*ast.Ident); ok && pop.Info().ObjectOf(id) == pop.Info().Defs[as.Lhs[0].(*ast.Ident)] {
							okPop = true
						}
					}
				}
			}
			return true
		})
		c.Check(okPop, "pop=take-from-head", "pop returns the element at the head index", c.P.Pos(pop.Decl.Pos()), "")
		pf := c.NewFlow(pop)
		inc := func(n ast.Node) bool {
			s, ok := n.(*ast.IncDecStmt)
			return ok && s.Tok == token.INC && isFieldSel(pf.Info, s.X, head)
		}
		w := pf.search(searchSpec{avoid: inc, exits: true})
		c.Check(w == nil, "pop⇒head++", "pop advances the head by one", c.P.Pos(pop.Decl.Pos()), pf.describe(w))
	})
}

func lastReturn(d *ast.FuncDecl) *ast.ReturnStmt {
	if n := len(d.Body.List); n > 0 {
		r, _ := d.Body.List[n-1].(*ast.ReturnStmt)
		return r
	}
	return nil
}
