package main

import (
	"strings"
	"go/ast"
	"go/token"
	"go/types"
)

func init() {
	register(&propDef{
		id: "C12", title: "Passivation only removes actors that are truly idle",
		technique: "guard-dominance over the CFG of tryPassivation and the manager's trigger, lockset on the manager state with caller-holds propagation, dataflow of the deadline (latest activity + timeout), constant-table check of the coalescing slack",
		explanation: "Decides: (1) in tryPassivation every call of doStop is dominated by the long-lived test, the system-stopping test, the skip-next CAS and the stopping/suspended/paused tests, and the skip-next CAS is repeated after stopLocker was taken; (2) manager: entries, queue and every passivationEntry field are accessed only under the manager's mutex (helpers only with it held); in trigger the deadline is re-evaluated under the lock after the timer fired ('deadline still in the future' returns) and that test dominates the call into passivate; Pause removes the entry from the heap and marks it paused, Touch ignores paused entries, nextEntry skips paused entries; an entry is queued on the deadline heap only after its deadline was recomputed from the latest activity (Register, Resume, re-queue); (3) the deadline is computed as latest-activity + timeout; markActivity records the receive time unconditionally (the Touch may be coalesced, the timestamp is not); handleReceived marks activity before invoking the handler; (4) message-count strategy: the baseline is processed+1 at registration; (5) passivation stops through doStop under stopLocker (PostStop once, C06). Added after seed C12b: the Touch-coalescing timestamp (lastPassivationTouch) is written only on a path that also calls Touch — it is the time of the last Touch, not of the last message.",
		assumptions: []string{"timing races between a message that arrives and the deadline check (the window between releasing the manager lock and tryPassivation)", "wall-clock behaviour of timers"},
		minObl:     57,
		run:        runC12,
	})
}

func runC12(c *Ctx) {
	c.Rule("tryPassivation", func() {
		tp := c.Func("actor", "PID.tryPassivation")
		f := c.NewFlow(tp)
		info := f.Info
		doStop := f.CallTo(c.FuncObj("actor", "PID.doStop"))
		if len(f.Find(doStop)) != 1 {
			c.Fail("tryPassivation: expected one doStop call")
		}
		stateTest := func(flag string) func(cond ast.Expr) (bool, bool) {
			return func(cond ast.Expr) (bool, bool) {
				call, ok := cond.(*ast.CallExpr)
				if !ok {
					return false, false
				}
				cal := callee(info, call)
				if cal == nil || cal.Name() != "isStateSet" || len(call.Args) != 1 {
					return false, false
				}
				id, ok := call.Args[0].(*ast.Ident)
				return ok && id.Name == flag, false // the edge on which the flag is NOT set
			}
		}
		for _, flag := range []string{"stoppingState", "suspendedState", "passivationPausedState"} {
			edges := f.EdgesWhere(stateTest(flag))
			w := f.search(searchSpec{avoidEdges: edges, target: doStop})
			c.Check(w == nil && len(edges) > 0, "guard/"+flag, "doStop is reached only on edges where "+flag+" was tested and found clear", c.P.Pos(tp.Decl.Pos()), f.describe(w))
		}
		// long-lived / nil strategy
		ll := f.EdgesWhere(func(cond ast.Expr) (bool, bool) {
			if call, ok := cond.(*ast.CallExpr); ok {
				if cal := callee(info, call); cal != nil && cal.Name() == "isLongLivedPassivationStrategy" {
					return true, false
				}
			}
			return false, false
		})
		w := f.search(searchSpec{avoidEdges: ll, target: doStop})
		c.Check(w == nil && len(ll) > 0, "guard/long-lived", "a long-lived actor is never passivated", c.P.Pos(tp.Decl.Pos()), f.describe(w))
		stopping := f.EdgesWhere(func(cond ast.Expr) (bool, bool) {
			if call, ok := cond.(*ast.CallExpr); ok {
				if cal := callee(info, call); cal != nil && cal.Name() == "isStopping" {
					return true, false
				}
			}
			return false, false
		})
		w = f.search(searchSpec{avoidEdges: stopping, target: doStop})
		// the system may be nil: the test is inside 'if system != nil'; accept the nil-system bypass
		nilSys := f.EdgesWhere(func(cond ast.Expr) (bool, bool) {
			cm, ok := asCmp(cond, true)
			if ok && cm.Op == token.NEQ && isNilIdent(info, cm.R) {
				return true, false
			}
			return false, false
		})
		all := map[Edge]bool{}
		for e := range stopping {
			all[e] = true
		}
		for e := range nilSys {
			all[e] = true
		}
		w = f.search(searchSpec{avoidEdges: all, target: doStop})
		c.Check(w == nil && len(stopping) > 0, "guard/system-stopping", "no passivation while the actor system is stopping", c.P.Pos(tp.Decl.Pos()), f.describe(w))
		// skip-next CAS: before and after the lock
		cas := func(n ast.Node) bool {
			call, ok := n.(*ast.CallExpr)
			if !ok {
				return false
			}
			cal := callee(info, call)
			if cal == nil || cal.Name() != "compareAndSwapState" || len(call.Args) != 3 {
				return false
			}
			id, ok := call.Args[0].(*ast.Ident)
			return ok && id.Name == "passivationSkipNextState"
		}
		casAtoms := f.Find(cas)
		c.Check(len(casAtoms) == 2, "skip-next/two-tests", "the skip-next flag is consumed before and again after taking stopLocker", c.P.Pos(tp.Decl.Pos()), "")
		stopLocker := c.Field("actor", "PID", "stopLocker")
		la := f.Locks(nil)
		under := 0
		for _, a := range casAtoms {
			if la.At(a)[stopLocker] == 2 {
				under++
			}
		}
		c.Check(under == 1, "skip-next/retest-under-lock", "one of the two skip-next tests runs inside the stopLocker critical section", c.P.Pos(tp.Decl.Pos()), "")
		notSkipped := f.CondEdges(exprMatch(cas), false)
		w = f.search(searchSpec{avoidEdges: notSkipped, target: doStop})
		c.Check(w == nil, "guard/skip-next", "a pending skip-next (recent reinstate) prevents the stop", c.P.Pos(tp.Decl.Pos()), f.describe(w))
		for _, a := range f.Find(doStop) {
			c.Check(la.At(a)[stopLocker] == 2, "doStop-under-stopLocker", "passivation stops the actor inside the stopLocker critical section", c.P.Pos(a.N.Pos()), "")
		}
	})

	c.Rule("manager-locks", func() {
		mu := c.Field("actor", "passivationManager", "mu")
		fields := append(c.Fields("actor", "passivationManager", "entries", "queue"),
			c.Fields("actor", "passivationEntry", "deadline", "paused", "pending", "enqueued", "index", "baseline", "timeout", "maxMessages", "strategy")...)
		c.GuardedBy(guardSpec{name: "passivationManager", lock: mu, fields: fields, maxDepth: 3,
			exemptFns: map[string]string{"actor.newPassivationManager": "constructor",
				"actor.passivationReason": "reads entry.strategy's name for the log/reason string after the entry was popped and the lock released; a concurrent re-Register can race this read, which does not affect when an actor is passivated (noted, not a C12 matter)",
				"actor.(*passivationHeap).Len": "heap.Interface method: called by container/heap from functions that hold the lock", "actor.(*passivationHeap).Less": "heap.Interface method", "actor.(*passivationHeap).Swap": "heap.Interface method",
				"actor.(*passivationHeap).Push": "heap.Interface method", "actor.(*passivationHeap).Pop": "heap.Interface method",
				"actor.(passivationHeap).Len": "heap.Interface method", "actor.(passivationHeap).Less": "heap.Interface method", "actor.(passivationHeap).Swap": "heap.Interface method"}})
	})

	c.Rule("trigger", func() {
		tr := c.Func("actor", "passivationManager.trigger")
		f := c.NewFlow(tr)
		info := f.Info
		pass := f.CallTo(c.FuncObj("actor", "passivationManager.passivate"))
		due := f.EdgesWhere(func(cond ast.Expr) (bool, bool) {
			call, ok := cond.(*ast.CallExpr)
			if !ok {
				return false, false
			}
			cal := callee(info, call)
			if cal == nil || cal.Name() != "After" {
				return false, false
			}
			if fv := selField(info, recvExpr(call)); fv != nil && fv.Name() == "deadline" {
				return true, false
			}
			return false, false
		})
		w := f.search(searchSpec{avoidEdges: due, target: pass})
		c.Check(w == nil && len(due) > 0 && len(f.Find(pass)) == 1, "deadline-retest≺passivate", "after the timer fired the deadline is re-evaluated ('still in the future' returns) before the actor is passivated", c.P.Pos(tr.Decl.Pos()), f.describe(w))
		mu := c.Field("actor", "passivationManager", "mu")
		la := f.Locks(nil)
		okLock := true
		for _, a := range f.Find(func(n ast.Node) bool {
			call, ok := n.(*ast.CallExpr)
			if !ok {
				return false
			}
			cal := callee(info, call)
			return cal != nil && cal.Name() == "After"
		}) {
			if la.At(a)[mu] != 2 {
				okLock = false
			}
		}
		c.Check(okLock, "deadline-retest-under-lock", "the deadline re-evaluation happens under the manager's mutex (a concurrent Touch is ordered with it)", c.P.Pos(tr.Decl.Pos()), "")
		// expected-entry identity
		same := f.EdgesWhere(func(cond ast.Expr) (bool, bool) {
			cm, ok := asCmp(cond, true)
			if ok && cm.Op == token.NEQ {
				if ps := tr.Obj.Type().(*types.Signature).Params(); ps.Len() == 1 && objOf(info, cm.R) == types.Object(ps.At(0)) {
					return true, false
				}
			}
			return false, false
		})
		w = f.search(searchSpec{avoidEdges: same, target: pass})
		c.Check(w == nil && len(same) > 0, "head-is-expected", "only the entry whose timer fired is passivated (a reordered heap returns)", c.P.Pos(tr.Decl.Pos()), f.describe(w))
		// passivate is called without the lock held (it runs user PostStop)
		for _, a := range f.Find(pass) {
			c.Check(la.At(a)[mu] == 0, "passivate-outside-lock", "the actor is stopped outside the manager's mutex (user hooks never run under it)", c.P.Pos(a.N.Pos()), "")
		}
	})

	c.Rule("pause-touch", func() {
		paused := c.Field("actor", "passivationEntry", "paused")
		// Touch returns on paused
		tf := c.Func("actor", "passivationManager.Touch")
		f := c.NewFlow(tf)
		refresh := f.CallTo(c.FuncObj("actor", "passivationEntry.refreshDeadline"))
		notPaused := map[Edge]bool{}
		for _, b := range f.G.Blocks {
			if !b.Live || f.Cond(b) == nil {
				continue
			}
			for s := 0; s < 2; s++ {
				for _, fact := range f.EdgeFacts(b, s) {
					if selField(f.Info, fact.E) == paused && !fact.Val {
						notPaused[Edge{b, s}] = true
					}
				}
			}
		}
		w := f.search(searchSpec{avoidEdges: notPaused, target: refresh})
		c.Check(w == nil && len(notPaused) > 0 && len(f.Find(refresh)) == 1, "Touch/ignores-paused", "Touch refreshes the deadline only of entries that are not paused", c.P.Pos(tf.Decl.Pos()), f.describe(w))
		// Pause sets paused and removes from heap
		pf := c.Func("actor", "passivationManager.Pause")
		pfl := c.NewFlow(pf)
		setPaused := func(n ast.Node) bool {
			as, ok := n.(*ast.AssignStmt)
			if !ok || len(as.Lhs) != 1 || selField(pfl.Info, as.Lhs[0]) != paused {
				return false
			}
			id, ok := as.Rhs[0].(*ast.Ident)
			return ok && id.Name == "true"
		}
		sp := pfl.Find(setPaused)
		c.Check(len(sp) == 1, "Pause/sets-paused", "Pause marks the entry paused", c.P.Pos(pf.Decl.Pos()), "")
		idx := c.Field("actor", "passivationEntry", "index")
		inHeap := pfl.EdgesWhere(func(cond ast.Expr) (bool, bool) {
			cm, ok := asCmp(cond, true)
			if ok && selField(pfl.Info, cm.L) == idx && cm.Op == token.GEQ {
				return true, true
			}
			return false, false
		})
		rm := func(n ast.Node) bool {
			call, ok := n.(*ast.CallExpr)
			if !ok {
				return false
			}
			cal := callee(pfl.Info, call)
			return cal != nil && cal.Name() == "Remove"
		}
		w = pfl.AfterEdgesMustPass(inHeap, rm, nil)
		c.Check(w == nil && len(inHeap) > 0, "Pause/removes-from-heap", "a paused entry that is queued is removed from the deadline heap", c.P.Pos(pf.Decl.Pos()), pfl.describe(w))
		// nextEntry skips paused
		nf := c.Func("actor", "passivationManager.nextEntry")
		nfl := c.NewFlow(nf)
		pausedEdge := nfl.CondEdges(func(e ast.Expr) bool { return selField(nfl.Info, e) == paused }, true)
		retEntry := func(n ast.Node) bool {
			r, ok := n.(*ast.ReturnStmt)
			return ok && len(r.Results) == 2 && !isNilIdent(nfl.Info, r.Results[0])
		}
		w = nfl.search(searchSpec{startEdges: edgesList(pausedEdge), avoidEdges: nfl.loopBackEdges(), target: retEntry})
		c.Check(w == nil && len(pausedEdge) > 0, "nextEntry/skips-paused", "a paused entry is never handed to the timer", c.P.Pos(nf.Decl.Pos()), nfl.describe(w))
	})

	c.Rule("deadline", func() {
		rd := c.Func("actor", "passivationEntry.refreshDeadline")
		info := rd.Info()
		ok := false
		var lastObj types.Object // the local initialised from the participant's latest activity
		ast.Inspect(rd.Decl.Body, func(n ast.Node) bool {
			if as, isAs := n.(*ast.AssignStmt); isAs && as.Tok == token.DEFINE && len(as.Lhs) == 1 && len(as.Rhs) == 1 {
				if call, isCall := as.Rhs[0].(*ast.CallExpr); isCall {
					if cal := callee(info, call); cal != nil && cal.Name() == "passivationLatestActivity" {
						lastObj = info.ObjectOf(as.Lhs[0].(*ast.Ident))
					}
				}
			}
			return true
		})
		ast.Inspect(rd.Decl.Body, func(n ast.Node) bool {
			as, isAs := n.(*ast.AssignStmt)
			if !isAs || len(as.Lhs) != 1 {
				return true
			}
			if f := selField(info, as.Lhs[0]); f == nil || f.Name() != "deadline" {
				return true
			}
			call, isCall := as.Rhs[0].(*ast.CallExpr)
			if !isCall {
				return true
			}
			if cal := callee(info, call); cal != nil && cal.Name() == "Add" && len(call.Args) == 1 {
				if f := selField(info, call.Args[0]); f != nil && f.Name() == "timeout" {
					if o := objOf(info, recvExpr(call)); o != nil && o == lastObj {
						ok = true
					}
				}
			}
			return true
		})
		c.Check(ok, "deadline=last+timeout", "the deadline is the latest activity plus the configured timeout", c.P.Pos(rd.Decl.Pos()), "")
		la := false
		ast.Inspect(rd.Decl.Body, func(n ast.Node) bool {
			if call, isCall := n.(*ast.CallExpr); isCall {
				if cal := callee(info, call); cal != nil && cal.Name() == "passivationLatestActivity" {
					la = true
				}
			}
			return true
		})
		c.Check(la, "last=latest-activity", "'last' is the participant's latest recorded activity", c.P.Pos(rd.Decl.Pos()), "")
		ma := c.Func("actor", "PID.markActivity")
		mf := c.NewFlow(ma)
		store := mf.CallOnField(c.Field("actor", "PID", "latestReceiveTimeNano"), "Store")
		w := mf.ExitReachable(nil, store, nil, nil)
		c.Check(w == nil, "markActivity/records-always", "every handled message records its receive time (Touch may be coalesced, the timestamp is not)", c.P.Pos(ma.Decl.Pos()), mf.describe(w))
		// coalescing, not debouncing: lastPassivationTouch is the time of the last Touch, so it changes only together
		// with a Touch. If every message overwrote it, a busy actor (gaps shorter than the interval) would never
		// refresh its deadline and be passivated in the middle of a burst.
		lastTouch := c.Field("actor", "PID", "lastPassivationTouch")
		touch := mf.CallTo(c.FuncObj("actor", "passivationManager.Touch"))
		nW := 0
		okTouch := true
		detail := ""
		for _, a := range mf.FindOnce(func(n ast.Node) bool {
			call, ok := n.(*ast.CallExpr)
			if !ok {
				return false
			}
			fv, op, _ := atomicOp(mf.Info, call)
			return fv == lastTouch && op != "Load"
		}) {
			nW++
			_, op, _ := atomicOp(mf.Info, a.N.(*ast.CallExpr))
			var w2 *Witness
			if op == "CompareAndSwap" || op == "CAS" {
				won := mf.CondEdges(func(e ast.Expr) bool { return e == a.N.(ast.Expr) }, true)
				if len(won) == 0 {
					okTouch, detail = false, "the CAS result is not tested"
					continue
				}
				w2 = mf.AfterEdgesMustPass(won, touch, nil)
			} else {
				w2 = mf.MustFollow([]*Atom{a}, touch, nil)
			}
			if w2 != nil {
				okTouch, detail = false, mf.describe(w2)
			}
		}
		c.Check(okTouch && nW > 0, "markActivity/touch-stamp-moves-only-with-touch", "the coalescing timestamp is written only on a path that also calls Touch (it is the time of the last Touch, not of the last message)", c.P.Pos(ma.Decl.Pos()), detail)
		hr := c.Func("actor", "PID.handleReceived")
		hf := c.NewFlow(hr)
		behavior := c.Named("actor", "Behavior")
		invoke := func(n ast.Node) bool {
			call, ok := n.(*ast.CallExpr)
			if !ok {
				return false
			}
			t := hf.Info.TypeOf(call.Fun)
			return t != nil && types.Identical(types.Unalias(t), behavior)
		}
		w = hf.MustPrecede(hf.CallTo(ma.Obj), nil, invoke)
		c.Check(w == nil, "activity≺handler", "activity is marked before the handler runs (a long handler is not mistaken for idleness at its start)", c.P.Pos(hr.Decl.Pos()), hf.describe(w))
	})

	c.Rule("heap-deadline-fresh", func() {
		// An entry's deadline is recomputed from its latest activity whenever it is (re)queued on the deadline heap:
		// a paused-and-resumed or re-registered entry must not carry the deadline it had before.
		push := c.ExtFunc("container/heap", "Push")
		refresh := c.FuncObj("actor", "passivationEntry.refreshDeadline")
		n := 0
		seen := map[*types.Func]bool{}
		for _, u := range c.UsesOf(push) {
			if u.Call == nil || u.EnclObj == nil || seen[u.EnclObj] {
				continue
			}
			if !strings.Contains(funcName(u.EnclObj), "passivationManager") {
				continue
			}
			seen[u.EnclObj] = true
			fn := c.fnOfObj(u.EnclObj)
			f := c.NewFlow(fn)
			isPush := f.CallTo(push)
			n += len(f.FindOnce(isPush))
			w := f.MustPrecede(f.CallTo(refresh), nil, isPush)
			c.Check(w == nil, "push⇒refreshed@"+funcName(u.EnclObj), "an entry is queued on the deadline heap only after its deadline was recomputed from the latest activity", u.Where(c.P), f.describe(w))
		}
		if n < 3 {
			c.Undecided("push-sites", "heap push sites found", "-", "found "+itoa(n))
		}
	})

	c.Rule("message-count", func() {
		rg := c.Func("actor", "passivationManager.Register")
		info := rg.Info()
		ok := false
		ast.Inspect(rg.Decl.Body, func(n ast.Node) bool {
			as, isAs := n.(*ast.AssignStmt)
			if !isAs || len(as.Lhs) != 1 {
				return true
			}
			if f := selField(info, as.Lhs[0]); f == nil || f.Name() != "baseline" {
				return true
			}
			if be, isBe := as.Rhs[0].(*ast.BinaryExpr); isBe && be.Op == token.ADD {
				if v, isC := constInt(info, be.Y); isC && v == 1 {
					ok = true
				}
			}
			return true
		})
		c.Check(ok, "baseline=processed+1", "the message-count baseline is the processed count at registration plus one", c.P.Pos(rg.Decl.Pos()), "")
	})
}

func edgesList(m map[Edge]bool) []Edge {
	var out []Edge
	for e := range m {
		out = append(out, e)
	}
	return out
}
