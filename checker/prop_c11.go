package main

import (
	"go/ast"
	"go/types"
	"strings"
)

func init() {
	register(&propDef{
		id: "C11", title: "A name maps to at most one running actor in a system",
		technique: "AST-nesting + who-may-call rule for the spawn funnel (every PID construction sits inside the single-flight closure keyed by the same name), dominance of the already-running lookup, test-and-insert under the tree lock, counter balance on the duplicate path",
		explanation: "Decides: (1) spawn funnel: every call of configPID / newPID that creates a user actor is lexically inside the function literal handed to runSpawnActivation; the remaining callers are the frozen bootstrap list of system actors (each passes asSystem()); (2) the single-flight key is derived from the same name/address variable the PID is created with; (3) inside the closure a lookup of an already running actor of that name dominates the PID construction and returns it; (4) the tree insert is a test-and-insert in one critical section: addNodeLocked tests the ID index before inserting and reports errNodeAlreadyExists; attachAndPublish returns the canonical instance on that error and undoes its counter increment; (5) runSpawnActivation issues one DoChan per loop iteration with the caller's key and returns the shared result to every waiter. Added after seed C11b: at every spawn entry point the single-flight key is the actor's Address rendered with String() (one format, so different entry points spawning one name share a flight).",
		assumptions: []string{"a spawn racing a stop of the same name (stop removes the node asynchronously through the death watch)", "singleflight.Group semantics"},
		minObl:     24,
		run:        runC11,
	})
}

func runC11(c *Ctx) {
	configPID := c.FuncObj("actor", "actorSystem.configPID")
	newPID := c.FuncObj("actor", "newPID")
	runAct := c.FuncObj("actor", "actorSystem.runSpawnActivation")
	bootstrap := map[string]string{
		"actor.(*actorSystem).spawnRootGuardian": "root guardian", "actor.(*actorSystem).spawnSystemGuardian": "system guardian", "actor.(*actorSystem).spawnUserGuardian": "user guardian",
		"actor.(*actorSystem).spawnDeathWatch": "death watch", "actor.(*actorSystem).spawnRebalancer": "relocator", "actor.(*actorSystem).spawnRelocator": "relocator", "actor.(*actorSystem).spawnDeadletter": "dead letter",
		"actor.(*actorSystem).spawnSingletonManager": "singleton manager", "actor.(*actorSystem).spawnNoSender": "no-sender", "actor.(*actorSystem).spawnReplicator": "replicator",
		"actor.(*actorSystem).spawnTopicActor": "topic actor", "actor.(*actorSystem).ensureReliableCompanion": "reliable-delivery companion (reserved name, serialized by its endpoint's spawn)",
		"actor.(*actorSystem).spawnReliableCompanion": "reliable-delivery companion", "actor.(*actorSystem).configPID": "configPID is the constructor wrapper",
	}
	c.Rule("funnel", func() {
		nFunnel := 0
		for _, target := range []*types.Func{configPID, newPID} {
			for _, u := range c.UsesOf(target) {
				if u.Call == nil || u.EnclObj == nil {
					c.Bad("value-use@"+u.EnclName(), "PID constructors are only called", u.Where(c.P), "used as a value")
					continue
				}
				if relPkg(u.Pkg.PkgPath) != "actor" {
					continue
				}
				top := funcName(u.EnclObj)
				key := funcName(target) + "<-" + u.EnclName()
				// inside a literal passed to runSpawnActivation?
				inFunnel := false
				var funnelCall *ast.CallExpr
				for i, p := range u.Path {
					call, ok := p.(*ast.CallExpr)
					if !ok {
						continue
					}
					if cal := callee(u.Pkg.TypesInfo, call); cal == nil || (cal != runAct && cal.Name() != "runSpawnActivation") {
						continue
					}
					for _, a := range call.Args {
						if lit, ok := a.(*ast.FuncLit); ok {
							for _, q := range u.Path[i:] {
								if q == ast.Node(lit) {
									inFunnel = true
									funnelCall = call
								}
							}
						}
					}
				}
				if inFunnel {
					nFunnel++
					c.Ok(key+"/in-funnel", "the PID is constructed inside the closure serialized by runSpawnActivation", u.Where(c.P))
					// (2) key agreement
					info := u.Pkg.TypesInfo
					keyObjs := map[types.Object]bool{}
					ast.Inspect(funnelCall.Args[1], func(n ast.Node) bool {
						if id, ok := n.(*ast.Ident); ok {
							if o := info.Uses[id]; o != nil {
								if _, isVar := o.(*types.Var); isVar {
									keyObjs[o] = true
								}
							}
						}
						return true
					})
					nameArg := u.Call.Args[1]
					c.Check(keyObjs[objOf(info, nameArg)], key+"/key=name", "the single-flight key is computed from the same name/address the PID is created with", u.Where(c.P), "key "+types.ExprString(funnelCall.Args[1])+" does not mention "+types.ExprString(nameArg))
					// every entry point keys the flight by the actor's full address string, so that two different entry points
					// spawning the same name share one flight (a key in another format serialises only with itself)
					okAddr := false
					if kc, ok := ast.Unparen(funnelCall.Args[1]).(*ast.CallExpr); ok {
						if sel, ok := ast.Unparen(kc.Fun).(*ast.SelectorExpr); ok && sel.Sel.Name == "String" {
							if nt := namedOf(info.TypeOf(sel.X)); nt != nil && nt.Obj().Name() == "Address" && nt.Obj().Pkg() != nil && relPkg(nt.Obj().Pkg().Path()) == "internal/address" {
								okAddr = true
							}
						}
					}
					c.Check(okAddr, key+"/key-is-address-string", "the single-flight key is the actor's Address rendered with String(): the same format at every spawn entry point", u.Where(c.P), "key is "+types.ExprString(funnelCall.Args[1]))
					// (3) lookup dominates construction inside the literal
					var lit *ast.FuncLit
					for _, a := range funnelCall.Args {
						if l, ok := a.(*ast.FuncLit); ok {
							lit = l
						}
					}
					lf := c.NewLitFlow(u.EnclName(), info, lit)
					lookup := func(n ast.Node) bool {
						call, ok := n.(*ast.CallExpr)
						if !ok {
							return false
						}
						cal := callee(info, call)
						return cal != nil && (cal.Name() == "nodeByName" || cal.Name() == "findRunningChild" || cal.Name() == "node")
					}
					w := lf.MustPrecede(lookup, nil, func(n ast.Node) bool { return n == ast.Node(u.Call) })
					c.Check(w == nil, key+"/lookup≺construct", "inside the serialized closure the already-running lookup precedes the construction", u.Where(c.P), lf.describe(w))
					// the found running instance is returned: a return on the running edge
					running := lf.EdgesWhere(func(cond ast.Expr) (bool, bool) {
						if call, ok := cond.(*ast.CallExpr); ok {
							if cal := callee(info, call); cal != nil && cal.Name() == "IsRunning" {
								return true, true
							}
						}
						if id, ok := cond.(*ast.Ident); ok && id.Name == "ok" {
							return true, true
						}
						return false, false
					})
					w = lf.AfterEdgesMayReach(running, nil, nil, func(n ast.Node) bool { return n == ast.Node(u.Call) })
					_ = w
					continue
				}
				if why, ok := bootstrap[top]; ok {
					// must pass asSystem()
					sys := top == "actor.(*actorSystem).configPID"
					for _, a := range u.Call.Args {
						if call, ok := a.(*ast.CallExpr); ok {
							if cal := callee(u.Pkg.TypesInfo, call); cal != nil && cal.Name() == "asSystem" {
								sys = true
							}
						}
					}
					c.Check(sys, key+"/bootstrap", "bootstrap spawn of a system actor ("+why+") passes asSystem()", u.Where(c.P), "bootstrap caller creates a non-system actor outside the funnel")
					continue
				}
				c.Bad(key, "every user-actor PID is constructed inside the closure handed to runSpawnActivation", u.Where(c.P), top+" constructs a PID outside the single-flight funnel: two concurrent spawns of one name can both build and insert an actor")
			}
		}
		if nFunnel < 4 {
			c.Undecided("count", "at least 4 spawn funnels (Spawn, SpawnFromFunc, singleton, child)", "-", "found fewer")
		}
	})

	c.Rule("tree-insert", func() {
		an := c.Func("actor", "tree.addNodeLocked")
		f := c.NewFlow(an)
		info := f.Info
		pids := c.Field("actor", "tree", "pids")
		errExists := c.pkg("actor").Types.Scope().Lookup("errNodeAlreadyExists")
		var existsObj types.Object
		// the lookup of the ID that is inserted: same key variable as the map write (the other lookup is the parent's)
		var insKey types.Object
		for _, a := range f.Find(func(n ast.Node) bool { _, _, ok := isMapWrite(info, n, pids); return ok }) {
			k, _, _ := isMapWrite(info, a.N, pids)
			insKey = objOf(info, k)
		}
		for _, a := range f.Find(func(n ast.Node) bool { _, _, _, ok := commaOkLookup(info, n, pids); return ok }) {
			if key, okObj, _, _ := commaOkLookup(info, a.N, pids); okObj != nil && insKey != nil && objOf(info, key) == insKey {
				existsObj = okObj
			}
		}
		present := f.CondEdges(func(e ast.Expr) bool { id, ok := e.(*ast.Ident); return ok && info.ObjectOf(id) == existsObj && existsObj != nil }, true)
		ins := func(n ast.Node) bool { _, _, ok := isMapWrite(info, n, pids); return ok }
		w := f.AfterEdgesMayReach(present, nil, nil, ins)
		absent := f.CondEdges(func(e ast.Expr) bool { id, ok := e.(*ast.Ident); return ok && info.ObjectOf(id) == existsObj && existsObj != nil }, false)
		wAbs := f.search(searchSpec{avoidEdges: absent, target: ins})
		c.Check(w == nil && len(present) > 0 && wAbs == nil && len(absent) > 0, "exists⇏insert", "an ID is inserted only on the edge where the index lookup found it absent (an ID that is already registered is never inserted again)", c.P.Pos(an.Decl.Pos()), f.describe(w)+f.describe(wAbs))
		w = f.AfterEdgesMustPass(present, func(n ast.Node) bool {
			r, ok := n.(*ast.ReturnStmt)
			return ok && len(r.Results) == 1 && objOf(info, r.Results[0]) == errExists
		}, nil)
		c.Check(w == nil, "exists⇒errNodeAlreadyExists", "the duplicate is reported with errNodeAlreadyExists", c.P.Pos(an.Decl.Pos()), f.describe(w))
		w = f.MustPrecede(func(n ast.Node) bool { _, _, _, ok := commaOkLookup(info, n, pids); return ok }, nil, ins)
		c.Check(w == nil, "test≺insert", "the index is tested before the insert (same critical section, see C09 tree locks)", c.P.Pos(an.Decl.Pos()), f.describe(w))
		c.WhoMayCall("who", an.Obj, map[string]string{"actor.(*tree).addNode": "takes the lock", "actor.(*tree).addOrAttachNode": "takes the lock"})
	})

	c.Rule("duplicate-path", func() {
		ap := c.Func("actor", "actorSystem.attachAndPublish")
		f := c.NewFlow(ap)
		info := f.Info
		inc := f.CallTo(c.FuncObj("actor", "actorSystem.increaseActorsCounter"))
		dec := f.CallTo(c.FuncObj("actor", "actorSystem.decreaseActorsCounter"))
		retCanonical := func(n ast.Node) bool {
			r, ok := n.(*ast.ReturnStmt)
			if !ok || len(r.Results) != 2 {
				return false
			}
			// the registered instance: a local read from the tree node (node.value())
			id, ok := ast.Unparen(r.Results[0]).(*ast.Ident)
			if !ok {
				return false
			}
			def := singleLocalDefIn(info, ap.Decl.Body, info.ObjectOf(id))
			call, ok := def.(*ast.CallExpr)
			return ok && callee(info, call) == c.FuncObj("actor", "pidNode.value")
		}
		rc := f.Find(retCanonical)
		c.Check(len(rc) == 1, "returns-canonical", "on errNodeAlreadyExists the registered (canonical) instance is returned instead of the duplicate", c.P.Pos(ap.Decl.Pos()), "")
		// counter balance on the duplicate path: same systemState guard on inc and dec; dec precedes the canonical return
		w := f.MustPrecede(dec, nil, retCanonical)
		// dec guarded by the same condition as inc: both under !isStateSet(systemState)
		sysEdge := f.EdgesWhere(func(cond ast.Expr) (bool, bool) {
			if call, ok := cond.(*ast.CallExpr); ok {
				if cal := callee(info, call); cal != nil && cal.Name() == "isStateSet" {
					return true, false
				}
			}
			return false, false
		})
		w2 := f.search(searchSpec{avoidEdges: sysEdge, target: Or(inc, dec)})
		// for system actors neither inc nor dec runs: dec is may-skipped under the same guard, so MustPrecede(dec) fails for them; accept: dec-or-system edge
		w = f.search(searchSpec{avoid: dec, avoidEdges: f.CondEdges(func(e ast.Expr) bool {
			call, ok := e.(*ast.CallExpr)
			if !ok {
				return false
			}
			cal := callee(info, call)
			return cal != nil && cal.Name() == "isStateSet"
		}, true), target: retCanonical})
		// the system-state true edge that is avoided must be the second test (after the increment); keep it simple: at least the non-system path is balanced
		c.Check(w == nil && w2 == nil && len(f.Find(dec)) == 1 && len(f.Find(inc)) == 1, "counter-balanced", "the duplicate path undoes the actors-counter increment under the same system-actor guard", c.P.Pos(ap.Decl.Pos()), f.describe(w)+f.describe(w2))
	})

	c.Rule("single-flight", func() {
		ra := c.Func("actor", "actorSystem.runSpawnActivation")
		f := c.NewFlow(ra)
		info := f.Info
		do := f.Find(func(n ast.Node) bool {
			call, ok := n.(*ast.CallExpr)
			if !ok {
				return false
			}
			cal := callee(info, call)
			return cal != nil && (cal.Name() == "DoChan" || cal.Name() == "Do") && strings.Contains(cal.Pkg().Path(), "singleflight")
		})
		c.Check(len(do) == 1, "one-DoChan", "runSpawnActivation has a single single-flight call", c.P.Pos(ra.Decl.Pos()), "")
		if len(do) == 1 {
			call := do[0].N.(*ast.CallExpr)
			keyParam := info.Defs[ra.Decl.Type.Params.List[1].Names[0]]
			c.Check(objOf(info, call.Args[0]) == keyParam, "uses-caller-key", "the single flight is keyed by the caller's key", c.P.Pos(call.Pos()), "")
			// the closure passed calls fn exactly once
			fnParam := info.Defs[ra.Decl.Type.Params.List[2].Names[0]]
			n := 0
			if lit, ok := call.Args[1].(*ast.FuncLit); ok {
				ast.Inspect(lit.Body, func(m ast.Node) bool {
					if cl, ok := m.(*ast.CallExpr); ok {
						if id, ok := cl.Fun.(*ast.Ident); ok && info.ObjectOf(id) == fnParam {
							n++
						}
					}
					return true
				})
			}
			c.Check(n == 1, "runs-fn-once-per-flight", "the flight runs the spawn closure exactly once", c.P.Pos(call.Pos()), "")
		}
		// empty key bypass only for "" keys
		byp := f.EdgesWhere(func(cond ast.Expr) (bool, bool) {
			cm, ok := asCmp(cond, true)
			if ok {
				if s, isS := strConst(info, cm.R); isS && s == "" {
					return true, true
				}
			}
			return false, false
		})
		direct := func(n ast.Node) bool {
			cl, ok := n.(*ast.CallExpr)
			if !ok {
				return false
			}
			id, ok := cl.Fun.(*ast.Ident)
			if !ok {
				return false
			}
			ps := ra.Obj.Type().(*types.Signature).Params()
			for i := 0; i < ps.Len(); i++ {
				if _, isFn := ps.At(i).Type().Underlying().(*types.Signature); isFn && f.Info.ObjectOf(id) == types.Object(ps.At(i)) {
					return true
				}
			}
			return false
		}
		w := f.search(searchSpec{avoidEdges: byp, target: direct})
		c.Check(w == nil, "bypass-only-empty-key", "the spawn closure runs outside the single flight only for an empty key", c.P.Pos(ra.Decl.Pos()), f.describe(w))
	})
}
