package main

import (
	"go/ast"
	"go/constant"
	"go/token"
	"go/types"
	"strings"
)

func init() {
	register(&propDef{
		id: "C40", title: "CRDT values survive encoding",
		technique: "codec-pair field coverage over EncodeCRDT/DecodeCRDT and the crdt state exporters/importers, type-switch exhaustiveness over ReplicatedData implementors, oneof produced/handled pairing, enum offset inverse and range check for CRDT keys",
		explanation: "Decides writer/reader agreement for the CRDT wire form: (1) EncodeCRDT's type switch has a case for every ReplicatedData implementor of package crdt, each case produces a distinct CRDTData oneof wrapper, DecodeCRDT has a case for every wrapper, and the decode case for the wrapper produced from type T yields T again; (2) every data field of CRDTData, GCounterData, PNCounterData, FlagData, LWWRegisterData, ORSetData (+Entry, Dot), MVRegisterData (+Entry), ORMapData (+Entry) and CRDTKey is written on the encode side and read on the decode side; (3) every state field of the seven CRDT structs (value and causal metadata: state maps, clocks, dots, timestamps, node ids; transient delta/dirty bookkeeping exempt) is read on the encode path (through State/RawState exporters) and written on the decode path (through the FromState importers), and every field of the exchange structs Entry, Dot, MVEntry, ORMapRawState is produced and consumed on both sides; (4) CRDT keys: the encoder's enum offset equals the decoder's, the decoder's accepted range is exactly the image of the DataType constants, and proto and domain enum names agree position by position. Equality of decoded and original values (serializer round trip of any-typed payloads, map iteration) is NOT decided. Added after seed C40a: a successful decode has read the clock unless the message that carries it is absent.",
		assumptions: []string{"the configured remote.Serializer round-trips element/register payloads (C25)", "protobuf marshalling itself"},
		minObl:     86,
		run:        runC40,
	})
}

func runC40(c *Ctx) {
	encFn, decFn := c.Func("internal/ddata", "EncodeCRDT"), c.Func("internal/ddata", "DecodeCRDT")
	rd := c.Named("crdt", "ReplicatedData")
	pbPkg := "internal/internalpb"

	c.Rule("switch", func() {
		impl := map[string]bool{}
		for _, m := range c.Implementors(rd, "Merge") {
			if m.Pkg() != nil && relPkg(m.Pkg().Path()) == "crdt" {
				impl[namedOf(m.Type().(*types.Signature).Recv().Type()).Obj().Name()] = true
			}
		}
		if len(impl) < 7 {
			c.Undecided("implementors", "seven CRDT types implement ReplicatedData", "-", "fewer found")
		}
		// encode: T -> wrapper
		encMap := map[string]string{}
		einfo := encFn.Info()
		ast.Inspect(encFn.Decl.Body, func(n ast.Node) bool {
			ts, ok := n.(*ast.TypeSwitchStmt)
			if !ok {
				return true
			}
			for _, st := range ts.Body.List {
				cc := st.(*ast.CaseClause)
				for _, e := range cc.List {
					tn := namedOf(einfo.TypeOf(e))
					if tn == nil {
						continue
					}
					var wrappers []string
					for _, b := range cc.Body {
						ast.Inspect(b, func(m ast.Node) bool {
							if cl, ok := m.(*ast.CompositeLit); ok {
								if w := namedOf(einfo.TypeOf(cl)); w != nil && strings.HasPrefix(w.Obj().Name(), "CRDTData_") {
									wrappers = append(wrappers, w.Obj().Name())
								}
							}
							return true
						})
					}
					if len(wrappers) == 1 {
						encMap[tn.Obj().Name()] = wrappers[0]
					} else {
						c.Bad("encode-case/"+tn.Obj().Name(), "each EncodeCRDT case produces exactly one CRDTData oneof wrapper", c.P.Pos(cc.Pos()), "found "+strings.Join(wrappers, ","))
					}
				}
			}
			return false
		})
		// decode: wrapper -> T (result type of the call returned in the case body)
		decMap := map[string]string{}
		dinfo := decFn.Info()
		ast.Inspect(decFn.Decl.Body, func(n ast.Node) bool {
			ts, ok := n.(*ast.TypeSwitchStmt)
			if !ok {
				return true
			}
			for _, st := range ts.Body.List {
				cc := st.(*ast.CaseClause)
				for _, e := range cc.List {
					w := namedOf(dinfo.TypeOf(e))
					if w == nil {
						continue
					}
					for _, b := range cc.Body {
						r, ok := b.(*ast.ReturnStmt)
						if !ok || len(r.Results) == 0 {
							continue
						}
						if call, ok := r.Results[0].(*ast.CallExpr); ok {
							t := dinfo.TypeOf(call)
							if tup, ok := t.(*types.Tuple); ok && tup.Len() > 0 {
								t = tup.At(0).Type()
							}
							if tn := namedOf(t); tn != nil {
								decMap[w.Obj().Name()] = tn.Obj().Name()
							}
						}
					}
				}
			}
			return false
		})
		seenW := map[string]string{}
		for _, t := range sortedKeys(impl) {
			w, ok := encMap[t]
			if !c.Check(ok, "encode-covers/"+t, "EncodeCRDT has a case for every ReplicatedData implementor", c.P.Pos(encFn.Decl.Pos()), "no case for *crdt."+t+": the value cannot be replicated (falls to the unsupported-type error)") {
				continue
			}
			if prev, dup := seenW[w]; dup {
				c.Bad("wrapper-distinct/"+t, "each CRDT type is encoded into its own oneof wrapper", c.P.Pos(encFn.Decl.Pos()), t+" and "+prev+" both encode to "+w)
			}
			seenW[w] = t
			back, ok := decMap[w]
			if !c.Check(ok, "decode-covers/"+w, "DecodeCRDT has a case for every wrapper EncodeCRDT produces", c.P.Pos(decFn.Decl.Pos()), "no decode case for "+w) {
				continue
			}
			c.Check(back == t, "pair/"+t, "the decode case of the wrapper produced for type T yields T", c.P.Pos(decFn.Decl.Pos()), "*crdt."+t+" is encoded as "+w+" which decodes to *crdt."+back)
		}
		// every oneof wrapper type of CRDTData is produced
		oneof := c.Named(pbPkg, "CRDTData")
		sc := oneof.Obj().Pkg().Scope()
		for _, n := range sc.Names() {
			if strings.HasPrefix(n, "CRDTData_") {
				if _, isT := sc.Lookup(n).(*types.TypeName); isT {
					_, ok := seenW[n]
					c.Check(ok, "wrapper-produced/"+n, "every CRDTData oneof variant is produced by the encoder", c.P.Pos(encFn.Decl.Pos()), n+" is never produced")
				}
			}
		}
	})

	var enc, dec *sideFacts
	c.Rule("collect", func() {
		enc = c.collectSide([]*types.Func{encFn.Obj, c.FuncObj("internal/codec", "EncodeCRDTKey")}, 4, nil)
		dec = c.collectSide([]*types.Func{decFn.Obj, c.FuncObj("internal/codec", "DecodeCRDTKey")}, 4, nil)
		c.Ok("sides", "encode and decode sides collected", "-")
	})
	if enc == nil || dec == nil {
		return
	}
	c.Rule("wire", func() {
		for _, name := range []string{"CRDTData", "GCounterData", "PNCounterData", "FlagData", "LWWRegisterData", "ORSetData", "ORSetData_ORSetEntry", "ORSetData_ORSetDot", "MVRegisterData", "MVRegisterData_MVRegisterEntry", "ORMapData", "ORMapData_ORMapEntry", "CRDTKey"} {
			c.checkWireMessage("wire", c.Named(pbPkg, name), enc, dec, nil)
		}
	})
	c.Rule("domain", func() {
		exempt := map[string]string{
			"GCounter.delta":    "transient delta bookkeeping: a decoded value starts with an empty delta",
			"ORSet.delta":       "transient delta bookkeeping",
			"Flag.dirty":        "transient dirty flag",
			"LWWRegister.dirty": "transient dirty flag",
			"MVRegister.dirty":  "transient dirty flag",
			"ORMap.dirty":       "transient dirty flag",
		}
		for _, t := range []string{"GCounter", "PNCounter", "Flag", "LWWRegister", "ORSet", "MVRegister", "ORMap"} {
			c.checkDomain("domain", c.Named("crdt", t), enc, dec, exempt)
		}
		// internal element structs carried inside the state
		for _, t := range []string{"dot", "mvEntry"} {
			c.checkDomain("domain", c.Named("crdt", t), enc, dec, nil)
		}
		// exchange structs: produced by the exporter and consumed by the encoder; produced by the decoder and consumed by the importer
		for _, t := range []string{"Entry", "Dot", "MVEntry", "ORMapRawState"} {
			named := c.Named("crdt", t)
			for _, f := range domainFields(named) {
				k := "exchange/" + t + "." + f.Name()
				_, ew := enc.written[f]
				_, er := enc.read[f]
				_, dw := dec.written[f]
				_, dr := dec.read[f]
				c.Check(ew && er && dw && dr, k, "every field of a state exchange struct is filled by the exporter, read by the encoder, filled by the decoder and read by the importer", c.P.Pos(f.Pos()),
					"field "+f.Name()+" of crdt."+t+": "+boolList(map[string]bool{"exporter writes": ew, "encoder reads": er, "decoder writes": dw, "importer reads": dr}))
			}
		}
	})
	c.Rule("importer-params", func() {
		// A composite-literal field initialised with make() counts as written above; the importer must
		// also consume each of its parameters for more than its size.
		for _, name := range []string{"GCounterFromState", "PNCounterFromState", "LWWRegisterFromState", "ORSetFromRawState", "MVRegisterFromRawState", "ORMapFromRawState"} {
			fn := c.Func("crdt", name)
			info := fn.Info()
			sig := fn.Obj.Type().(*types.Signature)
			for i := 0; i < sig.Params().Len(); i++ {
				p := sig.Params().At(i)
				dataUse := false
				var stack []ast.Node
				ast.Inspect(fn.Decl.Body, func(n ast.Node) bool {
					if n == nil {
						stack = stack[:len(stack)-1]
						return true
					}
					stack = append(stack, n)
					id, ok := n.(*ast.Ident)
					if !ok || info.Uses[id] != p {
						return true
					}
					if len(stack) >= 2 {
						if call, ok := stack[len(stack)-2].(*ast.CallExpr); ok {
							if b, ok := info.Uses[identOf(call.Fun)].(*types.Builtin); ok && (b.Name() == "len" || b.Name() == "cap") {
								return true
							}
						}
					}
					dataUse = true
					return true
				})
				c.Check(dataUse, "importer/"+name+"."+p.Name(), "every parameter of a state importer contributes data to the constructed value (not only its length)", c.P.Pos(p.Pos()), "parameter "+p.Name()+" of crdt."+name+" is never consumed: that part of the decoded state is dropped")
			}
		}
	})
	c.Rule("clock-decoded-if-present", func() {
		// causal metadata is decoded whenever its message is present: a clock read that is skipped because ANOTHER field
		// is empty (e.g. a key set without live entries) silently drops the record of removals
		n := 0
		for _, name := range []string{"decodeORMap", "decodeORSet", "decodeMVRegister"} {
			fn := c.Func("internal/ddata", name)
			f := c.NewFlow(fn)
			info := f.Info
			getClock := func(nd ast.Node) bool {
				call, ok := nd.(*ast.CallExpr)
				return ok && isCallNamed(info, call, "GetClock")
			}
			if len(f.Find(getClock)) == 0 {
				c.Bad("clock-read/"+name, "the decoder reads the clock of the wire message", c.P.Pos(fn.Decl.Pos()), "no GetClock() in "+name)
				continue
			}
			n++
			// exits that may skip the read: a decode error, or the nil edge of the message holding the clock
			skip := map[Edge]bool{}
			for _, a := range f.Find(getClock) {
				recv := recvExpr(a.N.(*ast.CallExpr))
				obj := objOf(info, recv)
				for e := range f.NilCheckEdges(func(x ast.Expr) bool { return obj != nil && objOf(info, x) == obj }, false) {
					skip[e] = true
				}
			}
			okRet := func(nd ast.Node) bool {
				r, ok := nd.(*ast.ReturnStmt)
				return ok && len(r.Results) == 2 && isNilIdent(info, r.Results[1])
			}
			w := f.search(searchSpec{avoid: getClock, avoidEdges: skip, target: okRet})
			c.Check(w == nil, "clock-read/"+name, "a successful decode has read the clock unless the message that carries it is absent", c.P.Pos(fn.Decl.Pos()), "the clock read is skipped on a path where its message is present: "+f.describe(w))
		}
		if n < 3 {
			c.Undecided("clock-read/sites", "clock-carrying decoders found", "-", "found "+itoa(n))
		}
	})

	c.Rule("key", func() {
		encK, decK := c.Func("internal/codec", "EncodeCRDTKey"), c.Func("internal/codec", "DecodeCRDTKey")
		dom := c.Named("crdt", "DataType")
		wire := c.Named(pbPkg, "CRDTDataType")
		offset := func(fn *Fn, to *types.Named, op token.Token) (int64, string, bool) {
			info := fn.Info()
			var k int64
			var pos string
			found := 0
			ast.Inspect(fn.Decl.Body, func(n ast.Node) bool {
				call, ok := n.(*ast.CallExpr)
				if !ok || len(call.Args) != 1 {
					return true
				}
				tv, ok := info.Types[call.Fun]
				if !ok || !tv.IsType() || !types.Identical(tv.Type, to) {
					return true
				}
				arg := ast.Unparen(call.Args[0])
				if be, ok := arg.(*ast.BinaryExpr); ok && be.Op == op {
					if cv := info.Types[be.Y].Value; cv != nil {
						if v, ok := constant.Int64Val(cv); ok {
							k, pos = v, c.P.Pos(call.Pos())
							found++
						}
					}
				} else if info.Types[arg].Value == nil {
					k, pos = 0, c.P.Pos(call.Pos())
					found++
				}
				return true
			})
			return k, pos, found == 1
		}
		ek, epos, ok1 := offset(encK, wire, token.ADD)
		dk, dpos, ok2 := offset(decK, dom, token.SUB)
		if !ok1 || !ok2 {
			c.Undecided("offset/shape", "key codec converts between the enums with a constant offset", c.P.Pos(encK.Decl.Pos()), "conversion shape not recognised")
			return
		}
		c.Check(ek == dk, "offset/inverse", "DecodeCRDTKey subtracts the offset EncodeCRDTKey adds", dpos, "encoder adds "+itoa(int(ek))+" at "+epos+", decoder subtracts "+itoa(int(dk)))
		// names and positions agree
		norm := func(s string) string { return strings.ToLower(strings.ReplaceAll(s, "_", "")) }
		wireBy := map[int64]string{}
		for _, k := range c.enumConsts(wire) {
			v, _ := constant.Int64Val(k.Val())
			wireBy[v] = norm(strings.TrimPrefix(k.Name(), "CRDTDataType_CRDT_DATA_TYPE_"))
		}
		var maxDom int64 = -1
		var minDom int64 = 1 << 30
		for _, k := range c.enumConsts(dom) {
			v, _ := constant.Int64Val(k.Val())
			if v > maxDom {
				maxDom = v
			}
			if v < minDom {
				minDom = v
			}
			want := norm(strings.TrimSuffix(k.Name(), "Type"))
			c.Check(wireBy[v+ek] == want, "enum/"+k.Name(), "domain constant and wire constant at the encoded position name the same CRDT type", c.P.Pos(k.Pos()), k.Name()+" encodes to wire value "+itoa(int(v+ek))+" which is "+wireBy[v+ek])
		}
		c.Check(int64(len(wireBy)-1) == maxDom-minDom+1, "enum/count", "the wire enum has exactly one value per domain constant besides UNSPECIFIED", c.P.Pos(wire.Obj().Pos()), "counts differ")
		// range guard of the decoder: rejects exactly the values outside the image
		info := decK.Info()
		var lo, hi *int64
		ast.Inspect(decK.Decl.Body, func(n ast.Node) bool {
			be, ok := n.(*ast.BinaryExpr)
			if !ok || (be.Op != token.LSS && be.Op != token.GTR) {
				return true
			}
			cv := info.Types[be.Y].Value
			if cv == nil || !types.Identical(info.TypeOf(be.Y), wire) {
				return true
			}
			v, _ := constant.Int64Val(cv)
			if be.Op == token.LSS {
				lo = &v
			} else {
				hi = &v
			}
			return true
		})
		if lo == nil || hi == nil {
			c.Undecided("range/shape", "DecodeCRDTKey rejects wire values outside [lo, hi]", c.P.Pos(decK.Decl.Pos()), "range guard not found")
			return
		}
		c.Check(*lo == minDom+ek && *hi == maxDom+ek, "range/exact", "the decoder accepts exactly the image of the DataType constants", c.P.Pos(decK.Decl.Pos()),
			"accepts ["+itoa(int(*lo))+","+itoa(int(*hi))+"], image is ["+itoa(int(minDom+ek))+","+itoa(int(maxDom+ek))+"]")
	})
}

func identOf(e ast.Expr) *ast.Ident {
	id, _ := ast.Unparen(e).(*ast.Ident)
	return id
}

func boolList(m map[string]bool) string {
	var miss []string
	for _, k := range sortedKeys(m) {
		if !m[k] {
			miss = append(miss, "no "+k)
		}
	}
	return strings.Join(miss, ", ")
}
