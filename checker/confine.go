package main

import (
	"fmt"
	"go/ast"
	"go/types"
	"sort"
	"strings"

	"golang.org/x/tools/go/ssa"
)

// E1 confinement. "Every synchronous call path from an entry point to a target
// passes through a gate": compute the backward closure B of the targets over
// synchronous call edges, never expanding through a gate; no function of B may
// be an entry point. Entry points: exported API of exported types, functions
// with an incoming asynchronous edge (go statement, callback handed to a
// non-synchronous higher-order API), and functions without any caller.

type confineSpec struct {
	key     string
	rule    string
	targets []*ssa.Function
	gates   map[*ssa.Function]bool
	// allowed entry points (funcName -> one line of reason)
	allow map[string]string
	// entry points accepted as known-offending are not listed here: they are reported.
	exportedAreRoots bool
	// markers: functions at which the backward traversal stops; each is reported
	// as an entry point with the given reason (keeps report keys few and stable
	// when many public entry points funnel through one internal function).
	markers map[*ssa.Function]string
}

type confineResult struct {
	closure map[*ssa.Function]*ssa.Function // fn -> next hop towards target
	roots   []*ssa.Function
}

func (c *Ctx) Confine(sp confineSpec) *confineResult {
	x := c.P.CGx()
	next := map[*ssa.Function]*ssa.Function{}
	var q []*ssa.Function
	for _, t := range sp.targets {
		if _, ok := next[t]; !ok {
			next[t] = nil
			q = append(q, t)
		}
	}
	asyncInto := map[*ssa.Function]string{}
	for len(q) > 0 {
		fn := q[0]
		q = q[1:]
		for _, e := range x.In(fn) {
			caller := e.to
			if !c.P.firstParty(caller) {
				continue
			}
			if e.async {
				if _, ok := asyncInto[fn]; !ok {
					asyncInto[fn] = fmt.Sprintf("started asynchronously from %s at %s", ssaName(caller), c.P.Pos(e.pos))
				}
				continue
			}
			if sp.gates[caller] {
				continue
			}
			if _, ok := next[caller]; ok {
				continue
			}
			next[caller] = fn
			if _, isMarker := sp.markers[caller]; isMarker {
				continue
			}
			if sp.exportedAreRoots && isExportedAPI(caller) {
				continue // an exported entry point is a root already: its callers are arbitrary user code
			}
			q = append(q, caller)
		}
	}
	res := &confineResult{closure: next}
	var fns []*ssa.Function
	for fn := range next {
		fns = append(fns, fn)
	}
	sort.Slice(fns, func(i, j int) bool { return ssaName(fns[i]) < ssaName(fns[j]) })
	for _, fn := range fns {
		if sp.gates[fn] {
			continue
		}
		why := ""
		if m, ok := sp.markers[fn]; ok {
			why = m
		} else if a, ok := asyncInto[fn]; ok {
			why = a
		} else if sp.exportedAreRoots && isExportedAPI(fn) {
			why = "exported API (callable from any goroutine)"
		} else if !hasFirstPartySyncCaller(c, x, fn) {
			why = "no first-party synchronous caller (entry point / callback)"
		}
		chain := chainTo(next, fn)
		name := ssaName(fn)
		if why == "" {
			c.Ok(sp.key+"/via="+name, sp.rule+" — interior function: all its callers are themselves checked", c.P.Pos(fn.Pos()), chain)
			continue
		}
		res.roots = append(res.roots, fn)
		if reason, ok := sp.allow[name]; ok {
			c.Ok(sp.key+"/entry="+name+"/allowed", sp.rule+" — entry point allowed: "+reason, c.P.Pos(fn.Pos()), chain)
			continue
		}
		c.Bad(sp.key+"/entry="+name, sp.rule, c.P.Pos(fn.Pos()), fmt.Sprintf("%s is an entry point (%s) and reaches the target without passing a gate: %s", name, why, chain))
	}
	return res
}

func chainTo(next map[*ssa.Function]*ssa.Function, fn *ssa.Function) string {
	var parts []string
	for f := fn; f != nil; f = next[f] {
		parts = append(parts, ssaName(f))
		if len(parts) > 20 {
			parts = append(parts, "…")
			break
		}
	}
	return strings.Join(parts, " → ")
}

func hasFirstPartySyncCaller(c *Ctx, x *CG, fn *ssa.Function) bool {
	for _, e := range x.In(fn) {
		if !e.async && c.P.firstParty(e.to) {
			return true
		}
	}
	return false
}

func isExportedAPI(fn *ssa.Function) bool {
	if fn.Parent() != nil || fn.Synthetic != "" {
		return false
	}
	o, ok := fn.Object().(*types.Func)
	if !ok || !o.Exported() {
		return false
	}
	sig := o.Type().(*types.Signature)
	if sig.Recv() == nil {
		return true
	}
	t := sig.Recv().Type()
	if p, ok := t.(*types.Pointer); ok {
		t = p.Elem()
	}
	if n, ok := types.Unalias(t).(*types.Named); ok {
		return n.Obj().Exported()
	}
	return false
}

// enclosingSSA maps an AST position (inside fn's declaration, possibly in a
// nested literal) to the SSA function whose body contains it.
func (c *Ctx) enclosingSSA(u *Use) *ssa.Function {
	if u.EnclObj == nil {
		return nil
	}
	top := c.P.SSAFunc(u.EnclObj)
	if top == nil {
		return nil
	}
	if len(u.Lits) == 0 {
		return top
	}
	return findAnon(top, u.Lits[len(u.Lits)-1])
}

func findAnon(fn *ssa.Function, lit *ast.FuncLit) *ssa.Function {
	for _, a := range fn.AnonFuncs {
		if a.Syntax() == lit {
			return a
		}
		if r := findAnon(a, lit); r != nil {
			return r
		}
	}
	return nil
}

// ssaEnclosing finds the SSA function for a node inside decl (by literal nesting).
func (c *Ctx) ssaForNode(fn *Fn, lits []*ast.FuncLit) *ssa.Function {
	top := c.SSA(fn)
	if len(lits) == 0 {
		return top
	}
	if r := findAnon(top, lits[len(lits)-1]); r != nil {
		return r
	}
	c.Fail("no SSA function for literal in %s", fn)
	return nil
}

// DynamicCallSites finds, over all first-party packages, calls whose callee
// expression has the named function type t (e.g. actor.Behavior).
type astSite struct {
	Call     *ast.CallExpr
	EnclObj  *types.Func
	EnclDecl *ast.FuncDecl
	Lits     []*ast.FuncLit
	Pkg      string
	Info     *types.Info
}

func (c *Ctx) CallsWhere(pred func(info *types.Info, call *ast.CallExpr) bool) []astSite {
	var out []astSite
	for _, pk := range c.P.Pkgs {
		info := pk.TypesInfo
		for _, file := range pk.Syntax {
			for _, d := range file.Decls {
				fd, ok := d.(*ast.FuncDecl)
				if !ok || fd.Body == nil {
					continue
				}
				obj, _ := info.Defs[fd.Name].(*types.Func)
				var lits []*ast.FuncLit
				var walk func(n ast.Node)
				walk = func(n ast.Node) {
					ast.Inspect(n, func(m ast.Node) bool {
						if m == nil || m == n {
							return true
						}
						if lit, ok := m.(*ast.FuncLit); ok {
							lits = append(lits, lit)
							walk(lit.Body)
							lits = lits[:len(lits)-1]
							return false
						}
						if call, ok := m.(*ast.CallExpr); ok {
							c.sites++
							if pred(info, call) {
								out = append(out, astSite{Call: call, EnclObj: obj, EnclDecl: fd, Lits: append([]*ast.FuncLit(nil), lits...), Pkg: pk.PkgPath, Info: info})
							}
						}
						return true
					})
				}
				walk(fd.Body)
			}
		}
	}
	return out
}

func (s astSite) Name() string {
	n := funcName(s.EnclObj)
	if len(s.Lits) > 0 {
		n += fmt.Sprintf("$lit%d", len(s.Lits))
	}
	return n
}

func (c *Ctx) siteSSA(s astSite) *ssa.Function {
	top := c.P.SSAFunc(s.EnclObj)
	if top == nil {
		c.Fail("no SSA for %s", funcName(s.EnclObj))
	}
	if len(s.Lits) == 0 {
		return top
	}
	if r := findAnon(top, s.Lits[len(s.Lits)-1]); r != nil {
		return r
	}
	c.Fail("no SSA for literal in %s", funcName(s.EnclObj))
	return nil
}

// whoMayCall: the set of functions containing a static reference to target
// must be a subset of allow (funcName of the top-level enclosing function).
func (c *Ctx) WhoMayCall(key string, target *types.Func, allow map[string]string) {
	uses := c.UsesOf(target)
	seen := map[string]bool{}
	for _, u := range uses {
		name := u.EnclName()
		top := name
		if i := strings.Index(name, "$lit"); i >= 0 {
			top = name[:i]
		}
		if seen[name] {
			continue
		}
		seen[name] = true
		reason, ok := allow[top]
		k := fmt.Sprintf("%s/%s<-%s", key, funcName(target), name)
		rule := fmt.Sprintf("only the listed functions reference %s", funcName(target))
		if ok {
			c.Ok(k, rule+" ("+reason+")", u.Where(c.P))
		} else {
			c.Bad(k, rule, u.Where(c.P), fmt.Sprintf("%s references %s but is not in the allow-list %v", name, funcName(target), sortedKeys(allow)))
		}
	}
	if len(seen) == 0 {
		c.Undecided(fmt.Sprintf("%s/%s/no-reference", key, funcName(target)), "the confined function has at least one reference", "-", "no reference found: anchor lost?")
	}
}
