package main

import (
	"go/ast"
	"go/token"
	"go/types"
)

func init() {
	register(&propDef{
		id: "C07", title: "Failures are handled by exactly the configured supervision directive",
		technique: "exhaustive switch-table conformance over the Directive enum, CFG edge ordering of the directive lookup chain, guard dominance for the restart budget, writer/reader key agreement on the directive map, lockset",
		explanation: "Decides: (1) the parent's dispatch on the directive covers every declared Directive constant and maps Stop→handleStopDirective, Restart→handleRestartDirective, Resume→doReinstate, Escalate→a PanicSignal told to the parent, anything else→suspend; 'include siblings' is derived from Strategy == OneForAllStrategy only; (2) in notifyParent the directive for the concrete error is looked up first, the any-error directive only on the not-found edge of the first, and the actor is suspended without notifying only when both are absent; (3) restart budget: in handleRestartDirective the budget test (faults > maxRetries within a positive window) dominates every restart and its true edge reaches suspendGroup and no restart (shared with C08); restartCount is incremented only in restartSubtree and a restart re-runs init (PreStart); (4) Supervisor.Directive reads the directive map with the same key function (errorType) that WithDirective / WithAnyErrorDirective write with, under the supervisor's mutex; (5) the stop directive shuts down the child and, with the one-for-all strategy, every sibling, and removes stopped nodes from the tree. Added after seed C07b: under one-for-all EVERY sibling joins the group of the Stop and Restart directives — the result of tree.siblings reaches the group list whole (spread append or an unconditional per-element append), no per-sibling filter.",
		assumptions: []string{"behaviour over sequences of faults (alternating siblings, faults during a restart)", "reflection-based errorType naming is injective on the error types a user registers"},
		minObl:     20,
		run:        runC07,
	})
}

func runC07(c *Ctx) {
	directive := c.Named("supervisor", "Directive")
	c.Rule("dispatch", func() {
		hp := c.Func("actor", "PID.handlePanicking")
		sws := c.switchOn(hp, directive)
		if len(sws) != 1 {
			c.Fail("handlePanicking: expected exactly one switch over supervisor.Directive, found %d", len(sws))
		}
		want := map[string]*types.Func{
			"StopDirective": c.FuncObj("actor", "PID.handleStopDirective"), "RestartDirective": c.FuncObj("actor", "PID.handleRestartDirective"),
			"ResumeDirective": c.FuncObj("actor", "PID.doReinstate"), "EscalateDirective": c.FuncObj("actor", "PID.Tell"),
		}
		covered := map[string]bool{}
		hasDefault := false
		for _, sc := range sws[0] {
			if sc.isDef {
				hasDefault = true
				c.Check(hasCallee(sc, c.FuncObj("actor", "PID.suspend")), "default→suspend", "an unknown directive suspends the child", c.P.Pos(sc.clause.Pos()), "default branch does not suspend")
				continue
			}
			for _, k := range sc.consts {
				covered[k.Name()] = true
				w, ok := want[k.Name()]
				if !ok {
					c.Undecided("case/"+k.Name(), "directive constant is in the expected table", c.P.Pos(sc.clause.Pos()), "new directive constant: extend the table after reading the code")
					continue
				}
				c.Check(hasCallee(sc, w) && len(sc.consts) == 1, "case/"+k.Name()+"→"+funcName(w), "the "+k.Name()+" case runs exactly its handler", c.P.Pos(sc.clause.Pos()), "handler "+funcName(w)+" not called in this case (or the case is shared)")
				// no other directive's handler in this case
				for name, other := range want {
					if name != k.Name() && other != w && hasCallee(sc, other) {
						c.Bad("case/"+k.Name()+"/foreign", "a case runs only its own handler", c.P.Pos(sc.clause.Pos()), k.Name()+" also runs "+funcName(other))
					}
				}
				if k.Name() == "EscalateDirective" {
					c.Check(hasCallee(sc, c.FuncObj("actor", "NewPanicSignal")), "case/EscalateDirective/PanicSignal", "escalation forwards a PanicSignal", c.P.Pos(sc.clause.Pos()), "no NewPanicSignal in the escalate case")
				}
			}
		}
		for _, k := range c.enumConsts(directive) {
			c.Check(covered[k.Name()], "exhaustive/"+k.Name(), "every declared Directive constant has its own case", c.P.Pos(hp.Decl.Pos()), k.Name()+" falls into the default branch")
		}
		c.Check(hasDefault, "has-default", "the dispatch has a default branch", c.P.Pos(hp.Decl.Pos()), "")
		// includeSiblings := msg.Strategy == supervisor.OneForAllStrategy
		info := hp.Info()
		okSib := false
		resolve := func(e ast.Expr) ast.Expr {
			e = ast.Unparen(e)
			if id, ok := e.(*ast.Ident); ok {
				if def := singleLocalDefIn(info, hp.Decl.Body, info.ObjectOf(id)); def != nil {
					return ast.Unparen(def)
				}
			}
			return e
		}
		nSibCalls := 0
		okAll := true
		ast.Inspect(hp.Decl.Body, func(n ast.Node) bool {
			call, ok := n.(*ast.CallExpr)
			if !ok {
				return true
			}
			cal := callee(info, call)
			if cal == nil || (cal != c.FuncObj("actor", "PID.handleStopDirective") && cal != c.FuncObj("actor", "PID.handleRestartDirective")) || len(call.Args) == 0 {
				return true
			}
			nSibCalls++
			good := false
			if be, ok := resolve(call.Args[len(call.Args)-1]).(*ast.BinaryExpr); ok && be.Op == token.EQL {
				if k, ok := objOfConst(info, be.Y); ok && k.Name() == "OneForAllStrategy" {
					if f := selField(info, be.X); f != nil && f.Name() == "Strategy" {
						good = true
					}
				}
			}
			if !good {
				okAll = false
			}
			return true
		})
		okSib = okAll && nSibCalls >= 2
		c.Check(okSib, "siblings-iff-one-for-all", "siblings are included exactly when the configured strategy is one-for-all", c.P.Pos(hp.Decl.Pos()), "includeSiblings is not 'msg.Strategy == OneForAllStrategy'")
		// the directive switched on is the message's directive, the supervisor passed on is the message's
		okDir := false
		ast.Inspect(hp.Decl.Body, func(n ast.Node) bool {
			if sw, ok := n.(*ast.SwitchStmt); ok && sw.Tag != nil {
				if t := info.TypeOf(sw.Tag); t != nil && namedOf(t) != nil && namedOf(t).Obj().Name() == "Directive" {
					if f := selField(info, resolve(sw.Tag)); f != nil && f.Name() == "Directive" {
						okDir = true
					}
				}
			}
			return true
		})
		c.Check(okDir, "switch-on-message-directive", "the directive applied is the one carried by the Panicking message", c.P.Pos(hp.Decl.Pos()), "")
	})

	c.Rule("lookup-chain", func() {
		np := c.Func("actor", "PID.notifyParent")
		f := c.NewFlow(np)
		info := f.Info
		dir := c.FuncObj("supervisor", "Supervisor.Directive")
		calls := f.Find(f.CallTo(dir))
		if len(calls) != 2 {
			c.Fail("notifyParent: expected two Supervisor.Directive lookups, found %d", len(calls))
		}
		first, second := calls[0], calls[1]
		if first.N.Pos() > second.N.Pos() {
			first, second = second, first
		}
		// first looks up the signal's error, second the AnyError
		isAny := func(call *ast.CallExpr) bool {
			found := false
			ast.Inspect(call.Args[0], func(n ast.Node) bool {
				if id, ok := n.(*ast.Ident); ok && id.Name == "AnyError" {
					found = true
				}
				return true
			})
			return found
		}
		c.Check(!isAny(first.N.(*ast.CallExpr)) && isAny(second.N.(*ast.CallExpr)), "specific-then-any", "the directive registered for the concrete error is looked up before the any-error directive", c.P.Pos(np.Decl.Pos()), "lookup order changed")
		// the second lookup only on the !ok edge of the first
		var okObj types.Object
		ast.Inspect(np.Decl.Body, func(n ast.Node) bool {
			if as, ok := n.(*ast.AssignStmt); ok && len(as.Rhs) == 1 && as.Rhs[0] == first.N.(ast.Expr) && len(as.Lhs) == 2 {
				okObj = info.ObjectOf(as.Lhs[1].(*ast.Ident))
			}
			return true
		})
		notFound := f.CondEdges(func(e ast.Expr) bool { id, ok := e.(*ast.Ident); return ok && info.ObjectOf(id) == okObj && okObj != nil }, false)
		w := f.search(searchSpec{avoidEdges: notFound, target: func(n ast.Node) bool { return n == second.N }})
		c.Check(w == nil && len(notFound) > 0, "any-only-if-specific-missing", "the any-error directive is consulted only when no directive exists for the concrete error", c.P.Pos(np.Decl.Pos()), f.describe(w))
		// suspend-without-notify only after both lookups failed
		suspend := f.CallTo(c.FuncObj("actor", "PID.suspend"))
		tell := f.CallTo(c.FuncObj("actor", "PID.Tell"))
		w = f.MustPrecede(f.CallTo(dir), nil, suspend)
		c.Check(w == nil, "lookup≺suspend", "the actor is never suspended before its directive was looked up", c.P.Pos(np.Decl.Pos()), f.describe(w))
		w = f.MustPrecede(suspend, nil, tell)
		c.Check(w == nil && len(f.Find(tell)) >= 1, "suspend≺notify", "the child is suspended before its parent is told about the failure", c.P.Pos(np.Decl.Pos()), f.describe(w))
		// the Panicking message carries the looked-up directive, the strategy and the supervisor
		okMsg := false
		ast.Inspect(np.Decl.Body, func(n ast.Node) bool {
			cl, ok := n.(*ast.CompositeLit)
			if !ok {
				return true
			}
			if t := info.TypeOf(cl); t == nil || !isNamed(t, "Panicking") {
				return true
			}
			keys := map[string]string{}
			fromLookup := false
			for _, el := range cl.Elts {
				if kv, ok := el.(*ast.KeyValueExpr); ok {
					keys[kv.Key.(*ast.Ident).Name] = types.ExprString(kv.Value)
					if kv.Key.(*ast.Ident).Name == "Directive" {
						// the value is a variable that receives the result of a Supervisor.Directive lookup
						if o := objOf(info, kv.Value); o != nil {
							ast.Inspect(np.Decl.Body, func(m ast.Node) bool {
								if as, ok := m.(*ast.AssignStmt); ok && len(as.Rhs) == 1 && len(as.Lhs) >= 1 && objOf(info, as.Lhs[0]) == o {
									if call, ok := ast.Unparen(as.Rhs[0]).(*ast.CallExpr); ok && callee(info, call) == dir {
										fromLookup = true
									}
								}
								return true
							})
						}
					}
				}
			}
			okMsg = fromLookup && keys["Strategy"] != "" && keys["Supervisor"] != "" && keys["Err"] != ""
			return true
		})
		c.Check(okMsg, "message-carries-directive", "the Panicking message carries the looked-up directive, the strategy, the supervisor and the error", c.P.Pos(np.Decl.Pos()), "Panicking literal changed")
	})

	c.Rule("restart", func() {
		rc := c.Field("actor", "PID", "restartCount")
		for _, u := range c.UsesOf(rc) {
			if u.Sel == nil {
				continue
			}
			par := u.Path[len(u.Path)-2]
			if sel, ok := par.(*ast.SelectorExpr); ok && (sel.Sel.Name == "Inc" || sel.Sel.Name == "Add" || sel.Sel.Name == "Store") {
				okFn := funcName(u.EnclObj) == "actor.restartSubtree" || (sel.Sel.Name == "Store" && (funcName(u.EnclObj) == "actor.(*PID).reset" || funcName(u.EnclObj) == "actor.newPID"))
				c.Check(okFn, "restartCount."+sel.Sel.Name+"@"+u.EnclName(), "the restart counter changes only when a restart actually ran (restartSubtree) or the PID is reset", u.Where(c.P), "restart counter modified in "+u.EnclName())
			}
		}
		rs := c.Func("actor", "restartSubtree")
		f := c.NewFlow(rs)
		w := f.MustPrecede(f.CallTo(c.FuncObj("actor", "PID.init")), nil, f.CallOnField(rc, "Inc"))
		c.Check(w == nil, "init≺count", "a restart is counted only after the new incarnation was initialised (PreStart re-run)", c.P.Pos(rs.Decl.Pos()), f.describe(w))
	})

	c.Rule("directive-map", func() {
		et := c.FuncObj("supervisor", "errorType")
		get := c.Func("supervisor", "Supervisor.Directive")
		info := get.Info()
		okGet := false
		ast.Inspect(get.Decl.Body, func(n ast.Node) bool {
			if call, ok := n.(*ast.CallExpr); ok {
				if sel, ok := call.Fun.(*ast.SelectorExpr); ok && sel.Sel.Name == "Get" && len(call.Args) == 1 {
					if inner, ok := call.Args[0].(*ast.CallExpr); ok && callee(info, inner) == et {
						okGet = true
					}
				}
			}
			return true
		})
		c.Check(okGet, "read-key=errorType(err)", "the directive is read under the key errorType(err)", c.P.Pos(get.Decl.Pos()), "")
		for _, name := range []string{"WithDirective", "WithAnyErrorDirective"} {
			fn := c.Func("supervisor", name)
			finfo := fn.Info()
			okSet := false
			ast.Inspect(fn.Decl.Body, func(n ast.Node) bool {
				if call, ok := n.(*ast.CallExpr); ok {
					if sel, ok := call.Fun.(*ast.SelectorExpr); ok && sel.Sel.Name == "Set" && len(call.Args) == 2 {
						if inner, ok := call.Args[0].(*ast.CallExpr); ok && callee(finfo, inner) == et {
							okSet = true
						}
					}
				}
				return true
			})
			c.Check(okSet, name+"/write-key=errorType(err)", "the directive is stored under the same key function the lookup uses", c.P.Pos(fn.Decl.Pos()), "")
		}
		// map accessed under the embedded mutex in Directive
		f := c.NewFlow(get)
		la := f.Locks(nil)
		dirs := c.Field("supervisor", "Supervisor", "directives")
		bad := ""
		for _, a := range f.Find(func(n ast.Node) bool { s, ok := n.(*ast.SelectorExpr); return ok && selField(f.Info, s) == dirs }) {
			held := false
			for _, v := range la.At(a) {
				if v == 2 {
					held = true
				}
			}
			if !held {
				bad = c.P.Pos(a.N.Pos())
			}
		}
		c.Check(bad == "", "lookup-under-mutex", "the directive map is read with the supervisor's mutex held", c.P.Pos(get.Decl.Pos()), "unlocked access at "+bad)
	})

	c.Rule("stop-directive", func() {
		sd := c.Func("actor", "PID.handleStopDirective")
		info := sd.Info()
		var rng *ast.RangeStmt
		ast.Inspect(sd.Decl.Body, func(n ast.Node) bool {
			if r, ok := n.(*ast.RangeStmt); ok {
				rng = r
			}
			return true
		})
		if rng == nil {
			c.Fail("handleStopDirective: loop over the group not found")
		}
		shut, del := false, false
		ast.Inspect(rng.Body, func(n ast.Node) bool {
			if call, ok := n.(*ast.CallExpr); ok {
				if cal := callee(info, call); cal != nil {
					if cal == c.FuncObj("actor", "PID.Shutdown") {
						shut = true
					}
					if cal.Name() == "deleteNode" {
						del = true
					}
				}
			}
			return true
		})
		c.Check(shut && del, "stops-each-member", "every member of the group (child, plus siblings under one-for-all) is shut down and removed from the tree", c.P.Pos(rng.Pos()), "")
		// siblings appended only under includeSiblings
		f := c.NewFlow(sd)
		sib := f.CallTo(c.FuncObj("actor", "tree.siblings"))
		sdParams := sd.Obj.Type().(*types.Signature).Params()
		inc := f.CondEdges(func(e ast.Expr) bool { return sdParams.Len() > 0 && objOf(f.Info, e) == types.Object(sdParams.At(sdParams.Len()-1)) }, true)
		w := f.search(searchSpec{avoidEdges: inc, target: sib})
		c.Check(w == nil && len(inc) > 0, "siblings-only-if-included", "siblings are stopped only under the one-for-all strategy", c.P.Pos(sd.Decl.Pos()), f.describe(w))
		// under one-for-all EVERY sibling joins the group: the result of tree.siblings is added wholesale (spread append,
		// or a loop that appends each element with no per-element condition). A filter (e.g. "only running siblings")
		// leaves suspended siblings out of the directive.
		for _, name := range []string{"PID.handleStopDirective", "PID.handleRestartDirective"} {
			fn := c.Func("actor", name)
			c.Check(everySiblingJoins(c, fn), name+"/every-sibling-joins", "under one-for-all every sibling of the faulty child joins the group the directive is applied to (no per-sibling filter)", c.P.Pos(fn.Decl.Pos()), "the siblings list is filtered, re-assigned or only partly appended")
		}
	})
}

func isNamed(t types.Type, name string) bool {
	if p, ok := t.(*types.Pointer); ok {
		t = p.Elem()
	}
	n, ok := types.Unalias(t).(*types.Named)
	return ok && n.Obj().Name() == name
}

// everySiblingJoins: the slice returned by tree.siblings reaches the group list whole.
func everySiblingJoins(c *Ctx, fn *Fn) bool {
	info := fn.Info()
	sibFn := c.FuncObj("actor", "tree.siblings")
	isSibCall := func(e ast.Expr) bool {
		call, ok := ast.Unparen(e).(*ast.CallExpr)
		return ok && callee(info, call) == sibFn
	}
	// the siblings value: the call itself or a single-definition local holding it
	isSiblings := func(e ast.Expr) bool {
		if isSibCall(e) {
			return true
		}
		if id, ok := ast.Unparen(e).(*ast.Ident); ok {
			if def := singleLocalDefIn(info, fn.Decl.Body, info.ObjectOf(id)); def != nil {
				return isSibCall(def)
			}
		}
		return false
	}
	nCalls, whole := 0, 0
	ast.Inspect(fn.Decl.Body, func(n ast.Node) bool {
		switch x := n.(type) {
		case *ast.CallExpr:
			if isSibCall(x) {
				nCalls++
			}
			if id, ok := x.Fun.(*ast.Ident); ok && id.Name == "append" && len(x.Args) == 2 && x.Ellipsis.IsValid() && isSiblings(x.Args[1]) {
				whole++
			}
		case *ast.RangeStmt:
			if !isSiblings(x.X) || x.Value == nil {
				return true
			}
			val := info.ObjectOf(x.Value.(*ast.Ident))
			// every top-level statement of the body up to the append is free of branches
			for _, st := range x.Body.List {
				if as, ok := st.(*ast.AssignStmt); ok && len(as.Rhs) == 1 {
					if call, ok := as.Rhs[0].(*ast.CallExpr); ok {
						if id, ok := call.Fun.(*ast.Ident); ok && id.Name == "append" && len(call.Args) == 2 && objOf(info, call.Args[1]) == val {
							whole++
							break
						}
					}
				}
				switch st.(type) {
				case *ast.IfStmt, *ast.SwitchStmt, *ast.BranchStmt, *ast.ReturnStmt, *ast.ForStmt, *ast.RangeStmt:
					return true // a condition or exit before the append: not unconditional
				}
			}
		}
		return true
	})
	return nCalls == 1 && whole == 1
}
