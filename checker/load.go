package main

import (
	"fmt"
	"go/ast"
	"go/token"
	"go/types"
	"os"
	"sort"
	"strings"

	"golang.org/x/tools/go/callgraph"
	"golang.org/x/tools/go/callgraph/cha"
	"golang.org/x/tools/go/callgraph/vta"
	"golang.org/x/tools/go/packages"
	"golang.org/x/tools/go/ssa"
	"golang.org/x/tools/go/ssa/ssautil"
)

const modPath = "github.com/tochemey/goakt/v4"

// Prog is the resolved program: type-checked first-party packages (syntax for
// every first-party package, export data for the rest), SSA bodies for
// first-party functions and a VTA call graph, built lazily.
type Prog struct {
	RepoDir string
	Fset    *token.FileSet
	Pkgs    []*packages.Package
	ByPath  map[string]*packages.Package

	declOf map[*types.Func]*ast.FuncDecl
	pkgOf  map[*types.Func]*packages.Package
	fileOf map[*ast.File]*packages.Package

	ssaProg *ssa.Program
	ssaPkgs []*ssa.Package
	cg      *callgraph.Graph
	allFns  map[*ssa.Function]bool
	uses    *useIndex
	cgx     *CG

	// statistics for evidence
	NumFuncDecls int
	NumFiles     int
}

func loadProg(repo string) (*Prog, error) {
	cfg := &packages.Config{
		Mode:  packages.LoadSyntax | packages.NeedModule,
		Dir:   repo,
		Tests: false,
		Env:   append(os.Environ(), "GOFLAGS=-mod=mod -trimpath", "GOPROXY=off", "GOSUMDB=off", "GOWORK=off", "GOTOOLCHAIN=local"),
	}
	pkgs, err := packages.Load(cfg, "./...")
	if err != nil {
		return nil, err
	}
	p := &Prog{RepoDir: repo, ByPath: map[string]*packages.Package{}, declOf: map[*types.Func]*ast.FuncDecl{}, pkgOf: map[*types.Func]*packages.Package{}, fileOf: map[*ast.File]*packages.Package{}}
	var errs []string
	for _, pk := range pkgs {
		for _, e := range pk.Errors {
			errs = append(errs, pk.PkgPath+": "+e.Error())
		}
		if pk.Types == nil || pk.TypesInfo == nil {
			errs = append(errs, pk.PkgPath+": no type information")
			continue
		}
		p.Fset = pk.Fset
		p.ByPath[pk.PkgPath] = pk
		p.Pkgs = append(p.Pkgs, pk)
		for _, f := range pk.Syntax {
			p.NumFiles++
			p.fileOf[f] = pk
			for _, d := range f.Decls {
				if fd, ok := d.(*ast.FuncDecl); ok {
					if obj, ok := pk.TypesInfo.Defs[fd.Name].(*types.Func); ok {
						p.declOf[obj] = fd
						p.pkgOf[obj] = pk
						p.NumFuncDecls++
					}
				}
			}
		}
	}
	if len(errs) > 0 {
		sort.Strings(errs)
		if len(errs) > 20 {
			errs = errs[:20]
		}
		return nil, fmt.Errorf("load/type errors (the tree must build):\n%s", strings.Join(errs, "\n"))
	}
	if len(p.Pkgs) < 40 {
		return nil, fmt.Errorf("only %d packages loaded from %s; expected >= 40", len(p.Pkgs), repo)
	}
	sort.Slice(p.Pkgs, func(i, j int) bool { return p.Pkgs[i].PkgPath < p.Pkgs[j].PkgPath })
	indexRangeVars(p)
	return p, nil
}

// Pkg returns the first-party package with the given module-relative path.
func (p *Prog) Pkg(rel string) *packages.Package {
	if rel == "" {
		return p.ByPath[modPath]
	}
	return p.ByPath[modPath+"/"+rel]
}

// BuildSSA builds SSA for all first-party packages (bodies) once.
func (p *Prog) BuildSSA() {
	if p.ssaProg != nil {
		return
	}
	prog, pkgs := ssautil.Packages(p.Pkgs, ssa.InstantiateGenerics)
	prog.Build()
	p.ssaProg = prog
	p.ssaPkgs = pkgs
	p.allFns = ssautil.AllFunctions(prog)
}

// CallGraph returns the VTA call graph (over a CHA seed) of the program.
func (p *Prog) CallGraph() *callgraph.Graph {
	if p.cg != nil {
		return p.cg
	}
	p.BuildSSA()
	p.cg = vta.CallGraph(p.allFns, cha.CallGraph(p.ssaProg))
	return p.cg
}

func (p *Prog) SSAFunc(obj *types.Func) *ssa.Function {
	p.BuildSSA()
	return p.ssaProg.FuncValue(obj)
}

func (p *Prog) Pos(pos token.Pos) string {
	if !pos.IsValid() {
		return "-"
	}
	ps := p.Fset.Position(pos)
	f := strings.TrimPrefix(ps.Filename, p.RepoDir+"/")
	return fmt.Sprintf("%s:%d", f, ps.Line)
}
