package main

import (
	"go/ast"
	"go/types"
)

func init() {
	register(&propDef{
		id: "C37", title: "Spawn configuration survives the wire",
		technique: "codec-pair field coverage (writer/reader agreement on every wire message, domain-field coverage of encoder and decoder through accessors and option constructors), enum-map inverse check, oneof produced/handled agreement",
		explanation: "Decides writer/reader agreement for the spawn configuration: (1) for the wire messages Actor, SupervisorSpec, SupervisorDirectiveRule, PassivationStrategy (+ its three variants), ReentrancyConfig, Dependency, SingletonSpec every data field written by the encode side (PID.toSerialize and the codec Encode* functions) is read by the decode side (recreateActorFromWire / wireSpawnOptions and the codec Decode* functions) and vice versa; (2) domain coverage: every configuration field of supervisor.Supervisor, reentrancy.Reentrancy and the passivation strategies is read on the encode path and set on the decode path (accessors and option constructors are followed); (3) enum maps (supervisor strategy, supervisor directive, reentrancy mode) are mutually inverse on their explicit cases and cover every domain constant; (4) oneof: every PassivationStrategy wrapper the encoder produces is handled by the decoder. The same rule applied to remote.SpawnRequest → RemoteSpawnRequest → remote spawn handler.",
		assumptions: []string{"value equality of the encoded fields (protobuf library)", "user dependencies serialise themselves (MarshalBinary/UnmarshalBinary contract)"},
		minObl:     60,
		run:        runC37,
	})
}

func runC37(c *Ctx) {
	f := func(pkg, name string) *types.Func { return c.FuncObj(pkg, name) }
	encRoots := []*types.Func{f("actor", "PID.toSerialize"), f("internal/codec", "EncodeSupervisor"), f("internal/codec", "EncodePassivationStrategy"), f("internal/codec", "EncodeReentrancy"), f("internal/codec", "EncodeDependencies"), f("actor", "reentrancyState.toProto")}
	decRoots := []*types.Func{f("actor", "actorSystem.wireSpawnOptions"), f("actor", "actorSystem.recreateActorFromWire"), f("internal/codec", "DecodeSupervisor"), f("internal/codec", "DecodePassivationStrategy"), f("internal/codec", "DecodeReentrancy"), f("internal/codec", "DecodeDependencies")}
	stop := func(fn *types.Func) bool {
		// do not wander into the runtime proper from the codec roots
		n := fn.Name()
		return n == "Spawn" || n == "spawnRelocatedActor" || n == "Tell" || n == "Ask" || n == "doReceive"
	}
	var enc, dec *sideFacts
	c.Rule("collect", func() {
		enc = c.collectSide(encRoots, 3, stop)
		dec = c.collectSide(decRoots, 4, stop)
		c.Ok("sides", "encode and decode sides collected", "-")
	})
	if enc == nil || dec == nil {
		return
	}
	c.Rule("wire", func() {
		exempt := map[string]string{
			"Actor.Address":           "identity, consumed by the caller of the decoder (address parse), not a spawn option",
			"Actor.Type":              "actor type name, resolved through the type registry by the caller",
			"Actor.Relocatable":       "only relocatable actors are recreated; read by the relocation planner",
			"Actor.IncarnationId":     "a recreated actor gets a new incarnation",
			"Actor.ReliableCompanion": "companion controllers are recreated by their endpoint",
			"Actor.Singleton":         "singletons are recreated through the singleton path (C36)",
			"Dependency.Id":           "informational on the wire: a dependency restores its own ID in UnmarshalBinary (extension.Dependency contract)",
		}
		for _, name := range []string{"Actor", "SupervisorSpec", "SupervisorDirectiveRule", "ReentrancyConfig", "Dependency", "PassivationStrategy", "TimeBasedPassivation", "MessagesCountBasedPassivation"} {
			msg := c.Named("internal/internalpb", name)
			c.checkWireMessage("wire", msg, enc, dec, exempt)
		}
	})
	c.Rule("domain", func() {
		c.checkDomain("domain", c.Named("supervisor", "Supervisor"), enc, dec, map[string]string{})
		c.checkDomain("domain", c.Named("reentrancy", "Reentrancy"), enc, dec, map[string]string{})
		c.checkDomain("domain", c.Named("passivation", "TimeBasedStrategy"), enc, dec, map[string]string{})
		c.checkDomain("domain", c.Named("passivation", "MessagesCountBasedStrategy"), enc, dec, map[string]string{})
	})
	c.Rule("enums", func() {
		c.checkEnumInverse("strategy", c.Func("internal/codec", "encodeSupervisorStrategy"), c.Func("internal/codec", "decodeSupervisorStrategy"), c.Named("supervisor", "Strategy"))
		c.checkEnumInverse("directive", c.Func("internal/codec", "encodeSupervisorDirective"), c.Func("internal/codec", "decodeSupervisorDirective"), c.Named("supervisor", "Directive"))
		c.checkEnumInverse("reentrancy-mode", c.Func("internal/codec", "toInternalReentrancyMode"), c.Func("internal/codec", "fromInternalReentrancyMode"), c.Named("reentrancy", "Mode"))
	})
	c.Rule("normalising-constructor", func() {
		// NewSupervisor normalises the directive table after applying its options (an any-error directive
		// replaces every other rule). A SupervisorOption applied to an already constructed supervisor skips
		// that step, so the decoded supervisor differs from the encoded one.
		opt := c.Named("supervisor", "SupervisorOption")
		sites := c.CallsWhere(func(info *types.Info, call *ast.CallExpr) bool {
			t := info.TypeOf(call.Fun)
			return t != nil && types.Identical(types.Unalias(t), opt)
		})
		n := 0
		for _, st := range sites {
			n++
			c.Check(funcName(st.EnclObj) == "supervisor.NewSupervisor", "option-applied@"+st.Name(), "supervisor options take effect only inside NewSupervisor, which normalises the directive table afterwards (any-error overrides all)", c.P.Pos(st.Call.Pos()),
				"a SupervisorOption is applied to an existing supervisor in "+st.Name()+": the constructor's normalisation is skipped and default/specific directives survive next to the any-error directive")
		}
		if n == 0 {
			c.Undecided("option-application-sites", "NewSupervisor applies its options", "-", "no application site found")
		}
		// DecodeSupervisor builds through NewSupervisor on every non-nil path
		ds := c.Func("internal/codec", "DecodeSupervisor")
		f := c.NewFlow(ds)
		ns := f.CallTo(c.FuncObj("supervisor", "NewSupervisor"))
		nilSpec := f.NilCheckEdges(func(e ast.Expr) bool {
			ps := ds.Obj.Type().(*types.Signature).Params()
			return ps.Len() == 1 && objOf(f.Info, e) == types.Object(ps.At(0))
		}, false)
		w := f.ExitReachable(nil, ns, nilSpec, nil)
		c.Check(w == nil, "decode-constructs-via-NewSupervisor", "every non-nil spec is decoded through NewSupervisor", c.P.Pos(ds.Decl.Pos()), f.describe(w))
	})

	c.Rule("oneof", func() {
		n := 0
		for w, pos := range enc.oneofNew {
			if len(w) < 20 || w[:20] != "PassivationStrategy_" {
				continue
			}
			n++
			_, ok := dec.oneofSw[w]
			c.Check(ok, "PassivationStrategy/"+w, "every passivation variant the encoder produces is handled by the decoder", pos, w+" is produced but never handled")
		}
		for w, pos := range dec.oneofSw {
			if len(w) < 20 || w[:20] != "PassivationStrategy_" {
				continue
			}
			_, ok := enc.oneofNew[w]
			c.Check(ok, "PassivationStrategy/handled/"+w, "every passivation variant the decoder handles is produced by the encoder", pos, w+" is handled but never produced")
		}
		if n < 3 {
			c.Undecided("PassivationStrategy/count", "three passivation variants are produced", "-", "found fewer")
		}
	})
}
