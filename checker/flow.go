package main

import (
	"fmt"
	"go/ast"
	"go/token"
	"go/types"
	"sort"
	"strings"

	"golang.org/x/tools/go/cfg"
)

// Flow is the control-flow graph of one function body with, per block, the
// ordered list of AST "atoms" (every sub-node in evaluation (post-) order).
// Function literals are placed where they run when that is known (immediately
// invoked, passed to a synchronous combinator, deferred) and skipped otherwise.
type Flow struct {
	c     *Ctx
	Name  string
	Info  *types.Info
	Body  *ast.BlockStmt
	G     *cfg.CFG
	atoms map[*cfg.Block][]*Atom
	exitAtoms map[*cfg.Block][]*Atom // deferred atoms appended at each exit block
	defers []*deferRec
	dom   map[*cfg.Block]map[*cfg.Block]bool
	backEdges map[Edge]bool
	tags  map[ast.Expr]ast.Expr // case expression -> tag of its tagged switch
}

type Atom struct {
	N    ast.Node
	Blk  *cfg.Block
	Idx  int
	May  bool         // comes from a defer that does not dominate this exit
	Lit  *ast.FuncLit // innermost inlined literal containing the node (nil = function body proper)
	Deferred bool
	Seq  ast.Node // fail-fast chain group (base chain.New call): runs iff all earlier atoms of the group ran
}

type deferRec struct {
	stmt  *ast.DeferStmt
	blk   *cfg.Block
	idx   int
	atoms []deferAtom
	lit   *ast.FuncLit
}

type deferAtom struct {
	n  ast.Node
	fl atomFlags
}

type litMode int

const (
	litSkip litMode = iota
	litInline
)

// syncCombinators: higher-order functions that run their function argument
// synchronously, inside the caller's dynamic extent (one line of reason each).
var syncCombinators = map[string]string{
	"sync.(*Once).Do":                                  "runs f before returning",
	"sort.Slice":                                       "comparator runs during the call",
	"sort.SliceStable":                                 "comparator runs during the call",
	"slices.SortFunc":                                  "comparator runs during the call",
	"slices.SortStableFunc":                            "comparator runs during the call",
	"slices.IndexFunc":                                 "predicate runs during the call",
	"slices.ContainsFunc":                              "predicate runs during the call",
	"slices.DeleteFunc":                                "predicate runs during the call",
	modPath + "/internal/xsync.(*Map).Range":           "iterates under the call",
	modPath + "/internal/chain.(*Chain).AddRunner":     "runner executes at Run(), on the caller's goroutine; order = registration order",
	modPath + "/internal/chain.(*Chain).AddContextRunner": "runner executes at Run(), on the caller's goroutine",
	modPath + "/internal/chain.(*Chain).AddRunnerIf":   "as AddRunner, conditional",
	modPath + "/internal/chain.(*Chain).AddContextRunnerIf": "as AddRunner, conditional",
	"github.com/flowchartsman/retry.(*Retrier).RunContext": "runs f synchronously, possibly several times",
	"github.com/flowchartsman/retry.(*Retrier).Run":    "runs f synchronously, possibly several times",
}

func qualifiedName(f *types.Func) string {
	if f == nil {
		return ""
	}
	sig, _ := f.Type().(*types.Signature)
	if sig != nil && sig.Recv() != nil {
		t := sig.Recv().Type()
		ptr := ""
		if p, ok := t.(*types.Pointer); ok {
			t = p.Elem()
			ptr = "*"
		}
		if n, ok := types.Unalias(t).(*types.Named); ok {
			pp := ""
			if n.Obj().Pkg() != nil {
				pp = n.Obj().Pkg().Path()
			}
			return fmt.Sprintf("%s.(%s%s).%s", pp, ptr, n.Obj().Name(), f.Name())
		}
		return f.FullName()
	}
	if f.Pkg() == nil {
		return f.Name()
	}
	return f.Pkg().Path() + "." + f.Name()
}

func isNoReturnCall(info *types.Info, call *ast.CallExpr) bool {
	if id, ok := ast.Unparen(call.Fun).(*ast.Ident); ok {
		if b, ok := info.Uses[id].(*types.Builtin); ok && b.Name() == "panic" {
			return true
		}
	}
	if f := callee(info, call); f != nil {
		switch qualifiedName(f) {
		case "os.Exit", "log.Fatal", "log.Fatalf", "log.Panic", "log.Panicf", "runtime.Goexit":
			return true
		}
	}
	return false
}

// NewFlow builds the flow of a function declaration.
func (c *Ctx) NewFlow(fn *Fn) *Flow {
	return c.newFlow(fn.String(), fn.Info(), fn.Decl.Body)
}

// NewLitFlow builds the flow of a function literal's body.
func (c *Ctx) NewLitFlow(name string, info *types.Info, lit *ast.FuncLit) *Flow {
	return c.newFlow(name, info, lit.Body)
}

func (c *Ctx) newFlow(name string, info *types.Info, body *ast.BlockStmt) *Flow {
	f := &Flow{c: c, Name: name, Info: info, Body: body, atoms: map[*cfg.Block][]*Atom{}, exitAtoms: map[*cfg.Block][]*Atom{}}
	f.G = cfg.New(body, func(call *ast.CallExpr) bool { return !isNoReturnCall(info, call) })
	// select statements: go/cfg evaluates every comm statement in the block
	// before the select; a communication happens only in the chosen case, so
	// its atoms are moved to the head of that case's body block.
	commOf := map[ast.Stmt]bool{}
	ast.Inspect(body, func(n ast.Node) bool {
		if _, ok := n.(*ast.FuncLit); ok {
			return false
		}
		if cc, ok := n.(*ast.CommClause); ok && cc.Comm != nil {
			commOf[cc.Comm] = true
		}
		return true
	})
	for _, b := range f.G.Blocks {
		if !b.Live {
			continue
		}
		var list []*Atom
		add := func(n ast.Node, fl atomFlags) {
			list = append(list, &Atom{N: n, Blk: b, Lit: fl.lit, May: fl.may, Seq: fl.seq})
		}
		if b.Kind == cfg.KindSelectCaseBody {
			if cc, ok := b.Stmt.(*ast.CommClause); ok && cc.Comm != nil {
				f.collect(cc.Comm, atomFlags{}, add)
			}
		}
		for _, n := range b.Nodes {
			if st, ok := n.(ast.Stmt); ok && commOf[st] {
				continue
			}
			if ds, ok := n.(*ast.DeferStmt); ok {
				rec := &deferRec{stmt: ds, blk: b, idx: len(list)}
				// arguments are evaluated now; the call (and an IIFE body) runs at exit
				for _, a := range ds.Call.Args {
					f.collect(a, atomFlags{}, add)
				}
				if lit, ok := ast.Unparen(ds.Call.Fun).(*ast.FuncLit); ok {
					rec.lit = lit
					f.inlineBody(lit, atomFlags{}, func(n ast.Node, fl atomFlags) { rec.atoms = append(rec.atoms, deferAtom{n, fl}) })
				} else {
					f.collect(ds.Call.Fun, atomFlags{}, func(n ast.Node, fl atomFlags) { rec.atoms = append(rec.atoms, deferAtom{n, fl}) })
				}
				rec.atoms = append(rec.atoms, deferAtom{ds.Call, atomFlags{}})
				f.defers = append(f.defers, rec)
				list = append(list, &Atom{N: ds, Blk: b})
				continue
			}
			if gs, ok := n.(*ast.GoStmt); ok {
				for _, a := range gs.Call.Args {
					f.collect(a, atomFlags{}, add)
				}
				list = append(list, &Atom{N: gs, Blk: b})
				continue
			}
			f.collect(n, atomFlags{}, add)
		}
		for i, a := range list {
			a.Idx = i
		}
		f.atoms[b] = list
		c.sites += len(list)
	}
	// deferred atoms at exits
	if len(f.defers) > 0 {
		for _, b := range f.G.Blocks {
			if !b.Live || len(b.Succs) != 0 {
				continue
			}
			var ex []*Atom
			for i := len(f.defers) - 1; i >= 0; i-- {
				d := f.defers[i]
				if !f.blockReaches(d.blk, b) {
					continue
				}
				may := !f.mustPass(d.blk, b)
				for _, da := range d.atoms {
					ex = append(ex, &Atom{N: da.n, Blk: b, May: may || da.fl.may, Seq: da.fl.seq, Lit: d.lit, Deferred: true})
				}
			}
			base := len(f.atoms[b])
			for i, a := range ex {
				a.Idx = base + i
			}
			f.exitAtoms[b] = ex
		}
	}
	return f
}

type atomFlags struct {
	lit *ast.FuncLit
	may bool     // not certainly executed when control passes here
	seq ast.Node // fail-fast chain group: executes iff every earlier atom of the group executed
	argMay *bool // inside a chain expression: may-ness of its unconditionally evaluated parts (arguments)
}

type emitFn func(n ast.Node, fl atomFlags)

// chainCall classifies x as a call of an internal/chain method on a chain
// expression; returns the base chain.New(...) call and whether it is fail-fast.
func (f *Flow) chainCall(x *ast.CallExpr) (base *ast.CallExpr, failFast bool, method string, ok bool) {
	fn := callee(f.Info, x)
	if fn == nil || fn.Pkg() == nil || fn.Pkg().Path() != modPath+"/internal/chain" {
		return nil, false, "", false
	}
	sig := fn.Type().(*types.Signature)
	if sig.Recv() == nil {
		return nil, false, "", false
	}
	method = fn.Name()
	// walk down the receiver chain to chain.New(...)
	var cur ast.Expr = x
	for {
		call, isCall := ast.Unparen(cur).(*ast.CallExpr)
		if !isCall {
			return nil, false, method, false
		}
		cf := callee(f.Info, call)
		if cf != nil && cf.Pkg() != nil && cf.Pkg().Path() == modPath+"/internal/chain" && cf.Name() == "New" && cf.Type().(*types.Signature).Recv() == nil {
			base = call
			for _, a := range call.Args {
				if ac, ok := ast.Unparen(a).(*ast.CallExpr); ok {
					if af := callee(f.Info, ac); af != nil && af.Name() == "WithFailFast" {
						failFast = true
					}
				}
			}
			return base, failFast, method, true
		}
		sel, isSel := ast.Unparen(call.Fun).(*ast.SelectorExpr)
		if !isSel {
			return nil, false, method, false
		}
		cur = sel.X
	}
}

// collect walks n in post-order; literals are inlined or skipped by policy.
// Nodes in the right operand of && / || and in conditionally executed parts of
// an inlined literal are flagged "may" (not guaranteed to run). Runners of a
// fail-fast chain are flagged as a sequence group.
func (f *Flow) collect(n ast.Node, fl atomFlags, emit emitFn) {
	if n == nil {
		return
	}
	var walk func(n ast.Node, fl atomFlags)
	walk = func(n ast.Node, fl atomFlags) {
		switch x := n.(type) {
		case nil:
			return
		case *ast.FuncLit:
			// reached only when not placed by the parent CallExpr: skipped
			emit(x, fl)
			return
		case *ast.BinaryExpr:
			if x.Op == token.LAND || x.Op == token.LOR {
				walk(x.X, fl)
				r := fl
				r.may, r.seq = true, nil
				walk(x.Y, r)
				emit(x, fl)
				return
			}
		case *ast.CallExpr:
			// IIFE
			if lit, ok := ast.Unparen(x.Fun).(*ast.FuncLit); ok {
				for _, a := range x.Args {
					walk(a, fl)
				}
				f.inlineBody(lit, fl, emit)
				emit(x, fl)
				return
			}
			if base, failFast, method, ok := f.chainCall(x); ok {
				if fl.argMay == nil {
					m := fl.may
					fl.argMay = &m
				}
				gfl := fl
				if failFast {
					gfl.may, gfl.seq = true, base
				}
				// arguments are evaluated unconditionally, in sequence with the runners:
				// they keep the enclosing certainty but belong to the group
				afl := fl
				afl.may = *fl.argMay
				if failFast {
					afl.seq = base
				}
				if method == "Run" || !failFast {
					walk(x.Fun, fl)
				} else {
					walk(x.Fun, gfl) // earlier runners first; selector atoms stay in the group
				}
				for _, a := range x.Args {
					if lit, ok := ast.Unparen(a).(*ast.FuncLit); ok {
						rf := gfl
						rf.argMay = nil
						if strings.HasSuffix(method, "If") {
							rf.may, rf.seq = true, nil
						}
						f.inlineBody(lit, rf, emit)
						continue
					}
					al := afl
					al.argMay = nil
					walk(a, al)
				}
				emit(x, gfl)
				return
			}
			walk(x.Fun, fl)
			inline := false
			if fn := callee(f.Info, x); fn != nil {
				if _, ok := syncCombinators[qualifiedName(fn)]; ok {
					inline = true
				}
			}
			for _, a := range x.Args {
				if lit, ok := ast.Unparen(a).(*ast.FuncLit); ok && inline {
					r := fl
					r.may, r.seq = true, nil
					f.inlineBody(lit, r, emit)
					continue
				}
				walk(a, fl)
			}
			emit(x, fl)
			return
		}
		// generic: children first, then the node
		children(n, func(ch ast.Node) { walk(ch, fl) })
		emit(n, fl)
	}
	walk(n, fl)
}

// inlineBody places the statements of an inlined literal: top-level
// straight-line statements keep the given certainty until the first statement
// that can return early; everything nested in compound statements is "may".
func (f *Flow) inlineBody(lit *ast.FuncLit, fl atomFlags, emit emitFn) {
	fl.lit = lit
	uncertain := fl
	uncertain.may, uncertain.seq = true, nil
	cur := fl
	for _, st := range lit.Body.List {
		switch x := st.(type) {
		case *ast.ExprStmt, *ast.AssignStmt, *ast.IncDecStmt, *ast.SendStmt, *ast.DeclStmt, *ast.ReturnStmt:
			f.collect(st, cur, emit)
		case *ast.IfStmt:
			if x.Init != nil {
				f.collect(x.Init, cur, emit)
			}
			f.collect(x.Cond, cur, emit)
			f.collectAll(x.Body, uncertain, emit)
			if x.Else != nil {
				f.collectAll(x.Else, uncertain, emit)
			}
		default:
			f.collectAll(st, uncertain, emit)
		}
		if containsReturn(st) {
			if _, isRet := st.(*ast.ReturnStmt); !isRet {
				cur = uncertain
			}
		}
	}
}

// collectAll emits every sub-node of a (compound) statement with the given
// flags, in post-order, placing nested literals by the usual policy.
func (f *Flow) collectAll(s ast.Node, fl atomFlags, emit emitFn) {
	switch x := s.(type) {
	case *ast.BlockStmt:
		for _, st := range x.List {
			f.collectAll(st, fl, emit)
		}
	case *ast.IfStmt:
		if x.Init != nil {
			f.collect(x.Init, fl, emit)
		}
		f.collect(x.Cond, fl, emit)
		f.collectAll(x.Body, fl, emit)
		if x.Else != nil {
			f.collectAll(x.Else, fl, emit)
		}
	case *ast.ForStmt:
		if x.Init != nil {
			f.collect(x.Init, fl, emit)
		}
		if x.Cond != nil {
			f.collect(x.Cond, fl, emit)
		}
		f.collectAll(x.Body, fl, emit)
		if x.Post != nil {
			f.collect(x.Post, fl, emit)
		}
	case *ast.RangeStmt:
		f.collect(x.X, fl, emit)
		f.collectAll(x.Body, fl, emit)
	case *ast.SwitchStmt:
		if x.Init != nil {
			f.collect(x.Init, fl, emit)
		}
		if x.Tag != nil {
			f.collect(x.Tag, fl, emit)
		}
		f.collectAll(x.Body, fl, emit)
	case *ast.TypeSwitchStmt:
		if x.Init != nil {
			f.collect(x.Init, fl, emit)
		}
		f.collect(x.Assign, fl, emit)
		f.collectAll(x.Body, fl, emit)
	case *ast.CaseClause:
		for _, e := range x.List {
			f.collect(e, fl, emit)
		}
		for _, st := range x.Body {
			f.collectAll(st, fl, emit)
		}
	case *ast.SelectStmt:
		f.collectAll(x.Body, fl, emit)
	case *ast.CommClause:
		if x.Comm != nil {
			f.collect(x.Comm, fl, emit)
		}
		for _, st := range x.Body {
			f.collectAll(st, fl, emit)
		}
	case *ast.LabeledStmt:
		f.collectAll(x.Stmt, fl, emit)
	case *ast.DeferStmt, *ast.GoStmt:
		// nested defer/go inside an inlined literal: only note the statement
		emit(x, fl)
	case nil:
	default:
		f.collect(s, fl, emit)
	}
}

func containsReturn(s ast.Stmt) bool {
	found := false
	ast.Inspect(s, func(n ast.Node) bool {
		if _, ok := n.(*ast.FuncLit); ok {
			return false
		}
		if _, ok := n.(*ast.ReturnStmt); ok {
			found = true
		}
		return true
	})
	return found
}

// children calls fn for each direct child of n in source order.
func children(n ast.Node, fn func(ast.Node)) {
	first := true
	ast.Inspect(n, func(ch ast.Node) bool {
		if first {
			first = false
			return true
		}
		if ch != nil {
			fn(ch)
		}
		return false
	})
}

func (f *Flow) blockReaches(from, to *cfg.Block) bool {
	seen := map[*cfg.Block]bool{}
	var dfs func(b *cfg.Block) bool
	dfs = func(b *cfg.Block) bool {
		if b == to {
			return true
		}
		if seen[b] {
			return false
		}
		seen[b] = true
		for _, s := range b.Succs {
			if dfs(s) {
				return true
			}
		}
		return false
	}
	return dfs(from)
}

// mustPass: every path entry -> to passes through block via.
func (f *Flow) mustPass(via, to *cfg.Block) bool {
	if via == to {
		return true
	}
	seen := map[*cfg.Block]bool{via: true}
	var dfs func(b *cfg.Block) bool
	dfs = func(b *cfg.Block) bool {
		if b == to {
			return true
		}
		if seen[b] {
			return false
		}
		seen[b] = true
		for _, s := range b.Succs {
			if dfs(s) {
				return true
			}
		}
		return false
	}
	return !dfs(f.G.Blocks[0])
}

// ---- queries ----

type Match func(n ast.Node) bool

type Edge struct {
	From *cfg.Block
	Succ int
}

// allAtoms of block b including exit-deferred atoms.
func (f *Flow) blockAtoms(b *cfg.Block) []*Atom {
	if ex := f.exitAtoms[b]; len(ex) > 0 {
		return append(append([]*Atom(nil), f.atoms[b]...), ex...)
	}
	return f.atoms[b]
}

// Find returns all atoms matching m (deferred atoms are returned once per exit).
func (f *Flow) Find(m Match) []*Atom {
	var out []*Atom
	for _, b := range f.G.Blocks {
		if !b.Live {
			continue
		}
		for _, a := range f.blockAtoms(b) {
			if m(a.N) {
				out = append(out, a)
			}
		}
	}
	return out
}

// FindOnce returns matching atoms, de-duplicated by AST node.
func (f *Flow) FindOnce(m Match) []*Atom {
	seen := map[ast.Node]bool{}
	var out []*Atom
	for _, a := range f.Find(m) {
		if !seen[a.N] {
			seen[a.N] = true
			out = append(out, a)
		}
	}
	return out
}

type Witness struct {
	Blocks []*cfg.Block
	Hit    *Atom // target atom reached (nil = reached a function exit)
	Exit   *cfg.Block
}

func (f *Flow) describe(w *Witness) string {
	if w == nil {
		return ""
	}
	var parts []string
	for _, b := range w.Blocks {
		if len(b.Nodes) > 0 {
			parts = append(parts, fmt.Sprintf("L%d", f.c.P.Fset.Position(b.Nodes[0].Pos()).Line))
		}
	}
	// compress consecutive duplicates
	var out []string
	for _, p := range parts {
		if len(out) == 0 || out[len(out)-1] != p {
			out = append(out, p)
		}
	}
	s := "path " + strings.Join(out, "→")
	if w.Hit != nil {
		s += " reaches " + f.c.P.Pos(w.Hit.N.Pos())
	} else if w.Exit != nil {
		s += " reaches function exit (" + f.exitDesc(w.Exit) + ")"
	}
	return s
}

func (f *Flow) exitDesc(b *cfg.Block) string {
	if len(b.Nodes) > 0 {
		last := b.Nodes[len(b.Nodes)-1]
		if r, ok := last.(*ast.ReturnStmt); ok {
			return "return at " + f.c.P.Pos(r.Pos())
		}
		return "end after " + f.c.P.Pos(last.Pos())
	}
	return "end of function"
}

// isPanicExit: the block ends in a call that does not return.
func (f *Flow) isPanicExit(b *cfg.Block) bool {
	if len(b.Succs) != 0 || len(b.Nodes) == 0 {
		return false
	}
	last := b.Nodes[len(b.Nodes)-1]
	if es, ok := last.(*ast.ExprStmt); ok {
		if call, ok := es.X.(*ast.CallExpr); ok {
			return isNoReturnCall(f.Info, call)
		}
	}
	return false
}

type searchSpec struct {
	starts     []*Atom       // start after these atoms; nil = function entry
	startEdges []Edge        // additionally start at the targets of these edges
	avoid      Match         // must-atoms that stop the search
	avoidEdges map[Edge]bool // edges that stop the search
	target     Match         // atoms searched for (nil = none)
	exits      bool          // reaching a (non-panic) exit counts as found
	exitFilter func(b *cfg.Block) bool
}

// search explores forward; returns a witness if a target atom / exit is
// reachable without crossing an avoided atom or edge.
func (f *Flow) search(sp searchSpec) *Witness {
	// Per-path defer tracking: a deferred call runs at an exit iff its defer
	// statement executed on that path. yes/maybe are bit sets over f.defers.
	type item struct {
		b          *cfg.Block
		from       int
		prev       *item
		yes, maybe uint64
	}
	type visitKey struct {
		b          *cfg.Block
		yes, maybe uint64
	}
	deferIdx := map[ast.Node]int{}
	for i, d := range f.defers {
		if i < 64 {
			deferIdx[d.stmt] = i
		}
	}
	// masks at the start of a block / after an atom, for searches that start mid-function
	startMasks := func(blk *cfg.Block, idx int) (yes, maybe uint64) {
		for i, d := range f.defers {
			if i >= 64 {
				break
			}
			switch {
			case d.blk == blk:
				if d.idx < idx {
					yes |= 1 << uint(i)
				}
			case f.mustPass(d.blk, blk):
				yes |= 1 << uint(i)
			case f.blockReaches(d.blk, blk):
				maybe |= 1 << uint(i)
			}
		}
		return
	}
	var queue []*item
	seen := map[visitKey]bool{}
	for _, e := range sp.startEdges {
		tgt := e.From.Succs[e.Succ]
		y, m := startMasks(e.From, 1<<30)
		queue = append(queue, &item{b: tgt, from: 0, prev: &item{b: e.From}, yes: y, maybe: m})
	}
	if sp.starts == nil && sp.startEdges == nil {
		queue = append(queue, &item{b: f.G.Blocks[0], from: 0})
		seen[visitKey{f.G.Blocks[0], 0, 0}] = true
	} else {
		for _, a := range sp.starts {
			if a.Deferred {
				// starting from an atom that itself runs at an exit: continue with the exit atoms after it
				y, m := startMasks(a.Blk, 1<<30)
				queue = append(queue, &item{b: a.Blk, from: a.Idx + 1, yes: y, maybe: m | y})
				continue
			}
			y, m := startMasks(a.Blk, a.Idx+1)
			queue = append(queue, &item{b: a.Blk, from: a.Idx + 1, yes: y, maybe: m})
		}
	}
	mk := func(it *item, hit *Atom, exit *cfg.Block) *Witness {
		w := &Witness{Hit: hit, Exit: exit}
		for x := it; x != nil; x = x.prev {
			w.Blocks = append([]*cfg.Block{x.b}, w.Blocks...)
		}
		return w
	}
	for len(queue) > 0 {
		it := queue[0]
		queue = queue[1:]
		atoms := f.atoms[it.b]
		yes, maybe := it.yes, it.maybe
		isExit := len(it.b.Succs) == 0
		if isExit && len(f.defers) > 0 {
			// scan the block first to know which defers executed in it (only matters when from==0 or defers precede)
			y2, m2 := yes, maybe
			for i := it.from; i < len(atoms); i++ {
				if di, ok := deferIdx[atoms[i].N]; ok {
					y2 |= 1 << uint(di)
					m2 &^= 1 << uint(di)
				}
			}
			var ex []*Atom
			for i := len(f.defers) - 1; i >= 0; i-- {
				if i >= 64 {
					continue
				}
				d := f.defers[i]
				bit := uint64(1) << uint(i)
				if y2&bit == 0 && m2&bit == 0 {
					continue
				}
				for _, da := range d.atoms {
					ex = append(ex, &Atom{N: da.n, Blk: it.b, May: da.fl.may || y2&bit == 0, Seq: da.fl.seq, Lit: d.lit, Deferred: true})
				}
			}
			base := len(atoms)
			for i, a := range ex {
				a.Idx = base + i
			}
			atoms = append(append([]*Atom(nil), atoms...), ex...)
		}
		stopped := false
		for i := it.from; i < len(atoms); i++ {
			a := atoms[i]
			if di, ok := deferIdx[a.N]; ok && !a.Deferred {
				yes |= 1 << uint(di)
				maybe &^= 1 << uint(di)
			}
			if sp.target != nil && sp.target(a.N) {
				return mk(it, a, nil)
			}
			if sp.avoid != nil && sp.avoid(a.N) {
				if !a.May {
					stopped = true
					break
				}
				if a.Seq != nil {
					// the rest of this fail-fast chain runs only if a ran: skip it, and
					// continue knowing the chain's Run() returned an error
					for i+1 < len(atoms) && atoms[i+1].Seq == a.Seq {
						i++
					}
					sub := sp
					sub.starts = []*Atom{atoms[i]}
					sub.startEdges = nil
					sub.avoidEdges = map[Edge]bool{}
					for e := range sp.avoidEdges {
						sub.avoidEdges[e] = true
					}
					for e := range f.chainOKEdges(a.Seq) {
						sub.avoidEdges[e] = true
					}
					if w := f.search(sub); w != nil {
						pre := mk(it, nil, nil)
						w.Blocks = append(pre.Blocks, w.Blocks...)
						return w
					}
					stopped = true
					break
				}
			}
		}
		if stopped {
			continue
		}
		if isExit {
			if it.b.Kind == cfg.KindSelectAfterCase {
				continue // tail of a select without default: blocks, not an exit
			}
			if sp.exits && !f.isPanicExit(it.b) && (sp.exitFilter == nil || sp.exitFilter(it.b)) {
				return mk(it, nil, it.b)
			}
			continue
		}
		for i, s := range it.b.Succs {
			if sp.avoidEdges[Edge{it.b, i}] {
				continue
			}
			k := visitKey{s, yes, maybe}
			if seen[k] {
				continue
			}
			seen[k] = true
			queue = append(queue, &item{b: s, from: 0, prev: it, yes: yes, maybe: maybe})
		}
	}
	return nil
}

// chainOKEdges: edges on which the error returned by the Run() of the chain
// rooted at base is nil (every runner executed and succeeded).
func (f *Flow) chainOKEdges(base ast.Node) map[Edge]bool {
	m := func(n ast.Node) bool {
		call, ok := n.(*ast.CallExpr)
		if !ok {
			return false
		}
		b, _, method, ok := f.chainCall(call)
		return ok && b == base && method == "Run"
	}
	edges, _ := f.ErrEdgesOf(m, false)
	return edges
}

// MustPrecede: on every path from entry, an A atom (or A edge) occurs before any B atom.
// Returns a witness path reaching B without A, or nil.
func (f *Flow) MustPrecede(a Match, aEdges map[Edge]bool, b Match) *Witness {
	return f.search(searchSpec{avoid: a, avoidEdges: aEdges, target: b})
}

// MustFollow: after every atom in 'from', every non-panicking path to a
// function exit passes a B atom (or B edge). Returns a counter-example or nil.
func (f *Flow) MustFollow(from []*Atom, b Match, bEdges map[Edge]bool) *Witness {
	return f.search(searchSpec{starts: from, avoid: b, avoidEdges: bEdges, exits: true})
}

// MayReach: some path from 'from' (nil = entry) reaches a B atom without crossing 'avoid'.
func (f *Flow) MayReach(from []*Atom, avoid Match, b Match) *Witness {
	if from != nil && len(from) == 0 {
		return nil
	}
	return f.search(searchSpec{starts: from, avoid: avoid, target: b})
}

// MayReachEdges: as MayReach, also avoiding edges.
func (f *Flow) MayReachEdges(from []*Atom, avoid Match, avoidEdges map[Edge]bool, b Match) *Witness {
	if from != nil && len(from) == 0 {
		return nil
	}
	return f.search(searchSpec{starts: from, avoid: avoid, avoidEdges: avoidEdges, target: b})
}

// ExitReachable: a non-panicking exit satisfying filter is reachable from 'from' avoiding 'avoid'.
func (f *Flow) ExitReachable(from []*Atom, avoid Match, avoidEdges map[Edge]bool, filter func(b *cfg.Block) bool) *Witness {
	return f.search(searchSpec{starts: from, avoid: avoid, avoidEdges: avoidEdges, exits: true, exitFilter: filter})
}

// AfterEdgesMustPass: every non-panicking path from the given edges to an exit passes a B atom.
func (f *Flow) AfterEdgesMustPass(edges map[Edge]bool, b Match, bEdges map[Edge]bool) *Witness {
	var es []Edge
	for e := range edges {
		es = append(es, e)
	}
	if len(es) == 0 {
		return nil
	}
	return f.search(searchSpec{startEdges: es, avoid: b, avoidEdges: bEdges, exits: true})
}

// AfterEdgesMayReach: some path from the given edges reaches a B atom without crossing avoid.
func (f *Flow) AfterEdgesMayReach(edges map[Edge]bool, avoid Match, avoidEdges map[Edge]bool, b Match) *Witness {
	var es []Edge
	for e := range edges {
		es = append(es, e)
	}
	if len(es) == 0 {
		return nil
	}
	return f.search(searchSpec{startEdges: es, avoid: avoid, avoidEdges: avoidEdges, target: b})
}

// ---- branch conditions ----

// Cond returns the branch condition of block b (nil when b does not end in a
// two-way boolean branch). Succs[0] is the true edge, Succs[1] the false edge;
// go/cfg has already destructured &&, || and !.
func (f *Flow) Cond(b *cfg.Block) ast.Expr {
	if len(b.Succs) != 2 || len(b.Nodes) == 0 {
		return nil
	}
	e, ok := b.Nodes[len(b.Nodes)-1].(ast.Expr)
	if !ok {
		return nil
	}
	// tagged switch: go/cfg adds only the case expression ("one half of the
	// tag==cond condition"); Succs[0] is the case body. Synthesise tag == expr.
	if tag := f.caseTags()[e]; tag != nil {
		return &ast.BinaryExpr{X: tag, Op: token.EQL, Y: e, OpPos: e.Pos()}
	}
	if t := f.Info.TypeOf(e); t != nil {
		if bt, ok := t.Underlying().(*types.Basic); ok && bt.Info()&types.IsBoolean != 0 {
			return e
		}
	}
	return nil
}

// condFacts lists the atomic conditions known on an edge: cond evaluated to v.
// !, && (on the true edge) and || (on the false edge) are destructured.
func condFacts(e ast.Expr, v bool, out *[]condFact) {
	e = ast.Unparen(e)
	switch x := e.(type) {
	case *ast.UnaryExpr:
		if x.Op == token.NOT {
			condFacts(x.X, !v, out)
			return
		}
	case *ast.BinaryExpr:
		if x.Op == token.LAND && v {
			condFacts(x.X, true, out)
			condFacts(x.Y, true, out)
			return
		}
		if x.Op == token.LOR && !v {
			condFacts(x.X, false, out)
			condFacts(x.Y, false, out)
			return
		}
	}
	*out = append(*out, condFact{e, v})
}

type condFact struct {
	E   ast.Expr
	Val bool
}

// EdgeFacts returns the atomic facts holding on edge (b, succ).
func (f *Flow) EdgeFacts(b *cfg.Block, succ int) []condFact {
	cond := f.Cond(b)
	if cond == nil {
		return nil
	}
	var out []condFact
	condFacts(cond, succ == 0, &out)
	// A condition hoisted into a single-definition boolean local
	// (ok := a != b; if ok {…}) carries the facts of its definition as well.
	for i, depth := 0, 0; i < len(out) && depth < 32; i++ {
		id, ok := ast.Unparen(out[i].E).(*ast.Ident)
		if !ok {
			continue
		}
		if def := singleLocalDefIn(f.Info, f.Body, f.Info.ObjectOf(id)); def != nil {
			bt, isBool := f.Info.TypeOf(def).(*types.Basic)
			if isBool && bt.Info()&types.IsBoolean != 0 {
				depth++
				condFacts(def, out[i].Val, &out)
			}
		}
	}
	return out
}

// EdgesWhere collects branch edges on which an atomic condition matching pred
// is known to have the value pred asks for: pred returns (match, wantValue).
func (f *Flow) EdgesWhere(pred func(cond ast.Expr) (match bool, whenTrue bool)) map[Edge]bool {
	out := map[Edge]bool{}
	for _, b := range f.G.Blocks {
		if !b.Live || f.Cond(b) == nil {
			continue
		}
		for succ := 0; succ < 2; succ++ {
			for _, fact := range f.EdgeFacts(b, succ) {
				if m, pol := pred(fact.E); m && pol == fact.Val {
					out[Edge{b, succ}] = true
				}
			}
		}
	}
	return out
}

// CondEdges: edges taken when a condition matching m evaluates to 'val'.
// Handles the forms c, c == true/false, x != nil / x == nil are left to callers.
func (f *Flow) CondEdges(m func(e ast.Expr) bool, val bool) map[Edge]bool {
	return f.EdgesWhere(func(cond ast.Expr) (bool, bool) {
		cond = ast.Unparen(cond)
		if m(cond) {
			return true, val
		}
		return false, false
	})
}

// NilCheckEdges returns the edges on which variable-expression matched by m is
// non-nil (nonNil=true) or nil (nonNil=false), from conditions x != nil / x == nil.
func (f *Flow) NilCheckEdges(m func(e ast.Expr) bool, nonNil bool) map[Edge]bool {
	return f.EdgesWhere(func(cond ast.Expr) (bool, bool) {
		be, ok := ast.Unparen(cond).(*ast.BinaryExpr)
		if !ok || (be.Op != token.NEQ && be.Op != token.EQL) {
			return false, false
		}
		var x ast.Expr
		if isNilIdent(f.Info, be.Y) {
			x = be.X
		} else if isNilIdent(f.Info, be.X) {
			x = be.Y
		} else {
			return false, false
		}
		if !m(ast.Unparen(x)) {
			return false, false
		}
		// x != nil : true edge = non-nil
		return true, (be.Op == token.NEQ) == nonNil
	})
}

func isNilIdent(info *types.Info, e ast.Expr) bool {
	id, ok := ast.Unparen(e).(*ast.Ident)
	if !ok {
		return false
	}
	_, isNil := info.Uses[id].(*types.Nil)
	return isNil
}

// ErrEdgesOf: for statements `err := call(...)` / `if err := call(); err != nil`
// where call matches m, the edges on which the assigned error variable is
// non-nil (failed=true) or nil (failed=false). Only conditions in the same
// block as the assignment or in its immediate successor chain without
// reassignment are recognised (the repo's idiom).
func (f *Flow) ErrEdgesOf(m Match, failed bool) (map[Edge]bool, int) {
	out := map[Edge]bool{}
	n := 0
	for _, b := range f.G.Blocks {
		if !b.Live {
			continue
		}
		for _, node := range b.Nodes {
			as, ok := node.(*ast.AssignStmt)
			if !ok || len(as.Rhs) != 1 {
				continue
			}
			call, ok := ast.Unparen(as.Rhs[0]).(*ast.CallExpr)
			if !ok || !m(call) {
				continue
			}
			// error variable = last LHS of error type
			var errObj types.Object
			for _, l := range as.Lhs {
				if id, ok := l.(*ast.Ident); ok && id.Name != "_" {
					obj := f.Info.ObjectOf(id)
					if obj != nil && isErrorType(obj.Type()) {
						errObj = obj
					}
				}
			}
			if errObj == nil {
				continue
			}
			n++
			// find conditions testing errObj
			for _, bb := range f.G.Blocks {
				if !bb.Live || f.Cond(bb) == nil {
					continue
				}
				if bb != b && !f.reachesWithoutReassign(b, as, bb, errObj) {
					continue
				}
				if bb == b && as.Pos() > f.Cond(bb).Pos() {
					continue
				}
				for succ := 0; succ < 2; succ++ {
					for _, fact := range f.EdgeFacts(bb, succ) {
						be, ok := fact.E.(*ast.BinaryExpr)
						if !ok || (be.Op != token.NEQ && be.Op != token.EQL) || !isNilIdent(f.Info, be.Y) {
							continue
						}
						id, ok := ast.Unparen(be.X).(*ast.Ident)
						if !ok || f.Info.ObjectOf(id) != errObj {
							continue
						}
						nonNil := (be.Op == token.NEQ) == fact.Val
						if nonNil == failed {
							out[Edge{bb, succ}] = true
						}
					}
				}
			}
		}
	}
	return out, n
}

func (f *Flow) reachesWithoutReassign(from *cfg.Block, as *ast.AssignStmt, to *cfg.Block, obj types.Object) bool {
	// straight-line successor chain only (single-successor blocks)
	b := from
	for i := 0; i < 8; i++ {
		if len(b.Succs) != 1 {
			return false
		}
		b = b.Succs[0]
		if b == to {
			return true
		}
		for _, n := range b.Nodes {
			if a2, ok := n.(*ast.AssignStmt); ok {
				for _, l := range a2.Lhs {
					if id, ok := l.(*ast.Ident); ok && f.Info.ObjectOf(id) == obj {
						return false
					}
				}
			}
		}
	}
	return false
}

func isErrorType(t types.Type) bool {
	return types.Identical(t, types.Universe.Lookup("error").Type())
}

// ---- matchers ----

// CallTo matches calls whose static callee is one of fns.
func (f *Flow) CallTo(fns ...*types.Func) Match {
	return callToMatch(f.Info, fns...)
}

func callToMatch(info *types.Info, fns ...*types.Func) Match {
	set := map[*types.Func]bool{}
	for _, fn := range fns {
		if fn != nil {
			set[fn.Origin()] = true
		}
	}
	return func(n ast.Node) bool {
		call, ok := n.(*ast.CallExpr)
		if !ok {
			return false
		}
		fn := callee(info, call)
		return fn != nil && set[fn]
	}
}

// CallOnField matches x.<field>.<method>(...) — a method call whose receiver
// expression selects the given field; method "" matches any.
func (f *Flow) CallOnField(field *types.Var, method string) Match {
	return callOnFieldMatch(f.Info, field, method)
}

func callOnFieldMatch(info *types.Info, field *types.Var, method string) Match {
	return func(n ast.Node) bool {
		call, ok := n.(*ast.CallExpr)
		if !ok {
			return false
		}
		sel, ok := ast.Unparen(call.Fun).(*ast.SelectorExpr)
		if !ok {
			return false
		}
		if method != "" && sel.Sel.Name != method {
			return false
		}
		return selField(info, sel.X) == field.Origin()
	}
}

// Or combines matchers.
func Or(ms ...Match) Match {
	return func(n ast.Node) bool {
		for _, m := range ms {
			if m(n) {
				return true
			}
		}
		return false
	}
}

// IsReturn matches return statements.
func IsReturn(n ast.Node) bool { _, ok := n.(*ast.ReturnStmt); return ok }

// exprMatch lifts a Match to conditions (for CondEdges).
func exprMatch(m Match) func(ast.Expr) bool { return func(e ast.Expr) bool { return m(e) } }

// lines renders atoms' positions.
func (f *Flow) lines(as []*Atom) string {
	var s []string
	seen := map[string]bool{}
	for _, a := range as {
		p := f.c.P.Pos(a.N.Pos())
		if !seen[p] {
			seen[p] = true
			s = append(s, p)
		}
	}
	sort.Strings(s)
	return strings.Join(s, ",")
}

// Dump renders the flow for debugging.
func (f *Flow) Dump() string {
	var sb strings.Builder
	for _, b := range f.G.Blocks {
		if !b.Live {
			continue
		}
		fmt.Fprintf(&sb, "block %d (%s) succs=", b.Index, b.Kind)
		for _, s := range b.Succs {
			fmt.Fprintf(&sb, "%d ", s.Index)
		}
		sb.WriteString("\n")
		for _, a := range f.blockAtoms(b) {
			if _, ok := a.N.(*ast.CallExpr); !ok {
				continue
			}
			fmt.Fprintf(&sb, "   [%d] %s %T may=%v seq=%v def=%v  %s\n", a.Idx, f.c.P.Pos(a.N.Pos()), a.N, a.May, a.Seq != nil, a.Deferred, types.ExprString(a.N.(ast.Expr)))
		}
	}
	return sb.String()
}

// Returns lists the function's own return statements (not those of inlined literals).
func (f *Flow) Returns() []*Atom {
	var out []*Atom
	for _, a := range f.FindOnce(IsReturn) {
		if a.Lit == nil {
			out = append(out, a)
		}
	}
	return out
}

type cfgBlock = cfg.Block

// loopBackEdges: edges b→s where s dominates b (natural-loop back edges).
func (f *Flow) loopBackEdges() map[Edge]bool {
	if f.backEdges != nil {
		return f.backEdges
	}
	out := map[Edge]bool{}
	for _, b := range f.G.Blocks {
		if !b.Live {
			continue
		}
		for i, s := range b.Succs {
			if s.Index <= b.Index && f.mustPass(s, b) {
				out[Edge{b, i}] = true
			}
		}
	}
	f.backEdges = out
	return out
}
