package main

import (
	"go/ast"
	"go/token"
	"go/types"
	"strings"

	"golang.org/x/tools/go/ssa"
)

func init() {
	register(&propDef{
		id: "C35", title: "Relocation handoff masking respects caller deadlines",
		technique: "effect analysis on the call graph (no sleeping primitive reachable from the asynchronous send path), clamp rule on the only sleep of the synchronous path (duration ≤ time left to a deadline that is itself capped by the caller's), guard dominance for the give-up edges",
		explanation: "Decides: (1) asynchronous name-based sends never wait: no function synchronously reachable from PID.SendAsync / ReceiveContext.SendAsync within the actor package calls a sleeping primitive (time.Sleep, pause.For, time.After, timer creation, the handoff sleep) and SendAsync goes through deliverBypassingHandoff, which fails fast with ErrRelocationInProgress; (2) the synchronous path (SendSync → deliverAcrossHandoff) sleeps only in sleepWithinHandoff; that function returns false without sleeping when the deadline has passed, never sleeps longer than the time left to the deadline, and also wakes on context cancellation; every deadline handed to it is derived from min(handoff window, caller maxWait) or from the not-found masking window capped by the caller's deadline; (3) the final delivery runs under a context bounded by the caller's deadline when one was given; (4) when waiting is no longer allowed the function returns the retryable error (ErrRelocationInProgress or the retryable lookup error), not a success and not a bare timeout. Added after the probe round: the full handoff window is assigned as the attempt's deadline only over the edge on which the target is pinned to a relocating endpoint (a failed resolution gets the short not-found window).",
		assumptions: []string{"wall-clock latency of a single lookup/delivery attempt (each attempt is bounded by the context, not by this analysis)", "time.Until/time.Timer semantics"},
		minObl:     14,
		run:        runC35,
	})
}

func isSleeper(f *ssa.Function) string {
	if f == nil {
		return ""
	}
	name := f.String()
	switch {
	case name == "time.Sleep", name == "time.After", name == "time.NewTimer", name == "time.Tick", name == "time.NewTicker":
		return name
	case strings.HasSuffix(name, "/internal/pause.For"):
		return "pause.For"
	case strings.HasSuffix(name, "/actor.sleepWithinHandoff"):
		return "sleepWithinHandoff"
	case strings.HasSuffix(name, "/internal/timer.(*Pool).Get"):
		return "timers.Get"
	}
	return ""
}

func runC35(c *Ctx) {
	x := c.P.CGx()
	c.Rule("async-never-sleeps", func() {
		for _, name := range []string{"PID.SendAsync", "ReceiveContext.SendAsync"} {
			fn := c.Func("actor", name)
			root := c.SSA(fn)
			// stay within the local send machinery: do not enter the target's turn, the remoting client or user code
			stop := func(f *ssa.Function) bool {
				if isSleeper(f) != "" {
					return false
				}
				if f.Pkg == nil && f.Parent() == nil {
					return true
				}
				top := f
				for top.Parent() != nil {
					top = top.Parent()
				}
				if top.Pkg == nil || relPkg(top.Pkg.Pkg.Path()) != "actor" {
					return true
				}
				switch top.Name() {
				case "runTurn", "dispatchOne", "handleReceived", "Shutdown", "doStop", "init", "Spawn", "SpawnChild", "Restart", "toDeadletter", "handleReceivedError", "handleReceivedErrorWithMessage", "remoteTell", "RemoteTell", "RemoteLookup":
					return true
				}
				return false
			}
			par := x.ReachFrom([]*ssa.Function{root}, stop, true)
			bad := ""
			for f := range par {
				if s := isSleeper(f); s != "" {
					bad = s + " via " + x.Chain(par, f)
				}
			}
			c.Check(bad == "", fn.String()+"/no-sleep-reachable", "no sleeping primitive is synchronously reachable from the asynchronous send", c.P.Pos(fn.Decl.Pos()), bad)
			c.Ok(fn.String()+"/functions-scanned", "functions reachable on the local send path were scanned", c.P.Pos(fn.Decl.Pos()), itoa(len(par))+" functions")
		}
		sa := c.Func("actor", "PID.SendAsync")
		f := c.NewFlow(sa)
		by := f.CallTo(c.FuncObj("actor", "PID.deliverBypassingHandoff"))
		ac := f.CallTo(c.FuncObj("actor", "PID.deliverAcrossHandoff"))
		c.Check(len(f.Find(by)) == 1 && len(f.Find(ac)) == 0, "SendAsync/bypasses-handoff", "SendAsync uses the fail-fast path, never the masking path", c.P.Pos(sa.Decl.Pos()), "")
		bp := c.Func("actor", "PID.deliverBypassingHandoff")
		bf := c.NewFlow(bp)
		info := bf.Info
		reloc := bf.EdgesWhere(func(cond ast.Expr) (bool, bool) {
			if call, ok := cond.(*ast.CallExpr); ok {
				if cal := callee(info, call); cal != nil && cal.Name() == "isEndpointRelocating" {
					return true, true
				}
			}
			return false, false
		})
		errReloc := c.pkg("errors").Types.Scope().Lookup("ErrRelocationInProgress")
		ret := func(n ast.Node) bool {
			r, ok := n.(*ast.ReturnStmt)
			return ok && len(r.Results) == 2 && objOf(info, r.Results[1]) == errReloc
		}
		w := bf.AfterEdgesMustPass(reloc, ret, nil)
		c.Check(w == nil && len(reloc) > 0, "bypass/relocating⇒retryable-error", "a send to a relocating endpoint fails fast with ErrRelocationInProgress", c.P.Pos(bp.Decl.Pos()), bf.describe(w))
	})

	c.Rule("sync-sleep-is-clamped", func() {
		sl := c.Func("actor", "sleepWithinHandoff")
		f := c.NewFlow(sl)
		info := f.Info
		timer := f.Find(func(n ast.Node) bool {
			call, ok := n.(*ast.CallExpr)
			if !ok {
				return false
			}
			cal := callee(info, call)
			return cal != nil && qualifiedName(cal) == "time.NewTimer"
		})
		if len(timer) != 1 {
			c.Fail("sleepWithinHandoff: expected one timer")
		}
		// remaining := time.Until(deadline); remaining <= 0 → return false before the timer
		var remaining types.Object
		ast.Inspect(sl.Decl.Body, func(n ast.Node) bool {
			if as, ok := n.(*ast.AssignStmt); ok && len(as.Rhs) == 1 {
				if call, ok := as.Rhs[0].(*ast.CallExpr); ok {
					if cal := callee(info, call); cal != nil && qualifiedName(cal) == "time.Until" {
						remaining = info.ObjectOf(as.Lhs[0].(*ast.Ident))
					}
				}
			}
			return true
		})
		past := f.EdgesWhere(func(cond ast.Expr) (bool, bool) {
			cm, ok := asCmp(cond, true)
			if ok && objOf(info, cm.L) == remaining && remaining != nil && (cm.Op == token.LEQ || cm.Op == token.LSS) {
				if v, isC := constInt(info, cm.R); isC && v == 0 {
					return true, true
				}
			}
			return false, false
		})
		w := f.AfterEdgesMayReach(past, nil, nil, func(n ast.Node) bool { return n == timer[0].N })
		c.Check(w == nil && len(past) > 0, "expired⇏sleep", "no sleep once the deadline has passed", c.P.Pos(sl.Decl.Pos()), f.describe(w))
		// clamp: on every path to the timer either duration <= remaining was established or duration was assigned remaining
		dur := info.Defs[sl.Decl.Type.Params.List[1].Names[0]]
		le := f.EdgesWhere(func(cond ast.Expr) (bool, bool) {
			for _, val := range []bool{true, false} {
				cm, ok := asCmp(cond, val)
				if !ok {
					continue
				}
				for _, k := range []cmp{cm, cm.flip()} {
					if k.Op == token.LEQ && objOf(info, k.L) == dur && objOf(info, k.R) == remaining {
						return true, val
					}
				}
			}
			return false, false
		})
		clampAssign := func(n ast.Node) bool {
			as, ok := n.(*ast.AssignStmt)
			return ok && len(as.Lhs) == 1 && as.Tok == token.ASSIGN && objOf(info, as.Lhs[0]) == dur && objOf(info, as.Rhs[0]) == remaining
		}
		w = f.search(searchSpec{avoid: clampAssign, avoidEdges: le, target: func(n ast.Node) bool { return n == timer[0].N }})
		arg := timer[0].N.(*ast.CallExpr).Args[0]
		c.Check(w == nil && objOf(info, arg) == dur, "sleep≤remaining", "the timer duration is clamped to the time left to the deadline on every path", c.P.Pos(sl.Decl.Pos()), f.describe(w))
		// wakes on ctx.Done
		wakes := false
		ast.Inspect(sl.Decl.Body, func(n ast.Node) bool {
			if cc, ok := n.(*ast.CommClause); ok && cc.Comm != nil {
				ast.Inspect(cc.Comm, func(m ast.Node) bool {
					if call, ok := m.(*ast.CallExpr); ok {
						if cal := callee(info, call); cal != nil && cal.Name() == "Done" {
							wakes = true
						}
					}
					return true
				})
			}
			return true
		})
		c.Check(wakes, "cancellation-wakes", "the sleep also ends when the caller's context is cancelled", c.P.Pos(sl.Decl.Pos()), "")
		c.WhoMayCall("who", sl.Obj, map[string]string{"actor.(*PID).deliverAcrossHandoff": "the only sleeping send path"})
	})

	c.Rule("deadlines", func() {
		da := c.Func("actor", "PID.deliverAcrossHandoff")
		f := c.NewFlow(da)
		info := f.Info
		maxWait := info.Defs[da.Decl.Type.Params.List[2].Names[0]]
		// roles of the locals, identified by what they are computed from (not by their names)
		role := map[types.Object]string{}
		isAddOn := func(e ast.Expr, recvOK func(ast.Expr) bool, argOK func(ast.Expr) bool) bool {
			call, ok := ast.Unparen(e).(*ast.CallExpr)
			if !ok || len(call.Args) != 1 {
				return false
			}
			cal := callee(info, call)
			return cal != nil && cal.Name() == "Add" && recvOK(recvExpr(call)) && argOK(call.Args[0])
		}
		isNow := func(e ast.Expr) bool {
			e = ast.Unparen(e)
			if id, ok := e.(*ast.Ident); ok {
				if def := singleLocalDefIn(info, da.Decl.Body, info.ObjectOf(id)); def != nil {
					e = ast.Unparen(def)
				}
			}
			call, ok := e.(*ast.CallExpr)
			if !ok {
				return false
			}
			cal := callee(info, call)
			return cal != nil && cal.Pkg() != nil && cal.Pkg().Path() == "time" && cal.Name() == "Now"
		}
		ast.Inspect(da.Decl.Body, func(n ast.Node) bool {
			as, ok := n.(*ast.AssignStmt)
			if !ok || len(as.Lhs) != 1 || len(as.Rhs) != 1 {
				return true
			}
			l := objOf(info, as.Lhs[0])
			if l == nil {
				return true
			}
			switch {
			case isAddOn(as.Rhs[0], isNow, func(a ast.Expr) bool { return objOf(info, a) == maxWait }):
				role[l] = "callerDeadline"
			case isAddOn(as.Rhs[0], isNow, func(a ast.Expr) bool {
				k, isK := objOfConst(info, a)
				return isK && k.Name() == "relocationNotFoundMaskWindow"
			}):
				role[l] = "notFoundDeadline"
			case isAddOn(as.Rhs[0], isNow, func(a ast.Expr) bool { o := objOf(info, a); return o != nil && o != maxWait }):
				role[l] = "deadline"
				role[objOf(info, ast.Unparen(as.Rhs[0]).(*ast.CallExpr).Args[0])] = "window"
			}
			return true
		})
		for _, a := range f.Find(f.CallTo(c.FuncObj("actor", "sleepWithinHandoff"))) {
			if o := objOf(info, a.N.(*ast.CallExpr).Args[2]); o != nil && role[o] == "" {
				role[o] = "attemptDeadline"
			}
		}
		is := func(o types.Object, r string) bool { return o != nil && role[o] == r }
		// window := relocationHandoffWindow; if maxWait > 0 && maxWait < window { window = maxWait }
		clampW := false
		ast.Inspect(da.Decl.Body, func(n ast.Node) bool {
			ifs, ok := n.(*ast.IfStmt)
			if !ok {
				return true
			}
			var facts []condFact
			condFacts(ifs.Cond, true, &facts)
			lt := false
			for _, ft := range facts {
				if cm, ok := asCmp(ft.E, true); ok && cm.Op == token.LSS && objOf(info, cm.L) == maxWait {
					if is(objOf(info, cm.R), "window") {
						lt = true
					}
				}
			}
			if !lt {
				return true
			}
			for _, st := range ifs.Body.List {
				if as, ok := st.(*ast.AssignStmt); ok && len(as.Lhs) == 1 && objOf(info, as.Rhs[0]) == maxWait {
					if is(objOf(info, as.Lhs[0]), "window") {
						clampW = true
					}
				}
			}
			return true
		})
		c.Check(clampW, "window=min(handoff-window,maxWait)", "the masking window never exceeds the caller's maximum wait", c.P.Pos(da.Decl.Pos()), "clamp 'if maxWait > 0 && maxWait < window { window = maxWait }' not found")
		capNF := false
		ast.Inspect(da.Decl.Body, func(n ast.Node) bool {
			ifs, ok := n.(*ast.IfStmt)
			if !ok {
				return true
			}
			mentions := false
			ast.Inspect(ifs.Cond, func(m ast.Node) bool {
				if call, ok := m.(*ast.CallExpr); ok {
					if cal := callee(info, call); cal != nil && cal.Name() == "Before" {
						if is(objOf(info, recvExpr(call)), "callerDeadline") {
							mentions = true
						}
					}
				}
				return true
			})
			if !mentions {
				return true
			}
			for _, st := range ifs.Body.List {
				if as, ok := st.(*ast.AssignStmt); ok && len(as.Lhs) == 1 {
					l, r := objOf(info, as.Lhs[0]), objOf(info, as.Rhs[0])
					if is(l, "notFoundDeadline") && is(r, "callerDeadline") {
						capNF = true
					}
				}
			}
			return true
		})
		c.Check(capNF, "notFoundDeadline≤callerDeadline", "the not-found masking deadline is capped by the caller's deadline", c.P.Pos(da.Decl.Pos()), "cap not found")
		// the deadline passed to sleepWithinHandoff is one of the two clamped deadlines
		okArg := true
		for _, a := range f.Find(f.CallTo(c.FuncObj("actor", "sleepWithinHandoff"))) {
			call := a.N.(*ast.CallExpr)
			o := objOf(info, call.Args[2])
			if !is(o, "attemptDeadline") {
				okArg = false
			}
		}
		okAssign := true
		ast.Inspect(da.Decl.Body, func(n ast.Node) bool {
			if as, ok := n.(*ast.AssignStmt); ok && len(as.Lhs) == 1 && as.Tok == token.ASSIGN {
				if o := objOf(info, as.Lhs[0]); is(o, "attemptDeadline") {
					r := objOf(info, as.Rhs[0])
					if !is(r, "deadline") && !is(r, "notFoundDeadline") {
						okAssign = false
					}
				}
			}
			return true
		})
		// which deadline for which case: the full handoff window is granted only to a target that is still pinned to a
		// relocating endpoint (high confidence); a failed resolution gets the short not-found window
		fullWindow := func(n ast.Node) bool {
			as, ok := n.(*ast.AssignStmt)
			return ok && len(as.Lhs) == 1 && len(as.Rhs) == 1 && as.Tok == token.ASSIGN && is(objOf(info, as.Lhs[0]), "attemptDeadline") && is(objOf(info, as.Rhs[0]), "deadline")
		}
		pinned := f.BoolEdges(func(e ast.Expr) bool { return isCallNamed(info, e, "isEndpointRelocating") }, true)
		if len(f.Find(fullWindow)) > 0 {
			c.guardedBy(f, pinned, fullWindow, "full-window-only-if-endpoint-relocating", "the full handoff window masks only a target still pinned to a relocating endpoint; a failed resolution is masked for the short not-found window", c.P.Pos(da.Decl.Pos()))
		}
		c.Check(okArg && okAssign, "sleep-deadline-is-clamped", "every deadline handed to the sleep is the clamped window deadline or the capped not-found deadline", c.P.Pos(da.Decl.Pos()), "")
		// final deliver under WithDeadline(callerDeadline) when one is set
		// the branch 'if callerDeadline.IsZero()' that immediately guards the delivery (a plain, non-compound condition)
		zero := map[Edge]bool{}
		for _, b := range f.G.Blocks {
			if !b.Live || f.Cond(b) == nil {
				continue
			}
			if call, ok := ast.Unparen(f.Cond(b)).(*ast.CallExpr); ok {
				if cal := callee(info, call); cal != nil && cal.Name() == "IsZero" {
					if is(objOf(info, recvExpr(call)), "callerDeadline") {
						zero[Edge{b, 1}] = true
					}
				}
			}
		}
		wd := func(n ast.Node) bool {
			call, ok := n.(*ast.CallExpr)
			if !ok {
				return false
			}
			cal := callee(info, call)
			return cal != nil && qualifiedName(cal) == "context.WithDeadline"
		}
		deliver := func(n ast.Node) bool {
			call, ok := n.(*ast.CallExpr)
			if !ok {
				return false
			}
			id, ok := call.Fun.(*ast.Ident)
			if !ok {
				return false
			}
			// the delivery callback: da's function-typed parameter
			ps := da.Obj.Type().(*types.Signature).Params()
			for i := 0; i < ps.Len(); i++ {
				if _, isFn := ps.At(i).Type().Underlying().(*types.Signature); isFn && info.ObjectOf(id) == types.Object(ps.At(i)) {
					return true
				}
			}
			return false
		}
		w := f.search(searchSpec{startEdges: edgesList(zero), avoid: wd, avoidEdges: f.loopBackEdges(), target: deliver})
		c.Check(w == nil && len(zero) > 0, "deliver-under-caller-deadline", "with a caller deadline the final delivery runs under a context bounded by it", c.P.Pos(da.Decl.Pos()), f.describe(w))
		// give-up returns the retryable error
		gave := f.CondEdges(exprMatch(f.CallTo(c.FuncObj("actor", "sleepWithinHandoff"))), false)
		ret := func(n ast.Node) bool {
			r, ok := n.(*ast.ReturnStmt)
			if !ok || len(r.Results) != 2 {
				return false
			}
			// the error to surface when masking gives up: the local that is assigned the relocation-in-progress sentinel
			o := objOf(info, r.Results[1])
			if o == nil || !isNilIdent(info, r.Results[0]) {
				return false
			}
			sentinel := false
			ast.Inspect(da.Decl.Body, func(m ast.Node) bool {
				if as, ok := m.(*ast.AssignStmt); ok && len(as.Lhs) == 1 && len(as.Rhs) == 1 && objOf(info, as.Lhs[0]) == o {
					if ro := objOf(info, as.Rhs[0]); ro != nil && ro.Name() == "ErrRelocationInProgress" && ro.Parent() == ro.Pkg().Scope() {
						sentinel = true
					}
				}
				return true
			})
			return sentinel
		}
		w = f.AfterEdgesMustPass(gave, ret, nil)
		c.Check(w == nil && len(gave) > 0, "give-up⇒retryable-error", "when waiting is no longer allowed the send returns the retryable error", c.P.Pos(da.Decl.Pos()), f.describe(w))
	})
}
