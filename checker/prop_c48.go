package main

import (
	"go/ast"
	"go/token"
	"go/types"
)

func init() {
	register(&propDef{
		id: "C48", title: "The TTL map behaves like a map with per-key expiry",
		technique: "guard dominance on the CFG (value returned only on the not-expired edge; eviction/compaction touch a key only when the index still maps it to that slot), dataflow of the expiry stamp, lockset with caller-holds helpers",
		explanation: "Decides: (1) Get returns (value, true) only on the edge now < expireAt of the entry the index maps the key to, and unmaps the key on the expired edge; a missing key yields the zero value and false; (2) Set stamps expireAt = now + ttl on both the refresh and the insert edge, and on insert maps the key to the slot it appends; (3) Delete unmaps the key; Reset empties the index and the slot slice and resets head; (4) evict unmaps a key only when the index maps it to the slot being evicted (a key re-inserted later at another slot is left alone) and only for slots whose expiry has passed; maybeCompact keeps a slot only when the index maps its key to that very slot and re-indexes every kept slot afterwards; (5) every field is accessed under the map's mutex; evict and maybeCompact are called only with it held. The index/slot agreement invariant over operation histories is not decided. Added after the probe round: compaction's bulk move is taken only over the edge 'mapped keys == size of the live region'; after compaction each surviving key is re-mapped to exactly its new slot (items[order[i].key] = i).",
		assumptions: []string{"the invariant 'every mapped index is ≥ head and points at the key's newest slot' over histories (needed for compaction's fast path)", "monotonic clock"},
		minObl:     20,
		run:        runC48,
	})
}

func runC48(c *Ctx) {
	items := c.Field("internal/xsync", "TTLMap", "items")
	order := c.Field("internal/xsync", "TTLMap", "order")
	head := c.Field("internal/xsync", "TTLMap", "head")
	mu := c.Field("internal/xsync", "TTLMap", "mu")
	ttl := c.Field("internal/xsync", "TTLMap", "ttl")

	c.Rule("locks", func() {
		c.GuardedBy(guardSpec{name: "TTLMap", lock: mu, fields: []*types.Var{items, order, head}, exemptFns: map[string]string{"internal/xsync.NewTTLMap": "constructor"}})
	})

	isDelItems := func(info *types.Info) Match {
		return func(n ast.Node) bool {
			call, ok := n.(*ast.CallExpr)
			if !ok || len(call.Args) != 2 {
				return false
			}
			id, ok := call.Fun.(*ast.Ident)
			return ok && id.Name == "delete" && selField(info, call.Args[0]) == items
		}
	}

	c.Rule("get", func() {
		fn := c.Func("internal/xsync", "TTLMap.Get")
		f := c.NewFlow(fn)
		info := f.Info
		live := f.EdgesWhere(func(cond ast.Expr) (bool, bool) {
			cm, ok := asCmp(cond, true)
			if ok && cm.Op == token.LSS {
				if fv := selField(info, cm.R); fv != nil && fv.Name() == "expireAt" {
					return true, true
				}
			}
			return false, false
		})
		expired := f.EdgesWhere(func(cond ast.Expr) (bool, bool) {
			cm, ok := asCmp(cond, true)
			if ok && cm.Op == token.LSS {
				if fv := selField(info, cm.R); fv != nil && fv.Name() == "expireAt" {
					return true, false
				}
			}
			return false, false
		})
		retTrue := func(n ast.Node) bool {
			r, ok := n.(*ast.ReturnStmt)
			if !ok || len(r.Results) != 2 {
				return false
			}
			id, ok := r.Results[1].(*ast.Ident)
			return ok && id.Name == "true"
		}
		w := f.search(searchSpec{avoidEdges: live, target: retTrue})
		c.Check(w == nil && len(live) > 0 && len(f.Find(retTrue)) == 1, "hit-only-if-live", "Get reports a hit only on the edge where the entry has not expired", c.P.Pos(fn.Decl.Pos()), f.describe(w))
		w = f.AfterEdgesMustPass(expired, isDelItems(info), nil)
		c.Check(w == nil && len(expired) > 0, "expired⇒unmapped", "an expired entry found by Get is unmapped", c.P.Pos(fn.Decl.Pos()), f.describe(w))
		// the entry compared is the one the index maps the key to
		var idxObj types.Object
		for _, a := range f.Find(func(n ast.Node) bool { _, _, _, ok := commaOkLookup(info, n, items); return ok }) {
			_, _, idxObj, _ = commaOkLookup(info, a.N, items)
		}
		okEntry := false
		ast.Inspect(fn.Decl.Body, func(n ast.Node) bool {
			if ix, ok := n.(*ast.IndexExpr); ok && selField(info, ix.X) == order && idxObj != nil && objOf(info, ix.Index) == idxObj {
				okEntry = true
			}
			return true
		})
		c.Check(okEntry, "reads-mapped-slot", "Get reads the slot the index maps the key to", c.P.Pos(fn.Decl.Pos()), "")
	})

	c.Rule("set", func() {
		fn := c.Func("internal/xsync", "TTLMap.Set")
		info := fn.Info()
		// expireAt := now + s.ttl
		var exp types.Object
		ast.Inspect(fn.Decl.Body, func(n ast.Node) bool {
			if as, ok := n.(*ast.AssignStmt); ok && len(as.Rhs) == 1 {
				if be, ok := as.Rhs[0].(*ast.BinaryExpr); ok && be.Op == token.ADD {
					// <current time> + ttl: the other operand is the clock reading (s.now(), directly or through a local)
					isNow := func(e ast.Expr) bool {
						e = ast.Unparen(e)
						if id, ok := e.(*ast.Ident); ok {
							if def := singleLocalDefIn(info, fn.Decl.Body, info.ObjectOf(id)); def != nil {
								e = ast.Unparen(def)
							}
						}
						call, ok := e.(*ast.CallExpr)
						if !ok {
							return false
						}
						if cal := callee(info, call); cal != nil && cal.Name() == "now" {
							return true
						}
						fv := selField(info, call.Fun)
						return fv != nil && fv.Name() == "now"
					}
					if (selField(info, be.Y) == ttl && isNow(be.X)) || (selField(info, be.X) == ttl && isNow(be.Y)) {
						exp = info.ObjectOf(as.Lhs[0].(*ast.Ident))
					}
				}
			}
			return true
		})
		c.Check(exp != nil, "stamp=now+ttl", "the expiry stamp is now + ttl", c.P.Pos(fn.Decl.Pos()), "")
		refresh, insert, mapped := false, false, false
		ast.Inspect(fn.Decl.Body, func(n ast.Node) bool {
			switch x := n.(type) {
			case *ast.AssignStmt:
				for i, l := range x.Lhs {
					if fv := selField(info, l); fv != nil && fv.Name() == "expireAt" && i < len(x.Rhs) && objOf(info, x.Rhs[i]) == exp && exp != nil {
						refresh = true
					}
					if ix, ok := l.(*ast.IndexExpr); ok && selField(info, ix.X) == items && i < len(x.Rhs) {
						if call, ok := x.Rhs[i].(*ast.CallExpr); ok {
							if id, ok := call.Fun.(*ast.Ident); ok && id.Name == "len" && selField(info, call.Args[0]) == order {
								mapped = true
							}
						}
					}
				}
			case *ast.KeyValueExpr:
				if id, ok := x.Key.(*ast.Ident); ok && id.Name == "expireAt" && objOf(info, x.Value) == exp && exp != nil {
					insert = true
				}
			}
			return true
		})
		c.Check(refresh && insert, "both-edges-stamped", "both refreshing an existing key and inserting a new one stamp the fresh expiry", c.P.Pos(fn.Decl.Pos()), "")
		c.Check(mapped, "insert-maps-appended-slot", "a new key is mapped to the slot that is appended for it (index = len before append)", c.P.Pos(fn.Decl.Pos()), "")
		f := c.NewFlow(fn)
		mapIdx := f.Find(func(n ast.Node) bool { _, _, ok := isMapWrite(info, n, items); return ok })
		app := func(n ast.Node) bool {
			as, ok := n.(*ast.AssignStmt)
			if !ok || len(as.Lhs) != 1 || selField(info, as.Lhs[0]) != order {
				return false
			}
			call, ok := as.Rhs[0].(*ast.CallExpr)
			if !ok {
				return false
			}
			id, ok := call.Fun.(*ast.Ident)
			return ok && id.Name == "append"
		}
		w := f.MustFollow(mapIdx, app, nil)
		c.Check(w == nil && len(mapIdx) == 1, "map≺append", "mapping the key is always followed by appending its slot", c.P.Pos(fn.Decl.Pos()), f.describe(w))
	})

	c.Rule("delete-reset", func() {
		d := c.Func("internal/xsync", "TTLMap.Delete")
		df := c.NewFlow(d)
		w := df.ExitReachable(nil, isDelItems(df.Info), nil, nil)
		c.Check(w == nil, "Delete/unmaps", "Delete unmaps the key on every path", c.P.Pos(d.Decl.Pos()), df.describe(w))
		r := c.Func("internal/xsync", "TTLMap.Reset")
		rinfo := r.Info()
		clrItems, clrOrder, hd := false, false, false
		ast.Inspect(r.Decl.Body, func(n ast.Node) bool {
			switch x := n.(type) {
			case *ast.CallExpr:
				if id, ok := x.Fun.(*ast.Ident); ok && id.Name == "clear" && len(x.Args) == 1 && selField(rinfo, x.Args[0]) == items {
					clrItems = true
				}
			case *ast.AssignStmt:
				if len(x.Lhs) == 1 {
					if selField(rinfo, x.Lhs[0]) == order {
						clrOrder = true
					}
					if selField(rinfo, x.Lhs[0]) == head {
						if v, ok := constInt(rinfo, x.Rhs[0]); ok && v == 0 {
							hd = true
						}
					}
				}
			}
			return true
		})
		c.Check(clrItems && clrOrder && hd, "Reset/empties-everything", "Reset empties the index, truncates the slots and resets head", c.P.Pos(r.Decl.Pos()), "")
	})

	c.Rule("evict-compact", func() {
		ev := c.Func("internal/xsync", "TTLMap.evict")
		f := c.NewFlow(ev)
		info := f.Info
		same := f.EdgesWhere(func(cond ast.Expr) (bool, bool) {
			cm, ok := asCmp(cond, true)
			if ok && cm.Op == token.EQL && selField(info, cm.R) == head {
				return true, true
			}
			return false, false
		})
		w := f.search(searchSpec{avoidEdges: same, target: isDelItems(info)})
		c.Check(w == nil && len(same) > 0, "evict/only-own-slot", "eviction unmaps a key only when the index still maps it to the slot being evicted", c.P.Pos(ev.Decl.Pos()), f.describe(w))
		notExpired := f.EdgesWhere(func(cond ast.Expr) (bool, bool) {
			cm, ok := asCmp(cond, true)
			if ok && cm.Op == token.LSS {
				if fv := selField(info, cm.R); fv != nil && fv.Name() == "expireAt" {
					return true, true
				}
			}
			return false, false
		})
		advance := func(n ast.Node) bool {
			s, ok := n.(*ast.IncDecStmt)
			return ok && selField(info, s.X) == head
		}
		w = f.search(searchSpec{startEdges: edgesList(notExpired), avoidEdges: f.loopBackEdges(), target: Or(isDelItems(info), advance)})
		c.Check(w == nil && len(notExpired) > 0, "evict/stops-at-live", "eviction stops at the first slot that has not expired (a live entry is never evicted)", c.P.Pos(ev.Decl.Pos()), f.describe(w))
		mc := c.Func("internal/xsync", "TTLMap.maybeCompact")
		mf := c.NewFlow(mc)
		minfo := mf.Info
		keep := func(n ast.Node) bool {
			as, ok := n.(*ast.AssignStmt)
			if !ok || len(as.Lhs) != 1 {
				return false
			}
			ix, ok := as.Lhs[0].(*ast.IndexExpr)
			return ok && selField(minfo, ix.X) == order
		}
		own := mf.EdgesWhere(func(cond ast.Expr) (bool, bool) {
			cm, ok := asCmp(cond, true)
			if ok && cm.Op == token.EQL {
				// the index the map holds for the slot's key, compared with the slot's own position
				if o := objOf(minfo, cm.L); o != nil {
					isLookup := false
					ast.Inspect(mc.Decl.Body, func(n ast.Node) bool {
						if _, okObj, valObj, found := commaOkLookup(minfo, n, items); found && okObj != nil && valObj == o {
							isLookup = true
						}
						return true
					})
					if isLookup {
						return true, true
					}
				}
			}
			return false, false
		})
		w = mf.search(searchSpec{avoidEdges: own, target: keep})
		c.Check(w == nil && len(own) > 0, "compact/keeps-only-mapped-slots", "compaction keeps a slot only when the index maps its key to that very slot", c.P.Pos(mc.Decl.Pos()), mf.describe(w))
		// the bulk move is valid only when the live region has no holes: it is taken only over the edge on which the
		// number of mapped keys EQUALS the size of the live region
		bulk := func(n ast.Node) bool {
			call, ok := n.(*ast.CallExpr)
			if !ok || len(call.Args) != 2 {
				return false
			}
			id, ok := call.Fun.(*ast.Ident)
			return ok && id.Name == "copy" && selField(minfo, call.Args[0]) == order
		}
		noHoles := mf.FactEdges(func(cm cmp) bool {
			return cm.Op == token.EQL && exprShape(minfo, cm.L) == "len(.items)" && exprShape(minfo, cm.R) == "len(.order)-.head"
		})
		if len(mf.Find(bulk)) > 0 {
			c.guardedBy(mf, noHoles, bulk, "compact/bulk-move-only-without-holes", "the whole live region is moved in one piece only when every slot of it is still mapped (item count equals region size)", c.P.Pos(mc.Decl.Pos()))
		}
		// after compaction every surviving key is mapped to its new position: items[order[i].key] = i
		okRe := false
		ast.Inspect(mc.Decl.Body, func(n ast.Node) bool {
			rng, ok := n.(*ast.RangeStmt)
			if !ok || selField(minfo, rng.X) != order || rng.Key == nil {
				return true
			}
			kobj := minfo.ObjectOf(rng.Key.(*ast.Ident))
			for _, st := range rng.Body.List {
				if key, val, ok := isMapWrite(minfo, st, items); ok {
					kshape := exprShape(minfo, key)
					if objOf(minfo, val) == kobj && kshape == ".key" {
						if sel, ok := ast.Unparen(key).(*ast.SelectorExpr); ok {
							if ix, ok := ast.Unparen(sel.X).(*ast.IndexExpr); ok && selField(minfo, ix.X) == order && objOf(minfo, ix.Index) == kobj {
								okRe = true
							}
						}
					}
				}
			}
			return true
		})
		c.Check(okRe, "compact/reindex=position", "after compaction each surviving key is mapped to exactly its new slot: items[order[i].key] = i", c.P.Pos(mc.Decl.Pos()), "the re-index loop does not write items[order[i].key] = i")
		reidx := func(n ast.Node) bool { _, _, ok := isMapWrite(minfo, n, items); return ok }
		hd0 := func(n ast.Node) bool {
			as, ok := n.(*ast.AssignStmt)
			if !ok || len(as.Lhs) != 1 || selField(minfo, as.Lhs[0]) != head {
				return false
			}
			v, ok := constInt(minfo, as.Rhs[0])
			return ok && v == 0
		}
		trunc := mf.Find(func(n ast.Node) bool {
			as, ok := n.(*ast.AssignStmt)
			if !ok || len(as.Lhs) != 1 || selField(minfo, as.Lhs[0]) != order {
				return false
			}
			_, isSlice := as.Rhs[0].(*ast.SliceExpr)
			return isSlice
		})
		w = mf.MustFollow(trunc, hd0, nil)
		c.Check(w == nil && len(trunc) == 1 && len(mf.Find(reidx)) == 1, "compact/reindex+head", "after compaction every kept slot is re-indexed and head is reset", c.P.Pos(mc.Decl.Pos()), mf.describe(w))
		c.WhoMayCall("who", ev.Obj, map[string]string{"internal/xsync.(*TTLMap).Set": "under the lock"})
		c.WhoMayCall("who", mc.Obj, map[string]string{"internal/xsync.(*TTLMap).Set": "under the lock"})
	})
}
