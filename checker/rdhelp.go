package main

import (
	"fmt"
	"go/ast"
	"go/token"
	"go/types"
	"sort"
	"strings"
)

// Helpers for state-machine style rules: write sites of a field with the shape
// of the assigned value, and "all paths to T pass an edge on which fact F holds".

type writeSite struct {
	u    *Use
	stmt ast.Node // *ast.AssignStmt / *ast.IncDecStmt / call (delete, clear) / range / &x.f
	rhs  ast.Expr // assigned value (nil for inc/dec, delete, element writes with op-assign)
	elem bool     // the write goes to an element / sub-field reached through the field
	kind string   // shape of rhs (see rhsKind)
}

func (w writeSite) fn() string { return funcName(w.u.EnclObj) }

// fieldWrites lists the write sites of a struct field.
func (c *Ctx) fieldWrites(field *types.Var) []writeSite {
	var out []writeSite
	for _, u := range c.UsesOf(field) {
		if !u.IsWrite {
			continue
		}
		w := writeSite{u: u}
		// find the statement: walk up from the selector
		var cur ast.Node = u.Ident
		if u.Sel != nil {
			cur = u.Sel
		}
		for i := len(u.Path) - 1; i >= 0; i-- {
			p := u.Path[i]
			if p == cur || (u.Sel != nil && p == ast.Node(u.Sel)) {
				continue
			}
			switch s := p.(type) {
			case *ast.ParenExpr, *ast.StarExpr:
				cur = p
				continue
			case *ast.IndexExpr:
				w.elem = true
				cur = p
				continue
			case *ast.AssignStmt:
				w.stmt = s
				for k, l := range s.Lhs {
					if l == cur {
						if len(s.Rhs) == len(s.Lhs) {
							w.rhs = s.Rhs[k]
						} else if len(s.Rhs) == 1 {
							w.rhs = s.Rhs[0]
						}
					}
				}
				if s.Tok != token.ASSIGN && s.Tok != token.DEFINE {
					w.kind = "op-assign:" + s.Tok.String()
				}
			case *ast.IncDecStmt:
				w.stmt = s
				w.kind = s.Tok.String()
			case *ast.CallExpr:
				w.stmt = s
				if id, ok := s.Fun.(*ast.Ident); ok {
					w.kind = id.Name + "()"
				}
			case *ast.UnaryExpr:
				w.stmt = s
				w.kind = "&"
			case *ast.RangeStmt:
				w.stmt = s
				w.kind = "range"
			}
			break
		}
		if w.kind == "" && w.rhs != nil {
			rhs := w.rhs
			// a value routed through a local with a single definition is classified by that definition
			if id, ok := ast.Unparen(rhs).(*ast.Ident); ok && u.EnclDecl != nil {
				if def := singleLocalDef(u.Pkg.TypesInfo, u.EnclDecl, u.Pkg.TypesInfo.ObjectOf(id)); def != nil {
					rhs = def
				}
			}
			w.kind = rhsKind(u.Pkg.TypesInfo, rhs, field)
		}
		if w.elem {
			w.kind = "elem:" + w.kind
		}
		out = append(out, w)
	}
	sort.SliceStable(out, func(i, j int) bool { return out[i].u.Ident.Pos() < out[j].u.Ident.Pos() })
	return out
}

// rhsKind classifies an assigned expression:
//   nil | const:<v> | field:<name> | var:<name> | call:<callee> |
//   append(self) | append(other) | <pkg>.<Fn>(self) | self[a:b] | lit | make | expr:<...>
func rhsKind(info *types.Info, e ast.Expr, self *types.Var) string {
	e = ast.Unparen(e)
	if tv, ok := info.Types[e]; ok {
		if tv.IsNil() {
			return "nil"
		}
		if tv.Value != nil {
			return "const:" + tv.Value.ExactString()
		}
	}
	isSelf := func(x ast.Expr) bool { return self != nil && selField(info, x) == self }
	switch x := e.(type) {
	case *ast.Ident:
		return "var:" + exprShape(info, x)
	case *ast.SelectorExpr:
		if fv := selField(info, x); fv != nil {
			return "field:" + fv.Name()
		}
		return "expr:" + types.ExprString(x)
	case *ast.CompositeLit:
		return "lit"
	case *ast.UnaryExpr:
		if x.Op == token.AND {
			if _, ok := ast.Unparen(x.X).(*ast.CompositeLit); ok {
				return "lit"
			}
		}
	case *ast.SliceExpr:
		if isSelf(x.X) {
			return "self[" + exprOrEmpty(x.Low) + ":" + exprOrEmpty(x.High) + "]"
		}
	case *ast.BinaryExpr:
		return "expr:" + exprShape(info, x)
	case *ast.CallExpr:
		if id, ok := x.Fun.(*ast.Ident); ok {
			if _, isB := info.Uses[id].(*types.Builtin); isB {
				switch id.Name {
				case "append":
					if len(x.Args) > 0 && isSelf(x.Args[0]) {
						return "append(self)"
					}
					for _, a := range x.Args[1:] {
						if isSelf(a) {
							return "append(other,self...)"
						}
					}
					return "append(other)"
				case "make":
					return "make"
				}
				return id.Name + "()"
			}
		}
		if fn := callee(info, x); fn != nil {
			name := fn.Name()
			if fn.Pkg() != nil && fn.Type().(*types.Signature).Recv() == nil {
				name = fn.Pkg().Name() + "." + name
			}
			if len(x.Args) > 0 && isSelf(x.Args[0]) {
				return name + "(self)"
			}
			return "call:" + name
		}
		if tv, ok := info.Types[x.Fun]; ok && tv.IsType() && len(x.Args) == 1 {
			return rhsKind(info, x.Args[0], self)
		}
	}
	return "expr:" + exprShape(info, e)
}

func exprOrEmpty(e ast.Expr) string {
	if e == nil {
		return ""
	}
	return types.ExprString(e)
}

// exprShape renders an expression with receivers/locals abstracted to their
// field or method names, so that renaming a local does not change the shape.
func exprShape(info *types.Info, e ast.Expr) string {
	e = ast.Unparen(e)
	switch x := e.(type) {
	case *ast.BinaryExpr:
		return exprShape(info, x.X) + x.Op.String() + exprShape(info, x.Y)
	case *ast.SelectorExpr:
		if fv := selField(info, x); fv != nil {
			return "." + fv.Name()
		}
	case *ast.CallExpr:
		if fn := callee(info, x); fn != nil {
			return fn.Name() + "()"
		}
		if tv, ok := info.Types[x.Fun]; ok && tv.IsType() && len(x.Args) == 1 {
			return exprShape(info, x.Args[0])
		}
		if id, ok := x.Fun.(*ast.Ident); ok {
			if _, isB := info.Uses[id].(*types.Builtin); isB {
				var as []string
				for _, a := range x.Args {
					as = append(as, exprShape(info, a))
				}
				return id.Name + "(" + strings.Join(as, ",") + ")"
			}
		}
	case *ast.BasicLit:
		return x.Value
	case *ast.Ident:
		if tv, ok := info.Types[x]; ok && tv.Value != nil {
			return tv.Value.ExactString()
		}
		// locals and parameters are rendered by kind, never by name (a rename must not change a shape)
		if v, ok := info.ObjectOf(x).(*types.Var); ok && !v.IsField() {
			switch v.Kind() {
			case types.ParamVar:
				return "$param"
			case types.RecvVar:
				return "$recv"
			case types.ResultVar:
				return "$result"
			case types.LocalVar:
				if k := rangeVarKinds[v]; k != "" {
					return k
				}
				return "$local"
			}
		}
		return x.Name
	}
	if tv, ok := info.Types[e]; ok && tv.Value != nil {
		return tv.Value.ExactString()
	}
	return types.ExprString(e)
}

// rangeVarKinds: "$key" / "$val" for the variables bound by range statements (filled when the program is loaded).
var rangeVarKinds = map[*types.Var]string{}

func indexRangeVars(p *Prog) {
	for _, pk := range p.Pkgs {
		for _, f := range pk.Syntax {
			ast.Inspect(f, func(n ast.Node) bool {
				if r, ok := n.(*ast.RangeStmt); ok && r.Tok == token.DEFINE {
					if id, ok := r.Key.(*ast.Ident); ok {
						if v, ok := pk.TypesInfo.Defs[id].(*types.Var); ok {
							rangeVarKinds[v] = "$key"
						}
					}
					if id, ok := r.Value.(*ast.Ident); ok {
						if v, ok := pk.TypesInfo.Defs[id].(*types.Var); ok {
							rangeVarKinds[v] = "$val"
						}
					}
				}
				return true
			})
		}
	}
}

// checkWrites: every write site of field is allowed by the table fn -> kinds.
func (c *Ctx) checkWrites(key string, field *types.Var, allow map[string][]string, rule string) []writeSite {
	ws := c.fieldWrites(field)
	seen := map[string]int{}
	for _, w := range ws {
		fn := w.fn()
		ok := false
		for _, k := range allow[fn] {
			if k == w.kind || (strings.HasSuffix(k, "*") && strings.HasPrefix(w.kind, strings.TrimSuffix(k, "*"))) {
				ok = true
			}
		}
		k := key + "/" + field.Name() + "@" + fn + "=" + w.kind
		seen[k]++
		if seen[k] > 1 {
			k += "#" + itoa(seen[k])
		}
		if ok {
			c.Ok(k, rule, w.u.Where(c.P))
		} else {
			c.Bad(k, rule, w.u.Where(c.P), "write of "+field.Name()+" in "+fn+" with value shape "+w.kind+" is not in the confirmed table "+tableString(allow))
		}
	}
	// every table entry still has a site (a vanished writer means the table is stale, not a violation: report as undecided only when nothing is left)
	if len(ws) == 0 {
		c.Undecided(key+"/"+field.Name()+"/no-writes", rule, "-", "no write site found: anchor lost?")
	}
	return ws
}

func tableString(allow map[string][]string) string {
	var parts []string
	for _, k := range sortedKeys(allow) {
		parts = append(parts, k+"→"+strings.Join(allow[k], "|"))
	}
	return "{" + strings.Join(parts, "; ") + "}"
}

// FactEdges: edges on which a normalised comparison fact accepted by pred holds
// (pred is tried with both orientations of the comparison).
func (f *Flow) FactEdges(pred func(cm cmp) bool) map[Edge]bool {
	out := map[Edge]bool{}
	for _, b := range f.G.Blocks {
		if !b.Live || f.Cond(b) == nil {
			continue
		}
		for succ := 0; succ < 2; succ++ {
			for _, fact := range f.EdgeFacts(b, succ) {
				if cm, ok := asCmp(fact.E, fact.Val); ok {
					if pred(cm) || pred(cm.flip()) {
						out[Edge{b, succ}] = true
					}
				}
			}
		}
	}
	return out
}

// BoolEdges: edges on which a boolean (non-comparison) atomic condition accepted by m has value val.
func (f *Flow) BoolEdges(m func(e ast.Expr) bool, val bool) map[Edge]bool {
	out := map[Edge]bool{}
	for _, b := range f.G.Blocks {
		if !b.Live || f.Cond(b) == nil {
			continue
		}
		for succ := 0; succ < 2; succ++ {
			for _, fact := range f.EdgeFacts(b, succ) {
				if fact.Val == val && m(ast.Unparen(fact.E)) {
					out[Edge{b, succ}] = true
				}
			}
		}
	}
	return out
}

// guardedBy: every path from the function entry to a target atom crosses one of
// the edges. Returns (ok, description of a counter-example).
func (c *Ctx) guardedBy(f *Flow, edges map[Edge]bool, target Match, key, rule, where string) bool {
	n := len(f.FindOnce(target))
	if n == 0 {
		c.Undecided(key, rule, where, "guarded construct not found: anchor lost?")
		return false
	}
	if len(edges) == 0 {
		c.Bad(key, rule, where, "the guarding condition is not present in "+f.Name)
		return false
	}
	w := f.search(searchSpec{avoidEdges: edges, target: target})
	return c.Check(w == nil, key, rule, where, "a path reaches the construct without passing the guard: "+f.describe(w))
}

func isCallNamed(info *types.Info, e ast.Expr, names ...string) bool {
	call, ok := ast.Unparen(e).(*ast.CallExpr)
	if !ok {
		return false
	}
	fn := callee(info, call)
	if fn == nil {
		return false
	}
	for _, n := range names {
		if fn.Name() == n {
			return true
		}
	}
	return false
}

func isFieldSel(info *types.Info, e ast.Expr, field *types.Var) bool {
	return field != nil && selField(info, stripConv(info, e)) == field
}

func assignTo(info *types.Info, field *types.Var) Match {
	return func(n ast.Node) bool {
		as, ok := n.(*ast.AssignStmt)
		if !ok {
			return false
		}
		for _, l := range as.Lhs {
			if selField(info, l) == field {
				return true
			}
		}
		return false
	}
}

// AllFalseEdges: false edges of conditions that are conjunctions whose every
// conjunct, when false, satisfies pred — i.e. on the edge at least one of the
// accepted facts holds and nothing else can have caused the branch.
func (f *Flow) AllFalseEdges(pred func(cm cmp) bool) map[Edge]bool {
	out := map[Edge]bool{}
	for _, b := range f.G.Blocks {
		cond := f.Cond(b)
		if !b.Live || cond == nil {
			continue
		}
		var conj []ast.Expr
		var flat func(e ast.Expr)
		flat = func(e ast.Expr) {
			e = ast.Unparen(e)
			if be, ok := e.(*ast.BinaryExpr); ok && be.Op == token.LAND {
				flat(be.X)
				flat(be.Y)
				return
			}
			conj = append(conj, e)
		}
		flat(cond)
		all := len(conj) > 0
		for _, cj := range conj {
			var facts []condFact
			condFacts(cj, false, &facts)
			okc := false
			if len(facts) == 1 {
				if cm, ok := asCmp(facts[0].E, facts[0].Val); ok && (pred(cm) || pred(cm.flip())) {
					okc = true
				}
			}
			if !okc {
				all = false
			}
		}
		if all {
			out[Edge{b, 1}] = true
		}
	}
	return out
}

// methodsOf lists the declared methods (with bodies) of a named type.
func (c *Ctx) methodsOf(named *types.Named) []*Fn {
	var out []*Fn
	for obj := range c.P.declOf {
		sig, _ := obj.Type().(*types.Signature)
		if sig == nil || sig.Recv() == nil {
			continue
		}
		if n := namedOf(sig.Recv().Type()); n != nil && n.Origin().Obj() == named.Origin().Obj() {
			if fn := c.fnOfObj(obj); fn != nil {
				out = append(out, fn)
			}
		}
	}
	sort.Slice(out, func(i, j int) bool { return out[i].Obj.Name() < out[j].Obj.Name() })
	return out
}

// tryField resolves a field that may not exist (nil then).
func (c *Ctx) tryField(pkgRel, typ, field string) *types.Var {
	named := c.Named(pkgRel, typ)
	st, ok := named.Underlying().(*types.Struct)
	if !ok {
		return nil
	}
	for i := 0; i < st.NumFields(); i++ {
		if st.Field(i).Name() == field {
			return st.Field(i).Origin()
		}
	}
	return nil
}

// caseTags maps each case expression of a tagged switch in the flow's body to the switch tag.
func (f *Flow) caseTags() map[ast.Expr]ast.Expr {
	if f.tags != nil {
		return f.tags
	}
	f.tags = map[ast.Expr]ast.Expr{}
	ast.Inspect(f.Body, func(n ast.Node) bool {
		sw, ok := n.(*ast.SwitchStmt)
		if !ok || sw.Tag == nil {
			return true
		}
		for _, st := range sw.Body.List {
			for _, e := range st.(*ast.CaseClause).List {
				f.tags[e] = sw.Tag
			}
		}
		return true
	})
	return f.tags
}

func edgeList(m map[Edge]bool) []Edge {
	var out []Edge
	for e := range m {
		out = append(out, e)
	}
	sort.Slice(out, func(i, j int) bool {
		if out[i].From.Index != out[j].From.Index {
			return out[i].From.Index < out[j].From.Index
		}
		return out[i].Succ < out[j].Succ
	})
	return out
}

// onlyOnSuccess: the target is reachable only over an edge on which the error of the matched call was found nil
// (the dual of "unreachable from the error edge": a guard weakened to `err != nil && X` fails it).
func (c *Ctx) onlyOnSuccess(f *Flow, call Match, target Match, key, rule, where string) bool {
	okEdges, n := f.ErrEdgesOf(call, false)
	if n == 0 || len(okEdges) == 0 {
		c.Undecided(key, rule, where, "the call's error is not tested in the recognised idiom")
		return false
	}
	w := f.search(searchSpec{avoidEdges: okEdges, target: target})
	return c.Check(w == nil, key, rule, where, f.describe(w))
}

// singleLocalDef returns the defining expression of a local variable that is defined exactly once (x := e or var x = e,
// one variable per right-hand side) and never assigned, inc/dec'ed or address-taken afterwards; nil otherwise.
func singleLocalDef(info *types.Info, decl *ast.FuncDecl, obj types.Object) ast.Expr {
	if decl == nil {
		return nil
	}
	return singleLocalDefIn(info, decl.Body, obj)
}

func singleLocalDefIn(info *types.Info, body *ast.BlockStmt, obj types.Object) ast.Expr {
	v, ok := obj.(*types.Var)
	if !ok || v.IsField() || body == nil || obj.Pos() < body.Pos() || obj.Pos() > body.End() {
		return nil
	}
	var def ast.Expr
	writes := 0
	ast.Inspect(body, func(n ast.Node) bool {
		switch x := n.(type) {
		case *ast.AssignStmt:
			for i, l := range x.Lhs {
				id, ok := l.(*ast.Ident)
				if !ok || info.ObjectOf(id) != obj {
					continue
				}
				writes++
				if x.Tok == token.DEFINE && len(x.Lhs) == len(x.Rhs) {
					def = x.Rhs[i]
				} else if x.Tok == token.DEFINE && len(x.Rhs) == 1 {
					def = x.Rhs[0] // one of several results of a single call
				}
			}
		case *ast.ValueSpec:
			for i, id := range x.Names {
				if info.ObjectOf(id) == obj {
					writes++
					if len(x.Values) == len(x.Names) {
						def = x.Values[i]
					}
				}
			}
		case *ast.IncDecStmt:
			if id, ok := x.X.(*ast.Ident); ok && info.ObjectOf(id) == obj {
				writes++
			}
		case *ast.UnaryExpr:
			if id, ok := x.X.(*ast.Ident); ok && x.Op == token.AND && info.ObjectOf(id) == obj {
				writes++
			}
		case *ast.RangeStmt:
			for _, e := range []ast.Expr{x.Key, x.Value} {
				if id, ok := e.(*ast.Ident); ok && info.ObjectOf(id) == obj {
					writes += 2
				}
			}
		}
		return true
	})
	if writes == 1 && def != nil {
		return def
	}
	return nil
}

// AnyTrueEdges: true edges of conditions that are disjunctions whose every disjunct is accepted by pred
// (on the edge at least one of the accepted conditions holds, and nothing else can have caused the branch).
func (f *Flow) AnyTrueEdges(pred func(e ast.Expr) bool) map[Edge]bool {
	out := map[Edge]bool{}
	for _, b := range f.G.Blocks {
		cond := f.Cond(b)
		if !b.Live || cond == nil {
			continue
		}
		var disj []ast.Expr
		var flat func(e ast.Expr)
		flat = func(e ast.Expr) {
			e = ast.Unparen(e)
			if be, ok := e.(*ast.BinaryExpr); ok && be.Op == token.LOR {
				flat(be.X)
				flat(be.Y)
				return
			}
			disj = append(disj, e)
		}
		flat(cond)
		all := len(disj) > 0
		for _, d := range disj {
			if !pred(d) {
				all = false
			}
		}
		if all {
			out[Edge{b, 0}] = true
		}
	}
	return out
}

// storedClosure describes a function literal that is stored (assigned, placed in a composite literal, returned or
// appended) rather than called on the spot, together with the loops that enclose it in its function.
type storedClosure struct {
	Lit   *ast.FuncLit
	Loops []ast.Stmt // enclosing for/range statements, outermost first
	Decl  *ast.FuncDecl
}

// storedClosuresIn lists the stored function literals of a function declaration (literals nested in other literals
// are reported with the loops of the whole enclosing declaration).
func storedClosuresIn(decl *ast.FuncDecl) []storedClosure {
	var out []storedClosure
	if decl.Body == nil {
		return nil
	}
	var stack []ast.Node
	ast.Inspect(decl.Body, func(n ast.Node) bool {
		if n == nil {
			stack = stack[:len(stack)-1]
			return true
		}
		if lit, ok := n.(*ast.FuncLit); ok && len(stack) > 0 {
			stored := false
			switch p := stack[len(stack)-1].(type) {
			case *ast.AssignStmt, *ast.KeyValueExpr, *ast.ReturnStmt, *ast.ValueSpec, *ast.CompositeLit:
				stored = true
			case *ast.CallExpr:
				// append(xs, func…) stores; any other call is taken as a synchronous use
				if id, ok := p.Fun.(*ast.Ident); ok && id.Name == "append" && p.Fun != ast.Expr(lit) {
					stored = true
				}
			}
			if stored {
				sc := storedClosure{Lit: lit, Decl: decl}
				for _, s := range stack {
					switch s.(type) {
					case *ast.ForStmt, *ast.RangeStmt:
						sc.Loops = append(sc.Loops, s.(ast.Stmt))
					}
				}
				out = append(out, sc)
			}
		}
		stack = append(stack, n)
		return true
	})
	return out
}

// capturedVars: local variables of the enclosing declaration that the literal refers to (declared outside it).
func capturedVars(info *types.Info, sc storedClosure) []*types.Var {
	seen := map[*types.Var]bool{}
	var out []*types.Var
	ast.Inspect(sc.Lit.Body, func(n ast.Node) bool {
		id, ok := n.(*ast.Ident)
		if !ok {
			return true
		}
		v, ok := info.Uses[id].(*types.Var)
		if !ok || v.IsField() || seen[v] {
			return true
		}
		if v.Pos() >= sc.Decl.Pos() && v.Pos() < sc.Decl.End() && (v.Pos() < sc.Lit.Pos() || v.Pos() >= sc.Lit.End()) {
			seen[v] = true
			out = append(out, v)
		}
		return true
	})
	return out
}

// assignmentsTo lists the statements under root that assign to v after its declaration (=, op=, ++/--, range with =,
// and := that re-uses v).
func assignmentsTo(info *types.Info, root ast.Node, v *types.Var) []ast.Node {
	var out []ast.Node
	ast.Inspect(root, func(n ast.Node) bool {
		switch x := n.(type) {
		case *ast.AssignStmt:
			for _, l := range x.Lhs {
				if id, ok := ast.Unparen(l).(*ast.Ident); ok && info.ObjectOf(id) == v && id.Pos() != v.Pos() {
					out = append(out, x)
				}
			}
		case *ast.IncDecStmt:
			if id, ok := ast.Unparen(x.X).(*ast.Ident); ok && info.ObjectOf(id) == v {
				out = append(out, x)
			}
		case *ast.RangeStmt:
			for _, e := range []ast.Expr{x.Key, x.Value} {
				if id, ok := e.(*ast.Ident); ok && x.Tok == token.ASSIGN && info.ObjectOf(id) == v {
					out = append(out, x)
				}
			}
		}
		return true
	})
	return out
}

// checkFrozenCaptures: every variable captured by a stored closure created inside a loop holds, when the closure
// eventually runs, the value it had when the closure was created: it is declared inside the innermost loop that
// both contains the closure and assigns it (one instance per iteration), and is not assigned after the closure was
// created. Returns the number of (closure, variable) pairs examined.
func (c *Ctx) checkFrozenCaptures(key string, pkgRel string, declFilter func(*ast.FuncDecl) bool) int {
	pk := c.pkg(pkgRel)
	info := pk.TypesInfo
	n := 0
	for _, file := range pk.Syntax {
		for _, d := range file.Decls {
			fd, ok := d.(*ast.FuncDecl)
			if !ok || fd.Body == nil || (declFilter != nil && !declFilter(fd)) {
				continue
			}
			encl := fd.Name.Name
			if obj, ok := info.Defs[fd.Name].(*types.Func); ok {
				encl = funcName(obj)
			}
			idx := 0
			for _, sc := range storedClosuresIn(fd) {
				if len(sc.Loops) == 0 {
					continue
				}
				idx++
				for _, v := range capturedVars(info, sc) {
					n++
					k := fmt.Sprintf("%s/%s#%d/%s", key, encl, idx, v.Name())
					where := c.P.Pos(sc.Lit.Pos())
					bad := ""
					for _, loop := range sc.Loops {
						if v.Pos() >= loop.Pos() && v.Pos() < loop.End() {
							continue // one instance per iteration of this loop
						}
						for _, a := range assignmentsTo(info, loop, v) {
							if a.Pos() >= sc.Lit.Pos() && a.End() <= sc.Lit.End() {
								continue // the closure's own writes
							}
							bad = "captured variable " + v.Name() + " is declared outside the loop at " + c.P.Pos(loop.Pos()) + " and assigned inside it at " + c.P.Pos(a.Pos()) + ": every closure of the loop sees the value of the last iteration"
						}
					}
					if bad == "" {
						inner := sc.Loops[len(sc.Loops)-1]
						for _, a := range assignmentsTo(info, inner, v) {
							if a.Pos() > sc.Lit.End() {
								bad = "captured variable " + v.Name() + " is assigned at " + c.P.Pos(a.Pos()) + " after the closure was created: the closure sees the later value"
							}
						}
					}
					c.Check(bad == "", k, "a closure stored for later execution inside a loop captures only per-iteration variables that are not assigned after its creation", where, bad)
				}
			}
		}
	}
	return n
}

// localsDefinedBy returns the local variables of body that have a single definition accepted by pred (rename-robust
// identification of "the variable that holds X").
func localsDefinedBy(info *types.Info, body *ast.BlockStmt, pred func(def ast.Expr) bool) []types.Object {
	var out []types.Object
	seen := map[types.Object]bool{}
	ast.Inspect(body, func(n ast.Node) bool {
		id, ok := n.(*ast.Ident)
		if !ok {
			return true
		}
		obj := info.Defs[id]
		if obj == nil || seen[obj] {
			return true
		}
		seen[obj] = true
		if def := singleLocalDefIn(info, body, obj); def != nil && pred(def) {
			out = append(out, obj)
		}
		return true
	})
	return out
}

// containsNode reports whether some node under e satisfies m.
func containsNode(e ast.Node, m func(ast.Node) bool) bool {
	found := false
	ast.Inspect(e, func(n ast.Node) bool {
		if n != nil && !found && m(n) {
			found = true
		}
		return !found
	})
	return found
}

// commaOkLocals returns the boolean locals of body that are the last left-hand side of a multi-value definition
// (v, ok := m[k] / x.(T) / f()), i.e. "the ok of a comma-ok form", independent of their names.
func commaOkLocals(info *types.Info, body *ast.BlockStmt) map[types.Object]bool {
	out := map[types.Object]bool{}
	ast.Inspect(body, func(n ast.Node) bool {
		as, ok := n.(*ast.AssignStmt)
		if !ok || len(as.Lhs) < 2 || len(as.Rhs) != 1 {
			return true
		}
		id, ok := as.Lhs[len(as.Lhs)-1].(*ast.Ident)
		if !ok {
			return true
		}
		obj := info.ObjectOf(id)
		if obj == nil {
			return true
		}
		if bt, ok := obj.Type().Underlying().(*types.Basic); ok && bt.Info()&types.IsBoolean != 0 {
			out[obj] = true
		}
		return true
	})
	return out
}

// AllFalseEdgesExpr: as AllFalseEdges for boolean (non-comparison) conjuncts: the false edge of a condition that is a
// conjunction whose every conjunct is accepted by pred (so on the edge at least one accepted condition is false and
// nothing else can have caused the branch).
func (f *Flow) AllFalseEdgesExpr(pred func(e ast.Expr) bool) map[Edge]bool {
	out := map[Edge]bool{}
	for _, b := range f.G.Blocks {
		cond := f.Cond(b)
		if !b.Live || cond == nil {
			continue
		}
		var conj []ast.Expr
		var flat func(e ast.Expr)
		flat = func(e ast.Expr) {
			e = ast.Unparen(e)
			if be, ok := e.(*ast.BinaryExpr); ok && be.Op == token.LAND {
				flat(be.X)
				flat(be.Y)
				return
			}
			conj = append(conj, e)
		}
		flat(cond)
		all := len(conj) > 0
		for _, cj := range conj {
			if !pred(cj) {
				all = false
			}
		}
		if all {
			out[Edge{b, 1}] = true
		}
	}
	return out
}
