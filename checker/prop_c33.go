package main

import (
	"fmt"
	"go/ast"
	"go/token"
	"go/types"
)

func init() {
	register(&propDef{
		id: "C33", title: "Relocation accounts for every item and runs once per departure",
		technique: "lockset + test-and-insert rule on the job table, guard dominance (dispatch only by the winner of beginRelocation), release pairing on error edges, who-may-call on job release, path rule for the worker (every exit releases the job; at most one failure event)",
		explanation: "Decides: (1) the relocation job table is accessed only under its mutex and beginRelocation is a test-and-insert in one critical section; (2) a Rebalance is dispatched to the relocator only on the edge where beginRelocation returned true; the losing edge returns without dispatch or RelocationStarted event; a failed dispatch releases the job again; (3) endRelocation is called only by the worker's finish, the worker's stopping-system exit, the relocator's abort path and the two dispatch error edges; every exit of relocationWorker.relocate reaches finish or endRelocation exactly once; (4) one relocate/abort path publishes at most one RelocationFailed event, built from the merged failure set; (5) worker death: the relocator aborts only when the registered job is the dead worker's own snapshot (pointer identity). Added after seed C33a: on completion and on abort the departed node's stored snapshot is deleted before the relocation job is released. Added after seed C33b: every site that builds a peers address from a PeerState for use as a key (job registry, store, events) builds it with net.JoinHostPort; a differently formatted string may only be logged. Also: in recreateActorFromWire the respawn is reachable only over the edge on which releaseDepartedEntry reported 'proceed' (the record still named the departed node).",
		assumptions: []string{"'every relocated item ends up running on exactly one survivor' is a distributed outcome", "per-item accounting inside enqueueRelocation/relocateShare is covered only through the shared failure collector"},
		minObl:     18,
		run:        runC33,
	})
}

func runC33(c *Ctx) {
	begin := c.Func("actor", "actorSystem.beginRelocation")
	end := c.FuncObj("actor", "actorSystem.endRelocation")
	iEnd := c.FuncObj("actor", "ActorSystem.endRelocation")
	jobs := c.Field("actor", "actorSystem", "relocationJobs")
	mu := c.Field("actor", "actorSystem", "relocationJobsLocker")

	c.Rule("job-table", func() {
		c.GuardedBy(guardSpec{name: "relocationJobs", lock: mu, fields: []*types.Var{jobs}, exemptFns: map[string]string{"actor.NewActorSystem": "constructor", "actor.newActorSystem": "constructor"}})
		f := c.NewFlow(begin)
		info := f.Info
		var existsObj types.Object
		for _, a := range f.Find(func(n ast.Node) bool { _, _, _, ok := commaOkLookup(info, n, jobs); return ok }) {
			_, existsObj, _, _ = commaOkLookup(info, a.N, jobs)
		}
		present := f.CondEdges(func(e ast.Expr) bool { id, ok := e.(*ast.Ident); return ok && existsObj != nil && info.ObjectOf(id) == existsObj }, true)
		ins := func(n ast.Node) bool { _, _, ok := isMapWrite(info, n, jobs); return ok }
		w := f.AfterEdgesMayReach(present, nil, nil, ins)
		retFalse := func(n ast.Node) bool {
			r, ok := n.(*ast.ReturnStmt)
			if !ok || len(r.Results) != 1 {
				return false
			}
			id, ok := r.Results[0].(*ast.Ident)
			return ok && id.Name == "false"
		}
		w2 := f.AfterEdgesMustPass(present, retFalse, nil)
		absent := f.CondEdges(func(e ast.Expr) bool { id, ok := e.(*ast.Ident); return ok && existsObj != nil && info.ObjectOf(id) == existsObj }, false)
		wAbs := f.search(searchSpec{avoidEdges: absent, target: ins})
		c.Check(w == nil && w2 == nil && wAbs == nil && len(absent) > 0 && len(present) > 0 && len(f.Find(ins)) == 1, "begin/test-and-insert", "beginRelocation registers a job only when none is registered for the address and reports the loser", c.P.Pos(begin.Decl.Pos()), f.describe(w)+f.describe(w2))
		la := f.Locks(nil)
		okCS := true
		for _, a := range append(f.Find(ins), f.Find(func(n ast.Node) bool { _, _, _, ok := commaOkLookup(info, n, jobs); return ok })...) {
			if la.At(a)[mu] != 2 {
				okCS = false
			}
		}
		c.Check(okCS, "begin/one-critical-section", "the test and the insert share one critical section", c.P.Pos(begin.Decl.Pos()), "")
	})

	c.Rule("dispatch-gated", func() {
		n := 0
		for _, u := range c.UsesOf(begin.Obj) {
			if u.Call == nil || u.EnclObj == nil {
				continue
			}
			n++
			fn := c.fnOfObj(u.EnclObj)
			f := c.NewFlow(fn)
			info := f.Info
			won := f.CondEdges(func(e ast.Expr) bool { return e == ast.Expr(u.Call) }, true)
			dispatch := func(nd ast.Node) bool {
				call, ok := nd.(*ast.CallExpr)
				if !ok {
					return false
				}
				cal := callee(info, call)
				if cal == nil || cal.Name() != "Tell" {
					return false
				}
				for _, a := range call.Args {
					found := false
					ast.Inspect(a, func(m ast.Node) bool {
						if cl, ok := m.(*ast.CompositeLit); ok {
							if t := info.TypeOf(cl); t != nil && isNamed(t, "Rebalance") {
								found = true
							}
						}
						return true
					})
					if found {
						return true
					}
				}
				return false
			}
			started := func(nd ast.Node) bool {
				call, ok := nd.(*ast.CallExpr)
				if !ok {
					return false
				}
				cal := callee(info, call)
				return cal != nil && cal.Name() == "publishRelocationStarted"
			}
			key := "caller=" + u.EnclName()
			w := f.search(searchSpec{avoidEdges: won, target: Or(dispatch, started)})
			c.Check(w == nil && len(won) > 0 && len(f.Find(dispatch)) == 1, key+"/only-winner-dispatches", "the Rebalance is dispatched (and RelocationStarted announced) only by the caller that won beginRelocation", u.Where(c.P), f.describe(w))
			fail, n2 := f.ErrEdgesOf(dispatch, true)
			w = f.AfterEdgesMustPass(fail, f.CallTo(end, iEnd), nil)
			c.Check(n2 == 1 && w == nil && len(fail) > 0, key+"/failed-dispatch-releases", "a dispatch that fails releases the job it registered", u.Where(c.P), f.describe(w))
		}
		if n < 2 {
			c.Undecided("count", "two dispatch sites gated by beginRelocation", "-", "found fewer")
		}
	})

	c.Rule("release", func() {
		allow := map[string]string{
			"actor.(*relocationWorker).finish": "normal completion", "actor.(*relocationWorker).relocate": "system stopping before work started",
			"actor.(*relocator).abortRelocation": "worker could not be started / died", "actor.(*actorSystem).handleNodeLeftEvent": "dispatch error", "actor.(*actorSystem).dispatchDerivedRebalance": "dispatch error",
			"actor.(*actorSystem).rebalanceDepartedNode": "dispatch error", "actor.(*actorSystem).handleNodeLeft": "dispatch error", "actor.(*actorSystem).clusterEventsLoop": "dispatch error",
		}
		for _, m := range []*types.Func{end, iEnd} {
			for _, u := range c.UsesOf(m) {
				if u.EnclObj == nil {
					continue
				}
				_, ok := allow[funcName(u.EnclObj)]
				c.Check(ok, "endRelocation<-"+u.EnclName(), "a relocation job is released only by the listed completion/abort/error paths", u.Where(c.P), "released in "+u.EnclName())
			}
		}
		rl := c.Func("actor", "relocationWorker.relocate")
		f := c.NewFlow(rl)
		fin := Or(f.CallTo(c.FuncObj("actor", "relocationWorker.finish")), f.CallTo(end, iEnd))
		w := f.ExitReachable(nil, fin, nil, nil)
		c.Check(w == nil, "relocate/every-exit-releases", "every exit of the worker's relocate releases the job (finish or endRelocation)", c.P.Pos(rl.Decl.Pos()), f.describe(w))
		w = f.MayReach(f.Find(fin), nil, fin)
		c.Check(w == nil, "relocate/releases-once", "a relocate path releases the job once", c.P.Pos(rl.Decl.Pos()), f.describe(w))
		// one RelocationFailed per path
		failEv := func(n ast.Node) bool {
			call, ok := n.(*ast.CallExpr)
			if !ok {
				return false
			}
			cal := callee(f.Info, call)
			return cal != nil && (cal.Name() == "NewRelocationFailed" || cal.Name() == "reportAbortedRelocation")
		}
		w = f.MayReach(f.Find(failEv), nil, failEv)
		c.Check(w == nil && len(f.Find(failEv)) >= 1, "relocate/one-failure-event", "a relocate path publishes at most one RelocationFailed event", c.P.Pos(rl.Decl.Pos()), f.describe(w))
		// built from the merged failure set
		fromItems := false
		ast.Inspect(rl.Decl.Body, func(n ast.Node) bool {
			if call, ok := n.(*ast.CallExpr); ok {
				if cal := callee(f.Info, call); cal != nil && cal.Name() == "items" {
					fromItems = true
				}
			}
			return true
		})
		c.Check(fromItems, "relocate/failures-from-collector", "the event is built from the shared failure collector that every share writes to", c.P.Pos(rl.Decl.Pos()), "")
	})

	c.Rule("snapshot-before-release", func() {
		// duplicate NodeLeft suppression relies on: the snapshot in the cluster store is visible only while the job is registered
		del := func(info *types.Info) Match {
			return func(n ast.Node) bool {
				call, ok := n.(*ast.CallExpr)
				if !ok {
					return false
				}
				cal := callee(info, call)
				return cal != nil && cal.Name() == "DeletePeerState"
			}
		}
		n := 0
		for _, name := range []string{"relocationWorker.finish", "relocator.abortRelocation"} {
			fn := c.TryFunc("actor", name)
			if fn == nil {
				continue
			}
			f := c.NewFlow(fn)
			rel := f.CallTo(end, iEnd)
			if len(f.Find(del(f.Info))) == 0 || len(f.Find(rel)) == 0 {
				continue
			}
			n++
			w := f.MayReach(f.Find(rel), nil, del(f.Info))
			c.Check(w == nil, "delete≺release/"+name, "the departed node's stored snapshot is removed before its relocation job is released (a duplicate NodeLeft arriving in between finds either the job or no snapshot)", c.P.Pos(fn.Decl.Pos()), "the job is released while the snapshot is still stored: "+f.describe(w))
		}
		if n < 2 {
			c.Undecided("delete≺release/sites", "completion and abort paths found", "-", "found "+itoa(n))
		}
	})

	c.Rule("recreate-gated", func() {
		// An ordinary actor of a departed node is respawned only after its registry record was released for that node:
		// releaseDepartedEntry reports (proceed, err); the respawn is reachable only over the edge on which it returned no
		// error AND proceed (the record still named the departed node). A stale re-run that finds the record pointing at
		// a survivor must not respawn a second copy.
		fn := c.Func("actor", "actorSystem.recreateActorFromWire")
		f := c.NewFlow(fn)
		info := f.Info
		rel := c.FuncObj("actor", "actorSystem.releaseDepartedEntry")
		spawn := f.CallTo(c.FuncObj("actor", "actorSystem.spawnRelocatedActor"))
		var proceedObj types.Object
		ast.Inspect(fn.Decl.Body, func(n ast.Node) bool {
			if as, ok := n.(*ast.AssignStmt); ok && len(as.Lhs) == 2 && len(as.Rhs) == 1 && as.Tok == token.DEFINE {
				if call, ok := as.Rhs[0].(*ast.CallExpr); ok && callee(info, call) == rel {
					proceedObj = objOf(info, as.Lhs[0])
				}
			}
			return true
		})
		if proceedObj == nil || len(f.Find(spawn)) == 0 {
			c.Undecided("respawn-only-if-released", "the respawn is gated on releaseDepartedEntry", c.P.Pos(fn.Decl.Pos()), "gate or respawn not found")
			return
		}
		proceed := f.BoolEdges(func(e ast.Expr) bool { id, ok := e.(*ast.Ident); return ok && info.ObjectOf(id) == proceedObj }, true)
		c.guardedBy(f, proceed, spawn, "respawn-only-if-released", "a departed node's actor is respawned only over the edge on which releaseDepartedEntry reported that the record still named the departed node", c.P.Pos(fn.Decl.Pos()))
		this := func(n ast.Node) bool {
			call, ok := n.(*ast.CallExpr)
			if !ok || callee(info, call) != rel {
				return false
			}
			// the gating call: the one whose results are bound to (proceed, err)
			return true
		}
		_ = this
	})

	c.Rule("address-key", func() {
		// The relocation job registry, the peer-state store and the relocation events are keyed by the departed node's
		// peers address. Every place that builds that key from a PeerState builds it the same way (net.JoinHostPort:
		// "[::1]:9000" for an IPv6 host), or the relocator looks a job up under a key nobody registered. A differently
		// formatted string is tolerated only when it goes nowhere but into log calls.
		n := 0
		for _, rel := range []string{"actor", "internal/cluster"} {
			pk := c.pkg(rel)
			info := pk.TypesInfo
			isGetter := func(nd ast.Node, name string) bool {
				call, ok := nd.(*ast.CallExpr)
				if !ok {
					return false
				}
				cal := callee(info, call)
				if cal == nil || cal.Name() != name {
					return false
				}
				sig := cal.Type().(*types.Signature)
				nt := namedOf(sig.Recv().Type())
				return nt != nil && nt.Obj().Name() == "PeerState"
			}
			for _, file := range pk.Syntax {
				for _, d := range file.Decls {
					fd, ok := d.(*ast.FuncDecl)
					if !ok || fd.Body == nil {
						continue
					}
					var stack []ast.Node
					ast.Inspect(fd.Body, func(nd ast.Node) bool {
						if nd == nil {
							stack = stack[:len(stack)-1]
							return true
						}
						stack = append(stack, nd)
						if !isGetter(nd, "GetHost") {
							return true
						}
						// lowest enclosing call that also contains GetPeersPort
						for i := len(stack) - 2; i >= 0; i-- {
							call, ok := stack[i].(*ast.CallExpr)
							if !ok || !containsNode(call, func(m ast.Node) bool { return isGetter(m, "GetPeersPort") }) {
								continue
							}
							n++
							cal := callee(info, call)
							key := "combine@" + funcNameOfDecl(info, fd)
							where := c.P.Pos(call.Pos())
							switch {
							case cal != nil && qualifiedName(cal) == "net.JoinHostPort":
								c.Ok(key, "host and peers port are combined with net.JoinHostPort", where)
							case cal != nil && isLoggerMethod(cal):
								c.Ok(key+"/log", "host and port are only printed", where)
							default:
								// a formatted string: every use of the local it is assigned to must be an argument of a log call
								onlyLogged := false
								if i > 0 {
									if as, ok := stack[i-1].(*ast.AssignStmt); ok && len(as.Lhs) == 1 {
										if o := objOf(info, as.Lhs[0]); o != nil {
											onlyLogged = true
											var st2 []ast.Node
											ast.Inspect(fd.Body, func(m ast.Node) bool {
												if m == nil {
													st2 = st2[:len(st2)-1]
													return true
												}
												st2 = append(st2, m)
												id, ok := m.(*ast.Ident)
												if !ok || info.Uses[id] != o {
													return true
												}
												logged := false
												for j := len(st2) - 2; j >= 0; j-- {
													if pc, ok := st2[j].(*ast.CallExpr); ok {
														if pcal := callee(info, pc); pcal != nil && isLoggerMethod(pcal) {
															logged = true
														}
														break
													}
												}
												if !logged {
													onlyLogged = false
												}
												return true
											})
										}
									}
								}
								c.Check(onlyLogged, key, "a peer address that is used as a key (job registry, store, events) is built with net.JoinHostPort, like every other site", where, "host and peers port are combined by "+types.ExprString(call.Fun)+" and the result is used beyond logging: for an IPv6 host the key differs from the one the other sites compute")
							}
							break
						}
						return true
					})
				}
			}
		}
		if n < 3 {
			c.Undecided("address-key/count", "the sites that build a peers address from a PeerState are found", "-", fmt.Sprintf("found %d", n))
		}
	})

	c.Rule("worker-death", func() {
		ht := c.Func("actor", "relocator.handleTerminated")
		f := c.NewFlow(ht)
		info := f.Info
		abort := f.CallTo(c.FuncObj("actor", "relocator.abortRelocation"))
		same := f.EdgesWhere(func(cond ast.Expr) (bool, bool) {
			cm, ok := asCmp(cond, true)
			if !ok {
				return false, false
			}
			// the job currently registered (result of relocationJob) compared with the dead worker's own snapshot
			isRegistered := func(e ast.Expr) bool {
				id, ok := ast.Unparen(e).(*ast.Ident)
				if !ok {
					return false
				}
				def, ok := singleLocalDefIn(info, ht.Decl.Body, info.ObjectOf(id)).(*ast.CallExpr)
				if !ok {
					return false
				}
				cal := callee(info, def)
				return cal != nil && cal.Name() == "relocationJob"
			}
			isSnapshot := func(e ast.Expr) bool {
				fv := selField(info, e)
				return fv != nil && fv.Name() == "peerState"
			}
			if (isRegistered(cm.L) && isSnapshot(cm.R)) || (isRegistered(cm.R) && isSnapshot(cm.L)) {
				return true, cm.Op.String() == "=="
			}
			return false, false
		})
		_ = info
		w := f.search(searchSpec{avoidEdges: same, target: abort})
		c.Check(w == nil && len(same) > 0 && len(f.Find(abort)) == 1, "abort-only-own-job", "a dead worker aborts the relocation only if the registered job is that worker's own snapshot (a newer job for the same address is left alone)", c.P.Pos(ht.Decl.Pos()), f.describe(w))
		ab := c.Func("actor", "relocator.abortRelocation")
		af := c.NewFlow(ab)
		w = af.ExitReachable(nil, af.CallTo(end, iEnd), nil, nil)
		c.Check(w == nil, "abort-releases", "aborting always releases the job", c.P.Pos(ab.Decl.Pos()), af.describe(w))
	})
}

func funcNameOfDecl(info *types.Info, fd *ast.FuncDecl) string {
	if obj, ok := info.Defs[fd.Name].(*types.Func); ok {
		return funcName(obj)
	}
	return fd.Name.Name
}

// isLoggerMethod: a method of the log.Logger interface (or an implementation) used for printing.
func isLoggerMethod(f *types.Func) bool {
	sig, _ := f.Type().(*types.Signature)
	if sig == nil || sig.Recv() == nil || f.Pkg() == nil {
		return false
	}
	if relPkg(f.Pkg().Path()) != "log" {
		return false
	}
	switch f.Name() {
	case "Debug", "Debugf", "Info", "Infof", "Warn", "Warnf", "Error", "Errorf", "Fatal", "Fatalf", "Panic", "Panicf":
		return true
	}
	return false
}
