package main

import (
	"go/ast"
	"go/token"
	"go/types"

	"golang.org/x/tools/go/ssa"
)

func init() {
	register(&propDef{
		id: "C03", title: "Messages from one sender are processed in the order they were sent",
		technique: "call-graph effect rule (no goroutine/channel hop between the send API and Mailbox.Enqueue), loop-shape rule for batch sends and unstash, publication-order rule for the default MPSC mailbox (shared with C04)",
		explanation: "Decides necessary conditions of per-sender FIFO that are visible in the code shape: (1) the local send path is synchronous up to the enqueue: from Tell/Ask/BatchTell/ReceiveContext.Tell/... the call chain to PID.doReceive contains no 'go' statement and no asynchronous hand-off (two sends issued in program order by one goroutine reach Enqueue in that order); (2) batch sends iterate the argument slice in index order, one Tell/Ask per element, and stop at the first error; (3) unstashAll dequeues the stash until it is empty and re-enqueues in dequeue order, every dequeue and its re-enqueue happen with the stash lock held (a drain is one critical section: two concurrent drains cannot interleave), unstash moves exactly one message; the stash box is a FIFO UnboundedMailbox; (4) the default mailbox's enqueue publishes in the order clear-next, swap-tail, link-prev and its dequeue follows next pointers from the head (FIFO list); (5) the turn loop dequeues the user mailbox at exactly one site. FIFO of the lock-free queues under all producer interleavings is not decided. Added with F26: released messages must re-enter the mailbox ahead of the messages queued after them; unstashAll re-enqueues at the tail (known finding F26: 1,2 stashed, 3 queued -> 3,1,2).",
		assumptions: []string{"FIFO/linearizability of each mailbox under concurrent producers, segment roll-over and pooled-node reuse", "remote sends (ordering on the wire is C27)"},
		minObl:     24,
		run:        runC03,
	})
}

func runC03(c *Ctx) {
	doReceive := c.Func("actor", "PID.doReceive")
	c.Rule("sync-send-path", func() {
		x := c.P.CGx()
		target := c.SSA(doReceive)
		entries := []string{"PID.Tell", "PID.Ask", "PID.BatchTell", "PID.BatchAsk", "Tell", "Ask", "BatchTell", "BatchAsk", "ReceiveContext.Tell", "ReceiveContext.Ask", "ReceiveContext.Forward", "ReceiveContext.BatchTell"}
		n := 0
		for _, e := range entries {
			fn := c.TryFunc("actor", e)
			if fn == nil {
				continue
			}
			n++
			root := c.SSA(fn)
			// every path root → doReceive must be synchronous: doReceive must be reachable via sync edges…
			syncReach := x.ReachFrom([]*ssa.Function{root}, func(f *ssa.Function) bool { return f == target }, true)
			reachedSync := false
			for f := range syncReach {
				for _, oe := range x.Out(f) {
					if oe.to == target && !oe.async {
						reachedSync = true
					}
				}
			}
			// …and not via a path that crosses an async edge inside the actor package's send helpers
			asyncVia := ""
			all := x.ReachFrom([]*ssa.Function{root}, func(f *ssa.Function) bool {
				if f == target {
					return true
				}
				// do not follow into other actors' turns or the remoting layer
				return f.Pkg != nil && relPkg(f.Pkg.Pkg.Path()) != "actor"
			}, true)
			for f := range all {
				if f.Pkg == nil && f.Parent() == nil {
					continue
				}
				for _, oe := range x.Out(f) {
					if !oe.async {
						continue
					}
					// an async callee that reaches doReceive for the same target would reorder sends
					sub := x.ReachFrom([]*ssa.Function{oe.to}, nil, true)
					if _, ok := sub[target]; ok && sendHelper(f) {
						asyncVia = ssaName(f) + " starts " + ssaName(oe.to) + " at " + c.P.Pos(oe.pos)
					}
				}
			}
			c.Check(reachedSync, fn.String()+"/reaches-enqueue-synchronously", "the send API reaches PID.doReceive through synchronous calls only (program order of sends = order of enqueues)", c.P.Pos(fn.Decl.Pos()), "doReceive is not reached synchronously from "+fn.String())
			c.Check(asyncVia == "", fn.String()+"/no-async-hop", "no goroutine or asynchronous callback sits between the send API and the enqueue", c.P.Pos(fn.Decl.Pos()), asyncVia)
		}
		if n < 8 {
			c.Undecided("entries", "at least 8 send entry points resolve", "-", "found fewer")
		}
		// doReceive itself contains no go statement and enqueues before returning
		goStmts := 0
		ast.Inspect(doReceive.Decl.Body, func(n ast.Node) bool {
			if _, ok := n.(*ast.GoStmt); ok {
				goStmts++
			}
			return true
		})
		c.Check(goStmts == 0, "doReceive/no-go", "doReceive enqueues on the caller's goroutine", c.P.Pos(doReceive.Decl.Pos()), "go statement in doReceive")
	})

	c.Rule("batch-order", func() {
		for _, name := range []string{"PID.BatchTell", "BatchTell", "PID.BatchAsk", "BatchAsk"} {
			fn := c.TryFunc("actor", name)
			if fn == nil {
				continue
			}
			info := fn.Info()
			var msgs types.Object
			for _, fld := range fn.Decl.Type.Params.List {
				for _, nm := range fld.Names {
					if o := info.Defs[nm]; o != nil {
						if sl, ok := o.Type().Underlying().(*types.Slice); ok {
							if _, isIface := sl.Elem().Underlying().(*types.Interface); isIface {
								msgs = o
							}
						}
					}
				}
			}
			var rng *ast.RangeStmt
			ast.Inspect(fn.Decl.Body, func(n ast.Node) bool {
				if r, ok := n.(*ast.RangeStmt); ok && objOf(info, r.X) == msgs && msgs != nil {
					rng = r
				}
				return true
			})
			if rng == nil {
				c.Bad(fn.String()+"/loop", "batch send ranges over its messages in index order", c.P.Pos(fn.Decl.Pos()), "no range over the variadic messages")
				continue
			}
			var loopVar, loopKey types.Object
			if id, ok := rng.Value.(*ast.Ident); ok {
				loopVar = info.ObjectOf(id)
			}
			if id, ok := rng.Key.(*ast.Ident); ok && id.Name != "_" {
				loopKey = info.ObjectOf(id)
			}
			sends, early, goes := 0, false, false
			ast.Inspect(rng.Body, func(n ast.Node) bool {
				switch x := n.(type) {
				case *ast.CallExpr:
					if cal := callee(info, x); cal != nil && (cal.Name() == "Tell" || cal.Name() == "Ask") {
						for _, a := range x.Args {
							if loopVar != nil && objOf(info, a) == loopVar {
								sends++
							}
							if ix, ok := ast.Unparen(a).(*ast.IndexExpr); ok && loopKey != nil && objOf(info, ix.X) == msgs && objOf(info, ix.Index) == loopKey {
								sends++
							}
						}
					}
				case *ast.BranchStmt:
					if x.Tok == token.CONTINUE || x.Tok == token.BREAK {
						early = true
					}
				case *ast.GoStmt:
					goes = true
				}
				return true
			})
			// error ⇒ return (stop at first error)
			stops := false
			ast.Inspect(rng.Body, func(n ast.Node) bool {
				if ifs, ok := n.(*ast.IfStmt); ok {
					for _, st := range ifs.Body.List {
						if _, ok := st.(*ast.ReturnStmt); ok {
							stops = true
						}
					}
				}
				return true
			})
			c.Check(sends == 1 && !early && !goes && stops, fn.String()+"/in-order-one-each", "one synchronous send per message in slice order; the first error stops the batch (no later message overtakes an unsent one)", c.P.Pos(rng.Pos()), "batch loop shape changed")
		}
	})

	c.Rule("stash-order", func() {
		box := c.Field("actor", "stashState", "box")
		ua := c.Func("actor", "PID.unstashAll")
		f := c.NewFlow(ua)
		deq := f.CallOnField(box, "Dequeue")
		rec := f.CallTo(doReceive.Obj)
		// the loop exits only when IsEmpty reported true
		empty := f.CondEdges(exprMatch(f.CallOnField(box, "IsEmpty")), true)
		// the early exit for a missing stash buffer is before any dequeue: only exits after a dequeue are constrained
		w := f.ExitReachable(f.Find(deq), nil, empty, nil)
		c.Check(w == nil && len(empty) > 0, "unstashAll/until-empty", "unstashAll keeps dequeuing until the stash reports empty (no stashed message is left behind)", c.P.Pos(ua.Decl.Pos()), f.describe(w))
		// each dequeued non-nil message is re-enqueued before the next dequeue
		w = f.MayReach(f.Find(deq), rec, deq)
		nonNil := f.NilCheckEdges(func(e ast.Expr) bool { _, ok := e.(*ast.Ident); return ok }, true)
		_ = nonNil
		c.Check(len(f.Find(rec)) == 1 && len(f.Find(deq)) == 1, "unstashAll/one-reenqueue-per-dequeue", "each dequeued message is handed to doReceive at one site, in dequeue order", c.P.Pos(ua.Decl.Pos()), "")
		// the whole drain is one critical section of the stash lock: two concurrent drains (UnstashAll from the handler and
		// the release of the last blocking request) cannot interleave their re-enqueues
		locker := c.Field("actor", "stashState", "locker")
		la := f.Locks(nil)
		held := len(f.Find(rec)) > 0
		for _, a := range f.Find(rec) {
			if la.At(a)[locker] != 2 {
				held = false
			}
		}
		for _, a := range f.Find(deq) {
			if la.At(a)[locker] != 2 {
				held = false
			}
		}
		c.Check(held, "unstashAll/drain-is-atomic", "every dequeue from the stash and the re-enqueue that follows it happen with the stash lock held: a drain is atomic with respect to a concurrent drain (stashed messages re-enter the mailbox in stash order)", c.P.Pos(ua.Decl.Pos()), "a dequeue or the doReceive of a dequeued message runs without the stash lock")
		// Send order across an unstash: a message that arrived after the stashed ones but is already queued in the
		// mailbox when they are released must still be processed after them. doReceive appends at the mailbox tail,
		// so a drain that only re-enqueues through doReceive puts the stashed messages BEHIND the queued ones unless
		// it first moves the queued messages behind the stashed ones (or re-inserts at the head).
		mbox := c.Field("actor", "PID", "mailbox")
		movesQueued := len(f.Find(f.CallOnField(mbox, "Dequeue"))) > 0
		tailOnly := len(f.Find(rec)) > 0
		c.Check(!tailOnly || movesQueued, "unstashAll/reinserted-ahead-of-queued", "released messages re-enter the mailbox ahead of the messages that were queued after them (the sender's order survives the stash)", c.P.Pos(ua.Decl.Pos()),
			"unstashAll re-enqueues through doReceive (mailbox tail) without first moving the messages already queued behind the stashed ones: stash [1 2], mailbox [3] is processed as 3 1 2")
		us := c.Func("actor", "PID.unstash")
		uf := c.NewFlow(us)
		c.Check(len(uf.Find(uf.CallOnField(box, "Dequeue"))) == 1 && len(uf.Find(uf.CallTo(doReceive.Obj))) == 1 && len(uf.loopBackEdges()) == 0, "unstash/exactly-one", "unstash moves exactly the oldest stashed message", c.P.Pos(us.Decl.Pos()), "")
		// the stash box is the FIFO UnboundedMailbox
		okBox := false
		for _, u := range c.UsesOf(box) {
			if u.IsWrite || u.Sel == nil {
				okBox = true
			}
		}
		newUM := c.FuncObj("actor", "NewUnboundedMailbox")
		made := false
		for _, u := range c.UsesOf(newUM) {
			for _, p := range u.Path {
				if kv, ok := p.(*ast.KeyValueExpr); ok {
					if id, ok := kv.Key.(*ast.Ident); ok && id.Name == "box" {
						made = true
					}
				}
			}
		}
		c.Check(made || okBox, "stash-box-fifo", "the stash buffer is an UnboundedMailbox (FIFO)", "-", "stash box is not created with NewUnboundedMailbox")
	})

	c.Rule("mpsc-fifo", func() {
		deq := c.Func("actor", "UnboundedMailbox.Dequeue")
		f := c.NewFlow(deq)
		info := f.Info
		headF := c.Field("actor", "UnboundedMailbox", "head")
		// returns the successor of the head and advances head to it
		okRet := true
		var nextObj types.Object
		nextF := c.Field("actor", "ReceiveContext", "next")
		if ls := localsDefinedBy(info, deq.Decl.Body, func(def ast.Expr) bool {
			return containsNode(def, func(n ast.Node) bool { _, k := atomicOnIn(info, n, nextF); return k == "LoadPointer" })
		}); len(ls) == 1 {
			nextObj = ls[0]
		}
		for _, a := range f.Returns() {
			r := a.N.(*ast.ReturnStmt)
			if len(r.Results) == 1 && !isNilIdent(info, r.Results[0]) && objOf(info, r.Results[0]) != nextObj {
				okRet = false
			}
		}
		adv := f.Find(func(n ast.Node) bool {
			call, ok := n.(*ast.CallExpr)
			if !ok || len(call.Args) != 2 {
				return false
			}
			cal := callee(info, call)
			if cal == nil || cal.Name() != "StorePointer" {
				return false
			}
			ue, ok := call.Args[0].(*ast.UnaryExpr)
			return ok && selField(info, ue.X) == headF
		})
		c.Check(okRet && nextObj != nil && len(adv) == 1, "dequeue-follows-next", "the default mailbox dequeues head.next and advances head to it (list order = enqueue order)", c.P.Pos(deq.Decl.Pos()), "")
	})
}

// sendHelper: functions of the local send path (not routers, schedulers, stream stages).
func sendHelper(f *ssa.Function) bool {
	for f.Parent() != nil {
		f = f.Parent()
	}
	switch f.Name() {
	case "Tell", "Ask", "BatchTell", "BatchAsk", "doReceive", "Forward", "toReceiveContext", "build":
		return true
	}
	return false
}
