package main

import (
	"fmt"
	"go/constant"
	"go/token"
	"go/types"
	"math/big"
	"sort"
	"strings"

	"golang.org/x/tools/go/ssa"
)

// E7: guarded arithmetic on go/ssa. Integer SSA values are abstracted to
// linear forms over opaque symbols (parameters, wire reads, lengths, phis)
// with interval ranges; a form is kept through an operation only if the
// operation cannot overflow/wrap for the operand ranges (so uint32 sums of
// wire values lose their relation, exactly as at run time). Branch edges
// that dominate a program point contribute linear facts; entailment is decided
// by Fourier–Motzkin elimination over the rationals (sound for integers).
// Loop-carried offsets get the inductive invariant phi <= len(S) when every
// incoming value is proven <= len(S).

var (
	bigMaxLen = new(big.Int).Lsh(big.NewInt(1), 56) // assumed bound on any slice/string length
)

type symID int

type linForm struct {
	c map[symID]*big.Rat
	k *big.Rat
}

func newLin(k int64) *linForm { return &linForm{c: map[symID]*big.Rat{}, k: big.NewRat(k, 1)} }

func (a *linForm) clone() *linForm {
	n := &linForm{c: map[symID]*big.Rat{}, k: new(big.Rat).Set(a.k)}
	for s, v := range a.c {
		n.c[s] = new(big.Rat).Set(v)
	}
	return n
}

func (a *linForm) addScaled(b *linForm, f *big.Rat) *linForm {
	n := a.clone()
	for s, v := range b.c {
		t := new(big.Rat).Mul(v, f)
		if old, ok := n.c[s]; ok {
			t.Add(t, old)
		}
		if t.Sign() == 0 {
			delete(n.c, s)
		} else {
			n.c[s] = t
		}
	}
	n.k.Add(n.k, new(big.Rat).Mul(b.k, f))
	return n
}

func (a *linForm) add(b *linForm) *linForm { return a.addScaled(b, big.NewRat(1, 1)) }
func (a *linForm) sub(b *linForm) *linForm { return a.addScaled(b, big.NewRat(-1, 1)) }
func (a *linForm) plus(k int64) *linForm {
	n := a.clone()
	n.k.Add(n.k, big.NewRat(k, 1))
	return n
}
func (a *linForm) isConst() bool { return len(a.c) == 0 }

type rng struct{ lo, hi *big.Int } // inclusive; nil = unbounded

type arith struct {
	c       *Ctx
	fn      *ssa.Function
	syms    []string
	symRng  []rng
	symOf   map[ssa.Value]symID
	lenSym  map[ssa.Value]symID
	forms   map[ssa.Value]*linForm
	inProg  map[ssa.Value]bool
	phiInv  map[*ssa.Phi]*linForm // proven upper-bound invariant (phi <= form)
	idom    map[*ssa.BasicBlock]*ssa.BasicBlock
	wireSym map[symID]bool // symbols read from the wire / parameters of unknown magnitude
	cfgSym  map[symID]bool // symbols loaded from configuration (fields, globals, int parameters)
	depth   int
}

var lenSummaries = map[*ssa.Function]int{} // callee -> index of the parameter (incl. receiver) equal to len(result); -1 = none

// lenSummary: every return of fn yields a slice whose length is exactly one integer parameter.
func (a *arith) lenSummary(fn *ssa.Function) (int, bool) {
	if v, ok := lenSummaries[fn]; ok {
		return v, v >= 0
	}
	lenSummaries[fn] = -1
	sub := newArith(a.c, fn)
	sub.depth = a.depth + 1
	res := -2
	for _, b := range fn.Blocks {
		for _, ins := range b.Instrs {
			r, ok := ins.(*ssa.Return)
			if !ok || len(r.Results) != 1 {
				continue
			}
			f := sub.lenForm(r.Results[0])
			idx := -1
			if len(f.c) == 1 && f.k.Sign() == 0 {
				for s, c := range f.c {
					if c.Cmp(big.NewRat(1, 1)) == 0 {
						for i, p := range fn.Params {
							if id, ok := sub.symOf[p]; ok && id == s {
								idx = i
							}
						}
					}
				}
			}
			if idx < 0 || (res != -2 && res != idx) {
				return -1, false
			}
			res = idx
		}
	}
	if res < 0 {
		return -1, false
	}
	lenSummaries[fn] = res
	return res, true
}

func linEqual(a, b *linForm) bool {
	if a.k.Cmp(b.k) != 0 || len(a.c) != len(b.c) {
		return false
	}
	for s, v := range a.c {
		w, ok := b.c[s]
		if !ok || v.Cmp(w) != 0 {
			return false
		}
	}
	return true
}

func newArith(c *Ctx, fn *ssa.Function) *arith {
	a := &arith{c: c, fn: fn, symOf: map[ssa.Value]symID{}, lenSym: map[ssa.Value]symID{}, forms: map[ssa.Value]*linForm{}, inProg: map[ssa.Value]bool{}, phiInv: map[*ssa.Phi]*linForm{}, wireSym: map[symID]bool{}, cfgSym: map[symID]bool{}}
	a.idom = map[*ssa.BasicBlock]*ssa.BasicBlock{}
	for _, b := range fn.Blocks {
		a.idom[b] = b.Idom()
	}
	a.inferPhiInvariants()
	return a
}

func typeRange(t types.Type) rng {
	b, ok := t.Underlying().(*types.Basic)
	if !ok {
		return rng{}
	}
	p := func(bits uint, signed bool) rng {
		if signed {
			lo := new(big.Int).Neg(new(big.Int).Lsh(big.NewInt(1), bits-1))
			hi := new(big.Int).Sub(new(big.Int).Lsh(big.NewInt(1), bits-1), big.NewInt(1))
			return rng{lo, hi}
		}
		return rng{big.NewInt(0), new(big.Int).Sub(new(big.Int).Lsh(big.NewInt(1), bits), big.NewInt(1))}
	}
	switch b.Kind() {
	case types.Int8:
		return p(8, true)
	case types.Int16:
		return p(16, true)
	case types.Int32:
		return p(32, true)
	case types.Int, types.Int64:
		return p(64, true)
	case types.Uint8:
		return p(8, false)
	case types.Uint16:
		return p(16, false)
	case types.Uint32:
		return p(32, false)
	case types.Uint, types.Uint64, types.Uintptr:
		return p(64, false)
	case types.UntypedInt:
		return p(64, true)
	}
	return rng{}
}

func (a *arith) newSym(name string, r rng) symID {
	a.syms = append(a.syms, name)
	a.symRng = append(a.symRng, r)
	return symID(len(a.syms) - 1)
}

func (a *arith) symFor(v ssa.Value, name string, r rng) *linForm {
	id, ok := a.symOf[v]
	if !ok {
		id = a.newSym(name, r)
		a.symOf[v] = id
	}
	f := newLin(0)
	f.c[id] = big.NewRat(1, 1)
	return f
}

// lenForm returns the linear form of len(x).
func (a *arith) lenForm(x ssa.Value) *linForm {
	switch v := x.(type) {
	case *ssa.Slice:
		var lo *linForm = newLin(0)
		if v.Low != nil {
			lo = a.lin(v.Low)
		}
		if v.High != nil {
			hi := a.lin(v.High)
			if hi != nil && lo != nil {
				return hi.sub(lo)
			}
		} else if lo != nil {
			base := a.baseLen(v.X)
			if base != nil {
				return base.sub(lo)
			}
		}
	case *ssa.Const:
		if v.Value != nil && v.Value.Kind() == constant.String {
			return newLin(int64(len(constant.StringVal(v.Value))))
		}
	case *ssa.MakeSlice:
		return a.lin(v.Len)
	case *ssa.Phi:
		if !a.inProg[v] {
			a.inProg[v] = true
			var common *linForm
			same := true
			for _, e := range v.Edges {
				f := a.lenForm(e)
				if common == nil {
					common = f
				} else if !linEqual(common, f) {
					same = false
				}
			}
			delete(a.inProg, v)
			if same && common != nil {
				return common
			}
		}
	case *ssa.Call:
		if fn := v.Call.StaticCallee(); fn != nil && fn.Blocks != nil && a.c.P.firstParty(fn) && a.depth < 2 {
			if idx, ok := a.lenSummary(fn); ok {
				args := v.Call.Args
				if idx < len(args) {
					return a.lin(args[idx])
				}
			}
		}
	case *ssa.Convert, *ssa.ChangeType:
		// string(b) / []byte(s) keep the length
		var src ssa.Value
		if cv, ok := v.(*ssa.Convert); ok {
			src = cv.X
		} else {
			src = v.(*ssa.ChangeType).X
		}
		if isByteSeq(src.Type()) && isByteSeq(x.Type()) {
			return a.lenForm(src)
		}
	}
	id, ok := a.lenSym[x]
	if !ok {
		id = a.newSym("len("+valName(x)+")", rng{big.NewInt(0), bigMaxLen})
		a.lenSym[x] = id
	}
	f := newLin(0)
	f.c[id] = big.NewRat(1, 1)
	return f
}

func isByteSeq(t types.Type) bool {
	switch u := t.Underlying().(type) {
	case *types.Basic:
		return u.Info()&types.IsString != 0
	case *types.Slice:
		b, ok := u.Elem().Underlying().(*types.Basic)
		return ok && b.Kind() == types.Uint8
	}
	return false
}

// baseLen: length of the operand of a slice expression (slice, string, or *array).
func (a *arith) baseLen(x ssa.Value) *linForm {
	t := x.Type().Underlying()
	if p, ok := t.(*types.Pointer); ok {
		if arr, ok := p.Elem().Underlying().(*types.Array); ok {
			return newLin(arr.Len())
		}
	}
	if arr, ok := t.(*types.Array); ok {
		return newLin(arr.Len())
	}
	return a.lenForm(x)
}

func valName(v ssa.Value) string {
	if v == nil {
		return "?"
	}
	if n := v.Name(); n != "" {
		if p, ok := v.(*ssa.Parameter); ok {
			return p.Name()
		}
		return n
	}
	return v.String()
}

func isIntType(t types.Type) bool {
	b, ok := t.Underlying().(*types.Basic)
	return ok && b.Info()&types.IsInteger != 0
}

// rangeOf evaluates the interval of a linear form from its symbols' ranges.
func (a *arith) rangeOf(f *linForm) rng {
	lo, hi := new(big.Rat).Set(f.k), new(big.Rat).Set(f.k)
	loOK, hiOK := true, true
	for s, c := range f.c {
		r := a.symRng[s]
		var slo, shi *big.Int = r.lo, r.hi
		if c.Sign() > 0 {
			if slo == nil {
				loOK = false
			} else {
				lo.Add(lo, new(big.Rat).Mul(c, new(big.Rat).SetInt(slo)))
			}
			if shi == nil {
				hiOK = false
			} else {
				hi.Add(hi, new(big.Rat).Mul(c, new(big.Rat).SetInt(shi)))
			}
		} else {
			if shi == nil {
				loOK = false
			} else {
				lo.Add(lo, new(big.Rat).Mul(c, new(big.Rat).SetInt(shi)))
			}
			if slo == nil {
				hiOK = false
			} else {
				hi.Add(hi, new(big.Rat).Mul(c, new(big.Rat).SetInt(slo)))
			}
		}
	}
	var out rng
	if loOK {
		out.lo = ratFloor(lo)
	}
	if hiOK {
		out.hi = ratCeil(hi)
	}
	return out
}

func ratFloor(r *big.Rat) *big.Int {
	q := new(big.Int).Div(r.Num(), r.Denom()) // Euclidean division floors for positive denominators
	return q
}
func ratCeil(r *big.Rat) *big.Int {
	q := new(big.Int).Div(r.Num(), r.Denom())
	if new(big.Int).Mul(q, r.Denom()).Cmp(r.Num()) != 0 {
		q.Add(q, big.NewInt(1))
	}
	return q
}

func fits(r rng, t types.Type) bool {
	tr := typeRange(t)
	if tr.lo == nil || r.lo == nil || r.hi == nil {
		return false
	}
	return r.lo.Cmp(tr.lo) >= 0 && r.hi.Cmp(tr.hi) <= 0
}

// lin returns the linear form of an integer SSA value (never nil: opaque values become symbols).
func (a *arith) lin(v ssa.Value) *linForm {
	if f, ok := a.forms[v]; ok {
		return f
	}
	if a.inProg[v] {
		return a.symFor(v, valName(v), typeRange(v.Type()))
	}
	a.inProg[v] = true
	f := a.lin1(v)
	delete(a.inProg, v)
	a.forms[v] = f
	return f
}

func (a *arith) opaque(v ssa.Value, why string) *linForm {
	return a.symFor(v, valName(v)+why, typeRange(v.Type()))
}

func (a *arith) lin1(v ssa.Value) *linForm {
	switch x := v.(type) {
	case *ssa.Const:
		if x.Value != nil && (x.Value.Kind() == constant.Int) {
			if i, ok := constant.Int64Val(x.Value); ok {
				return newLin(i)
			}
			if u, ok := constant.Uint64Val(x.Value); ok {
				f := newLin(0)
				f.k.SetInt(new(big.Int).SetUint64(u))
				return f
			}
		}
		return a.opaque(v, "")
	case *ssa.Convert:
		if isIntType(x.X.Type()) && isIntType(x.Type()) {
			src := a.lin(x.X)
			if fits(a.rangeOfRefined(src), x.Type()) {
				return src
			}
			return a.opaque(v, "=conv-may-truncate")
		}
		return a.opaque(v, "")
	case *ssa.ChangeType:
		if isIntType(x.X.Type()) {
			return a.lin(x.X)
		}
		return a.opaque(v, "")
	case *ssa.BinOp:
		if !isIntType(x.Type()) {
			return a.opaque(v, "")
		}
		l, r := a.lin(x.X), a.lin(x.Y)
		var f *linForm
		switch x.Op {
		case token.ADD:
			f = l.add(r)
		case token.SUB:
			f = l.sub(r)
		case token.MUL:
			if l.isConst() {
				f = newLin(0).addScaled(r, l.k)
			} else if r.isConst() {
				f = newLin(0).addScaled(l, r.k)
			}
		case token.REM:
			if r.isConst() && r.k.Sign() > 0 {
				lr := a.rangeOfRefined(l)
				if lr.lo != nil && lr.lo.Sign() >= 0 {
					hi := new(big.Int).Sub(ratFloor(r.k), big.NewInt(1))
					return a.symFor(v, valName(v), rng{big.NewInt(0), hi})
				}
			}
		case token.AND:
			if r.isConst() && r.k.Sign() >= 0 {
				return a.symFor(v, valName(v), rng{big.NewInt(0), ratFloor(r.k)})
			}
		case token.SHR:
			lr := a.rangeOfRefined(l)
			if lr.lo != nil && lr.lo.Sign() >= 0 {
				return a.symFor(v, valName(v), rng{big.NewInt(0), lr.hi})
			}
		}
		if f != nil && fits(a.rangeOfRefined(f), x.Type()) {
			return f
		}
		if f != nil {
			return a.opaque(v, "=may-wrap")
		}
		return a.opaque(v, "")
	case *ssa.Call:
		if b, ok := x.Call.Value.(*ssa.Builtin); ok && (b.Name() == "len" || b.Name() == "cap") && len(x.Call.Args) == 1 {
			if b.Name() == "len" {
				return a.lenForm(x.Call.Args[0])
			}
		}
		if fn := x.Call.StaticCallee(); fn != nil {
			if w := wireReadWidth(fn); w > 0 {
				f := a.opaque(v, "=wire")
				for s := range f.c {
					a.wireSym[s] = true
				}
				return f
			}
		}
		return a.opaque(v, "")
	case *ssa.Phi:
		f := a.symFor(v, valName(v)+"=φ", a.phiRange(x))
		return f
	case *ssa.Parameter:
		f := a.opaque(v, "")
		for s := range f.c {
			a.cfgSym[s] = true
		}
		return f
	case *ssa.UnOp:
		if x.Op == token.MUL { // load
			f := a.opaque(v, "")
			if _, ok := x.X.(*ssa.FieldAddr); ok {
				for s := range f.c {
					a.cfgSym[s] = true
				}
			}
			if _, ok := x.X.(*ssa.Global); ok {
				for s := range f.c {
					a.cfgSym[s] = true
				}
			}
			return f
		}
		if x.Op == token.SUB {
			return newLin(0).sub(a.lin(x.X))
		}
	}
	return a.opaque(v, "")
}

// wireReadWidth: encoding/binary byte-order reads; returns the number of bytes consumed.
func wireReadWidth(fn *ssa.Function) int {
	if fn.Pkg == nil || fn.Pkg.Pkg.Path() != "encoding/binary" {
		return 0
	}
	switch fn.Name() {
	case "Uint16":
		return 2
	case "Uint32":
		return 4
	case "Uint64":
		return 8
	}
	return 0
}
func wireWriteWidth(fn *ssa.Function) int {
	if fn.Pkg == nil || fn.Pkg.Pkg.Path() != "encoding/binary" {
		return 0
	}
	switch fn.Name() {
	case "PutUint16":
		return 2
	case "PutUint32":
		return 4
	case "PutUint64":
		return 8
	}
	return 0
}

// rangeOfRefined: interval of a form (symbol ranges only; facts are applied in entailment).
func (a *arith) rangeOfRefined(f *linForm) rng { return a.rangeOf(f) }

// phiRange: lower bound by monotone iteration, upper bound from a proven len invariant or the type.
func (a *arith) phiRange(p *ssa.Phi) rng {
	tr := typeRange(p.Type())
	if !isIntType(p.Type()) {
		return tr
	}
	out := rng{tr.lo, tr.hi}
	if inv, ok := a.phiInv[p]; ok && inv != nil {
		r := a.rangeOf(inv)
		if r.hi != nil {
			out.hi = r.hi
		}
	}
	// lower bound: if every non-self-derived incoming edge has lo >= L and self-derived edges add non-negative amounts
	if lo, ok := a.phiLower(p, out.hi); ok {
		out.lo = lo
	}
	return out
}

// phiLower: greatest L such that all incoming values are >= L assuming phi >= L.
func (a *arith) phiLower(p *ssa.Phi, hi *big.Int) (*big.Int, bool) {
	// candidate: minimum of the constant / non-cyclic incoming lower bounds
	var cand *big.Int
	for _, e := range p.Edges {
		if dependsOn(e, p, map[ssa.Value]bool{}) {
			continue
		}
		old := a.inProg[p]
		a.inProg[p] = true
		r := a.rangeOf(a.lin(e))
		a.inProg[p] = old
		if r.lo == nil {
			return nil, false
		}
		if cand == nil || r.lo.Cmp(cand) < 0 {
			cand = r.lo
		}
	}
	if cand == nil {
		return nil, false
	}
	// check cyclic edges: value = phi + (non-negative stuff)
	tmpID := a.newSym(valName(p)+"=φ?", rng{cand, hi})
	tmp := newLin(0)
	tmp.c[tmpID] = big.NewRat(1, 1)
	saveForms := a.forms
	a.forms = map[ssa.Value]*linForm{p: tmp}
	okAll := true
	for _, e := range p.Edges {
		if !dependsOn(e, p, map[ssa.Value]bool{}) {
			continue
		}
		r := a.rangeOf(a.lin(e))
		if r.lo == nil || r.lo.Cmp(cand) < 0 {
			okAll = false
		}
	}
	a.forms = saveForms
	if !okAll {
		return nil, false
	}
	return cand, true
}

func dependsOn(v ssa.Value, target ssa.Value, seen map[ssa.Value]bool) bool {
	if v == target {
		return true
	}
	if seen[v] {
		return false
	}
	seen[v] = true
	ins, ok := v.(ssa.Instruction)
	if !ok {
		return false
	}
	for _, op := range ins.Operands(nil) {
		if *op != nil && dependsOn(*op, target, seen) {
			return true
		}
	}
	return false
}

// ---- facts ----

type constraint struct{ f *linForm } // f <= 0

// condFactsSSA: constraints known when cond evaluates to val.
func (a *arith) condFactsSSA(cond ssa.Value, val bool) []constraint {
	switch x := cond.(type) {
	case *ssa.UnOp:
		if x.Op == token.NOT {
			return a.condFactsSSA(x.X, !val)
		}
	case *ssa.BinOp:
		if !isIntType(x.X.Type()) || !isIntType(x.Y.Type()) {
			return nil
		}
		l, r := a.lin(x.X), a.lin(x.Y)
		op := x.Op
		if !val {
			switch op {
			case token.LSS:
				op = token.GEQ
			case token.LEQ:
				op = token.GTR
			case token.GTR:
				op = token.LEQ
			case token.GEQ:
				op = token.LSS
			case token.EQL:
				op = token.NEQ
			case token.NEQ:
				op = token.EQL
			}
		}
		switch op {
		case token.LSS: // l < r  => l - r + 1 <= 0
			return []constraint{{l.sub(r).plus(1)}}
		case token.LEQ:
			return []constraint{{l.sub(r)}}
		case token.GTR:
			return []constraint{{r.sub(l).plus(1)}}
		case token.GEQ:
			return []constraint{{r.sub(l)}}
		case token.EQL:
			return []constraint{{l.sub(r)}, {r.sub(l)}}
		}
	}
	return nil
}

// factsAt: constraints from branch edges dominating block b.
func (a *arith) factsAt(b *ssa.BasicBlock) []constraint {
	var out []constraint
	for x := b; x != nil; x = a.idom[x] {
		if len(x.Preds) != 1 {
			continue
		}
		p := x.Preds[0]
		if len(p.Instrs) == 0 {
			continue
		}
		iff, ok := p.Instrs[len(p.Instrs)-1].(*ssa.If)
		if !ok {
			continue
		}
		if p.Succs[0] == x && p.Succs[1] == x {
			continue
		}
		out = append(out, a.condFactsSSA(iff.Cond, p.Succs[0] == x)...)
	}
	return out
}

// entails: goal <= 0 holds at block b.
func (a *arith) entails(b *ssa.BasicBlock, goal *linForm) bool {
	cons := a.factsAt(b)
	return a.entailsWith(cons, goal)
}

func (a *arith) entailsWith(cons []constraint, goal *linForm) bool {
	// trivial: interval
	if r := a.rangeOf(goal); r.hi != nil && r.hi.Sign() <= 0 {
		return true
	}
	// negated goal: goal >= 1  =>  -goal + 1 <= 0
	sys := []*linForm{newLin(1).sub(goal)}
	used := map[symID]bool{}
	for _, c := range cons {
		sys = append(sys, c.f)
	}
	for _, f := range sys {
		for s := range f.c {
			used[s] = true
		}
	}
	// phi invariants as constraints
	for p, inv := range a.phiInv {
		if inv == nil {
			continue
		}
		if id, ok := a.symOf[p]; ok && used[id] {
			pf := newLin(0)
			pf.c[id] = big.NewRat(1, 1)
			f := pf.sub(inv)
			sys = append(sys, f)
			for s := range f.c {
				used[s] = true
			}
		}
	}
	for s := range used {
		r := a.symRng[s]
		if r.hi != nil {
			f := newLin(0)
			f.c[s] = big.NewRat(1, 1)
			f.k.Sub(f.k, new(big.Rat).SetInt(r.hi))
			sys = append(sys, f)
		}
		if r.lo != nil {
			f := newLin(0)
			f.c[s] = big.NewRat(-1, 1)
			f.k.Add(f.k, new(big.Rat).SetInt(r.lo))
			sys = append(sys, f)
		}
	}
	return fmInfeasible(sys, used)
}

// fmInfeasible: the system {f <= 0} has no rational solution.
func fmInfeasible(sys []*linForm, used map[symID]bool) bool {
	var order []symID
	for s := range used {
		order = append(order, s)
	}
	sort.Slice(order, func(i, j int) bool { return order[i] < order[j] })
	for _, s := range order {
		var pos, neg, rest []*linForm
		for _, f := range sys {
			c, ok := f.c[s]
			switch {
			case !ok || c.Sign() == 0:
				rest = append(rest, f)
			case c.Sign() > 0:
				pos = append(pos, f)
			default:
				neg = append(neg, f)
			}
		}
		if len(pos)*len(neg)+len(rest) > 4000 {
			return false
		}
		for _, p := range pos {
			for _, n := range neg {
				// p: a*s + P <= 0 (a>0), n: -b*s + N <= 0 (b>0)  =>  b*P + a*N <= 0
				aC := p.c[s]
				bC := new(big.Rat).Neg(n.c[s])
				comb := newLin(0).addScaled(p, bC).addScaled(n, aC)
				delete(comb.c, s)
				rest = append(rest, comb)
			}
		}
		sys = rest
		for _, f := range sys {
			if len(f.c) == 0 && f.k.Sign() > 0 {
				return true
			}
		}
	}
	for _, f := range sys {
		if len(f.c) == 0 && f.k.Sign() > 0 {
			return true
		}
	}
	return false
}

// ---- phi invariants ----

// inferPhiInvariants: for loop-carried integer phis, try phi <= len(S) for each
// slice/string parameter S: all incoming values must be proven <= len(S) at
// the end of their predecessor block, assuming the invariant.
func (a *arith) inferPhiInvariants() {
	var phis []*ssa.Phi
	for _, b := range a.fn.Blocks {
		for _, ins := range b.Instrs {
			if p, ok := ins.(*ssa.Phi); ok && isIntType(p.Type()) {
				phis = append(phis, p)
			}
		}
	}
	if len(phis) == 0 {
		return
	}
	var cands []ssa.Value
	for _, p := range a.fn.Params {
		if isByteSeq(p.Type()) {
			cands = append(cands, p)
		}
	}
	for _, p := range phis {
		for _, s := range cands {
			inv := a.lenForm(s)
			a.phiInv[p] = inv
			a.forms = map[ssa.Value]*linForm{} // recompute under the assumption
			a.symOf2reset(p)
			ok := true
			for i, e := range p.Edges {
				pred := p.Block().Preds[i]
				goal := a.lin(e).sub(inv)
				if !a.entails(pred, goal) {
					ok = false
					break
				}
			}
			if ok {
				break
			}
			delete(a.phiInv, p)
			a.forms = map[ssa.Value]*linForm{}
			a.symOf2reset(p)
		}
	}
	a.forms = map[ssa.Value]*linForm{}
	for _, p := range phis {
		a.symOf2reset(p)
	}
}

// symOf2reset forces the phi's symbol range to be recomputed.
func (a *arith) symOf2reset(p *ssa.Phi) {
	if id, ok := a.symOf[p]; ok {
		delete(a.symOf, p)
		_ = id
	}
}

// ---- obligations ----

type boundsReport struct {
	ok     bool
	where  token.Pos
	what   string
	detail string
}

func (a *arith) fmtLin(f *linForm) string {
	var parts []string
	var ids []symID
	for s := range f.c {
		ids = append(ids, s)
	}
	sort.Slice(ids, func(i, j int) bool { return ids[i] < ids[j] })
	for _, s := range ids {
		parts = append(parts, fmt.Sprintf("%s*%s", f.c[s].RatString(), a.syms[s]))
	}
	parts = append(parts, f.k.RatString())
	return strings.Join(parts, " + ")
}

// checkBounds enumerates every slice / index / wire-read / allocation
// obligation of the function on byte sequences and decides each.
func (a *arith) checkBounds() []boundsReport {
	var out []boundsReport
	prove := func(b *ssa.BasicBlock, goal *linForm, pos token.Pos, what string) {
		ok := a.entails(b, goal)
		d := ""
		if !ok {
			d = "cannot prove " + a.fmtLin(goal) + " <= 0 from the dominating guards"
		}
		out = append(out, boundsReport{ok, pos, what, d})
	}
	for _, b := range a.fn.Blocks {
		for _, ins := range b.Instrs {
			switch x := ins.(type) {
			case *ssa.Slice:
				base := a.baseLen(x.X)
				lo := newLin(0)
				if x.Low != nil {
					lo = a.lin(x.Low)
					prove(b, newLin(0).sub(lo), x.Pos(), "slice low bound >= 0: "+valName(x.Low))
				}
				if x.High != nil {
					hi := a.lin(x.High)
					prove(b, lo.sub(hi), x.Pos(), "slice low <= high")
					prove(b, hi.sub(base), x.Pos(), "slice high bound <= len")
				} else if x.Low != nil {
					prove(b, lo.sub(base), x.Pos(), "slice low bound <= len")
				}
			case *ssa.IndexAddr:
				if _, isMapOrPtr := x.X.Type().Underlying().(*types.Pointer); isMapOrPtr {
					if arr, ok := x.X.Type().Underlying().(*types.Pointer).Elem().Underlying().(*types.Array); ok {
						i := a.lin(x.Index)
						prove(b, newLin(0).sub(i), x.Pos(), "array index >= 0")
						prove(b, i.sub(newLin(arr.Len())).plus(1), x.Pos(), "array index < len")
					}
					continue
				}
				i := a.lin(x.Index)
				prove(b, newLin(0).sub(i), x.Pos(), "index >= 0")
				prove(b, i.sub(a.lenForm(x.X)).plus(1), x.Pos(), "index < len")
			case *ssa.Index:
				i := a.lin(x.Index)
				prove(b, newLin(0).sub(i), x.Pos(), "index >= 0")
				prove(b, i.sub(a.baseLen(x.X)).plus(1), x.Pos(), "index < len")
			case *ssa.Lookup:
				if isByteSeq(x.X.Type()) {
					i := a.lin(x.Index)
					prove(b, newLin(0).sub(i), x.Pos(), "string index >= 0")
					prove(b, i.sub(a.lenForm(x.X)).plus(1), x.Pos(), "string index < len")
				}
			case *ssa.Call:
				if fn := x.Call.StaticCallee(); fn != nil {
					if w := wireReadWidth(fn); w > 0 && len(x.Call.Args) >= 1 {
						arg := x.Call.Args[len(x.Call.Args)-1]
						prove(b, newLin(int64(w)).sub(a.lenForm(arg)), x.Pos(), fmt.Sprintf("%s needs %d bytes", fn.Name(), w))
					}
					if w := wireWriteWidth(fn); w > 0 && len(x.Call.Args) >= 2 {
						arg := x.Call.Args[len(x.Call.Args)-2]
						prove(b, newLin(int64(w)).sub(a.lenForm(arg)), x.Pos(), fmt.Sprintf("%s needs %d bytes", fn.Name(), w))
					}
					if fn.Pkg != nil && fn.Pkg.Pkg.Path() == "unsafe" {
						continue
					}
				}
				if bi, ok := x.Call.Value.(*ssa.Builtin); ok && bi.Name() == "String" && len(x.Call.Args) == 2 {
					// unsafe.String(ptr, n): ptr must be SliceData(s) with n <= len(s), n >= 0
					n := a.lin(x.Call.Args[1])
					prove(b, newLin(0).sub(n), x.Pos(), "unsafe.String length >= 0")
					if sd, ok := x.Call.Args[0].(*ssa.Call); ok {
						if b2, ok := sd.Call.Value.(*ssa.Builtin); ok && b2.Name() == "SliceData" {
							prove(b, n.sub(a.lenForm(sd.Call.Args[0])), x.Pos(), "unsafe.String length <= len of the viewed slice")
							continue
						}
					}
					out = append(out, boundsReport{false, x.Pos(), "unsafe.String pointer is the data of a slice of at least that length", "pointer does not come from unsafe.SliceData of a local slice"})
				}
			case *ssa.MakeSlice:
				a.allocBound(b, x.Len, x.Pos(), "make([]T, n)", &out)
			case *ssa.MakeMap:
				if x.Reserve != nil {
					a.allocBound(b, x.Reserve, x.Pos(), "make(map, n)", &out)
				}
			}
		}
	}
	return out
}

// allocBound: an allocation sized by a wire-derived value needs an upper bound:
// a constant <= 1<<26 by range/facts, or a dominating comparison against a
// configured (non-wire) quantity.
func (a *arith) allocBound(b *ssa.BasicBlock, n ssa.Value, pos token.Pos, what string, out *[]boundsReport) {
	f := a.lin(n)
	wire := false
	for s := range f.c {
		if a.wireSym[s] {
			wire = true
		}
	}
	if !wire {
		*out = append(*out, boundsReport{true, pos, what + " size is not wire-derived", ""})
		return
	}
	limit := newLin(1 << 26)
	if a.entails(b, f.sub(limit)) {
		*out = append(*out, boundsReport{true, pos, what + " wire-derived size bounded by a constant", ""})
		return
	}
	for s := range a.cfgSym {
		g := newLin(0)
		g.c[s] = big.NewRat(1, 1)
		if a.entails(b, f.sub(g)) {
			*out = append(*out, boundsReport{true, pos, what + " wire-derived size bounded by configured " + a.syms[s], ""})
			return
		}
	}
	*out = append(*out, boundsReport{false, pos, what + " wire-derived size is bounded before allocating", "no dominating comparison of " + a.fmtLin(f) + " against a constant or configured maximum"})
}
