package main

import (
	"go/ast"
	"go/types"
)

func init() {
	register(&propDef{
		id: "C28", title: "Concurrent remote asks each get their own reply",
		technique: "connection typestate over the CFG (acquire → exactly one release per path; return-to-pool unreachable from any error edge), batch index agreement, one-response-per-request loop rule on the server",
		explanation: "Decides, for every function of the TCP client that borrows a pooled connection (SendBytes, SendProtoWithMetadata, SendProtoNoReply, SendBatchProto, SendProtoManyNoReply): (1) after a successful Get every exit releases the connection exactly once, by Put or by Discard; (2) Put is unreachable from every error edge after the Get (deadline, marshal, write, read, unmarshal, context cancellation): a connection that may carry an unread or partial response never returns to the pool, so the next request on it cannot read a reply that belongs to an earlier request; (3) batch form: as many frames are read as were written (the response slice has len(reqs)) and response i is stored at index i; (4) server side: handleConn writes at most one response frame per request frame and writes it before reading the next request (responses cannot be reordered on a connection). Pool internals under contention are not decided.",
		assumptions: []string{"the connection pool never hands one connection to two borrowers at once", "request/response matching across connections is by connection (no correlation id on the wire)"},
		minObl:     25,
		run:        runC28,
	})
}

func runC28(c *Ctx) {
	get := c.FuncObj("internal/net", "Client.Get")
	put := c.FuncObj("internal/net", "Client.Put")
	discard := c.FuncObj("internal/net", "Client.Discard")
	c.Rule("typestate", func() {
		n := 0
		seen := map[*types.Func]bool{}
		for _, u := range c.UsesOf(get) {
			if u.Call == nil || u.EnclObj == nil || seen[u.EnclObj] || relPkg(u.Pkg.PkgPath) != "internal/net" {
				continue
			}
			seen[u.EnclObj] = true
			fn := c.fnOfObj(u.EnclObj)
			f := c.NewFlow(fn)
			n++
			key := fn.String()
			getM := f.CallTo(get)
			okEdges, ng := f.ErrEdgesOf(getM, false)
			failEdges, _ := f.ErrEdgesOf(getM, true)
			rel := f.CallTo(put, discard)
			if ng != 1 || len(okEdges) == 0 {
				c.Undecided(key+"/get", "Get's error is tested", c.P.Pos(fn.Decl.Pos()), "pattern not recognised")
				continue
			}
			w := f.search(searchSpec{startEdges: edgesList(okEdges), avoid: rel, exits: true})
			c.Check(w == nil, key+"/every-exit-releases", "after a successful Get every exit releases the connection (Put or Discard)", c.P.Pos(fn.Decl.Pos()), f.describe(w))
			w = f.search(searchSpec{starts: f.Find(rel), avoidEdges: f.loopBackEdges(), target: rel})
			c.Check(w == nil, key+"/releases-once", "no path releases the connection twice", c.P.Pos(fn.Decl.Pos()), f.describe(w))
			w = f.AfterEdgesMayReach(failEdges, nil, nil, rel)
			c.Check(w == nil, key+"/failed-get⇏release", "a failed Get releases nothing", c.P.Pos(fn.Decl.Pos()), f.describe(w))
			// Put unreachable from any error edge after Get
			errEdges := map[Edge]bool{}
			for _, b := range f.G.Blocks {
				if !b.Live || f.Cond(b) == nil {
					continue
				}
				for s := 0; s < 2; s++ {
					for _, fact := range f.EdgeFacts(b, s) {
						cm, ok := asCmp(fact.E, fact.Val)
						if !ok || cm.Op.String() != "!=" || !isNilIdent(f.Info, cm.R) {
							continue
						}
						if o := objOf(f.Info, cm.L); o != nil && isErrorType(o.Type()) {
							errEdges[Edge{b, s}] = true
						}
					}
				}
			}
			for e := range failEdges {
				delete(errEdges, e)
			}
			// ctx.Done() cases
			for _, b := range f.G.Blocks {
				if b.Live && b.Kind.String() == "SelectCaseBody" {
					if cc, ok := b.Stmt.(*ast.CommClause); ok && cc.Comm != nil {
						isDone := false
						ast.Inspect(cc.Comm, func(m ast.Node) bool {
							if call, ok := m.(*ast.CallExpr); ok {
								if cal := callee(f.Info, call); cal != nil && cal.Name() == "Done" {
									isDone = true
								}
							}
							return true
						})
						if isDone {
							for _, p := range f.G.Blocks {
								for i, s := range p.Succs {
									if s == b {
										errEdges[Edge{p, i}] = true
									}
								}
							}
						}
					}
				}
			}
			w = f.AfterEdgesMayReach(errEdges, nil, f.loopBackEdges(), f.CallTo(put))
			c.Check(w == nil && len(errEdges) >= 2, key+"/error⇏pool", "a connection is never returned to the pool on a path that saw an error or a cancellation (it may hold an unread or partial response)", c.P.Pos(fn.Decl.Pos()), f.describe(w))
			// success path does Put (not Discard): from ok edge avoiding error edges, exit reachable without Put?
			all := map[Edge]bool{}
			for e := range errEdges {
				all[e] = true
			}
			w = f.search(searchSpec{startEdges: edgesList(okEdges), avoid: f.CallTo(put), avoidEdges: all, exits: true})
			c.Check(w == nil, key+"/success⇒pool", "a fully successful exchange returns the connection to the pool", c.P.Pos(fn.Decl.Pos()), f.describe(w))
		}
		if n < 5 {
			c.Undecided("count", "five connection users in the client", "-", "found fewer")
		}
	})

	c.Rule("batch-index", func() {
		fn := c.Func("internal/net", "Client.SendBatchProto")
		info := fn.Info()
		sized, indexed := false, false
		var resps, loopKey types.Object
		ast.Inspect(fn.Decl.Body, func(n ast.Node) bool {
			switch x := n.(type) {
			case *ast.AssignStmt:
				if len(x.Rhs) == 1 {
					if call, ok := x.Rhs[0].(*ast.CallExpr); ok {
						if id, ok := call.Fun.(*ast.Ident); ok && id.Name == "make" && len(call.Args) == 2 {
							if lc, ok := call.Args[1].(*ast.CallExpr); ok {
								if lid, ok := lc.Fun.(*ast.Ident); ok && lid.Name == "len" {
									if o := objOf(info, lc.Args[0]); o != nil && isSliceParam(fn.Obj, o) {
										sized = true
										resps = info.ObjectOf(x.Lhs[0].(*ast.Ident))
									}
								}
							}
						}
					}
				}
				for _, l := range x.Lhs {
					if ix, ok := l.(*ast.IndexExpr); ok && resps != nil && objOf(info, ix.X) == resps && loopKey != nil && objOf(info, ix.Index) == loopKey {
						indexed = true
					}
				}
			case *ast.RangeStmt:
				if resps != nil && objOf(info, x.X) == resps {
					if id, ok := x.Key.(*ast.Ident); ok {
						loopKey = info.ObjectOf(id)
					}
				}
			}
			return true
		})
		c.Check(sized, "len(resps)=len(reqs)", "the batch reads exactly as many response frames as it wrote request frames", c.P.Pos(fn.Decl.Pos()), "")
		c.Check(indexed, "resps[i]←frame-i", "the i-th frame read is stored as the i-th response", c.P.Pos(fn.Decl.Pos()), "")
	})

	c.Rule("server", func() {
		hc := c.Func("internal/net", "ProtoServer.handleConn")
		f := c.NewFlow(hc)
		info := f.Info
		write := func(n ast.Node) bool {
			call, ok := n.(*ast.CallExpr)
			if !ok {
				return false
			}
			cal := callee(info, call)
			if cal == nil || cal.Name() != "Write" {
				return false
			}
			o := objOf(info, recvExpr(call))
			// the connection being served: handleConn's parameter
			ps := hc.Obj.Type().(*types.Signature).Params()
			return o != nil && ps.Len() == 1 && o == types.Object(ps.At(0))
		}
		read := func(n ast.Node) bool {
			call, ok := n.(*ast.CallExpr)
			if !ok {
				return false
			}
			cal := callee(info, call)
			return cal != nil && qualifiedName(cal) == "io.ReadFull"
		}
		ws := f.Find(write)
		if len(ws) == 0 {
			c.Undecided("writes", "the server loop writes response frames", c.P.Pos(hc.Decl.Pos()), "no conn.Write found (responses written through a helper?)")
			return
		}
		w := f.search(searchSpec{starts: ws, avoid: read, target: write})
		c.Check(w == nil, "one-response-per-request", "between two response writes the server always reads a new request frame (at most one response per request, in request order)", c.P.Pos(hc.Decl.Pos()), f.describe(w))
		// no goroutine per request inside the loop
		goes := 0
		ast.Inspect(hc.Decl.Body, func(n ast.Node) bool {
			if _, ok := n.(*ast.GoStmt); ok {
				goes++
			}
			return true
		})
		c.Check(goes == 0, "serial-per-connection", "requests of one connection are handled serially (no goroutine per frame that could reorder responses)", c.P.Pos(hc.Decl.Pos()), "go statement in the connection loop")
	})
}

// isSliceParam: o is a slice-typed parameter of fn.
func isSliceParam(fn *types.Func, o types.Object) bool {
	ps := fn.Type().(*types.Signature).Params()
	for i := 0; i < ps.Len(); i++ {
		if _, isSlice := ps.At(i).Type().Underlying().(*types.Slice); isSlice && o == types.Object(ps.At(i)) {
			return true
		}
	}
	return false
}
