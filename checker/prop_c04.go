package main

import (
	"fmt"
	"go/ast"
	"go/token"
	"go/types"
)

func init() {
	register(&propDef{
		id: "C04", title: "Every mailbox implementation behaves like its sequential specification",
		technique: "atomic-discipline rule over every field touched by sync/atomic, sibling cross-check over all Mailbox implementors (full-error/rollback, counter-before-publish, recycle-not-returned), slot publication order in the lock-free rings, lock pairing",
		explanation: "Decides structural necessary conditions for each of the mailbox implementations (and the grain mailbox): (1) atomic discipline: every struct field passed by address to sync/atomic anywhere in the actor package is accessed only that way (constructors exempt); (2) siblings: every implementor of Mailbox is enumerated; an Enqueue that reports ErrMailboxFull does so only on a branch guarded by a capacity/sequence comparison and has rolled back any counter it had bumped; (3) a length counter read by IsEmpty/Len is incremented by Enqueue no later than the publication of the message where the type documents that (counter bump precedes the intake push); (4) Dequeue never recycles the context it returns: what goes back to the context pool is the previously returned one / the old sentinel, a different variable on every path; (5) ring slots: in the Vyukov ring the producer writes the message only after winning the position CAS and publishes the slot sequence only after writing the message; the consumer reads and clears the message before releasing the slot; the MPSC list links value.next=nil, swaps the tail, then links prev.next (the order the consumer relies on); (6) mutex-protected mailboxes release their lock on every exit. Linearizability, FIFO/priority order and capacity under interleavings are not decided. Added after seed C04b and F23: (7) no load-then-store on a field that is also updated by read-modify-write (same rule as C02); (8) the priority intake is a Treiber stack whose consumer walks next to nil: push publishes through exactly one compare-and-swap of head, links next before it to exactly the expected head, never writes next after a successful CAS, re-links after a failed one and returns only after success; drain detaches with one exchange with nil; (9) the segmented mailbox's consumer advances head past a segment and recycles it only on a branch where its dequeue index has reached the segment capacity (not on a writeIdx snapshot taken before next was loaded). Reuse of a pooled segment by a producer that still holds a stale tail pointer (ABA) is NOT decided.",
		assumptions: []string{"linearizability of the lock-free queues under all interleavings, segment roll-over and ABA on pooled nodes", "single-consumer use of Dequeue (checked in C02)"},
		minObl:     70,
		run:        runC04,
	})
}

func runC04(c *Ctx) {
	mailbox := c.Named("actor", "Mailbox")
	errFull := c.pkg("errors").Types.Scope().Lookup("ErrMailboxFull")
	recycle := c.FuncObj("actor", "recycleContext")
	contextCh := c.pkg("actor").Types.Scope().Lookup("contextCh")

	c.Rule("atomic", func() {
		n := c.AtomicDiscipline("atomic", "actor")
		if n < 40 {
			c.Undecided("count", "at least 40 accesses of atomically-accessed fields", "-", "found fewer")
		}
	})
	c.Rule("no-lost-update", func() {
		n := c.NoLostUpdate("rmw", "actor")
		if n < 1 {
			c.Undecided("count", "at least one Store on a field that is also updated by read-modify-write", "-", "found none")
		}
	})
	if c.Thorough() {
		// discovery pass: the same discipline over every first-party package (a new lock-free structure anywhere in
		// the module is held to it), not only the package the property anchors
		c.Rule("atomic-module-wide", func() {
			var all []string
			for _, pk := range c.P.Pkgs {
				if r := relPkg(pk.PkgPath); r != "actor" {
					all = append(all, r)
				}
			}
			c.AtomicDiscipline("atomic", all...)
			c.NoLostUpdate("rmw", all...)
			c.Ok("scanned", "every first-party package scanned for mixed atomic/plain access", "-")
		})
	}

	var impls []*types.Named
	c.Rule("siblings", func() {
		enq := c.Implementors(mailbox, "Enqueue")
		if len(enq) < 9 {
			c.Undecided("count", "at least 9 Mailbox implementations in the module", "-", "found fewer")
		}
		for _, m := range enq {
			recv := m.Type().(*types.Signature).Recv().Type()
			if p, ok := recv.(*types.Pointer); ok {
				recv = p.Elem()
			}
			named, _ := recv.(*types.Named)
			if named == nil || named.Obj().Pkg() == nil || relPkg(named.Obj().Pkg().Path()) != "actor" {
				continue
			}
			impls = append(impls, named)
			fn := c.fnOfObj(m)
			if fn == nil {
				continue
			}
			f := c.NewFlow(fn)
			info := f.Info
			retFull := func(n ast.Node) bool {
				r, ok := n.(*ast.ReturnStmt)
				return ok && len(r.Results) == 1 && objOf(info, r.Results[0]) == errFull
			}
			rets := f.Find(retFull)
			if len(rets) == 0 {
				c.Ok(fn.String()+"/never-full", "this mailbox never rejects (unbounded) or delegates the bound", c.P.Pos(fn.Decl.Pos()))
				continue
			}
			// guarded: not reachable when every branch condition is ignored => there must be a comparison edge on every path
			cmpEdges := f.EdgesWhere(func(cond ast.Expr) (bool, bool) {
				if _, ok := asCmp(cond, true); ok {
					return true, true
				}
				return false, false
			})
			cmpFalse := f.EdgesWhere(func(cond ast.Expr) (bool, bool) {
				if _, ok := asCmp(cond, true); ok {
					return true, false
				}
				return false, false
			})
			all := map[Edge]bool{}
			for e := range cmpEdges {
				all[e] = true
			}
			for e := range cmpFalse {
				all[e] = true
			}
			// switch-case guards (tagless switch { case dif < 0: })
			w := f.search(searchSpec{avoidEdges: all, target: retFull})
			if w != nil {
				// tagless switch: go/cfg models case expressions as conditions too; if still reachable, report
				c.Bad(fn.String()+"/full-is-guarded", "ErrMailboxFull is returned only on a branch guarded by a capacity or sequence comparison", c.P.Pos(fn.Decl.Pos()), f.describe(w))
			} else {
				c.Ok(fn.String()+"/full-is-guarded", "ErrMailboxFull is returned only on a branch guarded by a capacity or sequence comparison", c.P.Pos(fn.Decl.Pos()))
			}
			// rollback: if a counter was bumped with atomic.AddInt64(&x, 1) before, the full path decrements it
			inc := func(n ast.Node) bool { return atomicAddDelta(info, n) > 0 }
			dec := func(n ast.Node) bool { return atomicAddDelta(info, n) < 0 }
			incs := f.Find(inc)
			if len(incs) > 0 {
				// every path from an increment to a full-return passes a decrement
				w := f.search(searchSpec{starts: incs, avoid: dec, target: retFull})
				c.Check(w == nil, fn.String()+"/full-rolls-back", "a rejected Enqueue undoes the length increment it made (Len/IsEmpty stay exact)", c.P.Pos(fn.Decl.Pos()), f.describe(w))
				// count before publish: the increment precedes the push of the message
				push := func(n ast.Node) bool {
					call, ok := n.(*ast.CallExpr)
					if !ok {
						return false
					}
					cal := callee(info, call)
					return cal != nil && (cal.Name() == "push" || cal.Name() == "Push" || cal.Name() == "Put" || cal.Name() == "Enqueue")
				}
				if len(f.Find(push)) > 0 {
					w = f.MustPrecede(inc, nil, push)
					c.Check(w == nil, fn.String()+"/count≺publish", "the length counter is incremented before the message is published (a completed Enqueue is never invisible to IsEmpty)", c.P.Pos(fn.Decl.Pos()), f.describe(w))
				}
			}
		}
	})

	c.Rule("recycle", func() {
		deq := c.Implementors(mailbox, "Dequeue")
		n := 0
		for _, m := range deq {
			if m.Pkg() == nil || relPkg(m.Pkg().Path()) != "actor" {
				continue
			}
			fn := c.fnOfObj(m)
			if fn == nil {
				continue
			}
			f := c.NewFlow(fn)
			info := f.Info
			// recycled objects
			var recycled []types.Object
			for _, a := range f.Find(func(n ast.Node) bool {
				switch x := n.(type) {
				case *ast.CallExpr:
					return callee(info, x) == recycle
				case *ast.SendStmt:
					return objOf(info, x.Chan) == contextCh
				}
				return false
			}) {
				switch x := a.N.(type) {
				case *ast.CallExpr:
					recycled = append(recycled, objOf(info, x.Args[0]))
				case *ast.SendStmt:
					recycled = append(recycled, objOf(info, x.Value))
				}
			}
			if len(recycled) == 0 {
				c.Ok(fn.String()+"/no-recycling", "this Dequeue does not recycle contexts itself", c.P.Pos(fn.Decl.Pos()))
				continue
			}
			n++
			bad := ""
			var named types.Object
			if fn.Decl.Type.Results != nil && len(fn.Decl.Type.Results.List) == 1 && len(fn.Decl.Type.Results.List[0].Names) == 1 {
				named = info.Defs[fn.Decl.Type.Results.List[0].Names[0]]
			}
			for _, a := range f.Returns() {
				r := a.N.(*ast.ReturnStmt)
				var ro types.Object
				if len(r.Results) == 1 {
					ro = objOf(info, r.Results[0])
				} else if len(r.Results) == 0 {
					ro = named
				}
				for _, rc := range recycled {
					if ro != nil && rc == ro {
						// same variable: allowed only if it is a field holding the PREVIOUS message (prev) — a field object, not the local
						if v, ok := ro.(*types.Var); ok && v.IsField() {
							continue
						}
						bad = c.P.Pos(r.Pos())
					}
				}
			}
			c.Check(bad == "", fn.String()+"/returned≠recycled", "Dequeue never returns the context it has just put back into the pool (the recycled one is the previously returned context or the old sentinel)", c.P.Pos(fn.Decl.Pos()), "returns a recycled context at "+bad)
		}
		if n < 4 {
			c.Undecided("count", "at least 4 Dequeue implementations recycle contexts", "-", "found fewer")
		}
	})

	c.Rule("vyukov", func() {
		for _, typ := range []string{"NonBlockingBoundedMailbox"} {
			ctxF := c.Field("actor", "nbSlot", "ctx")
			seqF := c.Field("actor", "nbSlot", "seq")
			enq := c.Func("actor", typ+".Enqueue")
			f := c.NewFlow(enq)
			info := f.Info
			posCAS := func(fld string) Match { return f.CallOnField(c.Field("actor", typ, fld), "CompareAndSwap") }
			setCtx := func(n ast.Node) bool {
				as, ok := n.(*ast.AssignStmt)
				return ok && len(as.Lhs) == 1 && selField(info, as.Lhs[0]) == ctxF && !isNilIdent(info, as.Rhs[0])
			}
			seqStore := f.CallOnField(seqF, "Store")
			won := f.CondEdges(exprMatch(posCAS("enqueuePos")), true)
			w := f.search(searchSpec{avoidEdges: won, target: setCtx})
			c.Check(w == nil && len(won) > 0, typ+".Enqueue/cas≺write", "the producer writes the slot only after winning the position CAS", c.P.Pos(enq.Decl.Pos()), f.describe(w))
			w = f.MustPrecede(setCtx, nil, seqStore)
			c.Check(w == nil && len(f.Find(seqStore)) > 0, typ+".Enqueue/write≺publish", "the slot sequence is published only after the message was written into the slot", c.P.Pos(enq.Decl.Pos()), f.describe(w))
			deq := c.Func("actor", typ+".Dequeue")
			df := c.NewFlow(deq)
			dinfo := df.Info
			readCtx := func(n ast.Node) bool {
				as, ok := n.(*ast.AssignStmt)
				return ok && len(as.Rhs) == 1 && selField(dinfo, as.Rhs[0]) == ctxF
			}
			dSeqStore := df.CallOnField(seqF, "Store")
			dWon := df.CondEdges(exprMatch(df.CallOnField(c.Field("actor", typ, "dequeuePos"), "CompareAndSwap")), true)
			w = df.search(searchSpec{avoidEdges: dWon, target: readCtx})
			c.Check(w == nil && len(dWon) > 0, typ+".Dequeue/cas≺read", "the consumer reads the slot only after winning the position CAS", c.P.Pos(deq.Decl.Pos()), df.describe(w))
			w = df.MustPrecede(readCtx, nil, dSeqStore)
			c.Check(w == nil && len(df.Find(dSeqStore)) > 0, typ+".Dequeue/read≺release", "the slot is released to producers only after its message was read", c.P.Pos(deq.Decl.Pos()), df.describe(w))
		}
		// MPSC list publication order
		for _, name := range []string{"UnboundedMailbox.Enqueue", "activeSenders.enqueue"} {
			fn := c.Func("actor", name)
			f := c.NewFlow(fn)
			info := f.Info
			kind := func(n ast.Node) string {
				call, ok := n.(*ast.CallExpr)
				if !ok {
					return ""
				}
				cal := callee(info, call)
				if cal == nil {
					return ""
				}
				if cal.Pkg() != nil && cal.Pkg().Path() == "sync/atomic" {
					if cal.Name() == "StorePointer" {
						if isNilIdent(info, call.Args[1]) {
							return "clear-next"
						}
						return "link-prev"
					}
					if cal.Name() == "SwapPointer" {
						return "swap-tail"
					}
				}
				if cal.Name() == "Swap" {
					return "swap-tail"
				}
				return ""
			}
			is := func(k string) Match { return func(n ast.Node) bool { return kind(n) == k } }
			w1 := f.MustPrecede(is("clear-next"), nil, is("swap-tail"))
			w2 := f.MustPrecede(is("swap-tail"), nil, is("link-prev"))
			c.Check(w1 == nil && w2 == nil && len(f.Find(is("link-prev"))) == 1 && len(f.Find(is("swap-tail"))) == 1, name+"/publication-order", "MPSC enqueue: clear the node's next, swap it in as tail, then link the previous tail to it", c.P.Pos(fn.Decl.Pos()), f.describe(w1)+f.describe(w2))
		}
	})

	c.Rule("treiber", func() {
		// priorityIntake: the consumer detaches the whole stack and walks next to nil, so a node reachable through
		// head must already be linked (the unbounded MPSC list tolerates the opposite order; this stack does not).
		headF := c.Field("actor", "priorityIntake", "head")
		nextF := c.Field("actor", "ReceiveContext", "next")
		fn := c.Func("actor", "priorityIntake.push")
		f := c.NewFlow(fn)
		info := f.Info
		where := c.P.Pos(fn.Decl.Pos())
		atomicOn := func(n ast.Node, fld *types.Var) (*ast.CallExpr, string) { return atomicOnIn(info, n, fld) }
		link := func(n ast.Node) bool { _, k := atomicOn(n, nextF); return k == "StorePointer" }
		publish := func(n ast.Node) bool {
			_, k := atomicOn(n, headF)
			return k != "" && k != "LoadPointer"
		}
		pubs := f.FindOnce(publish)
		links := f.FindOnce(link)
		okShape := len(pubs) == 1 && len(links) == 1
		var linked, expected types.Object
		if okShape {
			pc, k := atomicOn(pubs[0].N, headF)
			okShape = k == "CompareAndSwapPointer" && len(pc.Args) == 3
			if okShape {
				expected = objOf(info, stripConv(info, pc.Args[1]))
				lc, _ := atomicOn(links[0].N, nextF)
				linked = objOf(info, stripConv(info, lc.Args[1]))
			}
		}
		c.Check(okShape, "push/publish-is-cas", "the intake publishes a node through exactly one compare-and-swap of head (an unconditional exchange would expose the node before it is linked)", where, fmt.Sprintf("%d writes of head, %d links of next in push", len(pubs), len(links)))
		if okShape {
			c.Check(expected != nil && expected == linked, "push/linked-to-expected", "the node is linked to exactly the head value the CAS expects", where, "the value stored in next and the CAS's expected head are different variables")
			w := f.MustPrecede(link, nil, publish)
			c.Check(w == nil, "push/link≺publish", "the node's next is written before the CAS that makes it reachable", where, f.describe(w))
			won := f.CondEdges(exprMatch(publish), true)
			lost := f.CondEdges(exprMatch(publish), false)
			if len(won) == 0 || len(lost) == 0 {
				c.Undecided("push/cas-tested", "the CAS result decides between return and retry", where, "the CAS is not used as a branch condition")
			} else {
				w = f.AfterEdgesMayReach(won, nil, nil, link)
				c.Check(w == nil, "push/no-link-after-publish", "a published node's next is never written again by the producer (the consumer owns it)", where, f.describe(w))
				w = f.AfterEdgesMayReach(lost, link, nil, publish)
				c.Check(w == nil, "push/relink-on-retry", "a failed CAS re-links the node to the fresh head before retrying", where, f.describe(w))
				w = f.search(searchSpec{avoidEdges: won, exits: true})
				c.Check(w == nil, "push/returns-only-published", "push returns only after a CAS succeeded", where, f.describe(w))
			}
		}
		// the consumer side: drain takes the whole stack in one exchange with nil
		dr := c.Func("actor", "priorityIntake.drain")
		df := c.NewFlow(dr)
		n := 0
		okDrain := true
		for _, a := range df.FindOnce(func(n ast.Node) bool { _, k := atomicOnIn(df.Info, n, headF); return k != "" }) {
			n++
			call, k := atomicOnIn(df.Info, a.N, headF)
			if k != "SwapPointer" || len(call.Args) != 2 || !isNilIdent(df.Info, call.Args[1]) {
				okDrain = false
			}
		}
		c.Check(okDrain && n == 1, "drain/detach-atomically", "drain detaches the batch with a single exchange of head with nil (no load-then-store window that would lose a concurrent push)", c.P.Pos(dr.Decl.Pos()), fmt.Sprintf("%d atomic accesses of head in drain", n))
	})

	c.Rule("segmented", func() {
		// The consumer leaves (and recycles) a segment only once it has consumed every slot of it: a decision taken
		// on a snapshot of writeIdx alone skips a slot filled between that snapshot and the load of next (F23).
		typ := "UnboundedSegmentedMailbox"
		deqIdx := c.Field("actor", "segment", "deqIdx")
		dataF := c.Field("actor", "segment", "data")
		headF := c.Field("actor", typ, "head")
		arr, _ := dataF.Type().Underlying().(*types.Array)
		fn := c.Func("actor", typ+".Dequeue")
		f := c.NewFlow(fn)
		info := f.Info
		where := c.P.Pos(fn.Decl.Pos())
		if arr == nil {
			c.Undecided("advance/only-when-consumed", "the consumer leaves a segment only after consuming all its slots", where, "segment.data is not an array")
			return
		}
		isDeq := func(e ast.Expr) bool {
			e = ast.Unparen(e)
			if id, ok := e.(*ast.Ident); ok {
				if def := singleLocalDefIn(info, fn.Decl.Body, info.ObjectOf(id)); def != nil {
					e = ast.Unparen(def)
				}
			}
			return callOnFieldMatch(info, deqIdx, "Load")(e)
		}
		isCap := func(e ast.Expr) bool {
			v, ok := constInt(info, e)
			return ok && v == arr.Len()
		}
		consumed := f.FactEdges(func(cm cmp) bool {
			return (cm.Op == token.GEQ || cm.Op == token.EQL) && isDeq(cm.L) && isCap(cm.R)
		})
		pool := c.pkg("actor").Types.Scope().Lookup("segmentPool")
		leave := Or(f.CallOnField(headF, "Store"), func(n ast.Node) bool {
			call, ok := n.(*ast.CallExpr)
			if !ok {
				return false
			}
			sel, ok := ast.Unparen(call.Fun).(*ast.SelectorExpr)
			return ok && sel.Sel.Name == "Put" && objOf(info, sel.X) == pool
		})
		c.guardedBy(f, consumed, leave, "advance/only-when-consumed", "the consumer advances head past a segment and recycles it only on a branch where its dequeue index has reached the segment capacity", where)
	})

	c.Rule("locks", func() {
		n := 0
		for _, named := range impls {
			st, ok := named.Underlying().(*types.Struct)
			if !ok {
				continue
			}
			for i := 0; i < st.NumFields(); i++ {
				fv := st.Field(i)
				ts := fv.Type().String()
				if ts != "sync.Mutex" && ts != "sync.RWMutex" && ts != "*sync.Mutex" && ts != "*sync.RWMutex" {
					continue
				}
				for _, mname := range []string{"Enqueue", "Dequeue", "IsEmpty", "Len", "Dispose"} {
					obj, _, _ := types.LookupFieldOrMethod(types.NewPointer(named), true, named.Obj().Pkg(), mname)
					m, ok := obj.(*types.Func)
					if !ok {
						continue
					}
					fn := c.fnOfObj(m)
					if fn == nil {
						continue
					}
					n++
					c.LockPairing(fn, fv)
				}
			}
		}
		if n == 0 {
			c.Ok("no-mutex-mailbox", "no Mailbox implementation holds a mutex field directly", "-")
		}
	})
}

// atomicAddDelta: atomic.AddInt64(&x, k) → sign of constant k (0 otherwise).
func atomicAddDelta(info *types.Info, n ast.Node) int {
	call, ok := n.(*ast.CallExpr)
	if !ok || len(call.Args) != 2 {
		return 0
	}
	cal := callee(info, call)
	if cal == nil || cal.Pkg() == nil || cal.Pkg().Path() != "sync/atomic" || (cal.Name() != "AddInt64" && cal.Name() != "AddInt32") {
		return 0
	}
	if v, ok := constInt(info, call.Args[1]); ok {
		if v > 0 {
			return 1
		}
		if v < 0 {
			return -1
		}
	}
	if ue, ok := call.Args[1].(*ast.UnaryExpr); ok && ue.Op == token.SUB {
		return -1
	}
	return 0
}

// atomicOnIn: n is a sync/atomic call whose first argument is &<expr>.fld; returns the call and the function name.
func atomicOnIn(info *types.Info, n ast.Node, fld *types.Var) (*ast.CallExpr, string) {
	call, ok := n.(*ast.CallExpr)
	if !ok || len(call.Args) == 0 {
		return nil, ""
	}
	cal := callee(info, call)
	if cal == nil || cal.Pkg() == nil || cal.Pkg().Path() != "sync/atomic" {
		return nil, ""
	}
	u, ok := ast.Unparen(call.Args[0]).(*ast.UnaryExpr)
	if !ok || u.Op != token.AND || selField(info, u.X) != fld {
		return nil, ""
	}
	return call, cal.Name()
}
