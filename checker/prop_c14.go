package main

import (
	"fmt"
	"go/ast"
	"go/token"
	"go/types"
	"strings"
)

func init() {
	register(&propDef{
		id: "C14", title: "Behavior switching follows stack semantics",
		technique: "effect-signature conformance: the ordered stack operations on each path of the four behaviour setters are compared with the table transcribed from the property; lockset; delegation 1:1; single Peek per message",
		explanation: "Decides that the code implements the stack model operation by operation: Become = ⟨Reset, Push(b)⟩, BecomeStacked = ⟨Push(b)⟩, UnBecomeStacked = ⟨Pop⟩ only when more than the base behaviour is stacked, UnBecome = ⟨Reset, Push(default Receive)⟩ (so stacked behaviours are cleared); each runs under fieldsLocker; the public ReceiveContext methods delegate one-to-one to these; a new PID starts with exactly the default behaviour; handleReceived reads the current behaviour exactly once before invoking it, so the message being handled finishes under the behaviour that started it; the stack's fields are touched only by its own methods through sync/atomic. Added after the probe round: every method of behaviorStack that changes top also updates the length counter on every path after the change (Push/Pop on the CAS-success edge, Reset).",
		assumptions: []string{"the lock-free stack implementation itself is linearizable", "behaviour over arbitrary call sequences follows from the per-operation effects (stack model composition)"},
		minObl:     30,
		run:        runC14,
	})
}

func runC14(c *Ctx) {
	bsField := c.Field("actor", "PID", "behaviorStack")
	locker := c.Field("actor", "PID", "fieldsLocker")
	actorField := c.Field("actor", "PID", "actor")
	receive := c.FuncObj("actor", "Actor.Receive")

	// effect signature: sequence of behaviorStack method calls along each entry→exit path (must be the same on all paths)
	sig := func(fn *Fn) (string, bool) {
		f := c.NewFlow(fn)
		info := f.Info
		var sigs []string
		// enumerate paths (small acyclic functions)
		var walk func(bIdx int, acc []string, seen map[int]bool)
		ok := true
		walk = func(bIdx int, acc []string, seen map[int]bool) {
			if seen[bIdx] {
				ok = false
				return
			}
			seen[bIdx] = true
			defer delete(seen, bIdx)
			b := f.G.Blocks[bIdx]
			for _, a := range f.blockAtoms(b) {
				call, isCall := a.N.(*ast.CallExpr)
				if !isCall {
					continue
				}
				if f.CallOnField(bsField, "")(call) {
					name := call.Fun.(*ast.SelectorExpr).Sel.Name
					if name == "Len" || name == "Peek" || name == "IsEmpty" {
						continue
					}
					arg := ""
					if len(call.Args) == 1 {
						switch {
						case objOf(info, call.Args[0]) != nil && isParam(fn, info, objOf(info, call.Args[0])):
							arg = "param"
						default:
							if sel, ok := ast.Unparen(call.Args[0]).(*ast.SelectorExpr); ok && info.Uses[sel.Sel] == types.Object(receive) && selField(info, sel.X) == actorField {
								arg = "default"
							} else {
								arg = "?" + types.ExprString(call.Args[0])
							}
						}
					}
					acc = append(acc, name+"("+arg+")")
				}
			}
			if len(b.Succs) == 0 {
				sigs = append(sigs, strings.Join(acc, ";"))
				return
			}
			for _, s := range b.Succs {
				walk(int(s.Index), append([]string(nil), acc...), seen)
			}
		}
		walk(0, nil, map[int]bool{})
		uniq := map[string]bool{}
		for _, s := range sigs {
			uniq[s] = true
		}
		return strings.Join(sortedKeys(uniq), " | "), ok
	}

	table := []struct{ fn, want, meaning string }{
		{"PID.setBehavior", "Reset();Push(param)", "Become replaces all behaviours with one"},
		{"PID.setBehaviorStacked", "Push(param)", "BecomeStacked pushes"},
		{"PID.resetBehavior", "Reset();Push(default)", "UnBecome restores only the default behaviour, clearing stacked ones"},
	}
	c.Rule("effects", func() {
		for _, row := range table {
			fn := c.Func("actor", row.fn)
			got, ok := sig(fn)
			c.Check(ok && got == row.want, fn.String(), "effect signature equals the stack model: "+row.meaning+" = ⟨"+row.want+"⟩", c.P.Pos(fn.Decl.Pos()), "found ⟨"+got+"⟩")
		}
		// UnBecomeStacked: Pop at most once, only when Len() > 1
		fn := c.Func("actor", "PID.unsetBehaviorStacked")
		got, ok := sig(fn)
		c.Check(ok && (got == " | Pop()" || got == "Pop()"), fn.String()+"/pop-once", "UnBecomeStacked pops at most one behaviour", c.P.Pos(fn.Decl.Pos()), "found ⟨"+got+"⟩")
		f := c.NewFlow(fn)
		guard := f.EdgesWhere(func(cond ast.Expr) (bool, bool) {
			for _, val := range []bool{true, false} {
				cm, ok := asCmp(cond, val)
				if !ok {
					continue
				}
				for _, k := range []cmp{cm, cm.flip()} {
					call, isCall := ast.Unparen(k.L).(*ast.CallExpr)
					if !isCall || !f.CallOnField(bsField, "Len")(call) {
						continue
					}
					v, isC := constInt(f.Info, k.R)
					if isC && ((k.Op == token.GTR && v >= 1) || (k.Op == token.GEQ && v >= 2)) {
						return true, val
					}
				}
			}
			return false, false
		})
		w := f.search(searchSpec{avoidEdges: guard, target: f.CallOnField(bsField, "Pop")})
		c.Check(w == nil && len(guard) > 0, fn.String()+"/keeps-base", "UnBecomeStacked never pops the base behaviour (Pop only when more than one behaviour is stacked); an empty stack would silently drop every later message", c.P.Pos(fn.Decl.Pos()), "Pop is reachable without a Len() > 1 guard: "+f.describe(w))
	})

	c.Rule("locked", func() {
		for _, name := range []string{"PID.setBehavior", "PID.setBehaviorStacked", "PID.resetBehavior", "PID.unsetBehaviorStacked"} {
			fn := c.Func("actor", name)
			f := c.NewFlow(fn)
			la := f.Locks(nil)
			bad := ""
			n := 0
			for _, a := range f.Find(f.CallOnField(bsField, "")) {
				nm := a.N.(*ast.CallExpr).Fun.(*ast.SelectorExpr).Sel.Name
				if nm == "Reset" || nm == "Push" || nm == "Pop" || nm == "Len" {
					n++
					if la.At(a)[locker] != 2 {
						bad = c.P.Pos(a.N.Pos())
					}
				}
			}
			c.Check(bad == "" && n > 0, fn.String()+"/under-fieldsLocker", "every stack mutation of a behaviour switch happens with fieldsLocker held (the compound Reset+Push is atomic w.r.t. other switches)", c.P.Pos(fn.Decl.Pos()), "unlocked stack operation at "+bad)
			c.LockPairing(fn, locker)
		}
	})

	c.Rule("delegation", func() {
		for api, impl := range map[string]string{"ReceiveContext.Become": "PID.setBehavior", "ReceiveContext.BecomeStacked": "PID.setBehaviorStacked", "ReceiveContext.UnBecome": "PID.resetBehavior", "ReceiveContext.UnBecomeStacked": "PID.unsetBehaviorStacked"} {
			fn := c.Func("actor", api)
			target := c.FuncObj("actor", impl)
			f := c.NewFlow(fn)
			calls := 0
			other := 0
			for _, a := range f.Find(func(n ast.Node) bool { _, ok := n.(*ast.CallExpr); return ok }) {
				if callee(f.Info, a.N.(*ast.CallExpr)) == target {
					calls++
				} else {
					other++
				}
			}
			w := f.ExitReachable(nil, f.CallTo(target), nil, nil)
			c.Check(calls == 1 && other == 0 && w == nil, api+"→"+impl, "the public method delegates to exactly its stack operation on every path", c.P.Pos(fn.Decl.Pos()), "delegation changed")
			// passes its own argument through
			if len(fn.Decl.Type.Params.List) == 1 {
				pobj := f.Info.Defs[fn.Decl.Type.Params.List[0].Names[0]]
				okArg := false
				for _, a := range f.Find(f.CallTo(target)) {
					call := a.N.(*ast.CallExpr)
					if len(call.Args) == 1 && objOf(f.Info, call.Args[0]) == pobj {
						okArg = true
					}
				}
				c.Check(okArg, api+"/arg", "the behaviour argument is forwarded unchanged", c.P.Pos(fn.Decl.Pos()), "argument not forwarded")
			}
		}
		// who else mutates the stack
		for _, m := range []string{"behaviorStack.Push", "behaviorStack.Pop", "behaviorStack.Reset"} {
			c.WhoMayCall("who", c.FuncObj("actor", m), map[string]string{
				"actor.(*PID).setBehavior": "Become", "actor.(*PID).setBehaviorStacked": "BecomeStacked", "actor.(*PID).resetBehavior": "UnBecome / restart",
				"actor.(*PID).unsetBehaviorStacked": "UnBecomeStacked", "actor.newPID": "initial default behaviour", "actor.(*PID).reset": "stop: no behaviour left",
			})
		}
	})

	c.Rule("initial", func() {
		fn := c.Func("actor", "newPID")
		f := c.NewFlow(fn)
		push := f.CallTo(c.FuncObj("actor", "behaviorStack.Push"))
		ps := f.Find(push)
		okArg := len(ps) == 1
		for _, a := range ps {
			call := a.N.(*ast.CallExpr)
			sel, ok := ast.Unparen(call.Args[0]).(*ast.SelectorExpr)
			if !ok || f.Info.Uses[sel.Sel] != types.Object(receive) {
				okArg = false
			}
		}
		c.Check(okArg, "newPID/default-only", "a new PID starts with exactly one behaviour: the actor's Receive", c.P.Pos(fn.Decl.Pos()), "newPID does not push exactly the default behaviour")
	})

	c.Rule("peek-once", func() {
		fn := c.Func("actor", "PID.handleReceived")
		f := c.NewFlow(fn)
		peek := f.CallOnField(bsField, "Peek")
		peeks := f.FindOnce(peek)
		c.Check(len(peeks) == 1, "one-peek", "handleReceived reads the current behaviour exactly once per message", c.P.Pos(fn.Decl.Pos()), "expected one Peek")
		// the invoked behaviour is the variable assigned from Peek
		behavior := c.Named("actor", "Behavior")
		okCall := false
		var callAtoms []*Atom
		for _, a := range f.Find(func(n ast.Node) bool {
			call, ok := n.(*ast.CallExpr)
			if !ok {
				return false
			}
			t := f.Info.TypeOf(call.Fun)
			return t != nil && types.Identical(types.Unalias(t), behavior)
		}) {
			callAtoms = append(callAtoms, a)
			id, ok := ast.Unparen(a.N.(*ast.CallExpr).Fun).(*ast.Ident)
			if !ok {
				continue
			}
			obj := f.Info.ObjectOf(id)
			ast.Inspect(fn.Decl.Body, func(n ast.Node) bool {
				if as, ok := n.(*ast.AssignStmt); ok && len(as.Lhs) == 1 && len(as.Rhs) == 1 {
					if l, ok := as.Lhs[0].(*ast.Ident); ok && f.Info.ObjectOf(l) == obj && peek(ast.Unparen(as.Rhs[0])) {
						okCall = true
					}
				}
				return true
			})
		}
		c.Check(okCall && len(callAtoms) == 1, "invokes-peeked", "the handler invoked is the value read by that single Peek (a switch during the message takes effect only for later messages)", c.P.Pos(fn.Decl.Pos()), "the invoked behaviour is not the peeked one")
		nonNil := f.NilCheckEdges(func(e ast.Expr) bool { id, ok := e.(*ast.Ident); return ok && id.Name != "" && f.Info.TypeOf(id) != nil && types.Identical(types.Unalias(f.Info.TypeOf(id)), behavior) }, true)
		w := f.search(searchSpec{avoidEdges: nonNil, target: func(n ast.Node) bool { return len(callAtoms) == 1 && n == callAtoms[0].N }})
		c.Check(w == nil && len(nonNil) > 0, "nil-guard", "the behaviour is invoked only when non-nil", c.P.Pos(fn.Decl.Pos()), f.describe(w))
	})

	c.Rule("counter-coherent", func() {
		// Len() (which UnBecomeStacked and the empty-stack tests rely on) must follow the linked list: every method of
		// the stack that changes top also updates length on every path after the change — Push adds one on the
		// CAS-success edge, Pop subtracts one on the CAS-success edge, Reset stores zero.
		topF := c.Field("actor", "behaviorStack", "top")
		lenF := c.Field("actor", "behaviorStack", "length")
		n := 0
		for _, fn := range c.methodsOf(c.Named("actor", "behaviorStack")) {
			f := c.NewFlow(fn)
			info := f.Info
			writesTop := func(nd ast.Node) bool { _, k := atomicOnIn(info, nd, topF); return k == "StorePointer" || k == "CompareAndSwapPointer" || k == "SwapPointer" }
			writesLen := func(nd ast.Node) bool { _, k := atomicOnIn(info, nd, lenF); return k == "AddUint64" || k == "StoreUint64" }
			for _, a := range f.FindOnce(writesTop) {
				n++
				key := fn.String() + "/top-write-updates-length"
				_, k := atomicOnIn(info, a.N, topF)
				if k == "CompareAndSwapPointer" {
					won := f.CondEdges(func(e ast.Expr) bool { return e == a.N.(ast.Expr) }, true)
					if len(won) == 0 {
						c.Undecided(key, "a successful change of top is followed by an update of length", c.P.Pos(a.N.Pos()), "the CAS result is not a branch condition")
						continue
					}
					w := f.AfterEdgesMustPass(won, writesLen, nil)
					c.Check(w == nil, key, "a successful change of top is followed, on every path, by an update of the length counter", c.P.Pos(a.N.Pos()), f.describe(w))
				} else {
					w := f.MustFollow([]*Atom{a}, writesLen, nil)
					c.Check(w == nil, key, "a change of top is followed, on every path, by an update of the length counter", c.P.Pos(a.N.Pos()), f.describe(w))
				}
			}
		}
		if n < 3 {
			c.Undecided("count", "Push, Pop and Reset change top", "-", fmt.Sprintf("found %d writes of top", n))
		}
	})

	c.Rule("atomic-fields", func() {
		for _, fld := range []string{"top", "length"} {
			v := c.Field("actor", "behaviorStack", fld)
			for _, u := range c.UsesOf(v) {
				inMethod := false
				if u.EnclObj != nil {
					if sig := u.EnclObj.Type().(*types.Signature); sig.Recv() != nil {
						inMethod = strings.Contains(sig.Recv().Type().String(), "behaviorStack")
					}
					if u.EnclObj.Name() == "newBehaviorStack" {
						inMethod = true
					}
				}
				atomicUse := u.IsAddr || u.EnclObj.Name() == "newBehaviorStack"
				if u.Sel == nil { // composite literal key
					atomicUse, inMethod = true, true
				}
				c.Check(inMethod && atomicUse, "behaviorStack."+fld+"@"+u.EnclName(), "the stack's fields are accessed only by its own methods, by address through sync/atomic", u.Where(c.P), "plain or foreign access")
			}
		}
	})
}

func isParam(fn *Fn, info *types.Info, o types.Object) bool {
	for _, fld := range fn.Decl.Type.Params.List {
		for _, n := range fld.Names {
			if info.Defs[n] == o {
				return true
			}
		}
	}
	return false
}
