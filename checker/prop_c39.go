package main

import (
	"go/ast"
	"go/types"
)

func init() {
	register(&propDef{
		id: "C39", title: "Replicas that apply the same updates converge",
		technique: "value-provenance rule on store writes: on the key-exists edge the stored value is a Merge of the current value (or the user update applied to it); delta shipped before ResetDelta; CFG ordering",
		explanation: "Decides the merge-not-overwrite discipline of the replicator, a necessary condition of convergence: for every write r.store[k] = v reached with the key already present, v is current.Merge(incoming) (handleDelta, handleFullState), the accumulated merge of the local value with every peer reply (coordinatedRead starts from the local value and only ever replaces it by merged.Merge(peer), taking the peer value alone only when nothing is held), or the user's update applied to the current value (handleUpdate); an incoming value is stored as-is only on the key-absent edge. In handleUpdate the delta is extracted before ResetDelta and shipped after the store write. Convergence itself (over histories and delivery orders) is not decided. Added after seed C39a / F21: the delta of a type with a causal clock is its full state or lists every live dot its clock covers.",
		assumptions: []string{"Merge is a join (see C38); delivery of deltas/anti-entropy eventually reaches every replica", "user Modify functions are inflationary"},
		minObl:     10,
		run:        runC39,
	})
}

func runC39(c *Ctx) {
	store := c.Field("actor", "replicatorActor", "store")
	merge := c.FuncObj("crdt", "ReplicatedData.Merge")
	isMergeOf := func(info *types.Info, e ast.Expr, cur types.Object) bool {
		call, ok := ast.Unparen(e).(*ast.CallExpr)
		if !ok || callee(info, call) != merge {
			return false
		}
		return cur == nil || objOf(info, recvExpr(call)) == cur
	}
	c.Rule("clocked-delta-is-backed", func() {
		// A value with a causal clock (version vector) tells the receiver "every dot up to clock[n] that I do not list
		// has been removed". A delta of such a type must therefore either be the full state (Clone) or list every live
		// dot its clock covers; a delta with a clock but only the new dots makes peers drop earlier elements (F21).
		rd := c.Named("crdt", "ReplicatedData")
		n := 0
		for _, m := range c.Implementors(rd, "Delta") {
			if m.Pkg() == nil || relPkg(m.Pkg().Path()) != "crdt" {
				continue
			}
			recvNamed := namedOf(m.Type().(*types.Signature).Recv().Type())
			st, ok := recvNamed.Underlying().(*types.Struct)
			if !ok {
				continue
			}
			var clockF, entriesF *types.Var
			for i := 0; i < st.NumFields(); i++ {
				switch st.Field(i).Name() {
				case "clock":
					clockF = st.Field(i)
				case "entries":
					entriesF = st.Field(i)
				}
			}
			if clockF == nil {
				continue // no causal clock: merge is a per-slot join (counters, flag, LWW timestamp)
			}
			n++
			fn := c.fnOfObj(m)
			info := fn.Info()
			f := c.NewFlow(fn)
			name := recvNamed.Obj().Name()
			// A: every non-nil return is recv.Clone()
			fullState := true
			for _, a := range f.Find(IsReturn) {
				r := a.N.(*ast.ReturnStmt)
				if len(r.Results) != 1 || isNilIdent(info, r.Results[0]) {
					continue
				}
				call, isCall := ast.Unparen(r.Results[0]).(*ast.CallExpr)
				if !isCall || !isCallNamed(info, call, "Clone") {
					fullState = false
				}
			}
			if fullState {
				c.Ok("delta/"+name, "the delta of a clocked type is its full state (Clone)", c.P.Pos(fn.Decl.Pos()))
				continue
			}
			// B: a loop over the receiver's live entries fills the delta's entries, after the delta's clock is final
			var cover *ast.RangeStmt
			ast.Inspect(fn.Decl.Body, func(nd ast.Node) bool {
				r, isR := nd.(*ast.RangeStmt)
				if !isR || entriesF == nil || selField(info, r.X) != entriesF {
					return true
				}
				writes := false
				ast.Inspect(r.Body, func(x ast.Node) bool {
					if as, ok := x.(*ast.AssignStmt); ok {
						for _, l := range as.Lhs {
							if ix, ok := l.(*ast.IndexExpr); ok && selField(info, ix.X) == entriesF {
								writes = true
							}
						}
					}
					return true
				})
				if writes {
					cover = r
				}
				return true
			})
			okCover := cover != nil
			if okCover {
				clockWrite := func(nd ast.Node) bool {
					as, ok := nd.(*ast.AssignStmt)
					if !ok {
						return false
					}
					for _, l := range as.Lhs {
						if ix, ok := l.(*ast.IndexExpr); ok && selField(info, ix.X) == clockF {
							return true
						}
					}
					return false
				}
				for _, a := range f.Find(clockWrite) {
					if a.N.Pos() > cover.Pos() {
						okCover = false
					}
				}
				// the covering loop is on every path to a non-nil return
				inLoop := func(nd ast.Node) bool { return nd == ast.Node(cover.X) }
				retVal := func(nd ast.Node) bool {
					r, ok := nd.(*ast.ReturnStmt)
					return ok && len(r.Results) == 1 && !isNilIdent(info, r.Results[0])
				}
				if w := f.MustPrecede(inLoop, nil, retVal); w != nil {
					okCover = false
				}
			}
			c.Check(okCover, "delta/"+name, "the delta of a clocked type lists every live dot its clock covers (a loop over the live entries fills the delta after its clock is final), or is the full state", c.P.Pos(fn.Decl.Pos()),
				name+".Delta returns a value with a causal clock that is neither the full state nor backed by the live dots the clock covers: a peer drops the elements the delta does not list")
		}
		if n < 2 {
			c.Undecided("delta/types", "clocked CRDT types found", "-", "found "+itoa(n))
		}
	})

	c.Rule("merge-not-overwrite", func() {
		for _, name := range []string{"replicatorActor.handleDelta", "replicatorActor.handleFullState"} {
			fn := c.Func("actor", name)
			f := c.NewFlow(fn)
			info := f.Info
			// current, exists := r.store[k]
			var cur, exists types.Object
			for _, a := range f.Find(func(nd ast.Node) bool { _, _, _, ok := commaOkLookup(info, nd, store); return ok }) {
				_, exists, cur, _ = commaOkLookup(info, a.N, store)
			}
			if cur == nil || exists == nil {
				c.Undecided(fn.String()+"/lookup", "the handler reads the current value with the comma-ok form", c.P.Pos(fn.Decl.Pos()), "current, exists := r.store[k] not found")
				continue
			}
			present := f.CondEdges(func(e ast.Expr) bool { id, ok := e.(*ast.Ident); return ok && info.ObjectOf(id) == exists }, true)
			absent := f.CondEdges(func(e ast.Expr) bool { id, ok := e.(*ast.Ident); return ok && info.ObjectOf(id) == exists }, false)
			nW := 0
			for _, wa := range f.Find(func(nd ast.Node) bool { _, _, ok := isMapWrite(info, nd, store); return ok }) {
				nW++
				_, v, _ := isMapWrite(info, wa.N, store)
				isM := isMergeOf(info, v, cur)
				if !isM {
					if o := objOf(info, v); o != nil {
						if def := singleDef(info, fn.Decl.Body, o); def != nil {
							isM = isMergeOf(info, def, cur)
						}
					}
				}
				target := func(nd ast.Node) bool { return nd == wa.N }
				key := fn.String() + "/write@" + types.ExprString(v)
				if isM {
					c.Ok(key, "the stored value is current.Merge(incoming)", c.P.Pos(wa.N.Pos()))
					continue
				}
				// a non-merge write must be unreachable when the key exists
				w := f.AfterEdgesMayReach(present, nil, f.loopBackEdges(), target)
				w2 := f.search(searchSpec{avoidEdges: absent, target: target})
				c.Check(w == nil && w2 == nil && len(absent) > 0, key, "an incoming value is stored as-is only on the edge where the key is absent; with the key present the stored value must be a Merge", c.P.Pos(wa.N.Pos()),
					"overwrite of an existing entry: "+f.describe(w)+f.describe(w2))
			}
			c.Check(nW >= 2, fn.String()+"/writes", "handler has an absent-edge write and a merge write", c.P.Pos(fn.Decl.Pos()), "")
		}
	})

	c.Rule("coordinated-read", func() {
		fn := c.Func("actor", "replicatorActor.coordinatedRead")
		info := fn.Info()
		// merged := local ; merged = merged.Merge(peerData) | merged = peerData only if merged == nil
		var merged types.Object
		var local types.Object
		for _, fld := range fn.Decl.Type.Params.List {
			for _, n := range fld.Names {
				// the local replica's value: the parameter of the ReplicatedData interface type
				if nt := namedOf(info.TypeOf(fld.Type)); nt != nil && nt.Obj().Name() == "ReplicatedData" {
					local = info.Defs[n]
				}
			}
		}
		ast.Inspect(fn.Decl.Body, func(nd ast.Node) bool {
			if as, ok := nd.(*ast.AssignStmt); ok && len(as.Lhs) == 1 && len(as.Rhs) == 1 && objOf(info, as.Rhs[0]) == local && local != nil {
				if id, ok := as.Lhs[0].(*ast.Ident); ok && merged == nil {
					merged = info.ObjectOf(id)
				}
			}
			return true
		})
		if merged == nil {
			c.Fail("coordinatedRead: accumulator initialised from the local value not found")
		}
		f := c.NewFlow(fn)
		isNil := f.NilCheckEdges(func(e ast.Expr) bool { return objOf(info, e) == merged }, false)
		bad := ""
		nMerge := 0
		for _, a := range f.Find(func(nd ast.Node) bool {
			as, ok := nd.(*ast.AssignStmt)
			return ok && len(as.Lhs) == 1 && objOf(info, as.Lhs[0]) == merged && as.Tok.String() == "="
		}) {
			as := a.N.(*ast.AssignStmt)
			if isMergeOf(info, as.Rhs[0], merged) {
				nMerge++
				continue
			}
			// plain replacement: only when merged == nil
			w := f.search(searchSpec{avoidEdges: isNil, target: func(nd ast.Node) bool { return nd == a.N }})
			if w != nil || len(isNil) == 0 {
				bad += c.P.Pos(as.Pos()) + " "
			}
		}
		c.Check(bad == "" && nMerge >= 1, "accumulates-by-merge", "the coordinated read starts from the local value and only replaces it by merged.Merge(peer); a peer value is taken alone only when nothing is held", c.P.Pos(fn.Decl.Pos()), "non-merge replacement at "+bad)
		okRet := true
		for _, a := range f.Returns() {
			r := a.N.(*ast.ReturnStmt)
			if len(r.Results) != 1 || (objOf(info, r.Results[0]) != merged && objOf(info, r.Results[0]) != local) {
				okRet = false
			}
		}
		c.Check(okRet, "returns-accumulator", "coordinatedRead returns the accumulated merge (or the local value when no peer is reachable)", c.P.Pos(fn.Decl.Pos()), "")
		// handleGet stores exactly that result
		hg := c.Func("actor", "replicatorActor.handleGet")
		hinfo := hg.Info()
		okStore := false
		ast.Inspect(hg.Decl.Body, func(nd ast.Node) bool {
			if _, v, ok := isMapWrite(hinfo, nd, store); ok {
				if o := objOf(hinfo, v); o != nil {
					if def := singleDef(hinfo, hg.Decl.Body, o); def != nil {
						if call, ok := def.(*ast.CallExpr); ok && callee(hinfo, call) == fn.Obj {
							// second-to-last arg is the local data read from the store
							okStore = true
						}
					}
				}
			}
			return true
		})
		c.Check(okStore, "handleGet-stores-merge", "handleGet stores only the result of the coordinated merge", c.P.Pos(hg.Decl.Pos()), "handleGet stores something else")
	})

	c.Rule("update-delta", func() {
		fn := c.Func("actor", "replicatorActor.handleUpdate")
		f := c.NewFlow(fn)
		info := f.Info
		delta := f.CallTo(c.FuncObj("crdt", "ReplicatedData.Delta"))
		reset := f.CallTo(c.FuncObj("crdt", "ReplicatedData.ResetDelta"))
		w := f.MustPrecede(delta, nil, reset)
		c.Check(w == nil && len(f.Find(reset)) > 0, "delta≺reset", "the delta is extracted before it is reset", c.P.Pos(fn.Decl.Pos()), f.describe(w))
		pub := f.CallTo(c.FuncObj("actor", "replicatorActor.publishDelta"), c.FuncObj("actor", "replicatorActor.coordinatedWrite"))
		wr := func(nd ast.Node) bool { _, _, ok := isMapWrite(info, nd, store); return ok }
		w = f.MustPrecede(wr, nil, pub)
		c.Check(w == nil && len(f.Find(pub)) == 2, "store≺ship", "the local store is updated before the delta is shipped", c.P.Pos(fn.Decl.Pos()), f.describe(w))
		// the shipped delta is the extracted one
		okArg := true
		var deltaObj types.Object
		for _, a := range f.Find(delta) {
			ast.Inspect(fn.Decl.Body, func(nd ast.Node) bool {
				if as, ok := nd.(*ast.AssignStmt); ok && len(as.Rhs) == 1 && as.Rhs[0] == a.N.(ast.Expr) {
					deltaObj = info.ObjectOf(as.Lhs[0].(*ast.Ident))
				}
				return true
			})
		}
		for _, a := range f.Find(pub) {
			found := false
			for _, arg := range a.N.(*ast.CallExpr).Args {
				if objOf(info, arg) == deltaObj && deltaObj != nil {
					found = true
				}
			}
			if !found {
				okArg = false
			}
		}
		c.Check(okArg, "ships-extracted-delta", "what is shipped is the delta extracted from the updated value", c.P.Pos(fn.Decl.Pos()), "")
		// the stored value is msg.Apply(current) where current is the existing entry or the initial value
		okApply := false
		ast.Inspect(fn.Decl.Body, func(nd ast.Node) bool {
			if _, v, ok := isMapWrite(info, nd, store); ok {
				if o := objOf(info, v); o != nil {
					if def := singleDef(info, fn.Decl.Body, o); def != nil {
						if call, ok := def.(*ast.CallExpr); ok {
							if cal := callee(info, call); cal != nil && cal.Name() == "Apply" && len(call.Args) == 1 {
								okApply = true
							}
						}
					}
				}
			}
			return true
		})
		c.Check(okApply, "stores-applied-current", "an update stores the user's modification applied to the current value (never a fresh value over an existing entry)", c.P.Pos(fn.Decl.Pos()), "")
	})
}
