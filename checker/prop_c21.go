package main

import (
	"strings"
	"go/ast"
	"go/token"
	"go/types"
)

func init() {
	register(&propDef{
		id: "C21", title: "Routers distribute messages according to their strategy",
		technique: "index-range + cyclic-counter rule, map-iteration-order taint (slice built by ranging a map must be sorted before positional use), loop-shape rule for fan-out, mutation⇒rebuild pairing for the hash ring, purity of ring lookup",
		explanation: "Decides: (1) round-robin: the routee index is in [0,len) for every counter value (unsigned modulus), the counter is stored as (index+1) mod len (cyclic order across any wrap), and the routee slice that the index refers to has a deterministic order — availableRoutees builds it by ranging over a map and must sort it on every path before returning; stopped routees are not placed in the list; routeByStrategy is reached only with a non-empty list; (2) random / hash fallbacks index with rand.IntN(len); (3) fan-out: the default strategy ranges over all routees with one Tell per element and no early exit; (4) consistent hash: every function that adds to or deletes from routeesMap calls rebuildHashRing afterwards on every path (lazy cleanup in availableRoutees exempt, see table), the ring's key slice is sorted in set, lookup wraps idx >= len to 0 and neither writes ring state nor reads anything but the ring and the key (same key ⇒ same member while the ring is unchanged). Added after the probe round: in routeByConsistentHash a random routee is chosen only when the key is empty, the ring's member is not registered or it is not running; the owner is looked up once.",
		assumptions: []string{"'removing a routee only moves keys it owned' is a property of consistent hashing given a fixed hash function; only the ring construction shape is checked", "sort.Search contract", "availableRoutees' lazy deletion of a dead routee leaves the ring stale until the Terminated/stop handler rebuilds it (exempt)"},
		minObl:     16,
		run:        runC21,
	})
}

func runC21(c *Ctx) {
	rbs := c.Func("actor", "router.routeByStrategy")
	avail := c.Func("actor", "router.availableRoutees")
	rmap := c.Field("actor", "router", "routeesMap")
	ctr := c.Field("actor", "router", "roundRobinNext")

	c.Rule("round-robin", func() {
		info := rbs.Info()
		// the routees parameter
		var routees types.Object
		for _, fld := range rbs.Decl.Type.Params.List {
			for _, n := range fld.Names {
				// the slice parameter (the candidate routees), whatever it is called
				if _, isSlice := info.TypeOf(fld.Type).Underlying().(*types.Slice); isSlice && routees == nil {
					routees = info.Defs[n]
				}
			}
		}
		if routees == nil {
			c.Fail("routeByStrategy has no routees parameter")
		}
		// every index into routees in routeByStrategy / routeByConsistentHash is in range
		for _, fname := range []string{"router.routeByStrategy", "router.routeByConsistentHash"} {
			fn := c.Func("actor", fname)
			n := 0
			ast.Inspect(fn.Decl.Body, func(nd ast.Node) bool {
				ix, ok := nd.(*ast.IndexExpr)
				if !ok {
					return true
				}
				// an index into the function's routee slice parameter
				isRouteeParam := false
				if o := objOf(fn.Info(), ix.X); o != nil {
					ps := fn.Obj.Type().(*types.Signature).Params()
					for i := 0; i < ps.Len(); i++ {
						if _, isSlice := ps.At(i).Type().Underlying().(*types.Slice); isSlice && o == types.Object(ps.At(i)) {
							isRouteeParam = true
						}
					}
				}
				if !isRouteeParam {
					return true
				}
				n++
				good, why := indexVerdict(fn.Info(), fn.Decl.Body, ix.Index, ix.X, 0)
				c.Check(good, fn.String()+"/index-in-range/"+types.ExprString(ix.Index), "every routee index lies in [0,len(routees)) for every counter value", c.P.Pos(ix.Pos()), why)
				return true
			})
			if n == 0 {
				c.Undecided(fn.String()+"/index-sites", "function indexes the routee slice", c.P.Pos(fn.Decl.Pos()), "no index expression found")
			}
		}
		checkCyclicCounter(c, rbs, ctr, func(info *types.Info, e ast.Expr) bool { return objOf(info, e) == routees })
	})

	c.Rule("order", func() {
		f := c.NewFlow(avail)
		info := f.Info
		// map-range source
		var rng *ast.RangeStmt
		ast.Inspect(avail.Decl.Body, func(n ast.Node) bool {
			if r, ok := n.(*ast.RangeStmt); ok {
				if t := info.TypeOf(r.X); t != nil {
					if _, isMap := t.Underlying().(*types.Map); isMap && selField(info, r.X) == rmap {
						rng = r
					}
				}
			}
			return true
		})
		if rng == nil {
			c.Ok("no-map-range", "availableRoutees does not build its result by ranging over a map", c.P.Pos(avail.Decl.Pos()))
		} else {
			// result slice: variable appended in the loop and returned
			srt := func(n ast.Node) bool {
				call, ok := n.(*ast.CallExpr)
				if !ok {
					return false
				}
				cal := callee(info, call)
				if cal == nil || cal.Pkg() == nil {
					return false
				}
				p, nm := cal.Pkg().Path(), cal.Name()
				return (p == "sort" && (nm == "Slice" || nm == "SliceStable" || nm == "Sort" || nm == "Stable" || nm == "Strings")) || (p == "slices" && (nm == "Sort" || nm == "SortFunc" || nm == "SortStableFunc"))
			}
			w := f.ExitReachable(nil, srt, nil, func(b *cfgBlock) bool { return true })
			c.Check(w == nil, "map-range⇒sorted", "a routee list built by ranging over routeesMap (random order) is sorted on every path before it is returned for positional (round-robin) use", c.P.Pos(rng.Pos()),
				"availableRoutees returns the slice in map-iteration order: position k names a different routee on every message, so round-robin is not cyclic; "+f.describe(w))
			// the comparator must be a total order on a stable key (ID/Name): accept comparator literal comparing ID()/Name()/Path
		}
		// stopped routees are not appended: from the !IsRunning edge no append before the next iteration
		isRunning := c.FuncObj("actor", "PID.IsRunning")
		dead := f.CondEdges(func(e ast.Expr) bool {
			call, ok := e.(*ast.CallExpr)
			return ok && callee(info, call) == isRunning
		}, false)
		app := func(n ast.Node) bool {
			call, ok := n.(*ast.CallExpr)
			if !ok {
				return false
			}
			id, ok := call.Fun.(*ast.Ident)
			return ok && id.Name == "append"
		}
		if len(dead) == 0 {
			c.Bad("skip-stopped/test", "availableRoutees tests IsRunning", c.P.Pos(avail.Decl.Pos()), "no IsRunning test")
		} else {
			back := f.loopBackEdges()
			w := f.AfterEdgesMayReach(dead, nil, back, app)
			c.Check(w == nil, "skip-stopped", "a routee found stopped is not put into the list of available routees (a message routed to it would be dropped)", c.P.Pos(avail.Decl.Pos()), f.describe(w))
		}
	})

	c.Rule("non-empty", func() {
		// routeByStrategy is called only from dispatchToRoutees; every dispatchToRoutees/routeByStrategy caller is dominated by availableRoutees' ok edge
		c.WhoMayCall("who", rbs.Obj, map[string]string{"actor.(*router).dispatchToRoutees": "dispatch by router kind"})
		disp := c.Func("actor", "router.dispatchToRoutees")
		for _, u := range c.UsesOf(disp.Obj) {
			if u.Call == nil || u.EnclObj == nil {
				c.Bad("caller="+u.EnclName(), "dispatchToRoutees is only called", u.Where(c.P), "used as a value")
				continue
			}
			fn := c.fnOfObj(u.EnclObj)
			f := c.NewFlow(fn)
			okE := map[Edge]bool{}
			// routees, ok := x.availableRoutees(); if !ok { return }
			ast.Inspect(fn.Decl.Body, func(n ast.Node) bool {
				as, isAs := n.(*ast.AssignStmt)
				if !isAs || len(as.Lhs) != 2 || len(as.Rhs) != 1 {
					return true
				}
				call, isCall := as.Rhs[0].(*ast.CallExpr)
				if !isCall || callee(f.Info, call) != avail.Obj {
					return true
				}
				okObj := f.Info.ObjectOf(as.Lhs[1].(*ast.Ident))
				for e := range f.CondEdges(func(e ast.Expr) bool { id, isId := e.(*ast.Ident); return isId && f.Info.ObjectOf(id) == okObj }, true) {
					okE[e] = true
				}
				return true
			})
			w := f.search(searchSpec{avoidEdges: okE, target: func(n ast.Node) bool { return n == ast.Node(u.Call) }})
			c.Check(w == nil && len(okE) > 0, "caller="+u.EnclName()+"/ok-edge", "messages are dispatched only when availableRoutees reported a non-empty list (len > 0 precondition of every index)", u.Where(c.P), f.describe(w))
		}
		// availableRoutees' bool result is len(routees) > 0
		okRet := true
		for _, a := range c.NewFlow(avail).Returns() {
			r := a.N.(*ast.ReturnStmt)
			if len(r.Results) != 2 {
				okRet = false
				continue
			}
			cm, isCmp := asCmp(r.Results[1], true)
			if !isCmp || !(cm.Op == token.GTR) {
				okRet = false
				continue
			}
			if v, isC := constInt(avail.Info(), cm.R); !isC || v != 0 || !isLenOf(avail.Info(), cm.L, r.Results[0], avail.Decl.Body) {
				okRet = false
			}
		}
		c.Check(okRet, "ok=len>0", "availableRoutees reports ok exactly when the returned list is non-empty", c.P.Pos(avail.Decl.Pos()), "second result is not len(result) > 0")
	})

	c.Rule("fan-out", func() {
		info := rbs.Info()
		var routeesParam types.Object
		if ps := rbs.Obj.Type().(*types.Signature).Params(); ps.Len() > 0 {
			for i := 0; i < ps.Len(); i++ {
				if _, isSlice := ps.At(i).Type().Underlying().(*types.Slice); isSlice {
					routeesParam = ps.At(i)
				}
			}
		}
		var sw *ast.SwitchStmt
		ast.Inspect(rbs.Decl.Body, func(n ast.Node) bool {
			if s, ok := n.(*ast.SwitchStmt); ok && sw == nil {
				sw = s
			}
			return true
		})
		if sw == nil {
			c.Fail("routeByStrategy: no switch")
		}
		var def *ast.CaseClause
		for _, st := range sw.Body.List {
			cc := st.(*ast.CaseClause)
			if cc.List == nil {
				def = cc
			}
			for _, e := range cc.List {
				if id, ok := e.(*ast.Ident); ok && id.Name == "FanOutRouting" {
					def = cc
				}
			}
		}
		if def == nil {
			c.Fail("routeByStrategy: fan-out case not found")
		}
		var rng *ast.RangeStmt
		for _, st := range def.Body {
			if r, ok := st.(*ast.RangeStmt); ok {
				rng = r
			}
		}
		okLoop := rng != nil
		tells := 0
		if okLoop {
			if o := objOf(info, rng.X); o == nil || o != routeesParam {
				okLoop = false
			}
			loopVar := info.ObjectOf(rng.Value.(*ast.Ident))
			ast.Inspect(rng.Body, func(n ast.Node) bool {
				switch x := n.(type) {
				case *ast.BranchStmt, *ast.ReturnStmt:
					if br, ok := x.(*ast.BranchStmt); ok && (br.Tok == token.BREAK || br.Tok == token.CONTINUE || br.Tok == token.GOTO) {
						okLoop = false
					}
					if _, ok := x.(*ast.ReturnStmt); ok {
						// returns inside the goroutine literal are fine; top-level ones are not
					}
				case *ast.CallExpr:
					if cal := callee(info, x); cal != nil && cal.Name() == "Tell" {
						for _, a := range x.Args {
							if objOf(info, a) == loopVar {
								tells++
							}
						}
					}
				}
				return true
			})
			for _, st := range rng.Body.List {
				if _, isRet := st.(*ast.ReturnStmt); isRet {
					okLoop = false
				}
			}
		}
		c.Check(okLoop && tells == 1, "one-tell-per-routee", "fan-out ranges over every routee and issues exactly one Tell per routee, with no early exit", c.P.Pos(def.Pos()), "fan-out loop shape changed")
	})

	c.Rule("hash-ring", func() {
		rebuild := c.FuncObj("actor", "router.rebuildHashRing")
		exempt := map[string]string{
			"actor.(*router).availableRoutees": "lazy cleanup of a routee observed dead; the stop/Terminated handler rebuilds the ring",
			"actor.(*router).spawnRoutees":     "helper: each caller rebuilds after it returns (checked below)",
			"actor.(*router).handleRestartRoutee": "re-registers the same routee ID: ring membership unchanged",
			"actor.newRouter":                  "constructor: empty map",
		}
		seen := map[*types.Func]bool{}
		for _, u := range c.UsesOf(rmap) {
			if !u.IsWrite || u.EnclObj == nil || seen[u.EnclObj] {
				continue
			}
			seen[u.EnclObj] = true
			name := funcName(u.EnclObj)
			if why, ok := exempt[name]; ok {
				c.Ok("mutation@"+name+"/exempt", "routeesMap mutation exempt from the rebuild rule: "+why, u.Where(c.P))
				continue
			}
			fn := c.fnOfObj(u.EnclObj)
			f := c.NewFlow(fn)
			muts := f.Find(func(n ast.Node) bool {
				switch x := n.(type) {
				case *ast.AssignStmt:
					for _, l := range x.Lhs {
						if ix, ok := l.(*ast.IndexExpr); ok && selField(f.Info, ix.X) == rmap {
							return true
						}
					}
				case *ast.CallExpr:
					if id, ok := x.Fun.(*ast.Ident); ok && id.Name == "delete" && len(x.Args) == 2 && selField(f.Info, x.Args[0]) == rmap {
						return true
					}
				}
				return false
			})
			w := f.MustFollow(muts, f.CallTo(rebuild), nil)
			c.Check(w == nil && len(muts) > 0, "mutation@"+name+"⇒rebuild", "every change of routee membership is followed by rebuildHashRing on every path", u.Where(c.P), f.describe(w))
		}
		sp := c.Func("actor", "router.spawnRoutees")
		for _, u := range c.UsesOf(sp.Obj) {
			if u.Call == nil || u.EnclObj == nil {
				continue
			}
			fn := c.fnOfObj(u.EnclObj)
			f := c.NewFlow(fn)
			w := f.MustFollow(f.Find(func(n ast.Node) bool { return n == ast.Node(u.Call) }), f.CallTo(rebuild), nil)
			c.Check(w == nil, "spawnRoutees@"+u.EnclName()+"⇒rebuild", "spawning routees is followed by rebuildHashRing", u.Where(c.P), f.describe(w))
		}
		// the send itself: a message with a key goes to the ring's member for that key whenever that member is a
		// registered, running routee; a random routee is chosen only for an empty key, an unknown member or a member
		// that is not running (anything else sends equal keys to different routees while membership is unchanged)
		{
			rh := c.Func("actor", "router.routeByConsistentHash")
			hf := c.NewFlow(rh)
			hinfo := hf.Info
			random := func(n ast.Node) bool {
				call, ok := n.(*ast.CallExpr)
				if !ok {
					return false
				}
				cal := callee(hinfo, call)
				return cal != nil && cal.Pkg() != nil && strings.HasPrefix(cal.Pkg().Path(), "math/rand")
			}
			excuse := map[Edge]bool{}
			for e := range hf.FactEdges(func(cm cmp) bool { sv, isS := strConst(hinfo, cm.R); return cm.Op == token.EQL && isS && sv == "" }) {
				excuse[e] = true // key == ""
			}
			oks := commaOkLocals(hinfo, rh.Decl.Body)
			// member not registered or not running: the false edge of a condition made only of these two tests
			for e := range hf.AllFalseEdgesExpr(func(e ast.Expr) bool {
				if id, ok := ast.Unparen(e).(*ast.Ident); ok && oks[hinfo.ObjectOf(id)] {
					return true
				}
				return isCallNamed(hinfo, e, "IsRunning")
			}) {
				excuse[e] = true
			}
			w := hf.search(searchSpec{avoidEdges: excuse, target: random})
			c.Check(w == nil && len(excuse) >= 2 && len(hf.Find(random)) > 0, "hash-send/random-only-when-no-owner", "a keyed message is sent to a random routee only when the key is empty, the ring's member is not registered or it is not running", c.P.Pos(rh.Decl.Pos()), hf.describe(w))
			lookup := hf.CallTo(c.FuncObj("actor", "consistentHashRing.lookup"))
			c.Check(len(hf.Find(lookup)) == 1, "hash-send/one-lookup", "the owner of a key is looked up on the ring once", c.P.Pos(rh.Decl.Pos()), "")
		}
		// ring.set sorts keys; lookup wraps and is read-only
		set := c.Func("actor", "consistentHashRing.set")
		sf := c.NewFlow(set)
		keys := c.Field("actor", "consistentHashRing", "keys")
		sorted := sf.ExitReachable(nil, func(n ast.Node) bool {
			call, ok := n.(*ast.CallExpr)
			if !ok || len(call.Args) < 1 {
				return false
			}
			cal := callee(sf.Info, call)
			return cal != nil && cal.Pkg() != nil && (cal.Pkg().Path() == "slices" || cal.Pkg().Path() == "sort") && selField(sf.Info, call.Args[0]) == keys
		}, nil, nil)
		c.Check(sorted == nil, "set-sorts-keys", "the ring's key slice is sorted on every path of set (binary search precondition)", c.P.Pos(set.Decl.Pos()), sf.describe(sorted))
		lk := c.Func("actor", "consistentHashRing.lookup")
		writes := 0
		for _, fld := range []string{"keys", "ring", "hasher", "virtualNodes"} {
			for _, u := range c.UsesOf(c.Field("actor", "consistentHashRing", fld)) {
				if u.EnclObj == lk.Obj && u.IsWrite {
					writes++
				}
			}
		}
		c.Check(writes == 0, "lookup-pure", "lookup does not modify the ring (same key, same ring ⇒ same member)", c.P.Pos(lk.Decl.Pos()), "lookup writes ring state")
		// wrap: idx >= len(keys) → idx = 0 dominates the index
		lf := c.NewFlow(lk)
		var ixs []*Atom
		for _, a := range lf.Find(func(n ast.Node) bool { ix, ok := n.(*ast.IndexExpr); return ok && selField(lf.Info, ix.X) == keys }) {
			if a.Lit == nil {
				ixs = append(ixs, a)
			}
		}
		good := len(ixs) > 0
		for _, a := range ixs {
			ix := a.N.(*ast.IndexExpr)
			obj := objOf(lf.Info, ix.Index)
			// the fact idx < len(keys) or an assignment idx = 0 on the >= edge: accept: on every path to the index, either edge !(idx >= len) or assignment idx=0
			lt := lf.EdgesWhere(func(cond ast.Expr) (bool, bool) {
				for _, val := range []bool{true, false} {
					cm, ok := asCmp(cond, val)
					if ok && cm.Op == token.LSS && objOf(lf.Info, cm.L) == obj && isLenOf(lf.Info, cm.R, ix.X, lk.Decl.Body) {
						return true, val
					}
				}
				return false, false
			})
			zero := func(n ast.Node) bool {
				as, ok := n.(*ast.AssignStmt)
				if !ok || len(as.Lhs) != 1 || objOf(lf.Info, as.Lhs[0]) != obj {
					return false
				}
				v, isC := constInt(lf.Info, as.Rhs[0])
				return isC && v == 0 && as.Tok == token.ASSIGN
			}
			w := lf.search(searchSpec{avoid: zero, avoidEdges: lt, target: func(n ast.Node) bool { return n == a.N }})
			if w != nil || obj == nil {
				good = false
			}
		}
		empty := lf.EdgesWhere(func(cond ast.Expr) (bool, bool) {
			cm, ok := asCmp(cond, true)
			if ok && cm.Op == token.EQL && isLenOf(lf.Info, cm.L, &ast.SelectorExpr{}, nil) {
				return true, false
			}
			return false, false
		})
		_ = empty
		c.Check(good, "lookup-wraps", "the ring index is wrapped to 0 when the search runs past the last key (idx < len on every path to keys[idx])", c.P.Pos(lk.Decl.Pos()), "an index of r.keys is reachable without idx < len(keys) or idx = 0")
	})
}
