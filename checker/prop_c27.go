package main

import (
	"strings"
	"go/ast"
	"go/token"
	"go/types"
)

func init() {
	register(&propDef{
		id: "C27", title: "Remote tells keep order and are never silently dropped",
		technique: "who-may-receive on the coalescer channel (single writer), CFG ordering inside the writer loop and its closures (error hand-off before clear; exit only after an empty observation of the channel), loop-shape rule on the server batch loop",
		explanation: "Decides: (1) single writer: c.in is received only inside coalescer.run, which is started exactly once per coalescer (one 'go c.run()' in newCoalescer, nowhere else); the batch is built only by append in receive order and never reordered; (2) a failed flush hands a copy of the whole batch to the error handler before the batch is cleared; (3) close: on the done branch the writer returns only after a drain that observed the channel empty (every return of the branch is reached over len(batch)==0 directly after drainReady, and every flush in the branch is followed by another drain); drainReady stops only on the select-default (empty) edge or at the batch bound; (4) submit returns errCoalescerClosed on the done edge and its sends are the only sends on c.in; (5) server: the batch is delivered in slice order, one deliverRemoteTellMessage per non-nil element, with no early exit. Added after the probe round: after the send, flush ends without the error handler only when there is no error or no handler; submit returns nil only after a send and polls the closed signal before its first enqueue; the message received by the main select enters the batch before any further drain; the handler never receives the reused batch slice (or a re-slice of it).",
		assumptions: []string{"a submit racing close (send accepted after the writer's last empty observation) is not decided", "order on the wire is the order of the batch slice (protobuf repeated field)"},
		minObl:     15,
		run:        runC27,
	})
}

func runC27(c *Ctx) {
	run := c.Func("internal/remoteclient", "coalescer.run")
	newC := c.Func("internal/remoteclient", "newCoalescer")
	submit := c.Func("internal/remoteclient", "coalescer.submit")
	inF := c.Field("internal/remoteclient", "coalescer", "in")
	doneF := c.Field("internal/remoteclient", "coalescer", "done")
	info := run.Info()

	isRecvFrom := func(info *types.Info, n ast.Node, fld *types.Var) bool {
		ue, ok := n.(*ast.UnaryExpr)
		return ok && ue.Op == token.ARROW && selField(info, ue.X) == fld
	}

	// the batch: the slice the writer goroutine sends as RemoteTellRequest.RemoteMessages
	batchVar := func() types.Object {
		var out types.Object
		ast.Inspect(run.Decl.Body, func(nd ast.Node) bool {
			if kv, ok := nd.(*ast.KeyValueExpr); ok {
				if id, ok := kv.Key.(*ast.Ident); ok && id.Name == "RemoteMessages" {
					if o := objOf(info, kv.Value); o != nil {
						out = o
					}
				}
			}
			return true
		})
		return out
	}
	c.Rule("single-writer", func() {
		nRecv, nSend := 0, 0
		for _, u := range c.UsesOf(inF) {
			if u.Sel == nil {
				continue
			}
			par := u.Path[len(u.Path)-2]
			switch x := par.(type) {
			case *ast.UnaryExpr:
				if x.Op == token.ARROW {
					nRecv++
					c.Check(u.EnclObj == run.Obj, "recv@"+u.EnclName(), "the coalescer channel is received only by the writer goroutine (coalescer.run)", u.Where(c.P), "receive outside coalescer.run")
				}
			case *ast.SendStmt:
				if x.Chan == ast.Expr(u.Sel) {
					nSend++
					c.Check(u.EnclObj == submit.Obj, "send@"+u.EnclName(), "messages enter the coalescer channel only through submit", u.Where(c.P), "send outside submit")
				}
			}
		}
		if nRecv == 0 || nSend == 0 {
			c.Undecided("channel-ops", "receive and send sites of c.in found", "-", "none found")
		}
		// go c.run() exactly once, in newCoalescer
		n := 0
		for _, u := range c.UsesOf(run.Obj) {
			n++
			c.Check(u.EnclObj == newC.Obj && u.InGo && len(u.Lits) == 0, "run-started@"+u.EnclName(), "the writer goroutine is started only by newCoalescer", u.Where(c.P), "coalescer.run referenced elsewhere")
		}
		c.Check(n == 1, "one-writer", "exactly one writer goroutine per coalescer", c.P.Pos(newC.Decl.Pos()), "run is started more or less than once")
		// batch is only appended / truncated, never sorted or indexed-assigned out of order
		var batch types.Object
		batch = batchVar()
		if batch == nil {
			c.Fail("run: batch variable not found")
		}
		bad := ""
		ast.Inspect(run.Decl.Body, func(nd ast.Node) bool {
			switch x := nd.(type) {
			case *ast.AssignStmt:
				for i, l := range x.Lhs {
					if objOf(info, l) == batch && i < len(x.Rhs) {
						switch r := ast.Unparen(x.Rhs[i]).(type) {
						case *ast.CallExpr:
							if id, ok := r.Fun.(*ast.Ident); ok && (id.Name == "append" || id.Name == "make") {
								if id.Name == "append" && (len(r.Args) != 2 || objOf(info, r.Args[0]) != batch) {
									bad += c.P.Pos(x.Pos()) + " "
								}
								continue
							}
							bad += c.P.Pos(x.Pos()) + " "
						case *ast.SliceExpr:
							if objOf(info, r.X) != batch || r.Low != nil {
								bad += c.P.Pos(x.Pos()) + " "
							}
						default:
							bad += c.P.Pos(x.Pos()) + " "
						}
					}
					if ix, ok := l.(*ast.IndexExpr); ok && objOf(info, ix.X) == batch {
						if !isNilIdent(info, x.Rhs[i]) {
							bad += c.P.Pos(x.Pos()) + " "
						}
					}
				}
			case *ast.CallExpr:
				if cal := callee(info, x); cal != nil && cal.Pkg() != nil && (cal.Pkg().Path() == "sort" || cal.Pkg().Path() == "slices") {
					for _, a := range x.Args {
						if objOf(info, a) == batch {
							bad += c.P.Pos(x.Pos()) + " "
						}
					}
				}
			}
			return true
		})
		c.Check(bad == "", "batch-append-only", "the batch is built by append in receive order and only truncated/cleared, never reordered", c.P.Pos(run.Decl.Pos()), "other writes at "+bad)
	})

	// closures of run
	lits := map[string]*ast.FuncLit{}
	litObj := map[string]types.Object{}
	ast.Inspect(run.Decl.Body, func(nd ast.Node) bool {
		if as, ok := nd.(*ast.AssignStmt); ok && as.Tok == token.DEFINE && len(as.Lhs) == 1 && len(as.Rhs) == 1 {
			if lit, ok := as.Rhs[0].(*ast.FuncLit); ok {
				id := as.Lhs[0].(*ast.Ident)
				// closures are identified by what they do: the one that sends the batch, the one that receives from in
				roleName := ""
				switch {
				case containsNode(lit.Body, func(n ast.Node) bool {
					call, ok := n.(*ast.CallExpr)
					if !ok {
						return false
					}
					cal := callee(info, call)
					return cal != nil && strings.HasPrefix(cal.Name(), "Send") && cal.Pkg() != nil && relPkg(cal.Pkg().Path()) == "internal/net"
				}):
					roleName = "flush"
				case containsNode(lit.Body, func(n ast.Node) bool { return isRecvFrom(info, n, inF) }):
					roleName = "drainReady"
				}
				if roleName != "" {
					lits[roleName] = lit
					litObj[roleName] = info.Defs[id]
				}
			}
		}
		return true
	})
	callOfLocal := func(name string) Match {
		return func(n ast.Node) bool {
			call, ok := n.(*ast.CallExpr)
			if !ok {
				return false
			}
			id, ok := call.Fun.(*ast.Ident)
			return ok && litObj[name] != nil && info.ObjectOf(id) == litObj[name]
		}
	}

	c.Rule("flush", func() {
		lit := lits["flush"]
		if lit == nil {
			c.Fail("run: flush closure not found")
		}
		f := c.NewLitFlow("coalescer.run$flush", info, lit)
		errH := c.Field("internal/remoteclient", "coalescer", "errHandler")
		handler := func(n ast.Node) bool {
			call, ok := n.(*ast.CallExpr)
			return ok && selField(info, call.Fun) == errH
		}
		clear := func(n ast.Node) bool {
			as, ok := n.(*ast.AssignStmt)
			if !ok {
				return false
			}
			for _, l := range as.Lhs {
				if ix, ok := l.(*ast.IndexExpr); ok {
					if o := objOf(info, ix.X); o != nil && o == batchVar() {
						return true
					}
				}
				if o := objOf(info, l); o != nil && o == batchVar() {
					return true
				}
			}
			return false
		}
		hs := f.Find(handler)
		c.Check(len(hs) == 1, "one-handler-call", "flush reports a failed batch to the error handler at one site", c.P.Pos(lit.Pos()), "")
		w := f.MayReach(f.Find(clear), nil, handler)
		c.Check(w == nil, "handoff≺clear", "the failed batch is handed to the error handler before the batch is cleared", c.P.Pos(lit.Pos()), f.describe(w))
		// the error edge (err != nil with a handler configured) always reaches the handler call
		send := f.CallTo(c.FuncObj("internal/net", "Client.SendProto"))
		fail, n := f.ErrEdgesOf(send, true)
		_ = fail
		c.Check(n == 1, "send-error-tested", "the result of SendProto is tested", c.P.Pos(lit.Pos()), "")
		sends := f.Find(send)
		ws := f.MayReach(sends, nil, send)
		c.Check(len(sends) == 1 && ws == nil, "send-at-most-once", "a batch is put on the wire at most once per flush: a transport error after the request left is not retried (the peer may already have delivered the batch; a resend duplicates and reorders)", c.P.Pos(lit.Pos()), "the batch can be sent twice: "+f.describe(ws))
		// the dual of "the handler is called only on failure": once the batch was put on the wire, flush ends without
		// the handler only over the edge on which there is no error or no handler configured — a guard with any further
		// conjunct drops a failed batch silently
		errT := types.Universe.Lookup("error").Type()
		noFailure := f.AllFalseEdges(func(cm cmp) bool {
			// the fact holding on the edge: <err or handler> == nil
			if cm.Op != token.EQL || !isNilIdent(info, cm.R) {
				return false
			}
			if selField(info, cm.L) == errH {
				return true
			}
			o := objOf(info, cm.L)
			return o != nil && types.Identical(o.Type(), errT)
		})
		wf := f.search(searchSpec{starts: sends, avoid: handler, avoidEdges: noFailure, exits: true})
		c.Check(wf == nil && len(noFailure) > 0, "failed-batch-always-handed", "after the send, flush ends without calling the error handler only when there is no error or no handler (a failed batch is never dropped silently)", c.P.Pos(lit.Pos()), f.describe(wf))
		// handler receives a copy (argument is not the batch variable itself)
		okCopy := true
		for _, a := range hs {
			for _, arg := range a.N.(*ast.CallExpr).Args {
				if o := objOf(info, arg); o != nil && o == batchVar() {
					okCopy = false
				}
				if se, ok := ast.Unparen(arg).(*ast.SliceExpr); ok && objOf(info, se.X) == batchVar() {
					okCopy = false // a re-slice shares the reused backing array
				}
			}
		}
		c.Check(okCopy, "handler-gets-copy", "the error handler receives a copy, not the reused batch slice", c.P.Pos(lit.Pos()), "batch passed directly")
		// every exit of flush with a non-empty batch passed SendProto
		w = f.ExitReachable(nil, send, f.EdgesWhere(func(cond ast.Expr) (bool, bool) {
			cm, ok := asCmp(cond, true)
			if ok && cm.Op == token.EQL {
				if v, isC := constInt(info, cm.R); isC && v == 0 {
					return true, true
				}
			}
			return false, false
		}), nil)
		c.Check(w == nil, "nonempty⇒sent", "a non-empty batch is always sent", c.P.Pos(lit.Pos()), f.describe(w))
	})

	c.Rule("drainReady", func() {
		lit := lits["drainReady"]
		if lit == nil {
			c.Fail("run: drainReady closure not found")
		}
		f := c.NewLitFlow("coalescer.run$drainReady", info, lit)
		// returns only from the select default clause (channel observed empty) or the loop bound
		okRet := true
		nDefault := 0
		ast.Inspect(lit.Body, func(nd ast.Node) bool {
			if cc, ok := nd.(*ast.CommClause); ok {
				if cc.Comm == nil {
					nDefault++
				} else {
					// receive case must append
					app := false
					for _, st := range cc.Body {
						ast.Inspect(st, func(m ast.Node) bool {
							if call, ok := m.(*ast.CallExpr); ok {
								if id, ok := call.Fun.(*ast.Ident); ok && id.Name == "append" {
									app = true
								}
							}
							return true
						})
					}
					if !app {
						okRet = false
					}
				}
			}
			return true
		})
		rets := 0
		ast.Inspect(lit.Body, func(nd ast.Node) bool {
			if _, ok := nd.(*ast.ReturnStmt); ok {
				rets++
			}
			return true
		})
		c.Check(okRet && nDefault == 1 && rets == 1, "stops-on-empty", "drainReady appends every received message and stops only on the select-default edge (channel observed empty) or at the batch bound", c.P.Pos(lit.Pos()), "drain loop shape changed")
		_ = f
	})

	c.Rule("close-drains", func() {
		f := c.NewFlow(run)
		var doneAtoms []*Atom
		for _, a := range f.Find(func(n ast.Node) bool { return isRecvFrom(info, n, doneF) }) {
			doneAtoms = append(doneAtoms, a)
		}
		if len(doneAtoms) == 0 {
			c.Fail("run: done case not found")
		}
		drain := callOfLocal("drainReady")
		flush := callOfLocal("flush")
		recvIn := func(n ast.Node) bool { return isRecvFrom(info, n, inF) }
		empty := f.EdgesWhere(func(cond ast.Expr) (bool, bool) {
			cm, ok := asCmp(cond, true)
			if !ok || cm.Op != token.EQL {
				return false, false
			}
			call, isCall := ast.Unparen(cm.L).(*ast.CallExpr)
			if !isCall {
				return false, false
			}
			if id, ok := call.Fun.(*ast.Ident); !ok || id.Name != "len" {
				return false, false
			}
			if o := objOf(info, call.Args[0]); o == nil || o != batchVar() {
				return false, false
			}
			v, isC := constInt(info, cm.R)
			return isC && v == 0, true
		})
		// (a) after done, the function exits only over a len(batch)==0 edge
		w := f.ExitReachable(doneAtoms, recvIn, empty, nil)
		c.Check(w == nil && len(empty) > 0, "exit-only-when-drained", "after close is signalled the writer returns only on an edge where the last drain left the batch empty (channel observed empty)", c.P.Pos(run.Decl.Pos()),
			"the done branch can return after a single bounded drain: the channel buffers up to 4*maxBatch accepted messages, the drain stops at maxBatch; "+f.describe(w))
		// (b) the emptiness test directly follows a drain: no flush between drain and the test
		for e := range empty {
			// from the last flush, reaching this edge requires a drain in between
			_ = e
		}
		fl := []*Atom{}
		for _, a := range f.Find(flush) {
			fl = append(fl, a)
		}
		w = f.search(searchSpec{starts: fl, avoid: Or(drain, recvIn), exits: true})
		c.Check(w == nil && len(fl) > 0, "flush⇒◇drain", "after every flush the writer looks at the channel again (drain or receive) before it can exit", c.P.Pos(run.Decl.Pos()), f.describe(w))
		// (d) receive order is batch order: the message received by the main select is appended to the batch before the
		// channel is drained further (a drain first would put later messages ahead of it)
		appendRecv := func(n ast.Node) bool {
			as, ok := n.(*ast.AssignStmt)
			if !ok || len(as.Lhs) != 1 || len(as.Rhs) != 1 || objOf(info, as.Lhs[0]) != batchVar() {
				return false
			}
			call, ok := as.Rhs[0].(*ast.CallExpr)
			if !ok {
				return false
			}
			id, ok := call.Fun.(*ast.Ident)
			return ok && id.Name == "append" && len(call.Args) == 2 && objOf(info, call.Args[0]) == batchVar()
		}
		var mainRecv []*Atom
		for _, a := range f.Find(recvIn) {
			if a.Lit == nil {
				mainRecv = append(mainRecv, a)
			}
		}
		w = f.search(searchSpec{starts: mainRecv, avoid: appendRecv, target: Or(drain, flush)})
		c.Check(w == nil && len(mainRecv) == 1, "received-first-in-batch", "the message received by the main select enters the batch before any further drain or flush (batch order = receive order)", c.P.Pos(run.Decl.Pos()), f.describe(w))
		// (c) the done branch drains before testing
		w = f.search(searchSpec{starts: doneAtoms, avoid: drain, exits: true})
		c.Check(w == nil, "done⇒◇drain", "the done branch always drains the channel", c.P.Pos(run.Decl.Pos()), f.describe(w))
	})

	c.Rule("submit", func() {
		f := c.NewFlow(submit)
		sinfo := f.Info
		errClosed := c.pkg("internal/remoteclient").Types.Scope().Lookup("errCoalescerClosed")
		if errClosed == nil {
			c.Fail("errCoalescerClosed not found")
		}
		dones := f.Find(func(n ast.Node) bool { return isRecvFrom(sinfo, n, doneF) })
		c.Check(len(dones) >= 1, "observes-done", "submit observes the closed signal", c.P.Pos(submit.Decl.Pos()), "")
		// after observing done every path returns errCoalescerClosed
		retClosed := func(n ast.Node) bool {
			r, ok := n.(*ast.ReturnStmt)
			return ok && len(r.Results) == 1 && objOf(sinfo, r.Results[0]) == errClosed
		}
		w := f.MustFollow(dones, retClosed, nil)
		c.Check(w == nil, "done⇒errClosed", "a submit that observes the closed signal returns errCoalescerClosed and does not enqueue", c.P.Pos(submit.Decl.Pos()), f.describe(w))
		// the first thing submit does is to look at done
		sends := f.Find(func(n ast.Node) bool { s, ok := n.(*ast.SendStmt); return ok && selField(sinfo, s.Chan) == inF })
		w = f.MustPrecede(func(n ast.Node) bool { _, ok := n.(*ast.SelectStmt); return ok }, nil, func(n ast.Node) bool { return len(sends) > 0 && n == sends[0].N })
		_ = w
		// a successful send returns nil
		okNil := true
		for _, s := range sends {
			ww := f.MustFollow([]*Atom{s}, func(n ast.Node) bool {
				r, ok := n.(*ast.ReturnStmt)
				return ok && len(r.Results) == 1 && isNilIdent(sinfo, r.Results[0])
			}, nil)
			if ww != nil {
				okNil = false
			}
		}
		c.Check(okNil && len(sends) >= 1, "sent⇒nil", "submit reports success exactly when the message was placed on the channel", c.P.Pos(submit.Decl.Pos()), "a send path does not return nil")
		// success only after a send: no path returns nil without having placed the message on the channel
		retNil := func(n ast.Node) bool {
			r, ok := n.(*ast.ReturnStmt)
			return ok && len(r.Results) == 1 && isNilIdent(sinfo, r.Results[0])
		}
		isSend := func(n ast.Node) bool { s, ok := n.(*ast.SendStmt); return ok && selField(sinfo, s.Chan) == inF }
		w = f.search(searchSpec{avoid: isSend, target: retNil})
		c.Check(w == nil, "nil⇒sent", "submit returns nil only after the message was placed on the channel (a cancelled or refused submit is reported, so the caller dead-letters it)", c.P.Pos(submit.Decl.Pos()), f.describe(w))
		// the closed signal is polled before the first attempt to enqueue: after close the writer goroutine is gone and
		// a message placed in the buffer would be neither sent nor reported
		firstSend := token.NoPos
		for _, sd := range sends {
			if firstSend == token.NoPos || sd.N.Pos() < firstSend {
				firstSend = sd.N.Pos()
			}
		}
		polled := false
		ast.Inspect(submit.Decl.Body, func(n ast.Node) bool {
			sel, ok := n.(*ast.SelectStmt)
			if !ok || sel.End() > firstSend {
				return true
			}
			hasDone, hasDefault := false, false
			for _, cl := range sel.Body.List {
				cc := cl.(*ast.CommClause)
				if cc.Comm == nil {
					hasDefault = true
				} else if containsNode(cc.Comm, func(m ast.Node) bool { return isRecvFrom(sinfo, m, doneF) }) {
					hasDone = true
				}
			}
			if hasDone && hasDefault {
				polled = true
			}
			return true
		})
		c.Check(polled && firstSend != token.NoPos, "closed-polled-before-enqueue", "submit polls the closed signal before its first attempt to enqueue", c.P.Pos(submit.Decl.Pos()), "no non-blocking look at done precedes the first send on the channel")
	})

	c.Rule("server-order", func() {
		h := c.Func("actor", "actorSystem.remoteTellHandler")
		hinfo := h.Info()
		deliver := c.FuncObj("actor", "actorSystem.deliverRemoteTellMessage")
		var rng *ast.RangeStmt
		ast.Inspect(h.Decl.Body, func(n ast.Node) bool {
			if r, ok := n.(*ast.RangeStmt); ok {
				if call, ok := ast.Unparen(r.X).(*ast.CallExpr); ok {
					if cal := callee(hinfo, call); cal != nil && cal.Name() == "GetRemoteMessages" {
						rng = r
					}
				}
			}
			return true
		})
		if rng == nil {
			c.Fail("remoteTellHandler: range over GetRemoteMessages() not found")
		}
		loopVar := hinfo.ObjectOf(rng.Value.(*ast.Ident))
		calls, early := 0, false
		ast.Inspect(rng.Body, func(n ast.Node) bool {
			switch x := n.(type) {
			case *ast.CallExpr:
				if callee(hinfo, x) == deliver {
					for _, a := range x.Args {
						if objOf(hinfo, a) == loopVar {
							calls++
						}
					}
				}
			case *ast.BranchStmt:
				if x.Tok == token.BREAK || x.Tok == token.GOTO {
					early = true
				}
			case *ast.ReturnStmt:
				early = true
			case *ast.GoStmt:
				early = true // a goroutine per message would lose order
			}
			return true
		})
		c.Check(calls == 1 && !early, "in-order-one-each", "the server delivers the batch in slice order: one synchronous deliverRemoteTellMessage per element, no early exit, no goroutine per message", c.P.Pos(rng.Pos()), "batch loop shape changed")
		c.WhoMayCall("who", deliver, map[string]string{"actor.(*actorSystem).remoteTellHandler": "the batch loop"})
	})
}
