package main

import (
	"go/ast"
	"go/types"
	"strings"
)

func init() {
	register(&propDef{
		id: "C20", title: "Event stream subscribers get every event once, in publish order",
		technique: "lockset on the stream's topic/subscriber maps, snapshot-then-signal rule over the CFG, atomic discipline on the lock-free queue, node-lifetime rule (a node that left the list is neither relinked nor recycled)",
		explanation: "Decides: (1) the stream's topic map and subscriber map and each subscriber's topic set are accessed only under their mutexes; (2) publishToTopic copies the topic's subscribers into a fresh snapshot under the read lock, releases the lock, and then signals every snapshot element exactly once, only if it is active; signal re-tests the active flag before enqueuing; Unsubscribe removes the subscriber from the topic map under the write lock; (3) every field of the lock-free queue and its nodes that is accessed with sync/atomic anywhere is accessed that way everywhere — in particular no plain store to a node's next pointer; (4) node lifetime: no function hands a queue node to a pool for reuse, and a node's next pointer changes exactly once, nil→successor, by the linking CAS of Enqueue — never stored, swapped or cleared afterwards (the tail may lag behind the head and a stalled Enqueue may still hold a dequeued node as its tail: resetting or recycling it detaches every later element); (5) a subscriber's queue is enqueued only by signal and dequeued only by Iterator. Linearizability of the queue is not decided. Added after the probe round (Michael–Scott skeleton): head and tail are moved only by compare-and-swap; Enqueue returns only over its linking CAS's success edge; Dequeue returns a value only over its head CAS's success edge, reads the successor's value before any payload is dropped, and drops the payload of the old head only.",
		assumptions: []string{"linearizability / FIFO of the Michael–Scott queue under interleavings", "Iterator is used by one consumer at a time"},
		minObl:     30,
		run:        runC20,
	})
}

func runC20(c *Ctx) {
	c.Rule("locks", func() {
		c.GuardedBy(guardSpec{name: "topics", lock: c.Field("eventstream", "EventsStream", "topicsMu"), fields: c.Fields("eventstream", "EventsStream", "topics"), exemptFns: map[string]string{"eventstream.New": "constructor"}})
		c.GuardedBy(guardSpec{name: "subscribers", lock: c.Field("eventstream", "EventsStream", "subsMu"), fields: c.Fields("eventstream", "EventsStream", "subscribers"), exemptFns: map[string]string{"eventstream.New": "constructor"}})
		c.GuardedBy(guardSpec{name: "subscriber.topics", lock: c.Field("eventstream", "subscriber", "topicsMu"), fields: c.Fields("eventstream", "subscriber", "topics"), exemptFns: map[string]string{"eventstream.newSubscriber": "constructor"}})
	})

	c.Rule("publish", func() {
		pt := c.Func("eventstream", "EventsStream.publishToTopic")
		f := c.NewFlow(pt)
		info := f.Info
		mu := c.Field("eventstream", "EventsStream", "topicsMu")
		la := f.Locks(nil)
		sig := func(n ast.Node) bool {
			call, ok := n.(*ast.CallExpr)
			if !ok {
				return false
			}
			cal := callee(info, call)
			return cal != nil && cal.Name() == "signal"
		}
		sigs := f.Find(sig)
		c.Check(len(sigs) == 1, "one-signal-site", "one signal site in publishToTopic", c.P.Pos(pt.Decl.Pos()), "")
		for _, a := range sigs {
			c.Check(la.At(a)[mu] == 0, "signal-outside-lock", "subscribers are signalled after the topic lock was released", c.P.Pos(a.N.Pos()), "signal under the topic lock")
		}
		// the loop ranges over the snapshot, which is freshly made and filled under the lock
		var snap types.Object
		ast.Inspect(pt.Decl.Body, func(n ast.Node) bool {
			if as, ok := n.(*ast.AssignStmt); ok && len(as.Rhs) == 1 {
				if call, ok := as.Rhs[0].(*ast.CallExpr); ok {
					if id, ok := call.Fun.(*ast.Ident); ok && id.Name == "make" {
						snap = info.ObjectOf(as.Lhs[0].(*ast.Ident))
					}
				}
			}
			return true
		})
		var loop *ast.RangeStmt
		ast.Inspect(pt.Decl.Body, func(n ast.Node) bool {
			if r, ok := n.(*ast.RangeStmt); ok && snap != nil && objOf(info, r.X) == snap {
				loop = r
			}
			return true
		})
		okLoop := loop != nil
		if okLoop {
			v := info.ObjectOf(loop.Value.(*ast.Ident))
			body := &ast.FuncLit{Type: &ast.FuncType{}, Body: loop.Body}
			lf := c.NewLitFlow("publishToTopic$each", info, body)
			s1 := lf.Find(func(n ast.Node) bool {
				call, ok := n.(*ast.CallExpr)
				if !ok {
					return false
				}
				cal := callee(info, call)
				return cal != nil && cal.Name() == "signal" && objOf(info, recvExpr(call)) == v
			})
			act := lf.CondEdges(func(e ast.Expr) bool {
				call, ok := e.(*ast.CallExpr)
				if !ok {
					return false
				}
				cal := callee(info, call)
				return cal != nil && cal.Name() == "Active" && objOf(info, recvExpr(call)) == v
			}, true)
			// every active subscriber is signalled: from the active edge the signal is unavoidable
			w := lf.AfterEdgesMustPass(act, func(n ast.Node) bool { return len(s1) == 1 && n == s1[0].N }, nil)
			w2 := lf.MayReach(s1, nil, func(n ast.Node) bool { return len(s1) == 1 && n == s1[0].N })
			okLoop = len(s1) == 1 && len(act) > 0 && w == nil && w2 == nil
			if exitsLoopEarly(loop.Body) {
				okLoop = false
			}
		}
		c.Check(okLoop, "every-active-subscriber-once", "each subscriber in the snapshot is signalled exactly once if it is active; no early exit from the loop", c.P.Pos(pt.Decl.Pos()), "snapshot loop shape changed")
		// snapshot is filled under the read lock
		okFill := false
		for _, a := range f.Find(func(n ast.Node) bool {
			call, ok := n.(*ast.CallExpr)
			if !ok {
				return false
			}
			id, ok := call.Fun.(*ast.Ident)
			return ok && id.Name == "append" && snap != nil && objOf(info, call.Args[0]) == snap
		}) {
			if la.At(a)[mu] >= 1 {
				okFill = true
			}
		}
		c.Check(okFill, "snapshot-under-lock", "the snapshot of the topic's subscribers is taken under the topic lock", c.P.Pos(pt.Decl.Pos()), "")
		sg := c.Func("eventstream", "subscriber.signal")
		sf := c.NewFlow(sg)
		enq := sf.CallTo(c.FuncObj("internal/queue", "Queue.Enqueue"))
		active := sf.CondEdges(func(e ast.Expr) bool {
			call, ok := e.(*ast.CallExpr)
			if !ok {
				return false
			}
			return sf.CallOnField(c.Field("eventstream", "subscriber", "active"), "Load")(call)
		}, true)
		w := sf.search(searchSpec{avoidEdges: active, target: enq})
		c.Check(w == nil && len(active) > 0 && len(sf.Find(enq)) == 1, "signal-retests-active", "signal enqueues exactly one message and only for an active subscriber", c.P.Pos(sg.Decl.Pos()), sf.describe(w))
	})

	c.Rule("queue-atomic", func() {
		n := c.AtomicDiscipline("atomic", "internal/queue")
		if n < 10 {
			c.Undecided("count", "at least 10 accesses of atomically accessed queue fields", "-", "found fewer")
		}
		// node lifetime
		item := c.Named("internal/queue", "item")
		pk := c.pkg("internal/queue")
		recycled := ""
		for _, file := range pk.Syntax {
			ast.Inspect(file, func(nd ast.Node) bool {
				call, ok := nd.(*ast.CallExpr)
				if !ok {
					return true
				}
				cal := callee(pk.TypesInfo, call)
				if cal == nil || qualifiedName(cal) != "sync.(*Pool).Put" || len(call.Args) != 1 {
					return true
				}
				t := pk.TypesInfo.TypeOf(call.Args[0])
				if p, ok := t.(*types.Pointer); ok && types.Identical(p.Elem(), item) {
					recycled = c.P.Pos(call.Pos())
				}
				return true
			})
		}
		c.Check(recycled == "", "nodes-not-recycled", "queue nodes are never handed to a pool for reuse (a node can still be the lagging tail, or be held by a stalled Enqueue, after it left the list)", c.P.Pos(pk.Syntax[0].Pos()),
			"a node is put into a sync.Pool at "+recycled+": the next Enqueue can link behind (or onto) a node that is no longer reachable from the head, and every later element is lost")
		next := c.Field("internal/queue", "item", "next")
		for _, u := range c.UsesOf(next) {
			if u.Sel == nil {
				continue
			}
			if u.IsWrite && !u.IsAddr {
				c.Bad("next-reset@"+u.EnclName(), "a node's next pointer is never reset by a plain store", u.Where(c.P), "plain store to item.next in "+u.EnclName())
			}
			if !u.IsAddr {
				continue
			}
			// &node.next handed to sync/atomic: a node's next changes exactly once, nil -> successor, by the linking CAS of Enqueue
			var call *ast.CallExpr
			for i := len(u.Path) - 1; i >= 0 && call == nil; i-- {
				call, _ = u.Path[i].(*ast.CallExpr)
			}
			name := "?"
			if call != nil {
				if cal := callee(u.Pkg.TypesInfo, call); cal != nil {
					name = cal.Name()
				}
			}
			switch name {
			case "LoadPointer":
				c.Ok("next-op@"+u.EnclName()+"/Load", "reading a node's next pointer", u.Where(c.P))
			case "CompareAndSwapPointer":
				okCAS := len(call.Args) == 3 && isNilIdent(u.Pkg.TypesInfo, call.Args[1]) && u.EnclObj != nil && u.EnclObj.Name() == "Enqueue"
				c.Check(okCAS, "next-op@"+u.EnclName()+"/CAS", "a node's next pointer changes only by the linking CAS nil→successor in Enqueue", u.Where(c.P), "CompareAndSwapPointer on item.next that is not the nil→node link of Enqueue")
			default:
				c.Bad("next-op@"+u.EnclName()+"/"+name, "a node's next pointer, once set, is never changed or cleared: a producer that still holds a dequeued node as its tail must see that it has a successor and help the tail forward instead of linking behind a node that left the list", u.Where(c.P),
					name+" on item.next in "+u.EnclName()+": after the pointer is cleared a stalled Enqueue links its node behind a retired node and the element (and every later one linked after it) is lost")
			}
		}
		c.Ok("next-never-reset", "no plain store to a node's next pointer exists", c.P.Pos(pk.Syntax[0].Pos()))
	})

	c.Rule("ms-queue", func() {
		// Michael–Scott skeleton of the subscriber queue: (a) head and tail are moved only by compare-and-swap;
		// (b) Enqueue returns only after its linking CAS (tail.next: nil → node) succeeded; (c) Dequeue returns a value
		// only after its head CAS succeeded, the value is read from the successor node, and the node whose payload is
		// dropped is the OLD head (never the node whose value is being returned).
		headF := c.Field("internal/queue", "Queue", "head")
		tailF := c.Field("internal/queue", "Queue", "tail")
		nextF := c.Field("internal/queue", "item", "next")
		valF := c.Field("internal/queue", "item", "v")
		for _, u := range append(c.UsesOf(headF), c.UsesOf(tailF)...) {
			if u.Sel == nil || !u.IsAddr {
				continue
			}
			for i := len(u.Path) - 1; i >= 0 && i >= len(u.Path)-4; i-- {
				if call, ok := u.Path[i].(*ast.CallExpr); ok {
					if fv, op, _ := atomicOp(u.Pkg.TypesInfo, call); fv != nil {
						okOp := op == "Load" || op == "CompareAndSwap"
						c.Check(okOp, "moves-by-cas@"+u.EnclName()+"/"+fv.Name()+"/"+op, "the queue's head and tail are read and compare-and-swapped, never stored or exchanged unconditionally", u.Where(c.P), op+" on Queue."+fv.Name())
					}
					break
				}
			}
		}
		enq := c.Func("internal/queue", "Queue.Enqueue")
		ef := c.NewFlow(enq)
		link := func(n ast.Node) bool { _, k := atomicOnIn(ef.Info, n, nextF); return k == "CompareAndSwapPointer" }
		linked := ef.CondEdges(exprMatch(link), true)
		w := ef.search(searchSpec{avoidEdges: linked, exits: true})
		c.Check(w == nil && len(linked) > 0, "enqueue/returns-only-linked", "Enqueue returns only over the edge on which its linking CAS succeeded (the value is in the list)", c.P.Pos(enq.Decl.Pos()), ef.describe(w))
		deq := c.Func("internal/queue", "Queue.Dequeue")
		df := c.NewFlow(deq)
		dinfo := df.Info
		adv := func(n ast.Node) bool { _, k := atomicOnIn(dinfo, n, headF); return k == "CompareAndSwapPointer" }
		won := df.CondEdges(exprMatch(adv), true)
		retVal := func(n ast.Node) bool {
			r, ok := n.(*ast.ReturnStmt)
			return ok && len(r.Results) == 1 && !isNilIdent(dinfo, r.Results[0])
		}
		c.guardedBy(df, won, retVal, "dequeue/value-only-after-cas", "Dequeue returns a value only over the edge on which its head CAS succeeded", c.P.Pos(deq.Decl.Pos()))
		// old head = the local loaded from q.head; the payload read is from another node, and the read precedes the release
		oldHead := localsDefinedBy(dinfo, deq.Decl.Body, func(def ast.Expr) bool {
			return containsNode(def, func(n ast.Node) bool { _, k := atomicOnIn(dinfo, n, headF); return k == "LoadPointer" })
		})
		release := c.FuncObj("internal/queue", "Queue.releaseItem")
		okRel, nRel := true, 0
		for _, a := range df.Find(df.CallTo(release)) {
			nRel++
			call := a.N.(*ast.CallExpr)
			if len(oldHead) != 1 || objOf(dinfo, call.Args[0]) != oldHead[0] {
				okRel = false
			}
		}
		c.Check(okRel && nRel == 1, "dequeue/releases-old-head", "the node whose payload Dequeue drops is the old head (the dummy), never the node whose value it returns", c.P.Pos(deq.Decl.Pos()), "releaseItem is applied to something other than the node loaded from q.head")
		readV := func(n ast.Node) bool {
			sel, ok := n.(*ast.SelectorExpr)
			if !ok || selField(dinfo, sel) != valF {
				return false
			}
			return len(oldHead) == 1 && objOf(dinfo, sel.X) != oldHead[0]
		}
		w = df.MustPrecede(readV, nil, df.CallTo(release))
		c.Check(w == nil && len(df.Find(readV)) > 0, "dequeue/read≺release", "the successor's value is read before any payload is dropped", c.P.Pos(deq.Decl.Pos()), df.describe(w))
	})

	c.Rule("queue-users", func() {
		msgs := c.Field("eventstream", "subscriber", "messages")
		for _, u := range c.UsesOf(msgs) {
			if u.Sel == nil || len(u.Path) < 2 {
				continue
			}
			sel, ok := u.Path[len(u.Path)-2].(*ast.SelectorExpr)
			if !ok {
				continue
			}
			switch sel.Sel.Name {
			case "Enqueue":
				c.Check(strings.HasSuffix(u.EnclName(), ".signal"), "enqueue@"+u.EnclName(), "a subscriber's queue is enqueued only by signal", u.Where(c.P), "")
			case "Dequeue":
				c.Check(strings.HasSuffix(u.EnclName(), ".Iterator"), "dequeue@"+u.EnclName(), "a subscriber's queue is dequeued only by Iterator", u.Where(c.P), "")
			}
		}
	})
}

// exitsLoopEarly: the loop body contains a break that leaves this loop, a return, a goto or a labelled branch.
func exitsLoopEarly(body *ast.BlockStmt) bool {
	early := false
	var walk func(n ast.Node, breakable bool)
	walk = func(n ast.Node, breakable bool) {
		ast.Inspect(n, func(m ast.Node) bool {
			if m == nil || m == n {
				return true
			}
			switch x := m.(type) {
			case *ast.FuncLit:
				return false
			case *ast.ForStmt, *ast.RangeStmt, *ast.SwitchStmt, *ast.TypeSwitchStmt, *ast.SelectStmt:
				walk(x, true)
				return false
			case *ast.ReturnStmt:
				early = true
			case *ast.BranchStmt:
				if x.Label != nil || x.Tok.String() == "goto" {
					early = true
				} else if x.Tok.String() == "break" && !breakable {
					early = true
				}
			}
			return true
		})
	}
	walk(body, false)
	return early
}
