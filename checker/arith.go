package main

import (
	"fmt"
	"go/ast"
	"go/token"
	"go/types"
)

// singleDef finds the unique defining assignment (":=" or "=") of a local
// variable inside body; returns nil if there is none or more than one.
func singleDef(info *types.Info, body ast.Node, obj types.Object) ast.Expr {
	var rhs ast.Expr
	n := 0
	ast.Inspect(body, func(nd ast.Node) bool {
		switch x := nd.(type) {
		case *ast.AssignStmt:
			for i, l := range x.Lhs {
				if id, ok := l.(*ast.Ident); ok && info.ObjectOf(id) == obj {
					n++
					if len(x.Lhs) == len(x.Rhs) && x.Tok != token.ADD_ASSIGN {
						rhs = x.Rhs[i]
					} else {
						rhs = nil
					}
				}
			}
		case *ast.IncDecStmt:
			if id, ok := x.X.(*ast.Ident); ok && info.ObjectOf(id) == obj {
				n += 2
			}
		case *ast.ValueSpec:
			for i, id := range x.Names {
				if info.ObjectOf(id) == obj && i < len(x.Values) {
					n++
					rhs = x.Values[i]
				}
			}
		}
		return true
	})
	if n != 1 {
		return nil
	}
	return rhs
}

// isLenOf reports whether e is len(s) (possibly converted) of the same slice expression as s.
func isLenOf(info *types.Info, e ast.Expr, s ast.Expr, body ast.Node) bool {
	e = stripConv(info, e)
	if id, ok := e.(*ast.Ident); ok {
		if obj := info.ObjectOf(id); obj != nil {
			if def := singleDef(info, body, obj); def != nil {
				return isLenOf(info, def, s, body)
			}
		}
		return false
	}
	call, ok := e.(*ast.CallExpr)
	if !ok || len(call.Args) != 1 {
		return false
	}
	if id, ok := call.Fun.(*ast.Ident); !ok || id.Name != "len" {
		return false
	}
	if _, isB := info.Uses[call.Fun.(*ast.Ident)].(*types.Builtin); !isB {
		return false
	}
	return sameExpr(info, call.Args[0], s)
}

// sameExpr: both are the same variable, or the same field selected from the same variable.
func sameExpr(info *types.Info, a, b ast.Expr) bool {
	a, b = ast.Unparen(a), ast.Unparen(b)
	switch x := a.(type) {
	case *ast.Ident:
		y, ok := b.(*ast.Ident)
		return ok && info.ObjectOf(x) != nil && info.ObjectOf(x) == info.ObjectOf(y)
	case *ast.SelectorExpr:
		y, ok := b.(*ast.SelectorExpr)
		return ok && info.ObjectOf(x.Sel) == info.ObjectOf(y.Sel) && sameExpr(info, x.X, y.X)
	}
	return false
}

// indexVerdict decides whether index expression idx is provably within
// [0, len(s)) given len(s) > 0. Returns ok and a reason.
func indexVerdict(info *types.Info, body ast.Node, idx ast.Expr, s ast.Expr, depth int) (bool, string) {
	if depth > 4 {
		return false, "definition chain too deep"
	}
	e := stripConv(info, idx)
	if v, ok := constInt(info, e); ok {
		if v == 0 {
			return true, "constant 0 (non-empty slice)"
		}
		return false, fmt.Sprintf("constant index %d is not provably below len", v)
	}
	switch x := e.(type) {
	case *ast.Ident:
		obj := info.ObjectOf(x)
		def := singleDef(info, body, obj)
		if def == nil {
			return false, "index variable " + x.Name + " has no single definition"
		}
		return indexVerdict(info, body, def, s, depth+1)
	case *ast.BinaryExpr:
		if x.Op == token.REM {
			if !isLenOf(info, x.Y, s, body) {
				return false, "modulus is not len of the indexed slice"
			}
			lt := info.TypeOf(x.X)
			if lt != nil && isUnsignedInt(lt) {
				return true, "unsigned value % len(slice) lies in [0,len)"
			}
			// signed: need provable non-negativity of the left operand
			if nonNeg(info, body, x.X, 0) {
				return true, "non-negative value % len(slice) lies in [0,len)"
			}
			return false, "left operand of % is signed (" + types.ExprString(x.X) + ") and not provably non-negative: a negative dividend gives a negative index"
		}
	case *ast.CallExpr:
		if f := callee(info, x); f != nil && f.Pkg() != nil && (f.Pkg().Path() == "math/rand/v2" || f.Pkg().Path() == "math/rand") && (f.Name() == "IntN" || f.Name() == "Intn") && len(x.Args) == 1 {
			if isLenOf(info, x.Args[0], s, body) {
				return true, "rand.IntN(len(slice)) lies in [0,len)"
			}
		}
	}
	return false, "unrecognised index form " + types.ExprString(idx)
}

// nonNeg: e is provably >= 0 (unsigned conversion source, len, constants, sums/products of such).
func nonNeg(info *types.Info, body ast.Node, e ast.Expr, depth int) bool {
	if depth > 4 {
		return false
	}
	e = ast.Unparen(e)
	if v, ok := constInt(info, e); ok {
		return v >= 0
	}
	switch x := e.(type) {
	case *ast.CallExpr:
		if tv, ok := info.Types[x.Fun]; ok && tv.IsType() && len(x.Args) == 1 {
			// conversion: int(u) of a narrower unsigned value is non-negative on 64-bit int
			at := info.TypeOf(x.Args[0])
			if at != nil && isUnsignedInt(at) {
				if b, ok := at.Underlying().(*types.Basic); ok && (b.Kind() == types.Uint8 || b.Kind() == types.Uint16 || b.Kind() == types.Uint32) {
					return true
				}
				return false
			}
			return nonNeg(info, body, x.Args[0], depth+1)
		}
		if id, ok := x.Fun.(*ast.Ident); ok && (id.Name == "len" || id.Name == "cap") {
			return true
		}
	case *ast.BinaryExpr:
		switch x.Op {
		case token.ADD, token.MUL, token.QUO, token.REM:
			return nonNeg(info, body, x.X, depth+1) && nonNeg(info, body, x.Y, depth+1)
		}
	case *ast.Ident:
		if obj := info.ObjectOf(x); obj != nil {
			if t := obj.Type(); t != nil && isUnsignedInt(t) {
				return true
			}
			if def := singleDef(info, body, obj); def != nil {
				return nonNeg(info, body, def, depth+1)
			}
		}
	}
	return false
}
