package main

import (
	"go/ast"
	"go/token"
	"go/types"
)

func init() {
	register(&propDef{
		id: "C36", title: "A cluster singleton runs at most once cluster-wide",
		technique: "who-may-call + guard dominance (local creation only on the 'this node is the elected host' edge), AST nesting under the per-name single flight, CFG ordering (cluster existence check ≺ construction)",
		explanation: "Decides the local shape the cluster-wide property needs: (1) a singleton is created locally only in spawnSingletonOnLocal, which is called only from spawnSingletonOnLeader on the edge where the coordinator is the local node, from spawnSingletonWithRole on the edge where the oldest eligible member is the local node, (and through SpawnSingleton from the remote-spawn handler when another node delegated to this one); on every other edge the spawn is delegated to the elected node by RemoteSpawn with the singleton spec; (2) the creation runs inside runSpawnActivation keyed by the actor's name (C11) and, inside that closure, checkSpawnPreconditions (cluster-wide ActorExists) precedes the construction and its failure prevents it; a locally running instance of the name is returned instead of creating a second one; (3) the singleton option set marks the PID as singleton with its spec (so relocation re-arbitrates it through the same path). NOT decided: uniqueness under concurrent callers on different nodes, leader changes and registry propagation delays. Added after seed C36b: in recreateSingletonFromWire, RemoveActor and SpawnSingleton are reachable only over the edge on which the registry lookup succeeded or reported the name absent; a lookup error never falls through.",
		assumptions: []string{"cluster-wide uniqueness under concurrent spawns on different nodes and leadership changes", "ActorExists/PutActorIfAbsent semantics of the registry"},
		minObl:     10,
		run:        runC36,
	})
}

func runC36(c *Ctx) {
	local := c.Func("actor", "actorSystem.spawnSingletonOnLocal")
	c.Rule("who-creates", func() {
		c.WhoMayCall("who", local.Obj, map[string]string{"actor.(*actorSystem).spawnSingletonOnLeader": "leader == local node", "actor.(*actorSystem).spawnSingletonWithRole": "oldest eligible member == local node"})
		// on-leader: local spawn only on the edge leader.PeerAddress() == localAddr
		ol := c.Func("actor", "actorSystem.spawnSingletonOnLeader")
		f := c.NewFlow(ol)
		info := f.Info
		isLocal := f.EdgesWhere(func(cond ast.Expr) (bool, bool) {
			cm, ok := asCmp(cond, true)
			if !ok {
				return false, false
			}
			mentions := func(e ast.Expr) bool {
				found := false
				ast.Inspect(e, func(n ast.Node) bool {
					if call, ok := n.(*ast.CallExpr); ok {
						if cal := callee(info, call); cal != nil && cal.Name() == "PeerAddress" {
							found = true
						}
					}
					return true
				})
				return found
			}
			if (mentions(cm.L) || mentions(cm.R)) && cm.Op.String() == "==" {
				return true, true
			}
			return false, false
		})
		lc := f.CallTo(local.Obj)
		rs := func(n ast.Node) bool {
			call, ok := n.(*ast.CallExpr)
			if !ok {
				return false
			}
			cal := callee(info, call)
			return cal != nil && cal.Name() == "RemoteSpawn"
		}
		w := f.search(searchSpec{avoidEdges: isLocal, target: lc})
		c.Check(w == nil && len(isLocal) > 0 && len(f.Find(lc)) == 1, "onLeader/local-only-if-leader-is-self", "the singleton is created locally only when the coordinator is this node", c.P.Pos(ol.Decl.Pos()), f.describe(w))
		w = f.AfterEdgesMayReach(isLocal, nil, nil, rs)
		c.Check(w == nil && len(f.Find(rs)) == 1, "onLeader/else-delegate", "otherwise the spawn is delegated to the coordinator (one RemoteSpawn), never both", c.P.Pos(ol.Decl.Pos()), f.describe(w))
		// with role: local only when filtered[0] is self
		wr := c.Func("actor", "actorSystem.spawnSingletonWithRole")
		wf := c.NewFlow(wr)
		winfo := wf.Info
		notSelf := wf.EdgesWhere(func(cond ast.Expr) (bool, bool) {
			cm, ok := asCmp(cond, true)
			if ok && cm.Op.String() == "!=" {
				m := false
				ast.Inspect(cond, func(n ast.Node) bool {
					if call, ok := n.(*ast.CallExpr); ok {
						if cal := callee(winfo, call); cal != nil && cal.Name() == "PeerAddress" {
							m = true
						}
					}
					return true
				})
				if m {
					return true, true
				}
			}
			return false, false
		})
		wl := wf.CallTo(local.Obj)
		w = wf.AfterEdgesMayReach(notSelf, nil, nil, wl)
		c.Check(w == nil && len(notSelf) > 0 && len(wf.Find(wl)) == 1, "withRole/local-only-if-oldest-is-self", "with a role the singleton is created locally only when the oldest eligible member is this node", c.P.Pos(wr.Decl.Pos()), wf.describe(w))
		// delegation carries the singleton spec
		for _, fn := range []*Fn{ol, wr} {
			hasSpec := false
			ast.Inspect(fn.Decl.Body, func(n ast.Node) bool {
				if kv, ok := n.(*ast.KeyValueExpr); ok {
					if id, ok := kv.Key.(*ast.Ident); ok && id.Name == "Singleton" {
						hasSpec = true
					}
				}
				return true
			})
			c.Check(hasSpec, fn.String()+"/delegation-carries-singleton-spec", "a delegated spawn tells the elected node that it is a singleton", c.P.Pos(fn.Decl.Pos()), "")
		}
	})

	c.Rule("stale-relocation", func() {
		// A stale re-run of a departed node's relocation must not tear down a singleton that already lives on a survivor:
		// the registry record is removed and the singleton respawned only when the registry lookup succeeded (and named
		// the departed node) or reported the name absent. Any other lookup outcome (a transient read error) leaves the
		// question open and must not fall through to RemoveActor + SpawnSingleton.
		fn := c.Func("actor", "recreateSingletonFromWire")
		f := c.NewFlow(fn)
		info := f.Info
		getActor := func(n ast.Node) bool { return isCallNamed(info, nodeExpr(n), "GetActor") }
		lookupErr := map[types.Object]bool{}
		ast.Inspect(fn.Decl.Body, func(n ast.Node) bool {
			if as, ok := n.(*ast.AssignStmt); ok && len(as.Lhs) == 2 && len(as.Rhs) == 1 && isCallNamed(info, as.Rhs[0], "GetActor") {
				if o := objOf(info, as.Lhs[1]); o != nil {
					lookupErr[o] = true
				}
			}
			return true
		})
		known := map[Edge]bool{}
		for e := range f.FactEdges(func(cm cmp) bool { return cm.Op == token.EQL && isNilIdent(info, cm.R) && lookupErr[objOf(info, cm.L)] }) {
			known[e] = true // lookup succeeded
		}
		for e := range f.BoolEdges(func(e ast.Expr) bool {
			call, ok := ast.Unparen(e).(*ast.CallExpr)
			if !ok || len(call.Args) != 2 {
				return false
			}
			cal := callee(info, call)
			if cal == nil || qualifiedName(cal) != "errors.Is" || !lookupErr[objOf(info, call.Args[0])] {
				return false
			}
			o := objOf(info, call.Args[1])
			return o != nil && o.Name() == "ErrActorNotFound"
		}, true) {
			known[e] = true // the name is absent
		}
		destructive := func(n ast.Node) bool {
			return isCallNamed(info, nodeExpr(n), "RemoveActor") || isCallNamed(info, nodeExpr(n), "SpawnSingleton")
		}
		if len(lookupErr) == 0 || len(f.Find(getActor)) == 0 || len(f.Find(destructive)) == 0 {
			c.Undecided("remove-only-when-entry-known", "the record is removed only after a conclusive registry lookup", c.P.Pos(fn.Decl.Pos()), "lookup or RemoveActor/SpawnSingleton not found")
			return
		}
		c.guardedBy(f, known, destructive, "remove-only-when-entry-known", "the singleton's registry record is removed and the singleton respawned only after the lookup succeeded or reported the name absent (a lookup error never falls through)", c.P.Pos(fn.Decl.Pos()))
	})

	c.Rule("local-creation", func() {
		info := local.Info()
		// the whole creation is the closure of runSpawnActivation keyed by the name
		var lit *ast.FuncLit
		var key ast.Expr
		ast.Inspect(local.Decl.Body, func(n ast.Node) bool {
			if call, ok := n.(*ast.CallExpr); ok {
				if cal := callee(info, call); cal != nil && cal.Name() == "runSpawnActivation" && len(call.Args) == 3 {
					key = call.Args[1]
					lit, _ = call.Args[2].(*ast.FuncLit)
				}
			}
			return true
		})
		if lit == nil {
			c.Fail("spawnSingletonOnLocal: single-flight closure not found")
		}
		nameParam := info.Defs[local.Decl.Type.Params.List[1].Names[0]]
		mentions := false
		ast.Inspect(key, func(n ast.Node) bool {
			if id, ok := n.(*ast.Ident); ok && info.ObjectOf(id) == nameParam {
				mentions = true
			}
			return true
		})
		c.Check(mentions, "single-flight-keyed-by-name", "the local creation is serialized per singleton name", c.P.Pos(local.Decl.Pos()), "")
		lf := c.NewLitFlow("spawnSingletonOnLocal$create", info, lit)
		pre := lf.CallTo(c.FuncObj("actor", "actorSystem.checkSpawnPreconditions"))
		cfg := lf.CallTo(c.FuncObj("actor", "actorSystem.configPID"))
		w := lf.MustPrecede(pre, nil, cfg)
		c.Check(w == nil && len(lf.Find(cfg)) == 1, "exists-check≺construct", "the cluster-wide existence check precedes the construction of the singleton", c.P.Pos(lit.Pos()), lf.describe(w))
		fail, n := lf.ErrEdgesOf(pre, true)
		w = lf.AfterEdgesMayReach(fail, nil, nil, cfg)
		okPre, _ := lf.ErrEdgesOf(pre, false)
		wOK := lf.search(searchSpec{avoidEdges: okPre, target: cfg})
		c.Check(n == 1 && w == nil && wOK == nil && len(okPre) > 0, "exists⇏construct", "the singleton is constructed only over the edge on which the cluster-wide precondition check succeeded", c.P.Pos(lit.Pos()), lf.describe(w)+lf.describe(wOK))
		// withSingleton option passed
		hasOpt := false
		ast.Inspect(lit.Body, func(n ast.Node) bool {
			if call, ok := n.(*ast.CallExpr); ok {
				if cal := callee(info, call); cal != nil && cal.Name() == "withSingleton" {
					hasOpt = true
				}
			}
			return true
		})
		c.Check(hasOpt, "marked-singleton", "the created PID is marked singleton with its spec (relocation re-arbitrates it through the singleton path)", c.P.Pos(lit.Pos()), "")
		// checkSpawnPreconditions really asks the cluster
		cp := c.Func("actor", "actorSystem.checkSpawnPreconditions")
		asks := false
		ast.Inspect(cp.Decl.Body, func(n ast.Node) bool {
			if call, ok := n.(*ast.CallExpr); ok {
				if cal := callee(cp.Info(), call); cal != nil && cal.Name() == "ActorExists" {
					asks = true
				}
			}
			return true
		})
		c.Check(asks, "precondition-asks-cluster", "the precondition consults the cluster registry (ActorExists)", c.P.Pos(cp.Decl.Pos()), "")
		_ = types.Universe
	})
}

func nodeExpr(n ast.Node) ast.Expr {
	if e, ok := n.(ast.Expr); ok {
		return e
	}
	return nil
}
