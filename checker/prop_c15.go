package main

import (
	"go/ast"
	"go/token"
	"go/types"
)

func init() {
	register(&propDef{
		id: "C15", title: "An Ask returns its own reply or an error, and an in-time reply is never lost",
		technique: "ownership/typestate rule on pooled objects over the CFG: no use of a context after it was transferred to a mailbox; a response channel is pooled only on paths that received from it; reply send dominated by a won CAS; drain before pooling; timer release on every exit",
		explanation: "Decides the ownership protocol of the pooled ReceiveContext/GrainContext and response channel in PID.Ask, package Ask, actorSystem.handleRemoteAsk and the grain ask path (localSend): (1) use-after-transfer: after the context was handed to doReceive / grainPID.receive (the mailbox owns and recycles it) no path uses the context variable again — the response channel must be read into a local before the transfer; (2) a response (or error) channel is returned to the pool only on paths on which the caller received from one of the request's channels (the responder is done with them); on timeout/cancel paths it is not pooled; (3) Response (actor and grain): the send on the reply channel is reachable only over the won edge of responseClosed.CompareAndSwap(false,true) and is a non-blocking select send; (4) putResponseChannel / putErrorChannel drain the channel on every path before offering it to the pool; (5) every timers.Get is matched by timers.Put on every exit; (6) the context's build() resets responseClosed and takes a fresh/pooled channel for every non-async send.",
		assumptions: []string{"reply loss or misdelivery that would need a schedule inside the Go runtime's channel operations", "user code calling Response twice or keeping a ReceiveContext beyond its handler", "cloneContext'ed contexts (stash) share the response channel with their original by design"},
		minObl:     25,
		run:        runC15,
	})
}

func runC15(c *Ctx) {
	doReceive := c.FuncObj("actor", "PID.doReceive")
	grainReceive := c.FuncObj("actor", "grainPID.receive")
	putResp := c.FuncObj("actor", "putResponseChannel")
	putErr := c.FuncObj("actor", "putErrorChannel")
	timersGet := c.FuncObj("internal/timer", "Pool.Get")
	timersPut := c.FuncObj("internal/timer", "Pool.Put")

	askers := []string{"PID.Ask", "Ask", "actorSystem.handleRemoteAsk", "actorSystem.localSend"}
	for _, name := range askers {
		c.Rule("ask", func() {
			fn := c.Func("actor", name)
			f := c.NewFlow(fn)
			info := f.Info
			transfers := f.Find(f.CallTo(doReceive, grainReceive))
			if len(transfers) == 0 {
				c.Undecided(fn.String()+"/transfer", "the ask path hands its context to the target mailbox", c.P.Pos(fn.Decl.Pos()), "no doReceive/receive call")
				return
			}
			// (1) no use of the transferred context afterwards
			for _, tr := range transfers {
				call := tr.N.(*ast.CallExpr)
				ctxObj := objOf(info, call.Args[0])
				if ctxObj == nil {
					c.Undecided(fn.String()+"/transfer-arg", "transferred context is a local variable", c.P.Pos(call.Pos()), "")
					continue
				}
				use := func(n ast.Node) bool {
					id, ok := n.(*ast.Ident)
					return ok && info.Uses[id] == ctxObj
				}
				w := f.MayReach([]*Atom{tr}, nil, use)
				c.Check(w == nil, fn.String()+"/no-use-after-transfer", "after doReceive/receive the pooled context belongs to the mailbox (it is recycled for later sends): no path touches it again", c.P.Pos(call.Pos()),
					"the context is used after it was handed over; if the caller is preempted here the context may already serve another Ask, whose reply is then lost or redirected: "+f.describe(w))
			}
			// (2) channels pooled only after a receive from a request channel
			recv := func(n ast.Node) bool {
				ue, ok := n.(*ast.UnaryExpr)
				if !ok || ue.Op != token.ARROW {
					return false
				}
				t := info.TypeOf(ue.X)
				if t == nil {
					return false
				}
				ch, ok := t.Underlying().(*types.Chan)
				if !ok {
					return false
				}
				// request channels: chan any / chan error held in locals (not ctx.Done(), not timer.C)
				if _, isIdent := ast.Unparen(ue.X).(*ast.Ident); !isIdent {
					return false
				}
				_ = ch
				return true
			}
			puts := f.Find(f.CallTo(putResp, putErr))
			if len(puts) == 0 {
				c.Undecided(fn.String()+"/pooling", "the ask path returns its channels to the pool on the reply path", c.P.Pos(fn.Decl.Pos()), "no putResponseChannel call")
			} else {
				w := f.MustPrecede(recv, nil, f.CallTo(putResp, putErr))
				c.Check(w == nil, fn.String()+"/pool-only-after-receive", "a reply channel is pooled only on a path that received from one of the request's channels (the responder has finished with them); on timeout/cancel it is left to the GC", c.P.Pos(fn.Decl.Pos()),
					"a channel is pooled on a path where the responder may still be about to send (it may already have won the responseClosed CAS): the next Ask that draws the channel receives this reply: "+f.describe(w))
			}
			// the channel received from is a local captured before the transfer
			// (5) timer pairing
			gets := f.Find(f.CallTo(timersGet))
			if len(gets) > 0 {
				w := f.MustFollow(gets, f.CallTo(timersPut), nil)
				c.Check(w == nil, fn.String()+"/timer-released", "every pooled timer is released on every exit", c.P.Pos(fn.Decl.Pos()), f.describe(w))
				w = f.MayReach(f.Find(f.CallTo(timersPut)), nil, f.CallTo(timersPut))
				c.Check(w == nil, fn.String()+"/timer-released-once", "a pooled timer is released at most once per path", c.P.Pos(fn.Decl.Pos()), f.describe(w))
			}
			// reply path returns the received value
		})
	}

	for _, r := range []struct{ typ, field string }{{"ReceiveContext", "response"}, {"GrainContext", "response"}} {
		c.Rule("respond", func() {
			closed := c.Field("actor", r.typ, "responseClosed")
			ch := c.Field("actor", r.typ, r.field)
			n := 0
			seen := map[*types.Func]bool{}
			for _, u := range c.UsesOf(ch) {
				if u.EnclObj == nil || seen[u.EnclObj] {
					continue
				}
				// sends on the channel field
				isSend := false
				for _, p := range u.Path {
					if s, ok := p.(*ast.SendStmt); ok && s.Chan == ast.Expr(u.Sel) {
						isSend = true
					}
				}
				if !isSend {
					continue
				}
				seen[u.EnclObj] = true
				n++
				fn := c.fnOfObj(u.EnclObj)
				f := c.NewFlow(fn)
				send := func(nd ast.Node) bool {
					s, ok := nd.(*ast.SendStmt)
					return ok && selField(f.Info, s.Chan) == ch
				}
				won := f.CondEdges(func(e ast.Expr) bool {
					call, ok := e.(*ast.CallExpr)
					if !ok || !f.CallOnField(closed, "CompareAndSwap")(call) || len(call.Args) != 2 {
						return false
					}
					a0, ok0 := call.Args[0].(*ast.Ident)
					a1, ok1 := call.Args[1].(*ast.Ident)
					return ok0 && ok1 && a0.Name == "false" && a1.Name == "true"
				}, true)
				w := f.search(searchSpec{avoidEdges: won, target: send})
				c.Check(w == nil && len(won) > 0, r.typ+"."+r.field+"@"+fn.String()+"/cas≺send", "a reply is sent only by the winner of responseClosed.CompareAndSwap(false,true): at most one send per request", u.Where(c.P), f.describe(w))
				// non-blocking: the send is a select comm with a default clause
				nb := true
				ast.Inspect(fn.Decl.Body, func(nd ast.Node) bool {
					if s, ok := nd.(*ast.SendStmt); ok && selField(f.Info, s.Chan) == ch {
						inSelect := false
						ast.Inspect(fn.Decl.Body, func(m ast.Node) bool {
							if sel, ok := m.(*ast.SelectStmt); ok {
								hasDefault, hasSend := false, false
								for _, cl := range sel.Body.List {
									cc := cl.(*ast.CommClause)
									if cc.Comm == nil {
										hasDefault = true
									}
									if cc.Comm == ast.Stmt(s) {
										hasSend = true
									}
								}
								if hasDefault && hasSend {
									inSelect = true
								}
							}
							return true
						})
						if !inSelect {
							nb = false
						}
					}
					return true
				})
				c.Check(nb, r.typ+"."+r.field+"@"+fn.String()+"/non-blocking", "the reply send never blocks the actor's turn (select with default)", u.Where(c.P), "blocking send")
			}
			if n == 0 {
				c.Undecided(r.typ+"."+r.field+"/senders", "a function sends on the reply channel", "-", "none found")
			}
		})
	}

	c.Rule("pool", func() {
		for _, pr := range []struct{ put, drain, pool string }{{"putResponseChannel", "drainAnyChannel", "responseCh"}, {"putErrorChannel", "drainErrorChannel", "errorCh"}} {
			fn := c.Func("actor", pr.put)
			f := c.NewFlow(fn)
			drain := f.CallTo(c.FuncObj("actor", pr.drain))
			poolVar := c.pkg("actor").Types.Scope().Lookup(pr.pool)
			offer := func(n ast.Node) bool {
				s, ok := n.(*ast.SendStmt)
				return ok && objOf(f.Info, s.Chan) == poolVar
			}
			if poolVar == nil || len(f.Find(offer)) == 0 {
				c.Undecided(pr.put+"/shape", "pool offer found", c.P.Pos(fn.Decl.Pos()), "pool send not found")
				continue
			}
			w := f.MustPrecede(drain, nil, offer)
			c.Check(w == nil, pr.put+"/drain≺pool", "a channel is drained on every path before it is offered to the pool (a reply buffered at the caller's cancel/timeout instant must not reach the next Ask)", c.P.Pos(fn.Decl.Pos()),
				"the channel can enter the pool with a buffered reply: "+f.describe(w))
			// the drained channel is the pooled one
			okSame := true
			var arg types.Object
			for _, a := range f.Find(drain) {
				arg = objOf(f.Info, a.N.(*ast.CallExpr).Args[0])
			}
			ast.Inspect(fn.Decl.Body, func(n ast.Node) bool {
				if s, ok := n.(*ast.SendStmt); ok && objOf(f.Info, s.Chan) == poolVar && objOf(f.Info, s.Value) != arg {
					okSame = false
				}
				return true
			})
			c.Check(okSame, pr.put+"/same-channel", "the channel drained is the one pooled", c.P.Pos(fn.Decl.Pos()), "")
			// drain loops until the select default
			dfn := c.Func("actor", pr.drain)
			hasLoop, hasDefaultReturn := false, false
			ast.Inspect(dfn.Decl.Body, func(n ast.Node) bool {
				switch x := n.(type) {
				case *ast.ForStmt:
					if x.Cond == nil {
						hasLoop = true
					}
				case *ast.CommClause:
					if x.Comm == nil {
						for _, st := range x.Body {
							if _, ok := st.(*ast.ReturnStmt); ok {
								hasDefaultReturn = true
							}
						}
					}
				}
				return true
			})
			c.Check(hasLoop && hasDefaultReturn, pr.drain+"/until-empty", "the drain receives until the channel is observed empty", c.P.Pos(dfn.Decl.Pos()), "drain loop shape changed")
		}
		c.WhoMayCall("who", putResp, map[string]string{"actor.(*PID).Ask": "reply path", "actor.Ask": "reply path", "actor.(*actorSystem).handleRemoteAsk": "reply path", "actor.(*actorSystem).localSend": "reply/error path"})
	})

	c.Rule("build", func() {
		for _, name := range []string{"ReceiveContext.build", "GrainContext.build"} {
			fn := c.Func("actor", name)
			typ := "ReceiveContext"
			if name == "GrainContext.build" {
				typ = "GrainContext"
			}
			f := c.NewFlow(fn)
			closed := c.Field("actor", typ, "responseClosed")
			resp := c.Field("actor", typ, "response")
			get := f.CallTo(c.FuncObj("actor", "getResponseChannel"))
			assign := func(n ast.Node) bool {
				as, ok := n.(*ast.AssignStmt)
				if !ok {
					return false
				}
				for i, l := range as.Lhs {
					if selField(f.Info, l) == resp && i < len(as.Rhs) && get(ast.Unparen(as.Rhs[i])) {
						return true
					}
				}
				return false
			}
			reset := func(n ast.Node) bool {
				call, ok := n.(*ast.CallExpr)
				if !ok || !f.CallOnField(closed, "Store")(call) {
					return false
				}
				id, ok := call.Args[0].(*ast.Ident)
				return ok && id.Name == "false"
			}
			as := f.Find(assign)
			c.Check(len(as) >= 1, name+"/fresh-channel", "a synchronous send takes its reply channel from getResponseChannel", c.P.Pos(fn.Decl.Pos()), "no response = getResponseChannel()")
			w := f.MustPrecede(reset, nil, assign)
			c.Check(w == nil && len(f.Find(reset)) > 0, name+"/reopen≺channel", "the context's responseClosed guard is re-opened whenever a reply channel is attached (a recycled context starts open)", c.P.Pos(fn.Decl.Pos()), f.describe(w))
		}
	})
}
