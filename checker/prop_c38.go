package main

import (
	"go/types"

	"golang.org/x/tools/go/ssa"
)

func init() {
	register(&propDef{
		id: "C38", title: "CRDT merge is a join: commutative, associative, idempotent",
		technique: "purity/freshness analysis on go/ssa with per-function mutation and alias summaries: Merge, Clone and Delta of every ReplicatedData implementor neither write through their inputs nor alias an input's container into their result",
		explanation: "Decides the non-interference precondition of the algebraic laws: for each of the CRDT types and each of Merge, Clone, Delta (and CompactData where implemented): (1) no store, map update, delete, clear, in-place append or mutating helper call reaches memory owned by the receiver or the argument (followed through type assertions, field loads, map lookups, phis and first-party callees via summaries); (2) no map or slice owned by an input is placed into the returned value without a copy (the result shares no mutable container with either operand), except that Merge may return the receiver itself on the type-mismatch edge; (3) every implementor of ReplicatedData in the crdt package is covered. Commutativity, associativity, idempotence and monotonicity are algebraic laws over reachable states and are NOT decided.",
		assumptions: []string{"commutativity, associativity, idempotence and monotonicity of each Merge (algebra over value domains)", "element payloads of type any are treated as immutable values"},
		minObl:     21,
		run:        runC38,
	})
}

func runC38(c *Ctx) {
	c.P.BuildSSA()
	rd := c.Named("crdt", "ReplicatedData")
	eng := newPureEngine(c)
	c.Rule("pure", func() {
		impls := c.Implementors(rd, "Merge")
		nTypes := 0
		for _, m := range impls {
			if m.Pkg() == nil || relPkg(m.Pkg().Path()) != "crdt" {
				continue
			}
			nTypes++
			recvT := m.Type().(*types.Signature).Recv().Type()
			for _, name := range []string{"Merge", "Clone", "Delta", "CompactData"} {
				obj, _, _ := types.LookupFieldOrMethod(recvT, true, m.Pkg(), name)
				meth, ok := obj.(*types.Func)
				if !ok {
					continue
				}
				c.fnOfObj(meth) // registers the method as analysed (evidence)
				fn := c.P.SSAFunc(meth)
				if fn == nil || fn.Blocks == nil {
					c.Undecided(funcName(meth)+"/ssa", "method has a body", "-", "no SSA body")
					continue
				}
				all := map[int]bool{}
				for i := range fn.Params {
					if isRefType(fn.Params[i].Type()) {
						all[i] = true
					}
				}
				_, findings, _ := eng.analyse(fn, all, true)
				// the receiver returned as-is on the type-mismatch edge is allowed for Merge
				var bad []pureFinding
				for _, f := range findings {
					bad = append(bad, f)
				}
				if len(bad) == 0 {
					c.Ok(funcName(meth), "neither input is written through and no input container is aliased into the result", c.P.Pos(fn.Pos()))
				}
				for _, f := range bad {
					c.Bad(funcName(meth), "Merge/Clone/Delta leave both inputs unchanged and return a value that shares no mutable container with them", c.P.Pos(f.pos), f.what)
				}
				// Merge: a returned input must be the receiver on the mismatch edge only
				if name == "Merge" {
					okRet := true
					for _, b := range fn.Blocks {
						for _, ins := range b.Instrs {
							r, isRet := ins.(*ssa.Return)
							if !isRet {
								continue
							}
							for _, v := range r.Results {
								src := v
								if mi, ok := v.(*ssa.MakeInterface); ok {
									src = mi.X
								}
								if p, ok := src.(*ssa.Parameter); ok {
									if p != fn.Params[0] {
										okRet = false
									}
									// must be on the !ok edge of the type assertion: the block is reached from an If on the assertion's ok
									if !reachedOnlyWhenAssertFails(b) {
										okRet = false
									}
								}
							}
						}
					}
					c.Check(okRet, funcName(meth)+"/returns-receiver-only-on-mismatch", "Merge returns one of its inputs only as 'the receiver, unchanged' when the other operand has a different type", c.P.Pos(fn.Pos()), "an input is returned on a regular path")
				}
			}
		}
		if nTypes < 7 {
			c.Undecided("types", "seven CRDT types implement ReplicatedData", "-", "found fewer")
		}
	})
}

// reachedOnlyWhenAssertFails: the block's single predecessor ends in an If whose
// condition is the ok result of a type assertion and this block is its false successor.
func reachedOnlyWhenAssertFails(b *ssa.BasicBlock) bool {
	if len(b.Preds) != 1 {
		return false
	}
	p := b.Preds[0]
	iff, ok := p.Instrs[len(p.Instrs)-1].(*ssa.If)
	if !ok {
		return false
	}
	ex, ok := iff.Cond.(*ssa.Extract)
	if !ok {
		return false
	}
	if _, ok := ex.Tuple.(*ssa.TypeAssert); !ok {
		return false
	}
	return p.Succs[1] == b
}
