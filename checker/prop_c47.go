package main

import (
	"go/ast"
	"go/token"
	"go/types"
)

func init() {
	register(&propDef{
		id: "C47", title: "The circuit breaker follows its state machine",
		technique: "who-may-write on the state word, CFG ordering inside the transition (openUntil before state=Open; window reset on HalfOpen/Closed), guard dominance in admission and recording, acquire/release pairing, lockset on the window buckets",
		explanation: "Decides: (1) the state word is stored only in transitionTo (under the breaker's mutex) and the constructor; a transition to Open stores openUntil before the state, a transition to HalfOpen or Closed resets the window; a no-op transition (already in the target state) changes nothing; because callers decide transitions outside the mutex, transitionTo validates the source inside its critical section (HalfOpen only from Open with the deadline passed, Closed only from HalfOpen); (2) admission: in the Open state a call before openUntil is rejected before anything else; in non-Closed states a call is admitted only by winning a non-blocking send on the probe semaphore whose capacity is halfOpenMaxCalls, the semaphore channel is never replaced, permits are taken only there and given back only by release through an unconditional receive (the semaphore counts exactly the probes in flight), and tryAcquire leaves Open only over the deadline-passed edge; (3) Execute: a probe slot that was acquired is always released (deferred), release happens only there, a rejected call invokes nothing, and a completed call records exactly one outcome unless the caller's context was cancelled; (4) record: the breaker opens only when total ≥ minRequests and failures/total ≥ failureRate, and closes only from HalfOpen; (5) the rolling-window buckets are accessed under their own mutex.",
		assumptions: []string{"windowed failure-rate arithmetic over clock histories (bucket rotation)", "bursts of probes racing the HalfOpen transition beyond the semaphore bound"},
		minObl:     28,
		run:        runC47,
	})
}

func runC47(c *Ctx) {
	state := c.Field("breaker", "CircuitBreaker", "state")
	openUntil := c.Field("breaker", "CircuitBreaker", "openUntil")
	mu := c.Field("breaker", "CircuitBreaker", "mu")
	tr := c.Func("breaker", "CircuitBreaker.transitionTo")

	c.Rule("transitions", func() {
		for _, u := range c.UsesOf(state) {
			if u.Sel == nil || len(u.Path) < 2 {
				continue
			}
			sel, ok := u.Path[len(u.Path)-2].(*ast.SelectorExpr)
			if !ok || (sel.Sel.Name != "Store" && sel.Sel.Name != "Swap" && sel.Sel.Name != "CompareAndSwap") {
				continue
			}
			name := funcName(u.EnclObj)
			c.Check(name == "breaker.(*CircuitBreaker).transitionTo" || name == "breaker.newCircuitBreaker", "state-write@"+u.EnclName(), "the breaker state is written only by transitionTo and the constructor", u.Where(c.P), "state written in "+name)
		}
		f := c.NewFlow(tr)
		info := f.Info
		la := f.Locks(nil)
		storeState := f.CallOnField(state, "Store")
		ss := f.Find(storeState)
		c.Check(len(ss) == 1 && la.At(ss[0])[mu] == 2, "state-store-under-mutex", "the state is stored once, under the breaker's mutex", c.P.Pos(tr.Decl.Pos()), "")
		// the transition's target is transitionTo's parameter; the current state is a value read from the state word
		// inside the function (directly or through a single-definition local)
		var targetObj types.Object
		if ps := tr.Obj.Type().(*types.Signature).Params(); ps.Len() == 1 {
			targetObj = ps.At(0)
		}
		if targetObj == nil {
			c.Undecided("target-param", "transitionTo takes the target state as its parameter", c.P.Pos(tr.Decl.Pos()), "parameter not resolved")
			return
		}
		isTarget := func(e ast.Expr) bool { return objOf(info, e) == targetObj }
		loadsState := func(e ast.Expr) bool {
			found := false
			ast.Inspect(e, func(n ast.Node) bool {
				if call, ok := n.(*ast.CallExpr); ok && f.CallOnField(state, "Load")(call) {
					found = true
				}
				return !found
			})
			return found
		}
		cur := func(e ast.Expr) bool {
			e = ast.Unparen(e)
			if id, ok := e.(*ast.Ident); ok {
				if def := singleLocalDefIn(info, tr.Decl.Body, info.ObjectOf(id)); def != nil {
					return loadsState(def)
				}
				return false
			}
			return loadsState(e)
		}
		intoState := func(name string) map[Edge]bool {
			return f.FactEdges(func(cm cmp) bool {
				k, isK := objOfConst(info, cm.R)
				return cm.Op == token.EQL && isK && k.Name() == name && isTarget(cm.L)
			})
		}
		intoOpen := intoState("Open")
		w := f.search(searchSpec{startEdges: edgeList(intoOpen), avoid: f.CallOnField(openUntil, "Store"), target: storeState})
		c.Check(w == nil && len(intoOpen) > 0, "open: deadline≺state", "a transition to Open stores the re-probe deadline before the new state is published", c.P.Pos(tr.Decl.Pos()), f.describe(w))
		for _, st := range []string{"HalfOpen", "Closed"} {
			st := st
			into := intoState(st)
			reset := func(n ast.Node) bool {
				call, ok := n.(*ast.CallExpr)
				if !ok {
					return false
				}
				cal := callee(info, call)
				return cal != nil && cal.Name() == "reset"
			}
			w := f.search(searchSpec{startEdges: edgeList(into), avoid: reset, target: storeState})
			c.Check(w == nil && len(into) > 0, "window-reset/"+st, "a transition to HalfOpen or Closed resets the failure window before the new state is published", c.P.Pos(tr.Decl.Pos()), f.describe(w))
		}
		// check-then-act: the callers decide a transition outside the mutex, so transitionTo itself must validate
		// the source state inside its critical section
		for _, pr := range []struct{ target, from string }{{"HalfOpen", "Open"}, {"Closed", "HalfOpen"}} {
			pr := pr
			into := intoState(pr.target)
			from := f.FactEdges(func(cm cmp) bool {
				k, isK := objOfConst(info, cm.R)
				return cm.Op == token.EQL && isK && k.Name() == pr.from && cur(cm.L)
			})
			w := f.search(searchSpec{startEdges: edgeList(into), avoidEdges: from, target: storeState})
			c.Check(w == nil && len(into) > 0 && len(from) > 0, "source-validated/"+pr.target+"←"+pr.from, "a transition to "+pr.target+" is applied only when, inside the critical section, the current state is "+pr.from+" (the caller's decision was taken outside the lock and may be stale)", c.P.Pos(tr.Decl.Pos()), f.describe(w))
		}
		intoHalf := intoState("HalfOpen")
		dueInside := f.FactEdges(func(cm cmp) bool {
			call, ok := ast.Unparen(cm.R).(*ast.CallExpr)
			return cm.Op == token.GEQ && ok && f.CallOnField(openUntil, "Load")(call)
		})
		w = f.search(searchSpec{startEdges: edgeList(intoHalf), avoidEdges: dueInside, target: storeState})
		c.Check(w == nil && len(dueInside) > 0, "source-validated/HalfOpen-deadline", "the re-probe deadline is re-checked inside the critical section before entering HalfOpen", c.P.Pos(tr.Decl.Pos()), f.describe(w))
		same := f.EdgesWhere(func(cond ast.Expr) (bool, bool) {
			cm, ok := asCmp(cond, true)
			if ok && cm.Op == token.EQL {
				if (isTarget(cm.R) && cur(cm.L)) || (isTarget(cm.L) && cur(cm.R)) {
					return true, true
				}
			}
			return false, false
		})
		w = f.AfterEdgesMayReach(same, nil, nil, Or(storeState, f.CallOnField(openUntil, "Store")))
		c.Check(w == nil && len(same) > 0, "noop-transition", "a transition to the current state changes nothing (the open deadline is not pushed back by repeated failures)", c.P.Pos(tr.Decl.Pos()), f.describe(w))
		c.WhoMayCall("who", tr.Obj, map[string]string{"breaker.(*CircuitBreaker).toOpen": "", "breaker.(*CircuitBreaker).toHalfOpen": "", "breaker.(*CircuitBreaker).toClosed": ""})
		c.LockPairing(tr, mu)
	})

	c.Rule("semaphore", func() {
		sem := c.Field("breaker", "CircuitBreaker", "semCh")
		nSend, nRecv := 0, 0
		for _, u := range c.UsesOf(sem) {
			if u.Sel == nil || len(u.Path) < 2 {
				continue
			}
			par := u.Path[len(u.Path)-2]
			inComm := false
			for _, p := range u.Path {
				if _, ok := p.(*ast.CommClause); ok {
					inComm = true
				}
			}
			switch x := par.(type) {
			case *ast.SendStmt:
				if x.Chan == ast.Expr(u.Sel) {
					nSend++
					c.Check(funcName(u.EnclObj) == "breaker.(*CircuitBreaker).tryAcquire" && inComm, "acquire@"+u.EnclName(), "a probe permit is taken only in tryAcquire, without blocking", u.Where(c.P), "permit taken elsewhere or with a blocking send")
				}
			case *ast.UnaryExpr:
				if x.Op == token.ARROW {
					nRecv++
					c.Check(funcName(u.EnclObj) == "breaker.(*CircuitBreaker).release" && !inComm, "release@"+u.EnclName(), "a permit is given back only by release, by an unconditional receive: the semaphore counts exactly the probes in flight", u.Where(c.P),
						"permits are removed in "+u.EnclName()+map[bool]string{true: " by a non-blocking receive (a release that may do nothing, or a drain, breaks the count of in-flight probes)", false: ""}[inComm])
				}
			}
		}
		c.Check(nSend == 1 && nRecv == 1, "one-acquire-one-release-site", "one acquire site and one release site", "-", "sends: "+itoa(nSend)+", receives: "+itoa(nRecv))
		rel := c.Func("breaker", "CircuitBreaker.release")
		rf := c.NewFlow(rel)
		recv := func(n ast.Node) bool {
			ue, ok := n.(*ast.UnaryExpr)
			return ok && ue.Op == token.ARROW && selField(rf.Info, ue.X) == sem
		}
		w := rf.search(searchSpec{avoid: recv, exits: true})
		c.Check(w == nil, "release⇒permit-returned", "every release gives exactly its permit back", c.P.Pos(rel.Decl.Pos()), rf.describe(w))
	})

	c.Rule("admission", func() {
		ta := c.Func("breaker", "CircuitBreaker.tryAcquire")
		f := c.NewFlow(ta)
		info := f.Info
		sem := c.Field("breaker", "CircuitBreaker", "semCh")
		send := func(n ast.Node) bool { s, ok := n.(*ast.SendStmt); return ok && selField(info, s.Chan) == sem }
		isState := func(name string, val bool) map[Edge]bool {
			return f.EdgesWhere(func(cond ast.Expr) (bool, bool) {
				cm, ok := asCmp(cond, true)
				if ok && cm.Op == token.EQL {
					if k, isK := objOfConst(info, cm.R); isK && k.Name() == name {
						return true, val
					}
				}
				return false, false
			})
		}
		closed := isState("Closed", true)
		retAllowed := func(acq string) Match {
			return func(n ast.Node) bool {
				r, ok := n.(*ast.ReturnStmt)
				if !ok || len(r.Results) != 2 {
					return false
				}
				a, ok1 := r.Results[0].(*ast.Ident)
				b, ok2 := r.Results[1].(*ast.Ident)
				return ok1 && ok2 && a.Name == "true" && b.Name == acq
			}
		}
		// admitted without a probe slot only in Closed
		w := f.search(searchSpec{avoidEdges: closed, target: retAllowed("false")})
		c.Check(w == nil && len(closed) > 0, "free-admission-only-closed", "a call is admitted without a probe slot only in the Closed state", c.P.Pos(ta.Decl.Pos()), f.describe(w))
		// admitted with slot only after winning the send
		sends := f.Find(send)
		w = f.MustPrecede(send, nil, retAllowed("true"))
		c.Check(w == nil && len(sends) == 1, "probe-needs-slot", "in Open/HalfOpen a call is admitted only by winning a slot on the probe semaphore", c.P.Pos(ta.Decl.Pos()), f.describe(w))
		// non-blocking: the send is in a select with default
		nb := false
		ast.Inspect(ta.Decl.Body, func(n ast.Node) bool {
			if sel, ok := n.(*ast.SelectStmt); ok {
				hasD, hasS := false, false
				for _, cl := range sel.Body.List {
					cc := cl.(*ast.CommClause)
					if cc.Comm == nil {
						hasD = true
					} else if s, ok := cc.Comm.(*ast.SendStmt); ok && selField(info, s.Chan) == sem {
						hasS = true
					}
				}
				nb = hasD && hasS
			}
			return true
		})
		c.Check(nb, "probe-send-non-blocking", "a full probe semaphore rejects instead of blocking", c.P.Pos(ta.Decl.Pos()), "")
		// Open and before deadline → reject first
		early := f.EdgesWhere(func(cond ast.Expr) (bool, bool) {
			cm, ok := asCmp(cond, true)
			if ok && cm.Op == token.LSS {
				if call, ok := cm.R.(*ast.CallExpr); ok && f.CallOnField(openUntil, "Load")(call) {
					return true, true
				}
			}
			return false, false
		})
		w = f.AfterEdgesMayReach(early, nil, nil, Or(send, f.CallTo(c.FuncObj("breaker", "CircuitBreaker.toHalfOpen"))))
		c.Check(w == nil && len(early) > 0, "open-before-deadline⇒reject", "while Open and before the re-probe deadline nothing is admitted and no transition happens", c.P.Pos(ta.Decl.Pos()), f.describe(w))
		due := f.FactEdges(func(cm cmp) bool {
			call, ok := ast.Unparen(cm.R).(*ast.CallExpr)
			return cm.Op == token.GEQ && ok && f.CallOnField(openUntil, "Load")(call)
		})
		c.guardedBy(f, due, f.CallTo(c.FuncObj("breaker", "CircuitBreaker.toHalfOpen")), "halfopen-only-after-deadline", "tryAcquire moves the breaker to HalfOpen only over the edge on which the re-probe deadline has passed", c.P.Pos(ta.Decl.Pos()))
		// semCh assigned only in the constructor with capacity halfOpenMaxCalls
		for _, u := range c.UsesOf(sem) {
			if u.IsWrite {
				c.Check(funcName(u.EnclObj) == "breaker.newCircuitBreaker", "semCh-written@"+u.EnclName(), "the probe semaphore is never replaced", u.Where(c.P), "")
			}
		}
		nc := c.Func("breaker", "newCircuitBreaker")
		capOK := false
		ast.Inspect(nc.Decl.Body, func(n ast.Node) bool {
			if kv, ok := n.(*ast.KeyValueExpr); ok {
				if id, ok := kv.Key.(*ast.Ident); ok && id.Name == "semCh" {
					if call, ok := kv.Value.(*ast.CallExpr); ok && len(call.Args) == 2 {
						if fv := selField(nc.Info(), call.Args[1]); fv != nil && fv.Name() == "halfOpenMaxCalls" {
							capOK = true
						}
					}
				}
			}
			return true
		})
		c.Check(capOK, "semCh-capacity=halfOpenMaxCalls", "the number of concurrent probes is bounded by halfOpenMaxCalls", c.P.Pos(nc.Decl.Pos()), "")
	})

	c.Rule("execute", func() {
		ex := c.Func("breaker", "CircuitBreaker.Execute")
		f := c.NewFlow(ex)
		info := f.Info
		release := f.CallTo(c.FuncObj("breaker", "CircuitBreaker.release"))
		rec := f.CallTo(c.FuncObj("breaker", "CircuitBreaker.record"))
		invoke := f.CallTo(c.FuncObj("breaker", "CircuitBreaker.invoke"))
		// allowed, acquired: the two results of tryAcquire
		var allowedObj, acquiredObj types.Object
		ast.Inspect(ex.Decl.Body, func(n ast.Node) bool {
			if as, ok := n.(*ast.AssignStmt); ok && len(as.Lhs) == 2 && len(as.Rhs) == 1 {
				if call, ok := as.Rhs[0].(*ast.CallExpr); ok && callee(info, call) == c.FuncObj("breaker", "CircuitBreaker.tryAcquire") {
					allowedObj, acquiredObj = objOf(info, as.Lhs[0]), objOf(info, as.Lhs[1])
				}
			}
			return true
		})
		isVar := func(e ast.Expr, o types.Object) bool { id, ok := e.(*ast.Ident); return ok && o != nil && info.ObjectOf(id) == o }
		acquired := f.CondEdges(func(e ast.Expr) bool { return isVar(e, acquiredObj) }, true)
		// acquired ⇒ release at every exit (deferred)
		w := f.AfterEdgesMustPass(acquired, release, nil)
		c.Check(w == nil && len(acquired) > 0, "acquired⇒released", "an acquired probe slot is released on every exit", c.P.Pos(ex.Decl.Pos()), f.describe(w))
		w = f.search(searchSpec{avoidEdges: acquired, target: release})
		c.Check(w == nil, "release-only-if-acquired", "a slot is released only by the call that acquired it", c.P.Pos(ex.Decl.Pos()), f.describe(w))
		c.WhoMayCall("who", c.FuncObj("breaker", "CircuitBreaker.release"), map[string]string{"breaker.(*CircuitBreaker).Execute": ""})
		rejected := f.CondEdges(func(e ast.Expr) bool { return isVar(e, allowedObj) }, false)
		w = f.AfterEdgesMayReach(rejected, nil, nil, Or(invoke, rec))
		c.Check(w == nil && len(rejected) > 0, "rejected⇏invoke", "a rejected call runs nothing and records nothing", c.P.Pos(ex.Decl.Pos()), f.describe(w))
		admitted := f.CondEdges(func(e ast.Expr) bool { return isVar(e, allowedObj) }, true)
		c.guardedBy(f, admitted, invoke, "invoke-only-if-admitted", "the protected function runs only over the edge on which tryAcquire admitted the call", c.P.Pos(ex.Decl.Pos()))
		w = f.MayReach(f.Find(rec), nil, rec)
		c.Check(w == nil && len(f.Find(rec)) == 2, "one-outcome", "a completed call records at most one outcome", c.P.Pos(ex.Decl.Pos()), f.describe(w))
		// after invoke: exits without record only on the caller-cancelled case
		cancelled := f.EdgesWhere(func(cond ast.Expr) (bool, bool) {
			cm, ok := asCmp(cond, true)
			if ok && cm.Op == token.EQL {
				if types.ExprString(cm.R) == "context.Canceled" {
					return true, true
				}
			}
			return false, false
		})
		_ = info
		w = f.search(searchSpec{starts: f.Find(invoke), avoid: rec, avoidEdges: cancelled, exits: true})
		c.Check(w == nil && len(cancelled) > 0, "outcome-always-recorded", "every completed call records its outcome, except when the caller itself cancelled", c.P.Pos(ex.Decl.Pos()), f.describe(w))
	})

	c.Rule("record", func() {
		rc := c.Func("breaker", "CircuitBreaker.record")
		f := c.NewFlow(rc)
		info := f.Info
		toOpen := f.CallTo(c.FuncObj("breaker", "CircuitBreaker.toOpen"))
		toClosed := f.CallTo(c.FuncObj("breaker", "CircuitBreaker.toClosed"))
		// the sample count is whatever is compared with the configured minRequests
		vsMinRequests := func(e ast.Expr) bool {
			return containsNode(e, func(n ast.Node) bool {
				sel, ok := n.(*ast.SelectorExpr)
				if !ok {
					return false
				}
				fv := selField(info, sel)
				return fv != nil && fv.Name() == "minRequests"
			})
		}
		below := f.EdgesWhere(func(cond ast.Expr) (bool, bool) {
			cm, ok := asCmp(cond, true)
			if ok && cm.Op == token.LSS {
				if objOf(info, cm.L) != nil && vsMinRequests(cm.R) {
					return true, true
				}
			}
			return false, false
		})
		w := f.AfterEdgesMayReach(below, nil, nil, Or(toOpen, toClosed))
		c.Check(w == nil && len(below) > 0, "min-requests-first", "below minRequests the breaker neither opens nor closes", c.P.Pos(rc.Decl.Pos()), f.describe(w))
		enough := f.FactEdges(func(cm cmp) bool {
			return cm.Op == token.GEQ && objOf(info, cm.L) != nil && vsMinRequests(cm.R)
		})
		c.guardedBy(f, enough, Or(toOpen, toClosed), "transition-only-with-min-requests", "a state transition is decided only over the edge on which the window holds at least minRequests samples", c.P.Pos(rc.Decl.Pos()))
		rate := f.EdgesWhere(func(cond ast.Expr) (bool, bool) {
			cm, ok := asCmp(cond, true)
			if ok && cm.Op == token.GEQ {
				if fv := selField(info, cm.R); fv != nil && fv.Name() == "failureRate" {
					return true, true
				}
			}
			return false, false
		})
		w = f.search(searchSpec{avoidEdges: rate, target: toOpen})
		c.Check(w == nil && len(rate) > 0, "open-iff-rate", "the breaker opens only when failures/total ≥ failureRate", c.P.Pos(rc.Decl.Pos()), f.describe(w))
		half := f.EdgesWhere(func(cond ast.Expr) (bool, bool) {
			cm, ok := asCmp(cond, true)
			if ok && cm.Op == token.EQL {
				if k, isK := objOfConst(info, cm.R); isK && k.Name() == "HalfOpen" {
					return true, true
				}
			}
			return false, false
		})
		w = f.search(searchSpec{avoidEdges: half, target: toClosed})
		c.Check(w == nil && len(half) > 0, "close-only-from-halfopen", "the breaker closes only from HalfOpen", c.P.Pos(rc.Decl.Pos()), f.describe(w))
		w = f.AfterEdgesMayReach(rate, nil, nil, toClosed)
		c.Check(w == nil, "failing⇏close", "a window that reaches the failure rate never closes the breaker", c.P.Pos(rc.Decl.Pos()), f.describe(w))
	})

	c.Rule("buckets", func() {
		st := c.Named("breaker", "bucketWindow")
		var fields []*types.Var
		var lock *types.Var
		s := st.Underlying().(*types.Struct)
		for i := 0; i < s.NumFields(); i++ {
			fv := s.Field(i)
			ts := fv.Type().String()
			if ts == "sync.Mutex" || ts == "sync.RWMutex" {
				lock = fv
				continue
			}
			// immutable configuration fields are exempt by write-analysis: only fields written after construction need the lock
			written := false
			for _, u := range c.UsesOf(fv) {
				if u.IsWrite && u.EnclObj != nil && u.EnclObj.Name() != "newBuckets" {
					written = true
				}
			}
			if written {
				fields = append(fields, fv)
			}
		}
		if lock == nil || len(fields) == 0 {
			c.Fail("bucketWindow: mutex or mutable fields not found")
		}
		c.GuardedBy(guardSpec{name: "bucketWindow", lock: lock, fields: fields, exemptFns: map[string]string{"breaker.newBuckets": "constructor"}})
	})
}
