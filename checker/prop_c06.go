package main

import (
	"fmt"
	"go/ast"
	"go/types"

	"golang.org/x/tools/go/ssa"
)

func init() {
	register(&propDef{
		id: "C06", title: "Lifecycle hooks are ordered and never overlap message handling",
		technique: "who-may-call + CFG ordering (PreStart success ≺ running; PostStop ⇒◇ reset) + lockset (stopLocker held at every doStop) + call-graph confinement of PostStop to the actor's own turn",
		explanation: "Decides: (1) Actor.PreStart is invoked only in PID.init, init only from newPID (before the PID is returned/published) and restartSubtree; the running flag is set only after PreStart succeeded; nothing is delivered to a new PID before init; (2) Actor.PostStop is invoked only in doStop; doStop is called only from Shutdown and tryPassivation, each time with stopLocker held; in Shutdown the call is dominated by the runningState test (at most once per incarnation) and the lock is released on every exit; (3) in doStop PostStop is always followed by clearing the running flag and PID.reset (which empties the behaviour stack), so no Receive starts after PostStop finished; children are freed before PostStop; (4) the system mailbox is consulted before the user mailbox on every loop iteration; (5) hook confinement: every synchronous call path that reaches PostStop starts on the actor's own turn (through runTurn); each entry point that reaches it off-turn is reported (these are the ways PostStop can overlap a Receive running on a worker). Added with F24: EVERY caller of doStop (Shutdown and the passivation path) reaches it only over an edge on which runningState was found set by a test made with stopLocker held.",
		assumptions: []string{"overlap freedom on the stop paths listed as known findings (off-turn stops do not wait for an in-flight Receive)", "mutual exclusion provided by stopLocker is per PID instance (field-based lock identity)"},
		minObl:     28,
		run:        runC06,
	})
}

func setStateCall(info *types.Info, setState *types.Func, flag string, val string) Match {
	return func(n ast.Node) bool {
		call, ok := n.(*ast.CallExpr)
		if !ok || callee(info, call) != setState || len(call.Args) != 2 {
			return false
		}
		id, ok := call.Args[0].(*ast.Ident)
		if !ok || id.Name != flag {
			return false
		}
		v, ok := call.Args[1].(*ast.Ident)
		return ok && v.Name == val
	}
}

func runC06(c *Ctx) {
	preStart := c.FuncObj("actor", "Actor.PreStart")
	postStop := c.FuncObj("actor", "Actor.PostStop")
	initFn := c.Func("actor", "PID.init")
	doStop := c.Func("actor", "PID.doStop")
	shutdown := c.Func("actor", "PID.Shutdown")
	tryPass := c.Func("actor", "PID.tryPassivation")
	setState := c.FuncObj("actor", "PID.setState")
	isStateSet := c.FuncObj("actor", "PID.isStateSet")
	stopLocker := c.Field("actor", "PID", "stopLocker")

	runtimeOnly := func(target *types.Func, allow map[string]string, key string) {
		n := 0
		for _, u := range c.UsesOf(target) {
			if relPkg(u.Pkg.PkgPath) != "actor" {
				c.Ok(key+"/outside="+u.EnclName(), "reference outside the runtime package (test kit / wrapper actors forwarding their own hook) is not a lifecycle transition of a PID", u.Where(c.P))
				continue
			}
			n++
			top := funcName(u.EnclObj)
			_, ok := allow[top]
			c.Check(ok, key+"<-"+u.EnclName(), "hook "+funcName(target)+" is invoked only from "+keysOf(allow), u.Where(c.P), top+" invokes the hook")
		}
		if n == 0 {
			c.Undecided(key+"/none", "hook has an invocation site", "-", "no invocation of "+funcName(target)+" in the runtime")
		}
	}

	c.Rule("prestart", func() {
		runtimeOnly(preStart, map[string]string{"actor.(*PID).init": ""}, "PreStart")
		c.WhoMayCall("who", initFn.Obj, map[string]string{"actor.newPID": "fresh PID, not yet returned", "actor.restartSubtree": "after the stop + quiescence wait"})
		f := c.NewFlow(initFn)
		run := f.CallTo(c.ExtFunc("github.com/flowchartsman/retry", "Retrier.RunContext"))
		setRunning := setStateCall(f.Info, setState, "runningState", "true")
		if len(f.Find(run)) == 0 || len(f.Find(setRunning)) == 0 {
			c.Undecided("init/shape", "init runs PreStart through the retrier and then sets runningState", c.P.Pos(initFn.Decl.Pos()), "pattern not found")
			return
		}
		pre := f.Find(f.CallTo(preStart))
		c.Check(len(pre) == 1, "init/one-PreStart", "init contains exactly one PreStart invocation (inside the retrier)", c.P.Pos(initFn.Decl.Pos()), "")
		w := f.MustPrecede(run, nil, setRunning)
		c.Check(w == nil, "init/PreStart≺running", "runningState is set only after the PreStart retrier returned", c.P.Pos(initFn.Decl.Pos()), f.describe(w))
		fail, n := f.ErrEdgesOf(run, true)
		if n == 0 || len(fail) == 0 {
			c.Undecided("init/err-edge", "PreStart's error is tested", c.P.Pos(initFn.Decl.Pos()), "no error test")
		} else {
			w = f.AfterEdgesMayReach(fail, nil, nil, setRunning)
			c.Check(w == nil, "init/failed-PreStart⇏running", "a failed PreStart never makes the actor running", c.P.Pos(initFn.Decl.Pos()), f.describe(w))
			c.onlyOnSuccess(f, run, setRunning, "init/running-only-after-successful-PreStart", "the actor becomes running only over the edge on which PreStart succeeded", c.P.Pos(initFn.Decl.Pos()))
		}
		// restartSubtree: init (PreStart of the new incarnation) only after the old incarnation's turn is quiescent
		rs := c.Func("actor", "restartSubtree")
		rf := c.NewFlow(rs)
		loadM := rf.CallOnField(c.Field("actor", "PID", "schedState"), "Load")
		quiet := rf.EdgesWhere(func(cond ast.Expr) (bool, bool) {
			be, ok := ast.Unparen(cond).(*ast.BinaryExpr)
			if !ok {
				return false, false
			}
			if loadM(ast.Unparen(be.X)) || loadM(ast.Unparen(be.Y)) {
				return true, false
			}
			return false, false
		})
		wq := rf.search(searchSpec{avoidEdges: quiet, target: rf.CallTo(initFn.Obj)})
		c.Check(wq == nil && len(quiet) > 0, "restart/quiescent≺init", "on restart PreStart (init) runs only after the wait for schedState != Processing: the previous incarnation's handler has left its turn", c.P.Pos(rs.Decl.Pos()), rf.describe(wq))
		sd := rf.CallTo(c.FuncObj("actor", "PID.Shutdown"))
		wq = rf.MayReach(rf.Find(rf.CallTo(initFn.Obj)), nil, sd)
		c.Check(wq == nil, "restart/stop≺init", "on restart the old incarnation is stopped before the new one is initialised (no Shutdown after init)", c.P.Pos(rs.Decl.Pos()), rf.describe(wq))
		// newPID: nothing delivered before init
		np := c.Func("actor", "newPID")
		nf := c.NewFlow(np)
		deliver := nf.CallTo(c.FuncObj("actor", "PID.fireSystemMessage"), c.FuncObj("actor", "PID.doReceive"), c.FuncObj("actor", "PID.startPassivation"))
		w = nf.MustPrecede(nf.CallTo(initFn.Obj), nil, deliver)
		c.Check(w == nil && len(nf.Find(deliver)) > 0, "newPID/init≺deliver", "a new PID receives nothing (PostStart, passivation) before init/PreStart completed", c.P.Pos(np.Decl.Pos()), nf.describe(w))
		ifail, n2 := nf.ErrEdgesOf(nf.CallTo(initFn.Obj), true)
		if n2 > 0 {
			w = nf.AfterEdgesMayReach(ifail, nil, nil, deliver)
			c.Check(w == nil, "newPID/failed-init⇏deliver", "a PID whose init failed is not started", c.P.Pos(np.Decl.Pos()), nf.describe(w))
			c.onlyOnSuccess(nf, nf.CallTo(initFn.Obj), deliver, "newPID/deliver-only-after-successful-init", "a new PID is started only over the edge on which init succeeded", c.P.Pos(np.Decl.Pos()))
		}
	})

	c.Rule("poststop", func() {
		runtimeOnly(postStop, map[string]string{"actor.(*PID).doStop": ""}, "PostStop")
		c.WhoMayCall("who", doStop.Obj, map[string]string{"actor.(*PID).Shutdown": "explicit stop", "actor.(*PID).tryPassivation": "passivation"})
		for _, caller := range []*Fn{shutdown, tryPass} {
			f := c.NewFlow(caller)
			la := f.Locks(nil)
			calls := f.Find(f.CallTo(doStop.Obj))
			c.Check(len(calls) == 1, caller.String()+"/one-doStop", "exactly one doStop call site", c.P.Pos(caller.Decl.Pos()), "")
			for _, a := range calls {
				c.Check(la.At(a)[stopLocker] == 2, caller.String()+"/doStop-under-stopLocker", "doStop is called with stopLocker held (stops of one PID are serialised)", c.P.Pos(a.N.Pos()), "stopLocker not held at the call")
			}
			c.LockPairing(caller, stopLocker)
		}
		// sibling of the grain rule (C31): the runningState fence of a PID is lowered only after PostStop returned — a stop
		// request arriving while PostStop runs still finds the actor "running" and queues on stopLocker instead of racing
		df := c.NewFlow(doStop)
		setState := c.FuncObj("actor", "PID.setState")
		lower := func(n ast.Node) bool {
			call, ok := n.(*ast.CallExpr)
			if !ok || callee(df.Info, call) != setState || len(call.Args) != 2 {
				return false
			}
			a0, ok0 := call.Args[0].(*ast.Ident)
			a1, ok1 := call.Args[1].(*ast.Ident)
			return ok0 && ok1 && a0.Name == "runningState" && a1.Name == "false"
		}
		early := ""
		for _, a := range df.Find(lower) {
			if a.Deferred {
				continue
			}
			if w := df.search(searchSpec{avoid: df.CallTo(postStop), target: func(n ast.Node) bool { return n == a.N }}); w != nil {
				early = c.P.Pos(a.N.Pos())
			}
		}
		c.Check(early == "" && len(df.Find(lower)) > 0, "doStop/running-lowered-after-PostStop", "doStop lowers runningState only after PostStop returned (deferred cleanup)", c.P.Pos(doStop.Decl.Pos()), "runningState is cleared at "+early+" before PostStop runs")
		// Shutdown: doStop only when runningState is set (tested under the lock)
		f := c.NewFlow(shutdown)
		running := f.EdgesWhere(func(cond ast.Expr) (bool, bool) {
			call, ok := cond.(*ast.CallExpr)
			if !ok || callee(f.Info, call) != isStateSet || len(call.Args) != 1 {
				return false, false
			}
			id, ok := call.Args[0].(*ast.Ident)
			return ok && id.Name == "runningState", true
		})
		w := f.search(searchSpec{avoidEdges: running, target: f.CallTo(doStop.Obj)})
		c.Check(w == nil && len(running) > 0, "Shutdown/running⇒doStop", "Shutdown reaches doStop only when the runningState test succeeded (second stop of an incarnation is a no-op)", c.P.Pos(shutdown.Decl.Pos()), f.describe(w))
		// the running test happens under the lock
		la := f.Locks(nil)
		for _, a := range f.Find(func(n ast.Node) bool {
			call, ok := n.(*ast.CallExpr)
			return ok && callee(f.Info, call) == isStateSet
		}) {
			c.Check(la.At(a)[stopLocker] == 2, "Shutdown/running-test-under-lock", "the runningState test that guards doStop is made with stopLocker held (test and stop are atomic)", c.P.Pos(a.N.Pos()), "test outside the lock")
		}
		// the same for EVERY caller of doStop (the passivation path, F24): doStop is reached only over an edge on
		// which runningState was found set by a test made while stopLocker is held
		nCallers := 0
		for _, u := range c.UsesOf(doStop.Obj) {
			if u.Call == nil || u.EnclObj == nil {
				continue
			}
			nCallers++
			cf := c.NewFlow(c.fnOfObj(u.EnclObj))
			cla := cf.Locks(nil)
			isRunningTest := func(n ast.Node) bool {
				call, ok := n.(*ast.CallExpr)
				if !ok || callee(cf.Info, call) != isStateSet || len(call.Args) != 1 {
					return false
				}
				k, isK := objOfConst(cf.Info, call.Args[0])
				return isK && k.Name() == "runningState"
			}
			lockedRunning := map[Edge]bool{}
			for e := range cf.BoolEdges(func(x ast.Expr) bool { return isRunningTest(x) }, true) {
				ok := true
				for _, a := range cf.atoms[e.From] {
					if isRunningTest(a.N) && cla.At(a)[stopLocker] != 2 {
						ok = false
					}
				}
				if ok {
					lockedRunning[e] = true
				}
			}
			this := func(n ast.Node) bool { return n == ast.Node(u.Call) }
			w := cf.search(searchSpec{avoidEdges: lockedRunning, target: this})
			c.Check(w == nil && len(lockedRunning) > 0, "doStop<-"+u.EnclName()+"/running-under-lock", "every caller reaches doStop only over an edge on which runningState was found set while stopLocker is held (an incarnation is stopped, and PostStop run, at most once)", u.Where(c.P), cf.describe(w))
		}
		if nCallers < 2 {
			c.Undecided("doStop-callers", "the callers of doStop (Shutdown, tryPassivation) are found", c.P.Pos(doStop.Decl.Pos()), fmt.Sprintf("found %d", nCallers))
		}
	})

	c.Rule("dostop-order", func() {
		f := c.NewFlow(doStop)
		ps := f.Find(f.CallTo(postStop))
		if len(ps) == 0 {
			c.Fail("PostStop invocation not located in doStop's flow")
		}
		clearRunning := setStateCall(f.Info, setState, "runningState", "false")
		reset := f.CallTo(c.FuncObj("actor", "PID.reset"))
		w := f.MustFollow(ps, clearRunning, nil)
		c.Check(w == nil, "PostStop⇒◇not-running", "after PostStop every exit of doStop clears runningState", c.P.Pos(doStop.Decl.Pos()), f.describe(w))
		w = f.MustFollow(ps, reset, nil)
		c.Check(w == nil, "PostStop⇒◇reset", "after PostStop every exit of doStop runs PID.reset (behaviour stack emptied: no Receive can start afterwards)", c.P.Pos(doStop.Decl.Pos()), f.describe(w))
		fc := f.CallTo(c.FuncObj("actor", "PID.freeChildren"))
		w = f.MustPrecede(fc, nil, f.CallTo(postStop))
		c.Check(w == nil, "freeChildren≺PostStop", "children are stopped before the actor's own PostStop", c.P.Pos(doStop.Decl.Pos()), f.describe(w))
		fw := f.CallTo(c.FuncObj("actor", "PID.freeWatchers"))
		w = f.MustPrecede(f.CallTo(postStop), nil, fw)
		c.Check(w == nil, "PostStop≺freeWatchers", "watchers are notified only after PostStop ran", c.P.Pos(doStop.Decl.Pos()), f.describe(w))
		// PID.reset empties the behaviour stack
		rf := c.Func("actor", "PID.reset")
		rfl := c.NewFlow(rf)
		bs := c.Field("actor", "PID", "behaviorStack")
		w = rfl.ExitReachable(nil, rfl.CallOnField(bs, "Reset"), nil, nil)
		c.Check(w == nil, "reset-clears-behaviours", "PID.reset empties the behaviour stack on every path", c.P.Pos(rf.Decl.Pos()), rfl.describe(w))
	})

	c.Rule("system-first", func() {
		rt := c.Func("actor", "PID.runTurn")
		f := c.NewFlow(rt)
		sys := f.CallOnField(c.Field("actor", "PID", "systemMailbox"), "Dequeue")
		usr := f.CallOnField(c.Field("actor", "PID", "mailbox"), "Dequeue")
		w := f.MustPrecede(sys, nil, usr)
		c.Check(w == nil, "first-iteration", "the user mailbox is dequeued only after the system mailbox was consulted", c.P.Pos(rt.Decl.Pos()), f.describe(w))
		w = f.MayReach(f.Find(usr), sys, usr)
		c.Check(w == nil, "every-iteration", "between two user dequeues the system mailbox is always consulted", c.P.Pos(rt.Decl.Pos()), f.describe(w))
		// a non-nil system message is dispatched before looking at the user mailbox
	})

	c.Rule("confine", func() {
		var targets []*ssa.Function
		for _, s := range c.CallsWhere(func(info *types.Info, call *ast.CallExpr) bool { return callee(info, call) == postStop }) {
			if relPkg(s.Pkg) != "actor" {
				continue
			}
			targets = append(targets, c.siteSSA(s))
		}
		gates := map[*ssa.Function]bool{c.SSA(c.Func("actor", "PID.runTurn")): true}
		c.Confine(confineSpec{key: "PostStop", rule: "PostStop runs on the actor's own dispatcher turn (so it cannot overlap a Receive running on a worker)", targets: targets, gates: gates, exportedAreRoots: true})
	})
}

func keysOf(m map[string]string) string {
	s := ""
	for _, k := range sortedKeys(m) {
		if s != "" {
			s += ", "
		}
		s += k
	}
	return s
}
