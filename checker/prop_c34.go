package main

import (
	"go/ast"
	"go/types"
)

func init() {
	register(&propDef{
		id: "C34", title: "Membership events are emitted once and only after rebalancing settles",
		technique: "lockset with *Locked caller-holds propagation, guard dominance (emission only on the 'epoch completed' edge or from the timeout callback), who-may-call on the emitters, dedup-filter ordering (Contains ⇒ return ≺ Add ≺ send), test-and-set rule for epoch dedup",
		explanation: "Decides: (1) every event-tracking map, filter and epoch variable of the cluster engine is accessed only under eventsLock; the *Locked helpers are called only with it held; (2) emission gating: the per-epoch emitters are called only on edges where the epoch is known to be complete (the comma-ok lookup in rebalanceCompleteSeen succeeded, or the completion was just recorded), the overdue emitter only from the timer callback armed when the departure was tracked; NodeLeft/NodeJoined payloads are sent only by emitNodeLeftLocked / emitNodeJoinedLocked, which are called only by those emitters; (3) dedup: both emitters return when the node is already in their filter, add it otherwise, and only then send; a NodeLeft removes the node from the joined filter (a later NodeJoined is a new event); (4) the local node's own join is dropped before anything is recorded (trackNodeJoinEvent, processRebalanceStart); (5) rebalance start/complete notifications are deduplicated by epoch with a test-and-set under the lock. Added after seed C34a: the seen-epoch sets of rebalance notifications only grow.",
		assumptions: []string{"full history semantics (epoch supersession across overlapping rebalances)", "a full event channel drops the event (logged)"},
		minObl:     38,
		run:        runC34,
	})
}

func runC34(c *Ctx) {
	lock := c.Field("internal/cluster", "cluster", "eventsLock")
	c.Rule("locks", func() {
		c.GuardedBy(guardSpec{name: "events", lock: lock, maxDepth: 3,
			fields: c.Fields("internal/cluster", "cluster", "nodeJoinedEventsFilter", "nodeLeftEventsFilter", "nodeJoinTimestamps", "nodeLeftTimestamps", "rebalanceJoinNodeEpochs", "rebalanceLeftNodeEpochs", "rebalanceStartSeen", "rebalanceCompleteSeen", "rebalanceJoinLatestEpoch", "rebalanceLeftLatestEpoch", "lastCoordinatorAddr"),
			exemptFns: map[string]string{"internal/cluster.New": "constructor", "internal/cluster.(*cluster).Start": "initialisation before the event consumer goroutine is started", "internal/cluster.(*cluster).resetEventTracking": "called before the consumer starts / after it stopped"}})
	})

	emitLeft := c.FuncObj("internal/cluster", "cluster.emitPendingLeftForEpochLocked")
	emitJoin := c.FuncObj("internal/cluster", "cluster.emitPendingJoinForEpochLocked")
	complete := c.Field("internal/cluster", "cluster", "rebalanceCompleteSeen")

	c.Rule("gating", func() {
		n := 0
		for _, target := range []*types.Func{emitLeft, emitJoin} {
			for _, u := range c.UsesOf(target) {
				if u.Call == nil || u.EnclObj == nil {
					continue
				}
				n++
				fn := c.fnOfObj(u.EnclObj)
				f := c.NewFlow(fn)
				info := f.Info
				// edges on which a comma-ok lookup of rebalanceCompleteSeen succeeded
				okEdges := map[Edge]bool{}
				for _, a := range f.Find(func(nd ast.Node) bool { _, _, _, ok := commaOkLookup(info, nd, complete); return ok }) {
					_, okObj, _, _ := commaOkLookup(info, a.N, complete)
					for e := range f.CondEdges(func(e ast.Expr) bool { id, ok := e.(*ast.Ident); return ok && info.ObjectOf(id) == okObj }, true) {
						okEdges[e] = true
					}
				}
				// or the completion was just recorded in this function
				stored := func(nd ast.Node) bool { _, _, ok := isMapWrite(info, nd, complete); return ok }
				target := func(nd ast.Node) bool { return nd == ast.Node(u.Call) }
				w := f.search(searchSpec{avoid: stored, avoidEdges: okEdges, target: target})
				c.Check(w == nil, funcName(target0(target, u))+"@"+u.EnclName(), "pending NodeLeft/NodeJoined events of an epoch are emitted only where that epoch is known to be complete", u.Where(c.P), f.describe(w))
			}
		}
		if n < 6 {
			c.Undecided("count", "at least 6 gated emission sites", "-", "found fewer")
		}
		// overdue emitter only from the timer callback in trackNodeLeftEvent
		overdue := c.FuncObj("internal/cluster", "cluster.emitOverdueNodeLeft")
		for _, u := range c.UsesOf(overdue) {
			okSite := funcName(u.EnclObj) == "internal/cluster.(*cluster).trackNodeLeftEvent" && len(u.Lits) == 1
			if okSite {
				// the literal is the argument of time.AfterFunc(nodeLeftEmitTimeout, ...)
				okSite = false
				for _, p := range u.Path {
					if call, ok := p.(*ast.CallExpr); ok {
						if cal := callee(u.Pkg.TypesInfo, call); cal != nil && qualifiedName(cal) == "time.AfterFunc" {
							if o := objOf(u.Pkg.TypesInfo, call.Args[0]); o != nil && o.Name() == "nodeLeftEmitTimeout" {
								okSite = true
							}
						}
					}
				}
			}
			c.Check(okSite, "overdue<-"+u.EnclName(), "the ungated NodeLeft emitter runs only from the timeout armed when the departure was tracked", u.Where(c.P), "emitOverdueNodeLeft referenced elsewhere")
		}
		// who sends NodeLeft / NodeJoined
		c.WhoMayCall("who", c.FuncObj("internal/cluster", "cluster.emitNodeLeftLocked"), map[string]string{"internal/cluster.(*cluster).emitPendingLeftForEpochLocked": "epoch complete", "internal/cluster.(*cluster).emitOverdueNodeLeft": "timeout"})
		c.WhoMayCall("who", c.FuncObj("internal/cluster", "cluster.emitNodeJoinedLocked"), map[string]string{"internal/cluster.(*cluster).emitPendingJoinForEpochLocked": "epoch complete"})
		// payload literals only in the two emitters
		for _, tname := range []string{"NodeLeftEvent", "NodeJoinedEvent"} {
			tn := c.Named("internal/cluster", tname)
			pk := c.pkg("internal/cluster")
			for _, file := range pk.Syntax {
				for _, d := range file.Decls {
					fd, ok := d.(*ast.FuncDecl)
					if !ok || fd.Body == nil {
						continue
					}
					ast.Inspect(fd.Body, func(nd ast.Node) bool {
						cl, ok := nd.(*ast.CompositeLit)
						if !ok {
							return true
						}
						if t := pk.TypesInfo.TypeOf(cl); t != nil && types.Identical(types.Unalias(t), tn) {
							want := "emitNodeLeftLocked"
							if tname == "NodeJoinedEvent" {
								want = "emitNodeJoinedLocked"
							}
							c.Check(fd.Name.Name == want, tname+"-literal@"+fd.Name.Name, tname+" payloads are built only by "+want, c.P.Pos(cl.Pos()), "built in "+fd.Name.Name)
						}
						return true
					})
				}
			}
		}
	})

	c.Rule("dedup", func() {
		for _, pr := range []struct{ fn, filter string }{{"cluster.emitNodeLeftLocked", "nodeLeftEventsFilter"}, {"cluster.emitNodeJoinedLocked", "nodeJoinedEventsFilter"}} {
			fn := c.Func("internal/cluster", pr.fn)
			f := c.NewFlow(fn)
			filt := c.Field("internal/cluster", "cluster", pr.filter)
			contains := f.CallOnField(filt, "Contains")
			add := f.CallOnField(filt, "Add")
			send := f.CallTo(c.FuncObj("internal/cluster", "cluster.sendEventLocked"))
			dup := f.CondEdges(exprMatch(contains), true)
			w := f.AfterEdgesMayReach(dup, nil, nil, send)
			fresh := f.CondEdges(exprMatch(contains), false)
			wF := f.search(searchSpec{avoidEdges: fresh, target: send})
			c.Check(w == nil && len(dup) > 0 && wF == nil && len(fresh) > 0, pr.fn+"/duplicate⇏send", "the event is sent only over the edge on which the filter did not contain the node (a node already in the filter produces no second event)", c.P.Pos(fn.Decl.Pos()), f.describe(w)+f.describe(wF))
			w = f.MustPrecede(add, nil, send)
			w2 := f.MustPrecede(contains, nil, add)
			c.Check(w == nil && w2 == nil && len(f.Find(send)) == 1, pr.fn+"/contains≺add≺send", "the filter is tested, then updated, then the event is sent", c.P.Pos(fn.Decl.Pos()), f.describe(w)+f.describe(w2))
		}
		// NodeLeft clears the joined filter ("until the opposite event")
		el := c.Func("internal/cluster", "cluster.emitNodeLeftLocked")
		ef := c.NewFlow(el)
		joined := c.Field("internal/cluster", "cluster", "nodeJoinedEventsFilter")
		w := ef.MustPrecede(ef.CallOnField(joined, "Remove"), nil, ef.CallTo(c.FuncObj("internal/cluster", "cluster.sendEventLocked")))
		c.Check(w == nil, "left-clears-joined", "emitting NodeLeft re-opens NodeJoined for that node", c.P.Pos(el.Decl.Pos()), ef.describe(w))
		// and symmetrically: a join re-opens NodeLeft (otherwise a node that comes back under the same address and leaves again is never reported)
		ej := c.Func("internal/cluster", "cluster.emitNodeJoinedLocked")
		jf := c.NewFlow(ej)
		left := c.Field("internal/cluster", "cluster", "nodeLeftEventsFilter")
		w = jf.MustPrecede(jf.CallOnField(left, "Remove"), nil, jf.CallTo(c.FuncObj("internal/cluster", "cluster.sendEventLocked")))
		c.Check(w == nil, "joined-clears-left", "emitting NodeJoined re-opens NodeLeft for that node (sibling symmetry of the two dedup filters)", c.P.Pos(ej.Decl.Pos()),
			"the NodeLeft filter is never cleared by a join: after leave → rejoin → leave the second departure is dropped and never relocated; "+jf.describe(w))
		for _, pr := range []struct{ fn, filt string }{{"cluster.trackNodeJoinEvent", "nodeLeftEventsFilter"}, {"cluster.trackNodeLeftEvent", "nodeJoinedEventsFilter"}} {
			fn := c.Func("internal/cluster", pr.fn)
			ff := c.NewFlow(fn)
			other := c.Field("internal/cluster", "cluster", pr.filt)
			n := len(ff.Find(ff.CallOnField(other, "Remove")))
			c.Check(n >= 1, pr.fn+"/reopens-opposite", "tracking a membership change re-opens the opposite event for that node", c.P.Pos(fn.Decl.Pos()), "opposite filter not cleared")
		}
	})

	c.Rule("self-filter", func() {
		tj := c.Func("internal/cluster", "cluster.trackNodeJoinEvent")
		f := c.NewFlow(tj)
		info := f.Info
		ts := c.Field("internal/cluster", "cluster", "nodeJoinTimestamps")
		self := f.EdgesWhere(func(cond ast.Expr) (bool, bool) {
			cm, ok := asCmp(cond, true)
			if !ok || cm.Op.String() != "==" {
				return false, false
			}
			isSelf := func(e ast.Expr) bool {
				call, ok := ast.Unparen(e).(*ast.CallExpr)
				if !ok {
					return false
				}
				cal := callee(info, call)
				return cal != nil && cal.Name() == "PeersAddress"
			}
			if isSelf(cm.L) || isSelf(cm.R) {
				return true, true
			}
			return false, false
		})
		rec := func(nd ast.Node) bool { _, _, ok := isMapWrite(info, nd, ts); return ok }
		w := f.AfterEdgesMayReach(self, nil, nil, rec)
		c.Check(w == nil && len(self) > 0 && len(f.Find(rec)) == 1, "own-join-not-recorded", "the local node's own join is dropped before anything is recorded", c.P.Pos(tj.Decl.Pos()), f.describe(w))
		// already-emitted / already-pending joins are not re-recorded
		dup := f.CondEdges(exprMatch(f.CallOnField(c.Field("internal/cluster", "cluster", "nodeJoinedEventsFilter"), "Contains")), true)
		w = f.AfterEdgesMayReach(dup, nil, nil, rec)
		c.Check(w == nil && len(dup) > 0, "emitted-join-not-recorded", "a join that was already announced is not recorded again", c.P.Pos(tj.Decl.Pos()), f.describe(w))
		tl := c.Func("internal/cluster", "cluster.trackNodeLeftEvent")
		lf := c.NewFlow(tl)
		lts := c.Field("internal/cluster", "cluster", "nodeLeftTimestamps")
		lrec := func(nd ast.Node) bool { _, _, ok := isMapWrite(lf.Info, nd, lts); return ok }
		ldup := lf.CondEdges(exprMatch(lf.CallOnField(c.Field("internal/cluster", "cluster", "nodeLeftEventsFilter"), "Contains")), true)
		w = lf.AfterEdgesMayReach(ldup, nil, nil, lrec)
		c.Check(w == nil && len(ldup) > 0, "emitted-left-not-recorded", "a departure that was already announced is not recorded again", c.P.Pos(tl.Decl.Pos()), lf.describe(w))
	})

	c.Rule("epoch-sets-only-grow", func() {
		// the per-epoch dedup of rebalance notifications is a set that only grows: forgetting an epoch lets a late duplicate
		// of its notification be taken for the first one (pending events would be emitted a second time)
		for _, name := range []string{"rebalanceStartSeen", "rebalanceCompleteSeen"} {
			fv := c.Field("internal/cluster", "cluster", name)
			ws := c.fieldWrites(fv)
			for _, w := range ws {
				ok := w.kind == "elem:lit" || w.kind == "make" || w.kind == "lit"
				c.Check(ok, "epoch-set/"+name+"@"+w.fn()+"="+w.kind, "an epoch, once seen, stays in the set: entries are only added (the map is created once)", w.u.Where(c.P), "the set is modified by "+w.kind+" in "+w.fn())
			}
			if len(ws) < 1 {
				c.Undecided("epoch-set/"+name+"/sites", "writes of the epoch set found", "-", "found none")
			}
		}
	})

	c.Rule("epoch-dedup", func() {
		for _, pr := range []struct{ fn, fld string }{{"cluster.processRebalanceStart", "rebalanceStartSeen"}, {"cluster.processRebalanceComplete", "rebalanceCompleteSeen"}} {
			fn := c.Func("internal/cluster", pr.fn)
			f := c.NewFlow(fn)
			info := f.Info
			fld := c.Field("internal/cluster", "cluster", pr.fld)
			var seenObj types.Object
			for _, a := range f.Find(func(nd ast.Node) bool { _, _, _, ok := commaOkLookup(info, nd, fld); return ok }) {
				if _, o, _, _ := commaOkLookup(info, a.N, fld); o != nil {
					seenObj = o
				}
			}
			seen := f.CondEdges(func(e ast.Expr) bool { id, ok := e.(*ast.Ident); return ok && seenObj != nil && info.ObjectOf(id) == seenObj }, true)
			any := func(nd ast.Node) bool {
				call, ok := nd.(*ast.CallExpr)
				if !ok {
					return false
				}
				cal := callee(info, call)
				return cal == emitLeft || cal == emitJoin
			}
			w := f.AfterEdgesMayReach(seen, nil, nil, any)
			store := func(nd ast.Node) bool { _, _, ok := isMapWrite(info, nd, fld); return ok }
			w2 := f.MustPrecede(store, nil, any)
			la := f.Locks(nil)
			okLock := true
			for _, a := range append(f.Find(store), f.Find(func(nd ast.Node) bool { _, _, _, ok := commaOkLookup(info, nd, fld); return ok })...) {
				if la.At(a)[lock] != 2 {
					okLock = false
				}
			}
			c.Check(w == nil && w2 == nil && len(seen) > 0 && okLock, pr.fn+"/test-and-set", "a rebalance notification for an epoch already seen is ignored; the first one records the epoch before acting, under the lock", c.P.Pos(fn.Decl.Pos()), f.describe(w)+f.describe(w2))
		}
	})
}

func target0(_ func(ast.Node) bool, u *Use) *types.Func { return u.Obj.(*types.Func) }
