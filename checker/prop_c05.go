package main

import (
	"strings"
	"go/ast"
	"go/token"
	"go/types"
)

func init() {
	register(&propDef{
		id: "C05", title: "The dispatcher never loses or duplicates a scheduled actor",
		technique: "lockset (guarded-by with caller-holds propagation) on the ready-queue state, condition-variable discipline over the CFG, straight-line ring-buffer update rule, lock-order rule for the two-queue steal",
		explanation: "Decides: (1) every access to localQueue.{buf,head,tail,size} holds that queue's mu and every access to readyQueue.{global,parked,closed} and to the global ring's fields holds parkMu (helpers without their own locking are only called with the lock held); the lock-free size mirrors (sizeAtomic, globalCount) are stored only under the respective lock, and every critical section that changes a ring's size refreshes that ring's mirror before it ends (both rings of a steal; workers skip a ring whose mirror reads 0 without locking); (2) condition variable: cond.Wait is called only with parkMu held inside a loop that re-reads closed and the global size before every wait; push publishes to the global ring before Signal in one critical section; close sets closed before Broadcast in one critical section; (3) the two-queue steal takes both locks through lockOrder and returns at once when victim and thief are the same queue; (4) ring updates are all-or-nothing: every removal reads the slot, clears it, advances head and decrements size in one straight-line block; every insertion writes the slot, advances tail and increments size likewise; a stolen element is written to exactly one place; (5) take reports 'closed' only from the closed branch of parkAndTake and worker.run exits only on that report. Loss/duplication across interleavings beyond what mutual exclusion gives is not decided.",
		assumptions: []string{"lock identity is per field (two instances of localQueue are distinguished only in stealHalf via lockOrder)", "sync.Cond semantics"},
		minObl:     46,
		run:        runC05,
	})
}

func runC05(c *Ctx) {
	lqMu := c.Field("actor", "localQueue", "mu")
	parkMu := c.Field("actor", "readyQueue", "parkMu")
	c.Rule("guarded", func() {
		c.GuardedBy(guardSpec{name: "localQueue", lock: lqMu, fields: c.Fields("actor", "localQueue", "buf", "head", "tail", "size"),
			exemptFns: map[string]string{}})
		c.GuardedBy(guardSpec{name: "readyQueue", lock: parkMu, fields: append(c.Fields("actor", "readyQueue", "global", "parked", "closed"), c.Fields("actor", "globalQueue", "buf", "head", "tail", "size")...),
			exemptFns: map[string]string{"actor.newReadyQueue": "constructor: the queue is not yet shared"}})
		// atomic mirrors stored under the lock
		for _, pr := range []struct {
			typ, fld string
			lock     *types.Var
		}{{"localQueue", "sizeAtomic", lqMu}, {"readyQueue", "globalCount", parkMu}} {
			fv := c.Field("actor", pr.typ, pr.fld)
			seen := map[*types.Func]bool{}
			for _, u := range c.UsesOf(fv) {
				if u.EnclObj == nil || seen[u.EnclObj] {
					continue
				}
				seen[u.EnclObj] = true
				fn := c.fnOfObj(u.EnclObj)
				f := c.NewFlow(fn)
				la := f.Locks(nil)
				for _, a := range f.Find(f.CallOnField(fv, "Store")) {
					c.Check(la.At(a)[pr.lock] == 2, pr.typ+"."+pr.fld+".Store@"+fn.String(), "the lock-free size mirror is updated only inside the critical section that changed the size", c.P.Pos(a.N.Pos()), "Store outside the lock")
				}
			}
		}
	})

	c.Rule("mirror-coherent", func() {
		// workers skip a ring without locking when its atomic size mirror reads 0: every critical section that changes
		// a ring's size must refresh that ring's mirror before it ends, or queued actors become invisible
		size := c.Field("actor", "localQueue", "size")
		mirror := c.Field("actor", "localQueue", "sizeAtomic")
		seen := map[*types.Func]bool{}
		n := 0
		for _, u := range c.UsesOf(size) {
			if !u.IsWrite || u.EnclObj == nil || seen[u.EnclObj] {
				continue
			}
			seen[u.EnclObj] = true
			fn := c.fnOfObj(u.EnclObj)
			if fn == nil {
				continue
			}
			f := c.NewFlow(fn)
			info := f.Info
			bases := map[types.Object]bool{}
			baseOf := func(e ast.Expr) types.Object {
				if sel, ok := ast.Unparen(e).(*ast.SelectorExpr); ok {
					return objOf(info, sel.X)
				}
				return nil
			}
			writesOf := func(b types.Object) Match {
				return func(nd ast.Node) bool {
					switch x := nd.(type) {
					case *ast.IncDecStmt:
						return selField(info, x.X) == size && baseOf(x.X) == b
					case *ast.AssignStmt:
						for _, l := range x.Lhs {
							if selField(info, l) == size && baseOf(l) == b {
								return true
							}
						}
					}
					return false
				}
			}
			ast.Inspect(fn.Decl.Body, func(nd ast.Node) bool {
				switch x := nd.(type) {
				case *ast.IncDecStmt:
					if selField(info, x.X) == size {
						bases[baseOf(x.X)] = true
					}
				case *ast.AssignStmt:
					for _, l := range x.Lhs {
						if selField(info, l) == size {
							bases[baseOf(l)] = true
						}
					}
				}
				return true
			})
			for b := range bases {
				if b == nil {
					c.Undecided("mirror@"+fn.String()+"/base", "the ring whose size changes is a named variable", c.P.Pos(fn.Decl.Pos()), "unrecognised receiver expression")
					continue
				}
				n++
				store := func(nd ast.Node) bool {
					call, ok := nd.(*ast.CallExpr)
					if !ok || !f.CallOnField(mirror, "Store")(call) {
						return false
					}
					if sel, ok := call.Fun.(*ast.SelectorExpr); ok {
						return baseOf(sel.X) == b
					}
					return false
				}
				w := f.MustFollow(f.Find(writesOf(b)), store, nil)
				c.Check(w == nil, "mirror@"+fn.String()+"/"+b.Name(), "after a ring's size changed its lock-free size mirror is refreshed before the critical section ends (both rings of a steal)", c.P.Pos(fn.Decl.Pos()),
					"the size of ring '"+b.Name()+"' changes but its sizeAtomic is not stored afterwards: owners and thieves skip the ring as empty while it holds actors; "+f.describe(w))
			}
		}
		if n < 3 {
			c.Undecided("mirror/sites", "size-changing critical sections found", "-", "found "+itoa(n))
		}
		// the global ring's mirror
		gsizeUsers := []*types.Func{c.FuncObj("actor", "globalQueue.push"), c.FuncObj("actor", "globalQueue.pop")}
		gmirror := c.Field("actor", "readyQueue", "globalCount")
		gseen := map[*types.Func]bool{}
		for _, g := range gsizeUsers {
			for _, u := range c.UsesOf(g) {
				if u.Call == nil || u.EnclObj == nil || gseen[u.EnclObj] || !strings.Contains(funcName(u.EnclObj), "readyQueue") {
					continue
				}
				gseen[u.EnclObj] = true
				fn := c.fnOfObj(u.EnclObj)
				f := c.NewFlow(fn)
				// a pop that returned nil changed nothing: the edge on which its result is nil is exempt
				unchanged := map[Edge]bool{}
				ast.Inspect(fn.Decl.Body, func(nd ast.Node) bool {
					as, ok := nd.(*ast.AssignStmt)
					if !ok || len(as.Lhs) != 1 || len(as.Rhs) != 1 {
						return true
					}
					call, ok := as.Rhs[0].(*ast.CallExpr)
					if !ok || callee(f.Info, call) != c.FuncObj("actor", "globalQueue.pop") {
						return true
					}
					res := objOf(f.Info, as.Lhs[0])
					for e := range f.NilCheckEdges(func(x ast.Expr) bool { return res != nil && objOf(f.Info, x) == res }, false) {
						unchanged[e] = true
					}
					return true
				})
				w := f.search(searchSpec{starts: f.Find(f.CallTo(gsizeUsers...)), avoid: f.CallOnField(gmirror, "Store"), avoidEdges: unchanged, exits: true})
				c.Check(w == nil, "global-mirror@"+fn.String(), "after the global ring changed, globalCount is refreshed before the critical section ends", c.P.Pos(fn.Decl.Pos()), f.describe(w))
			}
		}
	})

	c.Rule("condvar", func() {
		pat := c.Func("actor", "readyQueue.parkAndTake")
		f := c.NewFlow(pat)
		condF := c.Field("actor", "readyQueue", "cond")
		wait := f.CallOnField(condF, "Wait")
		waits := f.Find(wait)
		la := f.Locks(nil)
		c.Check(len(waits) == 1, "one-wait", "parkAndTake has a single cond.Wait", c.P.Pos(pat.Decl.Pos()), "")
		for _, a := range waits {
			c.Check(la.At(a)[parkMu] == 2, "wait-under-lock", "cond.Wait is called with parkMu held", c.P.Pos(a.N.Pos()), "")
		}
		closedF := c.Field("actor", "readyQueue", "closed")
		sizeF := c.Field("actor", "globalQueue", "size")
		readOf := func(fld *types.Var) Match {
			return func(n ast.Node) bool { s, ok := n.(*ast.SelectorExpr); return ok && selField(f.Info, s) == fld }
		}
		for _, pr := range []struct {
			name string
			m    Match
		}{{"closed", readOf(closedF)}, {"global.size", readOf(sizeF)}} {
			w := f.MustPrecede(pr.m, nil, wait)
			w2 := f.MayReach(waits, pr.m, wait)
			c.Check(w == nil && w2 == nil, "recheck-"+pr.name, "before every wait (first and after every wake-up) the loop re-reads "+pr.name+" under the lock: no worker parks while work is queued or the queue is closed", c.P.Pos(pat.Decl.Pos()), f.describe(w)+f.describe(w2))
		}
		// parked bookkeeping around Wait
		parkedF := c.Field("actor", "readyQueue", "parked")
		inc := func(n ast.Node) bool {
			s, ok := n.(*ast.IncDecStmt)
			return ok && s.Tok == token.INC && selField(f.Info, s.X) == parkedF
		}
		dec := func(n ast.Node) bool {
			s, ok := n.(*ast.IncDecStmt)
			return ok && s.Tok == token.DEC && selField(f.Info, s.X) == parkedF
		}
		w := f.MustPrecede(inc, nil, wait)
		w2 := f.MustFollow(waits, dec, nil)
		c.Check(w == nil && w2 == nil, "parked-count", "a worker counts itself parked before waiting and un-counts itself after every wake-up", c.P.Pos(pat.Decl.Pos()), f.describe(w)+f.describe(w2))

		push := c.Func("actor", "readyQueue.push")
		pf := c.NewFlow(push)
		gpush := pf.CallTo(c.FuncObj("actor", "globalQueue.push"))
		sig := pf.CallOnField(condF, "Signal")
		w = pf.MustPrecede(gpush, nil, sig)
		pla := pf.Locks(nil)
		okLock := true
		for _, a := range append(pf.Find(gpush), pf.Find(sig)...) {
			if pla.At(a)[parkMu] != 2 {
				okLock = false
			}
		}
		c.Check(w == nil && okLock && len(pf.Find(sig)) == 1, "push: publish≺signal", "push appends to the global ring and then signals, in one critical section", c.P.Pos(push.Decl.Pos()), pf.describe(w))
		// every push path either signals or saw parked == 0
		noPark := pf.EdgesWhere(func(cond ast.Expr) (bool, bool) {
			cm, ok := asCmp(cond, true)
			if ok && selField(pf.Info, cm.L) == parkedF && cm.Op == token.GTR {
				if v, isC := constInt(pf.Info, cm.R); isC && v == 0 {
					return true, false
				}
			}
			return false, false
		})
		w = pf.MustFollow(pf.Find(gpush), sig, noPark)
		c.Check(w == nil && len(noPark) > 0, "push: signal-if-parked", "after publishing, push signals unless it observed that no worker is parked", c.P.Pos(push.Decl.Pos()), pf.describe(w))
		c.LockPairing(push, parkMu)
		c.LockPairing(pat, parkMu)
		c.LockPairing(c.Func("actor", "readyQueue.popGlobal"), parkMu)

		cl := c.Func("actor", "readyQueue.close")
		cf := c.NewFlow(cl)
		setClosed := func(n ast.Node) bool {
			as, ok := n.(*ast.AssignStmt)
			if !ok || len(as.Lhs) != 1 || selField(cf.Info, as.Lhs[0]) != closedF {
				return false
			}
			id, ok := as.Rhs[0].(*ast.Ident)
			return ok && id.Name == "true"
		}
		bc := cf.CallOnField(condF, "Broadcast")
		w = cf.MustPrecede(setClosed, nil, bc)
		cla := cf.Locks(nil)
		okLock = true
		for _, a := range append(cf.Find(setClosed), cf.Find(bc)...) {
			if cla.At(a)[parkMu] != 2 {
				okLock = false
			}
		}
		w2 = cf.ExitReachable(nil, bc, nil, nil)
		c.Check(w == nil && w2 == nil && okLock, "close: closed≺broadcast", "close sets closed and then wakes every parked worker, in one critical section", c.P.Pos(cl.Decl.Pos()), cf.describe(w)+cf.describe(w2))
		c.LockPairing(cl, parkMu)
	})

	c.Rule("steal", func() {
		st := c.Func("actor", "localQueue.stealHalf")
		f := c.NewFlow(st)
		info := f.Info
		lockOrder := c.FuncObj("actor", "lockOrder")
		// q == dst → return dominates everything else
		recv := info.Defs[st.Decl.Recv.List[0].Names[0]]
		dst := info.Defs[st.Decl.Type.Params.List[0].Names[0]]
		same := f.EdgesWhere(func(cond ast.Expr) (bool, bool) {
			cm, ok := asCmp(cond, true)
			if ok && cm.Op == token.EQL && ((objOf(info, cm.L) == recv && objOf(info, cm.R) == dst) || (objOf(info, cm.L) == dst && objOf(info, cm.R) == recv)) {
				return true, false
			}
			return false, false
		})
		lo := f.CallTo(lockOrder)
		w := f.search(searchSpec{avoidEdges: same, target: lo})
		c.Check(w == nil && len(same) > 0, "self-steal-guard", "stealing from oneself returns before any lock is taken (no double lock)", c.P.Pos(st.Decl.Pos()), f.describe(w))
		// both Lock receivers are the two results of one lockOrder call
		var first, second types.Object
		ast.Inspect(st.Decl.Body, func(n ast.Node) bool {
			if as, ok := n.(*ast.AssignStmt); ok && len(as.Lhs) == 2 && len(as.Rhs) == 1 {
				if call, ok := as.Rhs[0].(*ast.CallExpr); ok && callee(info, call) == lockOrder {
					first, second = info.ObjectOf(as.Lhs[0].(*ast.Ident)), info.ObjectOf(as.Lhs[1].(*ast.Ident))
					args := map[types.Object]bool{objOf(info, call.Args[0]): true, objOf(info, call.Args[1]): true}
					if !(args[recv] && args[dst]) {
						first = nil
					}
				}
			}
			return true
		})
		var order []types.Object
		for _, a := range f.Find(func(n ast.Node) bool {
			call, ok := n.(*ast.CallExpr)
			if !ok {
				return false
			}
			fv, d := lockOp(info, call)
			return fv != nil && d == 2
		}) {
			if a.Deferred {
				continue
			}
			sel := a.N.(*ast.CallExpr).Fun.(*ast.SelectorExpr)
			order = append(order, objOf(info, sel.X.(*ast.SelectorExpr).X))
		}
		c.Check(first != nil && len(order) == 2 && order[0] == first && order[1] == second, "lock-order", "both queue locks are taken in the global order computed by lockOrder(q, dst)", c.P.Pos(st.Decl.Pos()), "locks are not taken as (first, second) := lockOrder(q, dst)")
		// lockOrder is a total order on addresses
		lof := c.Func("actor", "lockOrder")
		okLO := false
		ast.Inspect(lof.Decl.Body, func(n ast.Node) bool {
			if be, ok := n.(*ast.BinaryExpr); ok && be.Op == token.LSS {
				okLO = true
			}
			return true
		})
		c.Check(okLO, "lockOrder-total", "lockOrder orders the two queues by address", c.P.Pos(lof.Decl.Pos()), "")
	})

	c.Rule("ring", func() {
		type ringFn struct {
			name, typ string
			insert    bool
		}
		for _, r := range []ringFn{{"localQueue.pushBack", "localQueue", true}, {"localQueue.popFront", "localQueue", false}, {"globalQueue.push", "globalQueue", true}, {"globalQueue.pop", "globalQueue", false}, {"localQueue.stealHalf", "localQueue", false}} {
			fn := c.Func("actor", r.name)
			f := c.NewFlow(fn)
			info := f.Info
			buf := c.Field("actor", r.typ, "buf")
			size := c.Field("actor", r.typ, "size")
			idxF := c.Field("actor", r.typ, "head")
			if r.insert {
				idxF = c.Field("actor", r.typ, "tail")
			}
			// per block: count slot ops, index advances and size updates; they must come in equal numbers and in the same block
			okAll, blocks := true, 0
			for _, b := range f.G.Blocks {
				if !b.Live {
					continue
				}
				var slotClr, slotSet, adv, szInc, szDec int
				for _, n := range b.Nodes {
					switch x := n.(type) {
					case *ast.AssignStmt:
						for i, l := range x.Lhs {
							if ix, ok := l.(*ast.IndexExpr); ok && selField(info, ix.X) == buf {
								if i < len(x.Rhs) && isNilIdent(info, x.Rhs[i]) {
									slotClr++
								} else {
									slotSet++
								}
							}
							if selField(info, l) == idxF {
								adv++
							}
						}
					case *ast.IncDecStmt:
						if selField(info, x.X) == size {
							if x.Tok == token.INC {
								szInc++
							} else {
								szDec++
							}
						}
					}
				}
				if slotClr+slotSet+adv+szInc+szDec == 0 {
					continue
				}
				blocks++
				if r.insert {
					if !(slotSet == 1 && adv == 1 && szInc == 1 && szDec == 0 && slotClr == 0) {
						okAll = false
					}
				} else if r.name == "localQueue.stealHalf" {
					// removal from q (clear, head advance, size--) possibly paired with an insertion into dst
					if !(slotClr == 1 && szDec == 1 && adv == 1 && (slotSet == 0 && szInc == 0 || slotSet == 1 && szInc == 1)) {
						okAll = false
					}
				} else {
					if !(slotClr == 1 && adv == 1 && szDec == 1 && szInc == 0 && slotSet == 0) {
						okAll = false
					}
				}
			}
			what := "removal = read slot, clear slot, advance head, size-- in one straight-line block"
			if r.insert {
				what = "insertion = write slot, advance tail, size++ in one straight-line block"
			}
			c.Check(okAll && blocks >= 1, fn.String(), "ring update is all-or-nothing: "+what+" (an element is never duplicated or dropped by a partial update)", c.P.Pos(fn.Decl.Pos()), "a block updates the ring partially")
		}
		// stealHalf: the loop stops when dst is full before moving the element
		st := c.Func("actor", "localQueue.stealHalf")
		hasBreak := false
		ast.Inspect(st.Decl.Body, func(n ast.Node) bool {
			if fs, ok := n.(*ast.ForStmt); ok {
				if len(fs.Body.List) > 0 {
					if ifs, ok := fs.Body.List[0].(*ast.IfStmt); ok {
						for _, s := range ifs.Body.List {
							if br, ok := s.(*ast.BranchStmt); ok && br.Tok == token.BREAK {
								hasBreak = true
							}
						}
					}
				}
			}
			return true
		})
		c.Check(hasBreak, "stealHalf/full-check-first", "the steal loop tests the thief's capacity before moving an element (no overwrite of a queued actor)", c.P.Pos(st.Decl.Pos()), "capacity test is not the first statement of the loop body")
		// pushBack reports false without touching the ring when full
		pb := c.Func("actor", "localQueue.pushBack")
		pf := c.NewFlow(pb)
		full := pf.EdgesWhere(func(cond ast.Expr) (bool, bool) {
			cm, ok := asCmp(cond, true)
			if ok && cm.Op == token.EQL && selField(pf.Info, cm.L) != nil && selField(pf.Info, cm.L).Name() == "size" {
				return true, true
			}
			return false, false
		})
		w := pf.AfterEdgesMayReach(full, nil, nil, func(n ast.Node) bool {
			as, ok := n.(*ast.AssignStmt)
			if !ok {
				return false
			}
			_, isIdx := as.Lhs[0].(*ast.IndexExpr)
			return isIdx
		})
		c.Check(w == nil && len(full) > 0, "pushBack/full⇒false", "a full local ring rejects the push without writing (the caller spills to the global queue)", c.P.Pos(pb.Decl.Pos()), pf.describe(w))
		pl := c.Func("actor", "readyQueue.pushLocal")
		plf := c.NewFlow(pl)
		rej := plf.CondEdges(exprMatch(plf.CallTo(pb.Obj)), false)
		w = plf.AfterEdgesMustPass(rej, plf.CallTo(c.FuncObj("actor", "readyQueue.push")), nil)
		c.Check(w == nil && len(rej) > 0, "pushLocal/spill", "a rejected local push always spills to the global queue (the actor is never dropped)", c.P.Pos(pl.Decl.Pos()), plf.describe(w))
	})

	c.Rule("take", func() {
		tk := c.Func("actor", "readyQueue.take")
		f := c.NewFlow(tk)
		pat := f.CallTo(c.FuncObj("actor", "readyQueue.parkAndTake"))
		// returns with false only after parkAndTake
		retFalse := func(n ast.Node) bool {
			r, ok := n.(*ast.ReturnStmt)
			if !ok || len(r.Results) != 2 {
				return false
			}
			id, ok := r.Results[1].(*ast.Ident)
			return ok && id.Name == "false"
		}
		w := f.MustPrecede(pat, nil, retFalse)
		c.Check(w == nil && len(f.Find(retFalse)) == 1, "closed-only-from-park", "take reports 'closed' only after parkAndTake did", c.P.Pos(tk.Decl.Pos()), f.describe(w))
		// parkAndTake returns false only on the closed edge
		p := c.Func("actor", "readyQueue.parkAndTake")
		pf := c.NewFlow(p)
		closedF := c.Field("actor", "readyQueue", "closed")
		closedEdge := pf.CondEdges(func(e ast.Expr) bool { return selField(pf.Info, e) == closedF }, true)
		w = pf.search(searchSpec{avoidEdges: closedEdge, target: retFalse})
		c.Check(w == nil && len(closedEdge) > 0, "park-false-only-if-closed", "parkAndTake reports false only when the queue is closed", c.P.Pos(p.Decl.Pos()), pf.describe(w))
		// every non-false return of take returns a non-nil item: returns (s, true) only under s != nil
		// worker.run exits only on !ok
		wr := c.Func("actor", "worker.run")
		wf := c.NewFlow(wr)
		takeFn := c.FuncObj("actor", "readyQueue.take")
		takeOK := map[types.Object]bool{} // the boolean result of take (second value of the define)
		ast.Inspect(wr.Decl.Body, func(n ast.Node) bool {
			if as, ok := n.(*ast.AssignStmt); ok && len(as.Lhs) == 2 && len(as.Rhs) == 1 {
				if call, ok := as.Rhs[0].(*ast.CallExpr); ok && callee(wf.Info, call) == takeFn {
					if id, ok := as.Lhs[1].(*ast.Ident); ok {
						takeOK[wf.Info.ObjectOf(id)] = true
					}
				}
			}
			return true
		})
		notOK := wf.EdgesWhere(func(cond ast.Expr) (bool, bool) {
			if id, ok := cond.(*ast.Ident); ok && takeOK[wf.Info.ObjectOf(id)] {
				return true, false
			}
			return false, false
		})
		w = wf.ExitReachable(nil, nil, notOK, nil)
		c.Check(w == nil && len(notOK) > 0, "worker-exits-only-when-closed", "a dispatcher worker leaves its loop only when take reports the queue closed", c.P.Pos(wr.Decl.Pos()), wf.describe(w))
	})
}
