package main

import (
	"fmt"
	"go/token"
	"go/types"
	"strings"

	"golang.org/x/tools/go/ssa"
)

// E8 purity / freshness on go/ssa. A value is "input-owned" when it may alias
// memory reachable from a designated parameter (receiver, argument). The
// analysis is flow-insensitive inside a function (SSA values are immutable) and
// uses per-function summaries for first-party callees, computed to a fixpoint:
//   mutates[i]  – the callee may write through parameter i
//   aliases[i]  – the callee may return something that aliases parameter i

type pureSummary struct {
	mutates map[int]bool
	aliases map[int]bool
}

type pureEngine struct {
	c    *Ctx
	sums map[*ssa.Function]*pureSummary
	work map[*ssa.Function]bool
}

func newPureEngine(c *Ctx) *pureEngine {
	return &pureEngine{c: c, sums: map[*ssa.Function]*pureSummary{}, work: map[*ssa.Function]bool{}}
}

func isRefType(t types.Type) bool {
	switch t.Underlying().(type) {
	case *types.Pointer, *types.Map, *types.Slice, *types.Interface, *types.Chan, *types.Signature:
		return true
	}
	return false
}

type pureFinding struct {
	pos  token.Pos
	what string
}

// analyse computes, for fn, the set of values owned by the given parameters and
// reports mutations through them and aliasing of them into fresh results.
func (e *pureEngine) analyse(fn *ssa.Function, params map[int]bool, report bool) (sum *pureSummary, findings []pureFinding, returnsParam map[ssa.Value]bool) {
	owner := map[ssa.Value]int{} // value -> param index it may alias
	for i, p := range fn.Params {
		if params[i] {
			owner[p] = i
		}
	}
	sum = &pureSummary{mutates: map[int]bool{}, aliases: map[int]bool{}}
	own := func(v ssa.Value) (int, bool) {
		i, ok := owner[v]
		return i, ok
	}
	changed := true
	set := func(v ssa.Value, i int) {
		if _, ok := owner[v]; !ok {
			owner[v] = i
			changed = true
		}
	}
	for changed {
		changed = false
		for _, b := range fn.Blocks {
			for _, ins := range b.Instrs {
				v, isVal := ins.(ssa.Value)
				if !isVal {
					continue
				}
				switch x := ins.(type) {
				case *ssa.TypeAssert:
					if i, ok := own(x.X); ok {
						set(v, i)
					}
				case *ssa.Extract:
					if i, ok := own(x.Tuple); ok && isRefType(x.Type()) {
						set(v, i)
					}
				case *ssa.FieldAddr:
					if i, ok := own(x.X); ok {
						set(v, i)
					}
				case *ssa.Field:
					if i, ok := own(x.X); ok && isRefType(x.Type()) {
						set(v, i)
					}
				case *ssa.IndexAddr:
					if i, ok := own(x.X); ok {
						set(v, i)
					}
				case *ssa.Index:
					if i, ok := own(x.X); ok && isRefType(x.Type()) {
						set(v, i)
					}
				case *ssa.Lookup:
					if i, ok := own(x.X); ok {
						t := x.Type()
						if tup, isTup := t.(*types.Tuple); isTup {
							t = tup.At(0).Type()
							_ = t
							set(v, i)
						} else if isRefType(t) {
							set(v, i)
						}
					}
				case *ssa.UnOp:
					if x.Op == token.MUL {
						if i, ok := own(x.X); ok && isRefType(x.Type()) {
							set(v, i)
						}
					}
				case *ssa.Phi:
					for _, ed := range x.Edges {
						if i, ok := own(ed); ok {
							set(v, i)
						}
					}
				case *ssa.Slice:
					if i, ok := own(x.X); ok {
						set(v, i)
					}
				case *ssa.ChangeType:
					if i, ok := own(x.X); ok {
						set(v, i)
					}
				case *ssa.ChangeInterface:
					if i, ok := own(x.X); ok {
						set(v, i)
					}
				case *ssa.MakeInterface:
					if i, ok := own(x.X); ok && isRefType(x.X.Type()) {
						set(v, i)
					}
				case *ssa.Convert:
					if i, ok := own(x.X); ok && isRefType(x.Type()) {
						// []byte(string) etc. copy; slice<->slice conversions keep the array: be conservative only for slices
						if _, isSl := x.Type().Underlying().(*types.Slice); isSl {
							if _, srcSl := x.X.Type().Underlying().(*types.Slice); srcSl {
								set(v, i)
							}
						}
					}
				case *ssa.Range:
					if i, ok := own(x.X); ok {
						set(v, i)
					}
				case *ssa.Next:
					if i, ok := own(x.Iter); ok {
						set(v, i)
					}
				case *ssa.Call:
					// result aliases an argument when the callee says so
					for ai, arg := range x.Call.Args {
						i, ok := own(arg)
						if !ok {
							continue
						}
						if e.calleeAliases(x, ai) && isRefOrTuple(x.Type()) {
							set(v, i)
						}
					}
					if bi, ok := x.Call.Value.(*ssa.Builtin); ok && bi.Name() == "append" && len(x.Call.Args) > 0 {
						if i, ok := own(x.Call.Args[0]); ok {
							set(v, i)
						}
					}
				}
			}
		}
	}
	add := func(pos token.Pos, format string, a ...any) {
		if report {
			findings = append(findings, pureFinding{pos, fmt.Sprintf(format, a...)})
		}
	}
	returnsParam = map[ssa.Value]bool{}
	for _, b := range fn.Blocks {
		for _, ins := range b.Instrs {
			switch x := ins.(type) {
			case *ssa.Store:
				if i, ok := own(x.Addr); ok {
					sum.mutates[i] = true
					add(x.Pos(), "store through input %s", paramName(fn, i))
				} else if j, ok := own(x.Val); ok && isContainerType(x.Val.Type()) && !isLocalAlloc(x.Addr) {
					// an input's container is placed into (possibly fresh) memory that escapes
					add(x.Pos(), "a container owned by input %s is stored into the result (aliasing: a later mutation of either side changes the other)", paramName(fn, j))
					sum.aliases[j] = true
				}
			case *ssa.MapUpdate:
				if i, ok := own(x.Map); ok {
					sum.mutates[i] = true
					add(x.Pos(), "map update on a map owned by input %s", paramName(fn, i))
				} else if j, ok := own(x.Value); ok && isContainerType(x.Value.Type()) {
					add(x.Pos(), "a container owned by input %s is placed into the result map without copying", paramName(fn, j))
					sum.aliases[j] = true
				}
			case *ssa.Call:
				e.checkCall(fn, x, owner, sum, add)
			case *ssa.Defer:
				_ = x
			case *ssa.Return:
				for _, r := range x.Results {
					if isMismatchReceiverReturn(fn, b, r) {
						continue // "return the receiver unchanged when the operand has another type": excluded (stated assumption)
					}
					if i, ok := own(r); ok {
						sum.aliases[i] = true
						returnsParam[r] = true
					}
				}
			}
		}
	}
	return sum, findings, returnsParam
}

// isContainerType: a mutable container or object (map, slice, pointer, non-empty
// interface). Opaque payloads of type any are treated as immutable values.
func isContainerType(t types.Type) bool {
	switch u := t.Underlying().(type) {
	case *types.Pointer, *types.Map, *types.Slice:
		return true
	case *types.Interface:
		return u.NumMethods() > 0
	}
	return false
}

func isMismatchReceiverReturn(fn *ssa.Function, b *ssa.BasicBlock, r ssa.Value) bool {
	if fn.Signature.Recv() == nil || len(fn.Params) == 0 {
		return false
	}
	src := r
	if mi, ok := r.(*ssa.MakeInterface); ok {
		src = mi.X
	}
	return src == ssa.Value(fn.Params[0]) && reachedOnlyWhenAssertFails(b)
}

func isRefOrTuple(t types.Type) bool {
	if tup, ok := t.(*types.Tuple); ok {
		for i := 0; i < tup.Len(); i++ {
			if isRefType(tup.At(i).Type()) {
				return true
			}
		}
		return false
	}
	return isRefType(t)
}

// isLocalAlloc: the address is a non-escaping local slot (a spilled variable), not heap state.
func isLocalAlloc(v ssa.Value) bool {
	a, ok := v.(*ssa.Alloc)
	return ok && !a.Heap
}

func paramName(fn *ssa.Function, i int) string {
	if i < len(fn.Params) {
		return fn.Params[i].Name()
	}
	return fmt.Sprintf("#%d", i)
}

func (e *pureEngine) summary(fn *ssa.Function) *pureSummary {
	if s, ok := e.sums[fn]; ok {
		return s
	}
	// optimistic initial summary, refined below (recursion-safe)
	e.sums[fn] = &pureSummary{mutates: map[int]bool{}, aliases: map[int]bool{}}
	all := map[int]bool{}
	for i := range fn.Params {
		all[i] = true
	}
	// per-parameter analysis so that effects are attributed to the right parameter
	res := &pureSummary{mutates: map[int]bool{}, aliases: map[int]bool{}}
	for i := range fn.Params {
		s, _, _ := e.analyse(fn, map[int]bool{i: true}, false)
		if s.mutates[i] {
			res.mutates[i] = true
		}
		if s.aliases[i] {
			res.aliases[i] = true
		}
	}
	e.sums[fn] = res
	return res
}

// calleeAliases: may the call's result alias argument ai?
func (e *pureEngine) calleeAliases(call *ssa.Call, ai int) bool {
	if _, ok := call.Call.Value.(*ssa.Builtin); ok {
		return false
	}
	if call.Call.IsInvoke() {
		// interface method: Clone() is the documented deep copy; other interface calls conservatively alias their receiver
		switch call.Call.Method.Name() {
		case "Clone", "Merge", "Delta":
			// ReplicatedData contract, decided for every implementor by this same rule
			return false
		}
		return true
	}
	fn := call.Call.StaticCallee()
	if fn == nil {
		return true
	}
	if fn.Blocks == nil {
		// body-less (std / third party): known copies
		switch fn.String() {
		case "maps.Clone", "slices.Clone", "strings.Clone", "bytes.Clone":
			return false
		}
		if fn.Pkg != nil {
			switch fn.Pkg.Pkg.Path() {
			case "fmt", "strings", "strconv", "time", "math", "errors", "sort", "maps", "slices", "cmp":
				return false
			}
		}
		return true
	}
	return e.summary(fn).aliases[ai]
}

func (e *pureEngine) checkCall(fn *ssa.Function, call *ssa.Call, owner map[ssa.Value]int, sum *pureSummary, add func(token.Pos, string, ...any)) {
	args := call.Call.Args
	if bi, ok := call.Call.Value.(*ssa.Builtin); ok {
		switch bi.Name() {
		case "delete", "clear":
			if i, ok := owner[args[0]]; ok {
				sum.mutates[i] = true
				add(call.Pos(), "%s on a container owned by input %s", bi.Name(), paramName(fn, i))
			}
		case "append":
			if i, ok := owner[args[0]]; ok {
				sum.mutates[i] = true
				add(call.Pos(), "append onto a slice owned by input %s may write into its backing array", paramName(fn, i))
			}
		case "copy":
			if i, ok := owner[args[0]]; ok {
				sum.mutates[i] = true
				add(call.Pos(), "copy into a slice owned by input %s", paramName(fn, i))
			}
		}
		return
	}
	if call.Call.IsInvoke() {
		recv := call.Call.Value
		if i, ok := owner[recv]; ok {
			switch call.Call.Method.Name() {
			case "Clone", "Merge", "Delta", "Value", "Len", "String", "Contains", "Elements", "Get", "Keys", "Values", "ID", "Type":
			default:
				sum.mutates[i] = true
				add(call.Pos(), "interface method %s called on a value owned by input %s (may mutate)", call.Call.Method.Name(), paramName(fn, i))
			}
		}
		return
	}
	callee := call.Call.StaticCallee()
	if callee == nil {
		return
	}
	if callee.Blocks == nil {
		name := callee.String()
		mut0 := name == "maps.Copy" || strings.HasPrefix(name, "sort.") || strings.HasPrefix(name, "slices.Sort") || name == "slices.Reverse" || name == "maps.DeleteFunc"
		if mut0 && len(args) > 0 {
			if i, ok := owner[args[0]]; ok {
				sum.mutates[i] = true
				add(call.Pos(), "%s writes into a container owned by input %s", name, paramName(fn, i))
			}
		}
		return
	}
	cs := e.summary(callee)
	for ai, arg := range args {
		if i, ok := owner[arg]; ok && cs.mutates[ai] {
			sum.mutates[i] = true
			add(call.Pos(), "%s mutates its argument %d, which is owned by input %s", ssaName(callee), ai, paramName(fn, i))
		}
	}
}
