package main

import (
	"go/ast"
	"go/types"

	"golang.org/x/tools/go/ssa"
)

func init() {
	register(&propDef{
		id: "C31", title: "Grain activations are ordered and single-threaded",
		technique: "who-may-call + CFG ordering (OnActivate success ≺ activated flag; drop when inactive), call-graph confinement of OnDeactivate to the grain's own turn, guard dominance for once-only deactivation",
		explanation: "Decides: (1) Grain.OnActivate is invoked only in grainPID.activate; the activated flag is set only after OnActivate returned without error; receive drops messages while the grain is not active, so no OnReceive precedes activation; (2) Grain.OnReceive is invoked only on the grain's turn (C01); (3) Grain.OnDeactivate is invoked only in grainPID.deactivate; deactivate is reached either on the grain's own turn (poison pill, passivation pill) or is reported: every entry point that reaches it off-turn is a way OnDeactivate can overlap an OnReceive of the same activation; (4) once: the pill handlers test isActive before deactivating, and deactivate clears the activated flag in its deferred tail on every exit; (5) fresh instance afterwards: the slow path re-activates an existing process that is no longer active. Added after seed C31a: the activated/onPoisonPill fences are lowered only after OnDeactivate returned.",
		assumptions: []string{"overlap freedom on the paths listed as known findings", "the grain registry interplay across nodes (C30)"},
		minObl:     16,
		run:        runC31,
	})
}

func runC31(c *Ctx) {
	onAct := c.FuncObj("actor", "Grain.OnActivate")
	onDeact := c.FuncObj("actor", "Grain.OnDeactivate")
	activate := c.Func("actor", "grainPID.activate")
	deactivate := c.Func("actor", "grainPID.deactivate")
	activated := c.Field("actor", "grainPID", "activated")

	runtimeOnly := func(target *types.Func, allowed string, key string) {
		n := 0
		for _, u := range c.UsesOf(target) {
			if relPkg(u.Pkg.PkgPath) != "actor" {
				continue
			}
			n++
			c.Check(funcName(u.EnclObj) == allowed, key+"<-"+u.EnclName(), "the hook is invoked only from "+allowed, u.Where(c.P), "invoked in "+u.EnclName())
		}
		if n == 0 {
			c.Undecided(key+"/none", "hook invocation exists", "-", "")
		}
	}

	c.Rule("activate", func() {
		runtimeOnly(onAct, "actor.(*grainPID).activate", "OnActivate")
		f := c.NewFlow(activate)
		setActive := func(n ast.Node) bool {
			call, ok := n.(*ast.CallExpr)
			if !ok || !f.CallOnField(activated, "Store")(call) {
				return false
			}
			id, ok := call.Args[0].(*ast.Ident)
			return ok && id.Name == "true"
		}
		sa := f.Find(setActive)
		if len(sa) == 0 {
			c.Fail("activate: activated.Store(true) not found")
		}
		// OnActivate sits inside the retrier literal; the retrier call's error edge must not reach Store(true)
		run := func(n ast.Node) bool {
			call, ok := n.(*ast.CallExpr)
			if !ok {
				return false
			}
			cal := callee(f.Info, call)
			return cal != nil && (cal.Name() == "RunContext" || cal.Name() == "Run") && cal.Pkg() != nil && cal.Pkg().Path() == "github.com/flowchartsman/retry"
		}
		w := f.MustPrecede(run, nil, setActive)
		c.Check(w == nil && len(f.Find(f.CallTo(onAct))) == 1, "OnActivate≺active", "the grain is marked active only after the OnActivate retrier returned", c.P.Pos(activate.Decl.Pos()), f.describe(w))
		fail, n := f.ErrEdgesOf(run, true)
		w = f.AfterEdgesMayReach(fail, nil, nil, setActive)
		c.Check(n == 1 && w == nil && len(fail) > 0, "failed-OnActivate⇏active", "a failed OnActivate never marks the grain active", c.P.Pos(activate.Decl.Pos()), f.describe(w))
		c.onlyOnSuccess(f, run, setActive, "active-only-after-successful-OnActivate", "the grain is marked active only over the edge on which OnActivate succeeded", c.P.Pos(activate.Decl.Pos()))
		// who sets the flag to true
		for _, u := range c.UsesOf(activated) {
			if u.Sel == nil || len(u.Path) < 3 {
				continue
			}
			sel, ok := u.Path[len(u.Path)-2].(*ast.SelectorExpr)
			if !ok || sel.Sel.Name != "Store" {
				continue
			}
			call, ok := u.Path[len(u.Path)-3].(*ast.CallExpr)
			if !ok || len(call.Args) != 1 {
				continue
			}
			if id, ok := call.Args[0].(*ast.Ident); ok && id.Name == "true" {
				c.Check(u.EnclObj == activate.Obj, "activated=true@"+u.EnclName(), "only activate marks a grain active", u.Where(c.P), "set in "+u.EnclName())
			}
		}
		// receive drops when inactive
		rc := c.Func("actor", "grainPID.receive")
		rf := c.NewFlow(rc)
		enq := rf.CallTo(c.FuncObj("actor", "grainMailbox.Enqueue"))
		act := rf.CondEdges(func(e ast.Expr) bool {
			call, ok := e.(*ast.CallExpr)
			if !ok {
				return false
			}
			cal := callee(rf.Info, call)
			return cal != nil && cal.Name() == "isActive"
		}, true)
		w = rf.search(searchSpec{avoidEdges: act, target: enq})
		c.Check(w == nil && len(act) > 0, "receive/active-only", "a message is enqueued only for an active grain (no OnReceive before OnActivate completed)", c.P.Pos(rc.Decl.Pos()), rf.describe(w))
	})

	c.Rule("deactivate", func() {
		runtimeOnly(onDeact, "actor.(*grainPID).deactivate", "OnDeactivate")
		f := c.NewFlow(deactivate)
		clr := func(n ast.Node) bool {
			call, ok := n.(*ast.CallExpr)
			if !ok || !f.CallOnField(activated, "Store")(call) {
				return false
			}
			id, ok := call.Args[0].(*ast.Ident)
			return ok && id.Name == "false"
		}
		w := f.ExitReachable(nil, clr, nil, nil)
		c.Check(w == nil, "clears-active-on-every-exit", "deactivate clears the activated flag on every exit (a second deactivation request finds the grain inactive)", c.P.Pos(deactivate.Decl.Pos()), f.describe(w))
		// the flags that fence a second deactivation off (activated, onPoisonPill) are lowered only after OnDeactivate
		// returned: cleared earlier, a passivation firing already in flight passes its guard and runs OnDeactivate again
		onDeactCall := f.CallTo(onDeact)
		for _, fld := range []string{"activated", "onPoisonPill"} {
			fv := c.Field("actor", "grainPID", fld)
			lower := func(n ast.Node) bool {
				call, ok := n.(*ast.CallExpr)
				if !ok || !f.CallOnField(fv, "Store")(call) || len(call.Args) != 1 {
					return false
				}
				id, ok := call.Args[0].(*ast.Ident)
				return ok && id.Name == "false"
			}
			early := ""
			for _, a := range f.Find(lower) {
				if a.Deferred {
					continue
				}
				if w := f.search(searchSpec{avoid: onDeactCall, target: func(n ast.Node) bool { return n == a.N }}); w != nil {
					early = c.P.Pos(a.N.Pos())
				}
			}
			c.Check(early == "" && len(f.Find(lower)) > 0, "fence-lowered-after-hook/"+fld, "the "+fld+" flag is lowered only after OnDeactivate returned (deferred cleanup), so a deactivation request arriving meanwhile is refused", c.P.Pos(deactivate.Decl.Pos()), fld+" is cleared at "+early+" before OnDeactivate runs")
		}
		for _, name := range []string{"grainPID.handlePoisonPill", "grainPID.handlePassivationPill", "grainPID.passivationTry"} {
			fn := c.Func("actor", name)
			ff := c.NewFlow(fn)
			d := ff.CallTo(deactivate.Obj)
			if len(ff.Find(d)) == 0 {
				continue
			}
			act := ff.CondEdges(func(e ast.Expr) bool {
				call, ok := e.(*ast.CallExpr)
				if !ok {
					return false
				}
				cal := callee(ff.Info, call)
				return cal != nil && cal.Name() == "isActive"
			}, true)
			w := ff.search(searchSpec{avoidEdges: act, target: d})
			c.Check(w == nil && len(act) > 0, fn.String()+"/active≺deactivate", "deactivation is attempted only for a grain that is still active (exactly once per activation)", c.P.Pos(fn.Decl.Pos()), ff.describe(w))
		}
	})

	c.Rule("confine", func() {
		var targets []*ssa.Function
		for _, s := range c.CallsWhere(func(info *types.Info, call *ast.CallExpr) bool { return callee(info, call) == onDeact }) {
			if relPkg(s.Pkg) == "actor" {
				targets = append(targets, c.siteSSA(s))
			}
		}
		gates := map[*ssa.Function]bool{c.SSA(c.Func("actor", "grainPID.runTurn")): true}
		markers := map[*ssa.Function]string{
			c.SSA(c.Func("actor", "actorSystem.finalizeGrainActivation")): "activation rollback on the activating goroutine, after x.grains.Set made the active instance reachable by the send fast path",
		}
		c.Confine(confineSpec{key: "OnDeactivate", rule: "OnDeactivate runs on the grain's own dispatcher turn (so it cannot overlap an OnReceive of the same activation)", targets: targets, gates: gates, exportedAreRoots: true, markers: markers})
	})

	c.Rule("fresh-instance", func() {
		fn := c.Func("actor", "actorSystem.ensureExistingGrainProcess")
		f := c.NewFlow(fn)
		inactive := f.CondEdges(func(e ast.Expr) bool {
			call, ok := e.(*ast.CallExpr)
			if !ok {
				return false
			}
			cal := callee(f.Info, call)
			return cal != nil && cal.Name() == "isActive"
		}, false)
		retOK := func(n ast.Node) bool {
			r, ok := n.(*ast.ReturnStmt)
			return ok && len(r.Results) == 2 && isNilIdent(f.Info, r.Results[1]) && !isNilIdent(f.Info, r.Results[0])
		}
		w := f.search(searchSpec{startEdges: edgesList(inactive), avoid: f.CallTo(activate.Obj), target: retOK})
		c.Check(w == nil && len(inactive) > 0, "inactive⇒reactivate", "an existing but inactive grain process is activated again before it is handed out (a message after deactivation reaches a fresh activation)", c.P.Pos(fn.Decl.Pos()), f.describe(w))
	})
}
