package main

import (
	"go/token"
	"go/ast"
	"go/types"
)

func init() {
	register(&propDef{
		id: "C10", title: "Each watcher receives exactly one Terminated for a watched actor",
		technique: "who-may-construct/who-may-call, per-iteration CFG rule on the notification loop, symmetric-update rule on the watch relation, lockset",
		explanation: "Decides: (1) Terminated messages are constructed only in freeWatchers (local and remote watcher loops) and by the wire deserializer; freeWatchers is called from exactly one site, inside doStop, after PostStop, and doStop runs at most once per incarnation (runningState test under stopLocker, C06); (2) in the local loop every iteration tells Terminated to the watcher at most once, only when the watcher is running, and un-watches it right after, so a second pass would not find it; the loop ranges over the snapshot returned by tree.watchers; the remote loop sends one RemoteTell per remote watcher address; (3) tree.watchers returns a freshly allocated snapshot built under the read lock; addWatcher/removeWatcher update both directions of the watch relation (watchers of the watchee, watchees of the watcher) in one critical section. Added after seed C10a: for a local watchee UnWatch always removes the watch relation, independent of the watchee's state. Added after seed C10b (dual of tell-only-if-running): an iteration of the local loop ends without a Tell only over the edge on which the watcher was found not running — no other skip. Added with F25 (the 'by any path' clause): once PostStop was invoked every exit of doStop, the one on which the hook returned an error included, has called freeWatchers. The exit on which stopping the children failed (before PostStop) is not covered.",
		assumptions: []string{"Watch/UnWatch racing the snapshot taken by freeWatchers", "delivery of the Terminated message itself (mailbox properties C02/C04)"},
		minObl:     23,
		run:        runC10,
	})
}

func runC10(c *Ctx) {
	newTerm := c.FuncObj("actor", "NewTerminated")
	fw := c.Func("actor", "PID.freeWatchers")
	c.Rule("who", func() {
		for _, u := range c.UsesOf(newTerm) {
			if relPkg(u.Pkg.PkgPath) != "actor" {
				c.Ok("NewTerminated/outside="+u.EnclName(), "construction outside the runtime (test kit) does not notify watchers of a PID", u.Where(c.P))
				continue
			}
			name := funcName(u.EnclObj)
			ok := name == "actor.(*PID).freeWatchers" || name == "actor.(*terminatedSerializer).Deserialize" || name == "actor.(*terminatedSerializer).decode" || name == "actor.decodeTerminated"
			c.Check(ok, "NewTerminated<-"+u.EnclName(), "Terminated is constructed only by freeWatchers and the wire deserializer", u.Where(c.P), "constructed in "+name)
		}
		// composite literals of Terminated outside messages.go constructor
		term := c.Named("actor", "Terminated")
		for _, pk := range c.P.Pkgs {
			if relPkg(pk.PkgPath) != "actor" {
				continue
			}
			for _, file := range pk.Syntax {
				for _, d := range file.Decls {
					fd, ok := d.(*ast.FuncDecl)
					if !ok || fd.Body == nil {
						continue
					}
					ast.Inspect(fd.Body, func(n ast.Node) bool {
						cl, ok := n.(*ast.CompositeLit)
						if !ok {
							return true
						}
						t := pk.TypesInfo.TypeOf(cl)
						if t != nil && types.Identical(types.Unalias(t), term) {
							okFn := fd.Name.Name == "NewTerminated" || fd.Name.Name == "Deserialize" || fd.Name.Name == "pruneRemoteWatchesForHost"
							c.Check(okFn, "literal@"+fd.Name.Name, "Terminated values are built only by NewTerminated, the wire deserializer, and the node-left sweep that synthesises them for remote watchees of a departed host", c.P.Pos(cl.Pos()), "Terminated literal in "+fd.Name.Name)
						}
						return true
					})
				}
			}
		}
		c.WhoMayCall("who", fw.Obj, map[string]string{"actor.(*PID).doStop": "after PostStop, once per stop"})
		n := 0
		for _, u := range c.UsesOf(fw.Obj) {
			if u.Call != nil {
				n++
			}
		}
		c.Check(n == 1, "one-call-site", "freeWatchers has exactly one call site", c.P.Pos(fw.Decl.Pos()), "")
		// "by any path": once PostStop was invoked the incarnation is gone (doStop's deferred cleanup lowers
		// runningState and resets it on every exit), so every exit after PostStop — the one on which the hook
		// returned an error included — has told the watchers (F25)
		ds := c.Func("actor", "PID.doStop")
		df := c.NewFlow(ds)
		ps := df.Find(df.CallTo(c.FuncObj("actor", "Actor.PostStop")))
		if len(ps) == 0 {
			c.Undecided("doStop/PostStop⇒◇freeWatchers", "after PostStop every exit of doStop has notified the watchers", c.P.Pos(ds.Decl.Pos()), "PostStop invocation not located in doStop's flow")
		} else {
			w := df.MustFollow(ps, df.CallTo(fw.Obj), nil)
			c.Check(w == nil, "doStop/PostStop⇒◇freeWatchers", "after PostStop was invoked every exit of doStop — also the one on which the hook failed — has notified the watchers", c.P.Pos(ds.Decl.Pos()), df.describe(w))
		}
	})

	c.Rule("local-loop", func() {
		info := fw.Info()
		watchers := c.FuncObj("actor", "tree.watchers")
		var snap types.Object
		var rng *ast.RangeStmt
		ast.Inspect(fw.Decl.Body, func(n ast.Node) bool {
			if as, ok := n.(*ast.AssignStmt); ok && len(as.Rhs) == 1 {
				if call, ok := as.Rhs[0].(*ast.CallExpr); ok && callee(info, call) == watchers {
					snap = info.ObjectOf(as.Lhs[0].(*ast.Ident))
				}
			}
			if r, ok := n.(*ast.RangeStmt); ok && snap != nil && objOf(info, r.X) == snap {
				rng = r
			}
			return true
		})
		if rng == nil {
			c.Fail("freeWatchers: loop over tree.watchers(pid) not found")
		}
		w := info.ObjectOf(rng.Value.(*ast.Ident))
		// analyse the loop body as its own flow
		body := &ast.FuncLit{Type: &ast.FuncType{}, Body: rng.Body}
		lf := c.NewLitFlow("freeWatchers$loop", info, body)
		tell := func(n ast.Node) bool {
			call, ok := n.(*ast.CallExpr)
			if !ok {
				return false
			}
			cal := callee(info, call)
			if cal == nil || cal.Name() != "Tell" {
				return false
			}
			for _, a := range call.Args {
				if objOf(info, a) == w {
					return true
				}
			}
			return false
		}
		unwatch := func(n ast.Node) bool {
			call, ok := n.(*ast.CallExpr)
			if !ok {
				return false
			}
			cal := callee(info, call)
			return cal != nil && cal.Name() == "UnWatch" && objOf(info, recvExpr(call)) == w
		}
		tells := lf.Find(tell)
		c.Check(len(tells) == 1, "one-tell-site", "the loop body has one Tell of Terminated to the watcher", c.P.Pos(rng.Pos()), "")
		wr := lf.MayReach(tells, nil, tell)
		c.Check(wr == nil, "at-most-one-tell-per-watcher", "within one iteration a watcher is told at most once", c.P.Pos(rng.Pos()), lf.describe(wr))
		running := lf.CondEdges(func(e ast.Expr) bool {
			call, ok := e.(*ast.CallExpr)
			if !ok {
				return false
			}
			cal := callee(info, call)
			return cal != nil && cal.Name() == "IsRunning" && objOf(info, recvExpr(call)) == w
		}, true)
		wr = lf.search(searchSpec{avoidEdges: running, target: tell})
		c.Check(wr == nil && len(running) > 0, "tell-only-if-running", "only a running watcher is notified", c.P.Pos(rng.Pos()), lf.describe(wr))
		// the dual: every watcher of the snapshot that is running IS told — an iteration ends without a Tell only
		// over the edge on which the watcher was found not running (no other skip, e.g. a re-check of the registry
		// that a concurrent deleteNode by the death watch empties)
		notRunning := lf.CondEdges(func(e ast.Expr) bool {
			call, ok := e.(*ast.CallExpr)
			if !ok {
				return false
			}
			cal := callee(info, call)
			return cal != nil && cal.Name() == "IsRunning" && objOf(info, recvExpr(call)) == w
		}, false)
		wr = lf.search(searchSpec{avoid: tell, avoidEdges: notRunning, exits: true})
		c.Check(wr == nil && len(notRunning) > 0, "running-watcher-always-told", "every running watcher in the snapshot is told: an iteration skips the Tell only when the watcher is not running", c.P.Pos(rng.Pos()), lf.describe(wr))
		wr = lf.MustFollow(tells, unwatch, nil)
		c.Check(wr == nil, "tell⇒◇unwatch", "after notifying a watcher the watch is removed (the watcher cannot be notified again for this actor)", c.P.Pos(rng.Pos()), lf.describe(wr))
		wr = lf.MustPrecede(tell, nil, unwatch)
		c.Check(wr == nil, "tell≺unwatch", "the watch is removed only after the notification was sent", c.P.Pos(rng.Pos()), lf.describe(wr))
		// the message told is a Terminated built from this pid's path
		okMsg := false
		ast.Inspect(rng.Body, func(n ast.Node) bool {
			if as, ok := n.(*ast.AssignStmt); ok && len(as.Rhs) == 1 {
				if call, ok := as.Rhs[0].(*ast.CallExpr); ok && callee(info, call) == newTerm {
					okMsg = true
				}
			}
			return true
		})
		c.Check(okMsg, "message-is-Terminated(self)", "the notification is NewTerminated of the stopping actor's path", c.P.Pos(rng.Pos()), "")
		// remote loop: one RemoteTell per remote watcher
		remote := 0
		ast.Inspect(fw.Decl.Body, func(n ast.Node) bool {
			if r, ok := n.(*ast.RangeStmt); ok && r != rng {
				cnt := 0
				ast.Inspect(r.Body, func(m ast.Node) bool {
					if call, ok := m.(*ast.CallExpr); ok {
						if cal := callee(info, call); cal != nil && cal.Name() == "RemoteTell" {
							cnt++
						}
					}
					return true
				})
				if cnt == 1 {
					remote++
				}
			}
			return true
		})
		c.Check(remote == 1, "remote-one-each", "each remote watcher address gets exactly one RemoteTell of Terminated", c.P.Pos(fw.Decl.Pos()), "")
	})

	c.Rule("node-left-sweep", func() {
		pr := c.Func("actor", "actorSystem.pruneRemoteWatchesForHost")
		f := c.NewFlow(pr)
		info := f.Info
		drop := f.Find(func(n ast.Node) bool {
			call, ok := n.(*ast.CallExpr)
			if !ok {
				return false
			}
			cal := callee(info, call)
			return cal != nil && cal.Name() == "dropHost"
		})
		tell := func(n ast.Node) bool {
			call, ok := n.(*ast.CallExpr)
			if !ok {
				return false
			}
			cal := callee(info, call)
			return cal != nil && cal.Name() == "Tell"
		}
		w := f.MustPrecede(func(n ast.Node) bool { return len(drop) == 1 && n == drop[0].N }, nil, tell)
		c.Check(len(drop) == 1 && w == nil, "drop≺notify", "the watch entries of the departed host are removed from the registry before their watchers are notified (a second sweep finds nothing)", c.P.Pos(pr.Decl.Pos()), f.describe(w))
		tells := f.Find(tell)
		w = f.search(searchSpec{starts: tells, avoidEdges: f.loopBackEdges(), target: tell})
		c.Check(len(tells) == 1 && w == nil, "one-tell-per-entry", "each dropped entry produces at most one synthesized Terminated", c.P.Pos(pr.Decl.Pos()), f.describe(w))
		c.WhoMayCall("who", pr.Obj, map[string]string{"actor.(*actorSystem).handleNodeLeftEvent": "cluster node-left event", "actor.(*actorSystem).clusterEventsLoop": "cluster node-left event", "actor.(*actorSystem).handleClusterEvent": "cluster node-left event", "actor.(*actorSystem).handleNodeLeft": "cluster node-left event"})
	})

	c.Rule("unwatch-always-removes", func() {
		// an UnWatch is honoured whatever state the watchee is in (running, stopping, suspended): otherwise the watcher that
		// unsubscribed is still in the snapshot freeWatchers takes and receives a Terminated it asked not to get
		uw := c.Func("actor", "PID.UnWatch")
		f := c.NewFlow(uw)
		info := f.Info
		rm := f.CallTo(c.FuncObj("actor", "tree.removeWatcher"))
		// exits that need not remove: the receiver is a remote handle / nil argument, or the watchee is remote (handled by the remote registry)
		skip := f.AnyTrueEdges(func(e ast.Expr) bool {
			if isCallNamed(info, e, "IsRemote") {
				return true
			}
			be, ok := e.(*ast.BinaryExpr)
			return ok && be.Op == token.EQL && (isNilIdent(info, be.Y) || isNilIdent(info, be.X))
		})
		w := f.search(searchSpec{avoid: rm, avoidEdges: skip, exits: true})
		c.Check(w == nil && len(f.Find(rm)) == 1, "local-unwatch⇒removed", "for a local watchee UnWatch always removes the watch relation, independent of the watchee's state", c.P.Pos(uw.Decl.Pos()), f.describe(w))
	})

	c.Rule("relation", func() {
		wf := c.Func("actor", "tree.watchers")
		info := wf.Info()
		fresh := false
		var list types.Object
		ast.Inspect(wf.Decl.Body, func(n ast.Node) bool {
			if as, ok := n.(*ast.AssignStmt); ok && len(as.Rhs) == 1 {
				if call, ok := as.Rhs[0].(*ast.CallExpr); ok {
					if id, ok := call.Fun.(*ast.Ident); ok && id.Name == "make" {
						list = info.ObjectOf(as.Lhs[0].(*ast.Ident))
					}
				}
			}
			if r, ok := n.(*ast.ReturnStmt); ok && len(r.Results) == 1 && list != nil && objOf(info, r.Results[0]) == list {
				fresh = true
			}
			return true
		})
		c.Check(fresh, "watchers-snapshot", "tree.watchers returns a freshly allocated snapshot (the caller iterates without the lock)", c.P.Pos(wf.Decl.Pos()), "")
		mu := c.Field("actor", "tree", "mu")
		c.GuardedBy(guardSpec{name: "watch-relation", lock: mu, fields: c.Fields("actor", "pidNode", "watchers", "watchees"), exemptFns: map[string]string{"actor.newPidNode": "constructor"}})
		for _, name := range []string{"tree.addWatcher", "tree.removeWatcher"} {
			fn := c.Func("actor", name)
			finfo := fn.Info()
			ws, es := 0, 0
			ast.Inspect(fn.Decl.Body, func(n ast.Node) bool {
				switch x := n.(type) {
				case *ast.AssignStmt:
					for _, l := range x.Lhs {
						if ix, ok := l.(*ast.IndexExpr); ok {
							if f := selField(finfo, ix.X); f != nil && f.Name() == "watchers" {
								ws++
							} else if f != nil && f.Name() == "watchees" {
								es++
							}
						}
					}
				case *ast.CallExpr:
					if id, ok := x.Fun.(*ast.Ident); ok && id.Name == "delete" && len(x.Args) == 2 {
						if f := selField(finfo, x.Args[0]); f != nil && f.Name() == "watchers" {
							ws++
						} else if f != nil && f.Name() == "watchees" {
							es++
						}
					}
				}
				return true
			})
			c.Check(ws == 1 && es == 1, name+"/both-directions", "the watch relation is updated in both directions (watchers of the watchee and watchees of the watcher) in one critical section", c.P.Pos(fn.Decl.Pos()), "one direction only")
		}
	})
}
