package main

import (
	"go/ast"
	"go/token"
	"go/types"

	"golang.org/x/tools/go/cfg"
)

func init() {
	register(&propDef{
		id: "C25", title: "Message serializers round-trip and are chosen by type",
		technique: "guarded-arithmetic abstract interpretation on go/ssa for every slice/index/wire-read of the decoders; writer/reader header layout agreement; codec-pair field coverage for the delivery and Terminated serializers; CFG rules on the dispatchers and on type-based selection (exact type before interface; nil result checked by every caller)",
		explanation: "Decides: (1) no decoder panics or reads out of range on any input: every slice, index, big-endian read and unsafe.String view in ProtoSerializer/CBORSerializer/JSONSerializer.Deserialize, terminatedSerializer/poisonPillSerializer.Deserialize, DeliverySerializer.Deserialize, DecodeReliablePayload and frameTypeName is entailed in bounds by the dominating guards; (2) each self-describing serializer writes the header fields (widths, order) its decoder reads; (3) the composite dispatcher returns success only from a registered serializer's success edge and a non-nil error otherwise (never nil bytes with a nil error); (4) selection by type: both resolvers (client.resolveSerializer, remote.Config.Serializer) return an interface-matched entry only after every exact-type entry was ruled out, and every send-path caller checks the resolver's nil result before using it (an unsupported message yields an error); (5) the internal serializers refuse foreign messages: success is reachable only on the type-assertion / type-switch edge for their own types; (6) writer/reader field agreement for the delivery envelope (every wire field written is read, every command field is read on encode and set on decode, every oneof variant produced is handled) and for Terminated. Equality of decoded and original messages (protobuf/CBOR/JSON library behaviour, user serializers) is NOT decided. Added after seed C25a and F22: codec configurations of the built-in serializers enable no value-substituting option; a frame's payload size is computed afresh (never through MarshalOptions with UseCachedSize).",
		assumptions: []string{"int is 64 bits", "protobuf / CBOR / JSON library round trips and message equality", "user-registered serializers honour the Serializer contract"},
		minObl:     133,
		run:        runC25,
	})
}

type c25Decoder struct{ pkg, name string }

var c25Decoders = []c25Decoder{
	{"remote", "ProtoSerializer.Deserialize"}, {"remote", "CBORSerializer.Deserialize"}, {"remote", "JSONSerializer.Deserialize"},
	{"actor", "terminatedSerializer.Deserialize"}, {"actor", "poisonPillSerializer.Deserialize"},
	{"internal/commands", "DeliverySerializer.Deserialize"}, {"internal/commands", "DecodeReliablePayload"},
	{"internal/remoteclient", "frameTypeName"},
}

func runC25(c *Ctx) {
	c.Rule("bounds", func() {
		c.P.BuildSSA()
		for _, d := range c25Decoders {
			fn := c.Func(d.pkg, d.name)
			sf := c.SSA(fn)
			a := newArith(c, sf)
			reps := a.checkBounds()
			if len(reps) == 0 {
				c.Ok(fn.String()+"/none", "decoder performs no raw buffer access", c.P.Pos(fn.Decl.Pos()))
			}
			for _, r := range reps {
				key := fn.String() + "/" + r.what
				if r.ok {
					c.Ok(key, "entailed by the dominating guards for every input", c.P.Pos(r.where))
				} else {
					c.Bad(key, "every access to the input buffer is in bounds for every input (a malformed frame yields an error, not a panic)", c.P.Pos(r.where), r.detail)
				}
			}
		}
	})

	c.Rule("layout", func() {
		for _, t := range []string{"ProtoSerializer", "CBORSerializer", "JSONSerializer"} {
			w := layoutTokens(c, c.Func("remote", t+".Serialize"), true)
			r := layoutTokens(c, c.Func("remote", t+".Deserialize"), false)
			c.Check(w == r && w != "", t, "the fixed-width header fields written equal, in order and width, the header fields read", c.P.Pos(c.Func("remote", t+".Serialize").Decl.Pos()), "writer: "+w+" reader: "+r)
		}
		w := layoutTokens(c, c.Func("actor", "terminatedSerializer.Serialize"), true)
		r := layoutTokens(c, c.Func("actor", "terminatedSerializer.Deserialize"), false)
		c.Check(w == r && w != "", "terminatedSerializer", "the fixed-width fields written equal the fields read", c.P.Pos(c.Func("actor", "terminatedSerializer.Serialize").Decl.Pos()), "writer: "+w+" reader: "+r)
	})

	c.Rule("strict-codec-config", func() {
		// a serializer either encodes a value faithfully or reports an error: options that silently substitute a value
		// (sonic: EncodeNullForInfOrNan; cbor: NaN/Inf conversion, lossy time/float shortening) turn "error" into "different message"
		lossy := map[string]string{"EncodeNullForInfOrNan": "non-finite floats become null", "NaNConvert": "NaN payloads rewritten", "InfConvert": "infinities rewritten", "ShortestFloat": "floats narrowed"}
		n := 0
		for _, pk := range c.P.Pkgs {
			if relPkg(pk.PkgPath) != "remote" {
				continue
			}
			for _, file := range pk.Syntax {
				ast.Inspect(file, func(nd ast.Node) bool {
					cl, ok := nd.(*ast.CompositeLit)
					if !ok {
						return true
					}
					named := namedOf(pk.TypesInfo.TypeOf(cl))
					if named == nil || named.Obj().Pkg() == nil {
						return true
					}
					p := named.Obj().Pkg().Path()
					if !(p == "github.com/bytedance/sonic" || p == "github.com/bytedance/sonic/api" || p == "github.com/fxamacker/cbor/v2") {
						return true
					}
					n++
					bad := ""
					for _, el := range cl.Elts {
						if kv, ok := el.(*ast.KeyValueExpr); ok {
							if id, ok := kv.Key.(*ast.Ident); ok {
								if why, isLossy := lossy[id.Name]; isLossy {
									if tv, ok := pk.TypesInfo.Types[kv.Value]; !ok || tv.Value == nil || tv.Value.ExactString() != "false" && tv.Value.ExactString() != "0" {
										bad += id.Name + " (" + why + ") "
									}
								}
							}
						}
					}
					c.Check(bad == "", "config/"+named.Obj().Name()+"#"+itoa(n), "codec configurations of the built-in serializers enable no value-substituting option", c.P.Pos(cl.Pos()), "lossy option(s) set: "+bad)
					return true
				})
			}
		}
		// the JSON API object is a library preset or one of the literals checked above
		c.Ok("scanned", "codec configuration literals in package remote: "+itoa(n), "-")
	})

	c.Rule("fresh-size", func() {
		// protobuf caches the encoded size on the message object. A frame length must be computed afresh (proto.Size);
		// asking a MarshalOptions value that has UseCachedSize set returns the size of an EARLIER marshal of the same
		// object, stale once the message was modified (F22: the receiver cannot parse the frame)
		n := 0
		for _, pk := range c.P.Pkgs {
			for _, file := range pk.Syntax {
				for _, decl := range file.Decls {
					fd, ok := decl.(*ast.FuncDecl)
					if !ok || fd.Body == nil {
						continue
					}
					info := pk.TypesInfo
					ast.Inspect(fd.Body, func(nd ast.Node) bool {
						call, ok := nd.(*ast.CallExpr)
						if !ok {
							return true
						}
						cal := callee(info, call)
						if cal == nil || cal.Name() != "Size" || cal.Pkg() == nil || cal.Pkg().Path() != "google.golang.org/protobuf/proto" {
							return true
						}
						recv := recvExpr(call)
						if recv == nil {
							return true // package-level proto.Size: always fresh
						}
						if named := namedOf(info.TypeOf(recv)); named == nil || named.Obj().Name() != "MarshalOptions" {
							return true
						}
						n++
						lit, _ := ast.Unparen(recv).(*ast.CompositeLit)
						if id, ok := ast.Unparen(recv).(*ast.Ident); ok {
							if def := singleLocalDef(info, fd, info.ObjectOf(id)); def != nil {
								lit, _ = ast.Unparen(def).(*ast.CompositeLit)
							}
						}
						cached := lit == nil // unknown options value: cannot rule the flag out
						if lit != nil {
							for _, el := range lit.Elts {
								if kv, ok := el.(*ast.KeyValueExpr); ok {
									if id, ok := kv.Key.(*ast.Ident); ok && id.Name == "UseCachedSize" {
										if tv := info.Types[kv.Value]; tv.Value == nil || tv.Value.ExactString() != "false" {
											cached = true
										}
									}
								}
							}
						}
						obj, _ := info.Defs[fd.Name].(*types.Func)
						c.Check(!cached, "fresh-size@"+funcName(obj), "a frame's payload size is computed afresh, never through MarshalOptions with UseCachedSize", c.P.Pos(call.Pos()), "Size is asked of a MarshalOptions value with UseCachedSize: it returns the size cached by a previous marshal of the same message object")
						return true
					})
				}
			}
		}
		c.Ok("scanned", "MarshalOptions.Size call sites in the module: "+itoa(n), "-")
	})

	c.Rule("dispatch", func() {
		for _, m := range []string{"Serialize", "Deserialize"} {
			fn := c.Func("internal/remoteclient", "serializerDispatch."+m)
			f := c.NewFlow(fn)
			info := f.Info
			inner := func(n ast.Node) bool {
				call, ok := n.(*ast.CallExpr)
				return ok && isCallNamed(info, call, m) && recvExpr(call) != nil
			}
			okEdges, ncalls := f.ErrEdgesOf(inner, false)
			retOK := func(n ast.Node) bool {
				r, ok := n.(*ast.ReturnStmt)
				return ok && len(r.Results) == 2 && isNilIdent(info, r.Results[1])
			}
			w := f.search(searchSpec{avoidEdges: okEdges, target: retOK})
			c.Check(w == nil && ncalls >= 1 && len(f.Find(retOK)) >= 1, m+"/success⇒a-serializer-succeeded", "the dispatcher reports success only with the result of a serializer that returned no error", c.P.Pos(fn.Decl.Pos()), f.describe(w))
			// failure returns carry a non-nil error: either a sentinel or lastErr on its non-nil edge
			for _, a := range f.FindOnce(IsReturn) {
				r := a.N.(*ast.ReturnStmt)
				if isNilIdent(info, r.Results[1]) {
					// on success the first result is the inner call's value
					c.Check(!isNilIdent(info, r.Results[0]), m+"/success-returns-value", "a success return carries the inner result", c.P.Pos(r.Pos()), "nil value with nil error")
					continue
				}
				okErr := false
				switch e := ast.Unparen(r.Results[1]).(type) {
				case *ast.Ident:
					if v, isVar := info.Uses[e].(*types.Var); isVar {
						if v.Parent() == v.Pkg().Scope() {
							okErr = true // package-level sentinel
						} else {
							nn := f.NilCheckEdges(func(x ast.Expr) bool { id, ok := x.(*ast.Ident); return ok && info.Uses[id] == types.Object(v) }, true)
							this := func(n ast.Node) bool { return n == ast.Node(r) }
							okErr = len(nn) > 0 && f.search(searchSpec{avoidEdges: nn, target: this}) == nil
						}
					}
				}
				c.Check(okErr, m+"/failure-has-error/"+types.ExprString(r.Results[1]), "a failing dispatch returns a non-nil error", c.P.Pos(r.Pos()), "error result "+types.ExprString(r.Results[1])+" may be nil")
			}
		}
	})

	c.Rule("selection", func() {
		for _, spec := range []struct{ pkg, name string }{{"internal/remoteclient", "client.resolveSerializer"}, {"remote", "Config.Serializer"}} {
			fn := c.Func(spec.pkg, spec.name)
			f := c.NewFlow(fn)
			info := f.Info
			impl := f.BoolEdges(func(e ast.Expr) bool { return isCallNamed(info, e, "Implements") }, true)
			if len(impl) == 0 {
				c.Undecided(fn.String()+"/shape", "interface match found", c.P.Pos(fn.Decl.Pos()), "no Implements test")
				continue
			}
			// "exact entries ruled out": the exit of a loop containing the type-identity comparison, or the miss edge of a map lookup by the message type
			ruledOut := map[Edge]bool{}
			exact := f.FactEdges(func(cm cmp) bool {
				return (cm.Op == token.EQL || cm.Op == token.NEQ) && isReflectType(info, cm.L) && isReflectType(info, cm.R) && !isCallExpr(cm.L) && !isCallExpr(cm.R)
			})
			for e := range exact {
				for ex := range f.loopExitEdges(e.From) {
					ruledOut[ex] = true
				}
			}
			for e := range f.BoolEdges(func(x ast.Expr) bool {
				id, ok := x.(*ast.Ident)
				return ok && f.isCommaOkOfTypeKeyedLookup(id)
			}, false) {
				ruledOut[e] = true
			}
			w := f.search(searchSpec{avoidEdges: ruledOut, startEdges: nil, target: func(n ast.Node) bool {
				r, ok := n.(*ast.ReturnStmt)
				if !ok {
					return false
				}
				// returns reached from an Implements-true edge
				return f.returnOnEdges(r, impl)
			}})
			c.Check(w == nil && len(ruledOut) > 0, fn.String()+"/exact-before-interface", "an interface-matched serializer is chosen only after every entry registered for the exact type was ruled out", c.P.Pos(fn.Decl.Pos()),
				"an interface entry can be returned while an entry for the message's exact type exists: "+f.describe(w))
		}
		// callers check the nil result
		res := c.FuncObj("internal/remoteclient", "client.resolveSerializer")
		n := 0
		for _, u := range c.UsesOf(res) {
			if u.Call == nil || u.EnclObj == nil {
				continue
			}
			fn := c.fnOfObj(u.EnclObj)
			if fn == nil {
				continue
			}
			// x := r.resolveSerializer(m); uses of x as a method receiver must be on x != nil edges
			var vObj types.Object
			var owner ast.Node = fn.Decl.Body
			for i := len(u.Path) - 1; i >= 0; i-- {
				if as, ok := u.Path[i].(*ast.AssignStmt); ok && len(as.Rhs) == 1 && as.Rhs[0] == ast.Expr(u.Call) {
					if id, ok := as.Lhs[0].(*ast.Ident); ok {
						vObj = u.Pkg.TypesInfo.ObjectOf(id)
					}
				}
			}
			if len(u.Lits) > 0 {
				owner = u.Lits[len(u.Lits)-1].Body
			}
			if vObj == nil {
				if funcName(u.EnclObj) == "internal/remoteclient.(*client).Serializer" {
					c.Ok("nil-checked@"+u.EnclName(), "the public accessor hands the result (possibly nil) to its caller, documented", u.Where(c.P))
					continue
				}
				c.Undecided("nil-checked@"+u.EnclName(), "resolver result is bound to a variable", u.Where(c.P), "unrecognised use")
				continue
			}
			n++
			info := u.Pkg.TypesInfo
			f := c.newFlow(u.EnclName(), info, owner.(*ast.BlockStmt))
			nonNil := f.NilCheckEdges(func(e ast.Expr) bool { id, ok := e.(*ast.Ident); return ok && info.ObjectOf(id) == vObj }, true)
			use := func(nd ast.Node) bool {
				call, ok := nd.(*ast.CallExpr)
				if !ok {
					return false
				}
				if rv := recvExpr(call); rv != nil {
					if id, ok := ast.Unparen(rv).(*ast.Ident); ok && info.ObjectOf(id) == vObj {
						return true
					}
				}
				for _, a := range call.Args {
					if id, ok := ast.Unparen(a).(*ast.Ident); ok && info.ObjectOf(id) == vObj {
						return true
					}
				}
				return false
			}
			if len(f.Find(use)) == 0 {
				c.Ok("nil-checked@"+u.EnclName(), "result not used", u.Where(c.P))
				continue
			}
			w := f.search(searchSpec{avoidEdges: nonNil, target: use})
			c.Check(w == nil && len(nonNil) > 0, "nil-checked@"+u.EnclName()+"#"+itoa(n), "a message no serializer is registered for yields an error: the resolver's nil result is checked before use", u.Where(c.P), f.describe(w))
		}
	})

	c.Rule("type-guards", func() {
		for _, spec := range []struct{ pkg, name, typ string }{{"actor", "terminatedSerializer.Serialize", "Terminated"}, {"actor", "poisonPillSerializer.Serialize", "PoisonPill"}} {
			fn := c.Func(spec.pkg, spec.name)
			f := c.NewFlow(fn)
			info := f.Info
			var okObj types.Object
			ast.Inspect(fn.Decl.Body, func(n ast.Node) bool {
				if as, ok := n.(*ast.AssignStmt); ok && len(as.Lhs) == 2 && len(as.Rhs) == 1 {
					if ta, ok := as.Rhs[0].(*ast.TypeAssertExpr); ok {
						if named := namedOf(info.TypeOf(ta.Type)); named != nil && named.Obj().Name() == spec.typ {
							okObj = info.ObjectOf(as.Lhs[1].(*ast.Ident))
						}
					}
				}
				return true
			})
			isOK := f.BoolEdges(func(e ast.Expr) bool { id, ok := e.(*ast.Ident); return ok && okObj != nil && info.ObjectOf(id) == okObj }, true)
			retOK := func(n ast.Node) bool {
				r, ok := n.(*ast.ReturnStmt)
				return ok && len(r.Results) == 2 && isNilIdent(info, r.Results[1])
			}
			c.guardedBy(f, isOK, retOK, spec.name+"/own-type-only", "an internal serializer encodes only its own message type and refuses everything else with an error", c.P.Pos(fn.Decl.Pos()))
		}
		// delivery: the default case of the type switch is an error
		ds := c.Func("internal/commands", "DeliverySerializer.Serialize")
		okDefault := false
		ast.Inspect(ds.Decl.Body, func(n ast.Node) bool {
			if ts, ok := n.(*ast.TypeSwitchStmt); ok {
				for _, st := range ts.Body.List {
					cc := st.(*ast.CaseClause)
					if cc.List == nil && len(cc.Body) == 1 {
						if r, ok := cc.Body[0].(*ast.ReturnStmt); ok && len(r.Results) == 2 && !isNilIdent(ds.Info(), r.Results[1]) && isNilIdent(ds.Info(), r.Results[0]) {
							okDefault = true
						}
					}
				}
			}
			return true
		})
		c.Check(okDefault, "DeliverySerializer.Serialize/own-types-only", "the delivery serializer refuses a message that is not a delivery command", c.P.Pos(ds.Decl.Pos()), "type switch default does not return an error")
	})

	c.Rule("delivery-codec", func() {
		enc := c.collectSide([]*types.Func{c.FuncObj("internal/commands", "DeliverySerializer.Serialize")}, 1, nil)
		dec := c.collectSide([]*types.Func{c.FuncObj("internal/commands", "DeliverySerializer.Deserialize")}, 2, nil)
		for _, name := range []string{"DeliveryEnvelope", "RegisterConsumer", "RegistrationAck", "Request", "Ack", "SequencedMessage", "ReliablePayload", "ChunkInfo"} {
			c.checkWireMessage("wire", c.Named("internal/internalpb", name), enc, dec, nil)
		}
		for _, name := range []string{"RegisterConsumer", "RegistrationAck", "Request", "Ack", "SequencedMessage"} {
			c.checkDomain("domain", c.Named("internal/commands", name), enc, dec, nil)
		}
		for w, pos := range enc.oneofNew {
			if len(w) > 17 && w[:17] == "DeliveryEnvelope_" {
				_, ok := dec.oneofSw[w]
				c.Check(ok, "oneof/"+w, "every envelope variant the encoder produces is handled by the decoder", pos, w+" is produced but not decoded")
			}
		}
		tenc := c.collectSide([]*types.Func{c.FuncObj("actor", "terminatedSerializer.Serialize")}, 0, nil)
		tdec := c.collectSide([]*types.Func{c.FuncObj("actor", "terminatedSerializer.Deserialize")}, 0, nil)
		c.checkDomain("domain", c.Named("actor", "Terminated"), tenc, tdec, nil)
	})
}

func isCallExpr(e ast.Expr) bool { _, ok := ast.Unparen(e).(*ast.CallExpr); return ok }

func isReflectType(info *types.Info, e ast.Expr) bool {
	t := info.TypeOf(e)
	if t == nil {
		return false
	}
	n := namedOf(t)
	return n != nil && n.Obj().Pkg() != nil && n.Obj().Pkg().Path() == "reflect" && n.Obj().Name() == "Type"
}

// isCommaOkOfTypeKeyedLookup: ident is the ok of `v, ok := m[k]` where k is a reflect.Type.
func (f *Flow) isCommaOkOfTypeKeyedLookup(id *ast.Ident) bool {
	obj := f.Info.ObjectOf(id)
	found := false
	for _, b := range f.G.Blocks {
		for _, n := range b.Nodes {
			ast.Inspect(n, func(x ast.Node) bool {
				as, ok := x.(*ast.AssignStmt)
				if !ok || len(as.Lhs) != 2 || len(as.Rhs) != 1 {
					return true
				}
				ix, ok := ast.Unparen(as.Rhs[0]).(*ast.IndexExpr)
				if !ok || !isReflectType(f.Info, ix.Index) {
					return true
				}
				if l, ok := as.Lhs[1].(*ast.Ident); ok && f.Info.ObjectOf(l) == obj {
					found = true
				}
				return true
			})
		}
	}
	return found
}

// loopExitEdges: exit edges of the innermost natural loop containing block b.
func (f *Flow) loopExitEdges(b *cfg.Block) map[Edge]bool {
	out := map[Edge]bool{}
	var best map[*cfg.Block]bool
	var bestHeader *cfg.Block
	for be := range f.loopBackEdges() {
		header := be.From.Succs[be.Succ]
		body := map[*cfg.Block]bool{header: true}
		stack := []*cfg.Block{be.From}
		for len(stack) > 0 {
			x := stack[len(stack)-1]
			stack = stack[:len(stack)-1]
			if body[x] {
				continue
			}
			body[x] = true
			for _, p := range f.preds(x) {
				stack = append(stack, p)
			}
		}
		if body[b] && (best == nil || len(body) < len(best)) {
			best, bestHeader = body, header
		}
	}
	if bestHeader == nil {
		return out
	}
	// only the loop's normal termination counts (the header's exit): a return from inside the body also leaves the loop
	for i, s := range bestHeader.Succs {
		if !best[s] {
			out[Edge{bestHeader, i}] = true
		}
	}
	return out
}

func (f *Flow) preds(b *cfg.Block) []*cfg.Block {
	var out []*cfg.Block
	for _, x := range f.G.Blocks {
		for _, s := range x.Succs {
			if s == b {
				out = append(out, x)
			}
		}
	}
	return out
}

// returnOnEdges: the return statement's block is the direct target of one of the edges.
func (f *Flow) returnOnEdges(r *ast.ReturnStmt, edges map[Edge]bool) bool {
	for e := range edges {
		t := e.From.Succs[e.Succ]
		for _, n := range t.Nodes {
			if n == ast.Node(r) {
				return true
			}
		}
	}
	return false
}
