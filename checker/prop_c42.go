package main

import (
	"go/constant"
	"go/ast"
	"go/token"
	"go/types"
)

func init() {
	register(&propDef{
		id: "C42", title: "Reliable point-to-point delivery is ordered and gap-free under message faults",
		technique: "typestate-style guard dominance on the CFG (edge facts), field write tables with value shapes, who-may-call confinement and type-switch coverage over the producer and consumer controllers",
		explanation: "Decides the structural safety skeleton of the reliable-delivery protocol: CONSUMER (1) a Delivery is created only in deliverFrame, reached only through deliver/assemble, which are called only on edges where nothing is in flight and the message (or the head of the buffer) carries exactly expectedSeq; (2) expectedSeq changes only on session adoption (to the acked NextSeq) and on a Confirmed that matches the in-flight delivery's session, MessageID and sequence, where it becomes inFlight.Seq()+1; inFlight is set only to the freshly built Delivery and cleared only by those two events; (3) the only re-presentation is the tick re-telling the in-flight delivery while it is non-nil; every Request/Ack carries confirmedSeq; a RegistrationAck announces confirmedSeq+1. PRODUCER (4) sequences are assigned contiguously: every store proposes currentSeq+1, currentSeq is written only from the store result / prepared chunk run, and each append to the unconfirmed buffer is paired with that write; (5) entries leave the unconfirmed buffer only in advanceConfirmed, as the prefix whose Seq ≤ the confirmation, and a confirmation is applied only from the authenticated consumer after the range check ConfirmedSeq ≤ currentSeq; (6) resend happens only for timeout requests and goes through the demand-checked emitter (C43); (7) both Receive switches dispatch every protocol message type. Eventual confirmation and the behaviour over all loss/duplication/reordering histories (liveness, and that these guards compose into a gap-free order) are NOT decided. Added after seed C42a: an accepted RegistrationAck always ends in a timeout Request (constant viaTimeout=true) — the silent-tick recovery chain is the only way a lost tail message (no gap visible) is resent. Added after seed C42b: the condition under which handleRequest terminates the flow consists only of the confirmed table of impossible values (negative or future confirmation, inverted or oversized window); nothing compares with the controller's own confirmation state.",
		assumptions: []string{"actor turn atomicity", "timers eventually fire (liveness)", "the composition of the guards into an inductive invariant over message histories"},
		minObl:     56,
		run:        runC42,
	})
}

func runC42(c *Ctx) {
	cc := func(f string) *types.Var { return c.Field("actor", "consumerController", f) }
	pc := func(f string) *types.Var { return c.Field("actor", "producerController", f) }
	ccFn := func(n string) *types.Func { return c.FuncObj("actor", "consumerController."+n) }
	expected, inFlight, buffer, ccConfirmed, ccSession := cc("expectedSeq"), cc("inFlight"), cc("buffer"), cc("confirmedSeq"), cc("sessionID")
	currentSeq, unconfirmed, pcConfirmed := pc("currentSeq"), pc("unconfirmed"), pc("confirmedSeq")
	_ = ccSession

	inFlightNil := func(f *Flow) map[Edge]bool {
		return f.NilCheckEdges(func(e ast.Expr) bool { return isFieldSel(f.Info, e, inFlight) }, false)
	}
	inFlightSet := func(f *Flow) map[Edge]bool {
		return f.NilCheckEdges(func(e ast.Expr) bool { return isFieldSel(f.Info, e, inFlight) }, true)
	}

	c.Rule("consumer-delivery", func() {
		c.WhoMayCall("who", c.FuncObj("actor", "newDelivery"), map[string]string{"actor.(*consumerController).deliverFrame": "the single hand-over point"})
		c.WhoMayCall("who", ccFn("deliverFrame"), map[string]string{"actor.(*consumerController).deliver": "whole message", "actor.(*consumerController).assemble": "complete chunk run"})
		c.WhoMayCall("who", ccFn("deliver"), map[string]string{"actor.(*consumerController).handleSequencedMessage": "direct arrival of the expected sequence", "actor.(*consumerController).drain": "next contiguous buffered message"})
		c.WhoMayCall("who", ccFn("assemble"), map[string]string{"actor.(*consumerController).drain": "chunk run at the head"})

		hs := c.Func("actor", "consumerController.handleSequencedMessage")
		f := c.NewFlow(hs)
		info := f.Info
		del := f.CallTo(ccFn("deliver"))
		isExp := f.FactEdges(func(cm cmp) bool { return cm.Op == token.EQL && isFieldSel(info, cm.R, expected) })
		c.guardedBy(f, isExp, del, "arrival/seq=expected", "an arriving message is handed over directly only when its sequence equals expectedSeq", c.P.Pos(hs.Decl.Pos()))
		c.guardedBy(f, inFlightNil(f), del, "arrival/nothing-in-flight", "an arriving message is handed over directly only when no delivery is in flight", c.P.Pos(hs.Decl.Pos()))
		// duplicates (seq < expectedSeq) are re-acked, never buffered or delivered
		old := f.FactEdges(func(cm cmp) bool { return cm.Op == token.LSS && isFieldSel(info, cm.R, expected) })
		w := f.AfterEdgesMayReach(old, nil, nil, f.CallTo(ccFn("deliver"), ccFn("bufferMessage")))
		c.Check(w == nil && len(old) > 0, "arrival/duplicate-not-redelivered", "a sequence below expectedSeq is never delivered or buffered again", c.P.Pos(hs.Decl.Pos()), f.describe(w))
		// sender and session validation precede everything
		sess := f.FactEdges(func(cm cmp) bool { return cm.Op == token.EQL && isCallNamed(info, cm.L, "SessionID") && isFieldSel(info, cm.R, ccSession) })
		c.guardedBy(f, sess, f.CallTo(ccFn("deliver"), ccFn("bufferMessage"), ccFn("sendAck")), "arrival/session", "a sequenced message is processed only when it carries the adopted session", c.P.Pos(hs.Decl.Pos()))

		dr := c.Func("actor", "consumerController.drain")
		df := c.NewFlow(dr)
		dinfo := df.Info
		hand := df.CallTo(ccFn("deliver"), ccFn("assemble"))
		headExp := df.FactEdges(func(cm cmp) bool {
			return cm.Op == token.EQL && isFieldSel(dinfo, cm.R, expected) && isCallNamed(dinfo, cm.L, "Seq")
		})
		c.guardedBy(df, headExp, hand, "drain/head=expected", "drain hands over the buffer head only when it carries expectedSeq", c.P.Pos(dr.Decl.Pos()))
		c.guardedBy(df, inFlightNil(df), hand, "drain/nothing-in-flight", "drain hands over only when no delivery is in flight", c.P.Pos(dr.Decl.Pos()))
	})

	c.Rule("consumer-state", func() {
		c.checkWrites("cc", expected, map[string][]string{
			"actor.(*consumerController).PreStart":              {"const:1"},
			"actor.(*consumerController).handleRegistrationAck": {"call:NextSeq"},
			"actor.(*consumerController).handleConfirmed":       {"expr:.confirmedSeq+1"},
		}, "expectedSeq moves only on session adoption and on a matching confirmation")
		c.checkWrites("cc", ccConfirmed, map[string][]string{
			"actor.(*consumerController).PreStart":              {"const:0"},
			"actor.(*consumerController).handleRegistrationAck": {"expr:NextSeq()-1"},
			"actor.(*consumerController).handleConfirmed":       {"call:Seq"},
		}, "confirmedSeq moves only on session adoption and on a matching confirmation")
		c.checkWrites("cc", inFlight, map[string][]string{
			"actor.(*consumerController).PreStart":              {"nil"},
			"actor.(*consumerController).handleRegistrationAck": {"nil"},
			"actor.(*consumerController).handleConfirmed":       {"nil"},
			"actor.(*consumerController).deliverFrame":          {"call:actor.newDelivery"},
		}, "the in-flight slot is filled only by deliverFrame and cleared only by confirmation or session change")

		hc := c.Func("actor", "consumerController.handleConfirmed")
		f := c.NewFlow(hc)
		info := f.Info
		adv := assignTo(info, expected)
		viaInFlight := func(e ast.Expr, name string) bool {
			call, ok := ast.Unparen(e).(*ast.CallExpr)
			return ok && isCallNamed(info, call, name) && isFieldSel(info, recvExpr(call), inFlight)
		}
		for _, m := range []string{"Seq", "MessageID"} {
			m := m
			edges := f.FactEdges(func(cm cmp) bool { return cm.Op == token.EQL && isCallNamed(info, cm.L, m) && viaInFlight(cm.R, m) })
			c.guardedBy(f, edges, adv, "confirm/matches-"+m, "a Confirmed advances the watermark only when its "+m+" equals the in-flight delivery's", c.P.Pos(hc.Decl.Pos()))
		}
		sess := f.FactEdges(func(cm cmp) bool { return cm.Op == token.EQL && isCallNamed(info, cm.L, "SessionID") && isFieldSel(info, cm.R, ccSession) })
		c.guardedBy(f, sess, adv, "confirm/session", "a Confirmed advances the watermark only for the adopted session", c.P.Pos(hc.Decl.Pos()))
		c.guardedBy(f, inFlightSet(f), adv, "confirm/in-flight", "a Confirmed advances the watermark only while a delivery is in flight", c.P.Pos(hc.Decl.Pos()))
		// the new watermark is the in-flight sequence
		okSrc := false
		ast.Inspect(hc.Decl.Body, func(n ast.Node) bool {
			if as, ok := n.(*ast.AssignStmt); ok && len(as.Lhs) == 1 && selField(info, as.Lhs[0]) == ccConfirmed {
				rhs := as.Rhs[0]
				if id, isId := ast.Unparen(rhs).(*ast.Ident); isId {
					if def := singleLocalDef(info, hc.Decl, info.ObjectOf(id)); def != nil {
						rhs = def
					}
				}
				okSrc = viaInFlight(rhs, "Seq")
			}
			return true
		})
		c.Check(okSrc, "confirm/watermark=inFlight.Seq", "the confirmation watermark becomes the in-flight delivery's sequence", c.P.Pos(hc.Decl.Pos()), "confirmedSeq is assigned from something else")
		// purge + drain follow the advance
		w := f.MustFollow(f.Find(adv), f.CallTo(ccFn("purgeBuffer")), nil)
		c.Check(w == nil, "confirm/purge", "entries below the new expectedSeq are purged after every advance", c.P.Pos(hc.Decl.Pos()), f.describe(w))
		w = f.MustFollow(f.Find(adv), f.CallTo(ccFn("drain")), nil)
		c.Check(w == nil, "confirm/drain", "the next contiguous message is handed over after every advance", c.P.Pos(hc.Decl.Pos()), f.describe(w))

		// session adoption resets delivery state only for a new session and only for the current nonce
		ra := c.Func("actor", "consumerController.handleRegistrationAck")
		rf := c.NewFlow(ra)
		rinfo := rf.Info
		newSess := rf.FactEdges(func(cm cmp) bool { return cm.Op == token.NEQ && isCallNamed(rinfo, cm.L, "SessionID") && isFieldSel(rinfo, cm.R, ccSession) })
		c.guardedBy(rf, newSess, assignTo(rinfo, expected), "adopt/new-session-only", "delivery state is reset only when the acked session differs from the adopted one", c.P.Pos(ra.Decl.Pos()))
		nonce := rf.FactEdges(func(cm cmp) bool { return cm.Op == token.EQL && isCallNamed(rinfo, cm.L, "Nonce") && isFieldSel(rinfo, cm.R, cc("registrationNonce")) })
		c.guardedBy(rf, nonce, assignTo(rinfo, expected), "adopt/current-nonce", "only the ack of the latest registration is adopted", c.P.Pos(ra.Decl.Pos()))
		// The silent-tick recovery chain (tick → register → RegistrationAck → Request) recovers a lost *tail*
		// message only if the Request it ends in asks for a resend: nothing is buffered behind a lost tail, so
		// no gap is visible and only a timeout Request makes the producer controller resend it.
		sendReq := ccFn("sendRequest")
		resendReq := func(n ast.Node) bool {
			call, ok := n.(*ast.CallExpr)
			if !ok || callee(rinfo, call) != sendReq || len(call.Args) != 2 {
				return false
			}
			tv, ok := rinfo.Types[call.Args[1]]
			return ok && tv.Value != nil && tv.Value.Kind() == constant.Bool && constant.BoolVal(tv.Value)
		}
		if len(nonce) == 0 {
			c.Undecided("recover/ack-solicits-resend", "an accepted RegistrationAck always ends in a timeout Request", c.P.Pos(ra.Decl.Pos()), "nonce acceptance edge not found")
		} else {
			w := rf.AfterEdgesMustPass(nonce, resendReq, nil)
			c.Check(w == nil, "recover/ack-solicits-resend", "an accepted RegistrationAck always ends in a timeout Request (constant viaTimeout=true), the only recovery of a lost tail message", c.P.Pos(ra.Decl.Pos()), rf.describe(w))
		}
	})

	c.Rule("re-presentation", func() {
		// tells to the consumer endpoint: deliverFrame (new delivery) and the tick (the in-flight one)
		consumer := cc("consumer")
		tell := ccFn("tell")
		n := 0
		for _, u := range c.UsesOf(tell) {
			if u.Call == nil || len(u.Call.Args) != 3 || !isFieldSel(u.Pkg.TypesInfo, u.Call.Args[1], consumer) {
				continue
			}
			n++
			info := u.Pkg.TypesInfo
			switch funcName(u.EnclObj) {
			case "actor.(*consumerController).deliverFrame":
				c.Ok("tell-consumer@deliverFrame", "a Delivery reaches the consumer when it is created", u.Where(c.P))
			case "actor.(*consumerController).handleTick":
				f := c.NewFlow(c.fnOfObj(u.EnclObj))
				okArg := isFieldSel(info, u.Call.Args[2], inFlight)
				c.Check(okArg, "tell-consumer@handleTick/arg", "the tick re-presents exactly the in-flight delivery", u.Where(c.P), "argument is "+types.ExprString(u.Call.Args[2]))
				this := func(n ast.Node) bool { return n == ast.Node(u.Call) }
				c.guardedBy(f, inFlightSet(f), this, "tell-consumer@handleTick/guard", "a delivery is re-presented only while it is the unconfirmed one in flight", u.Where(c.P))
			default:
				c.Bad("tell-consumer@"+u.EnclName(), "the consumer endpoint is told only a new Delivery or the in-flight one", u.Where(c.P), "unexpected hand-over site")
			}
		}
		if n < 2 {
			c.Undecided("tell-consumer/sites", "hand-over sites found", "-", "fewer than two sites")
		}
		// a (re)registering consumer is told to resume exactly after the last confirmed sequence
		for _, u := range c.UsesOf(c.FuncObj("internal/commands", "NewRegistrationAck")) {
			if u.Call == nil || u.EnclObj == nil || funcName(u.EnclObj) != "actor.(*producerController).handleRegisterConsumer" {
				continue
			}
			shape := exprShape(u.Pkg.TypesInfo, u.Call.Args[1])
			c.Check(shape == ".confirmedSeq+1", "registration-ack/next=confirmed+1@"+u.EnclName(), "a RegistrationAck announces confirmedSeq+1 as the next sequence: everything unconfirmed is still owed to a new consumer incarnation, nothing confirmed is replayed", u.Where(c.P), "NextSeq is "+shape)
		}
		// watermark carried by Request / Ack
		for _, ctor := range []string{"NewRequest", "NewAck"} {
			for _, u := range c.UsesOf(c.FuncObj("internal/commands", ctor)) {
				if u.Call == nil || u.EnclObj == nil || u.EnclObj.Pkg().Name() != "actor" {
					continue
				}
				c.Check(isFieldSel(u.Pkg.TypesInfo, u.Call.Args[2], ccConfirmed), "watermark/"+ctor+"@"+u.EnclName(), "every Request and Ack carries the consumer's confirmedSeq", u.Where(c.P), "third argument is "+types.ExprString(u.Call.Args[2]))
			}
		}
	})

	c.Rule("producer-sequencing", func() {
		c.checkWrites("pc", currentSeq, map[string][]string{
			"actor.(*producerController).PreStart":             {"const:0", "call:CurrentSeq"},
			"actor.(*producerController).completeStore":        {"call:Seq"},
			"actor.(*producerController).storeChunks":          {"var:$local"},
			"actor.(*producerController).completeStoreChunked": {"field:pendingSeq"},
		}, "currentSeq is written only from a store result or the prepared contiguous chunk run")
		c.checkWrites("pc", unconfirmed, map[string][]string{
			"actor.(*producerController).PreStart":             {"nil", "call:actor.hydrateLoadedUnconfirmed"},
			"actor.(*producerController).completeStore":        {"append(self)"},
			"actor.(*producerController).storeChunks":          {"append(self)"},
			"actor.(*producerController).completeStoreChunked": {"append(self)"},
			"actor.(*producerController).advanceConfirmed":     {"slices.Delete(self)"},
		}, "the unconfirmed buffer grows only by appending a stored message and shrinks only by the confirmed prefix")
		// pairing append ↔ currentSeq write
		for _, name := range []string{"completeStore", "storeChunks", "completeStoreChunked"} {
			fn := c.Func("actor", "producerController."+name)
			f := c.NewFlow(fn)
			app := f.Find(assignTo(f.Info, unconfirmed))
			cs := f.Find(assignTo(f.Info, currentSeq))
			w1 := f.search(searchSpec{starts: app, avoid: assignTo(f.Info, currentSeq), exits: true})
			w2 := f.search(searchSpec{starts: cs, avoid: assignTo(f.Info, unconfirmed), exits: true})
			c.Check(len(app) > 0 && len(cs) > 0 && (w1 == nil || w2 == nil), "pair/"+name, "an append to the unconfirmed buffer and the currentSeq advance always happen together", c.P.Pos(fn.Decl.Pos()), "append without sequence advance (or vice versa): "+f.describe(w1))
		}
		// proposals are currentSeq+1
		for _, spec := range []struct{ fn, ctor string; arg int }{{"producerController.startStore", "NewStoreResult", 0}, {"producerController.launchOp", "NewStoreRequest", 1}} {
			fn := c.Func("actor", spec.fn)
			info := fn.Info()
			defs := map[types.Object]ast.Expr{}
			ast.Inspect(fn.Decl.Body, func(n ast.Node) bool {
				if as, ok := n.(*ast.AssignStmt); ok && as.Tok == token.DEFINE && len(as.Lhs) == len(as.Rhs) {
					for i, l := range as.Lhs {
						if id, ok := l.(*ast.Ident); ok {
							defs[info.Defs[id]] = as.Rhs[i]
						}
					}
				}
				return true
			})
			found := false
			ast.Inspect(fn.Decl.Body, func(n ast.Node) bool {
				call, ok := n.(*ast.CallExpr)
				if !ok || !isCallNamed(info, call, spec.ctor) {
					return true
				}
				found = true
				arg := ast.Unparen(call.Args[spec.arg])
				shape := exprShape(info, arg)
				if id, ok := arg.(*ast.Ident); ok {
					if d, ok := defs[info.Uses[id]]; ok {
						shape = exprShape(info, d)
					}
				}
				c.Check(shape == ".currentSeq+1", "propose/"+spec.fn, "every store proposes the next contiguous sequence currentSeq+1", c.P.Pos(call.Pos()), "proposed sequence is "+shape)
				return true
			})
			if !found {
				c.Undecided("propose/"+spec.fn, "store proposal found", c.P.Pos(fn.Decl.Pos()), spec.ctor+" not called")
			}
		}
		// chunked results verified contiguous
		csc := c.Func("actor", "producerController.completeStoreChunked")
		f := c.NewFlow(csc)
		info := f.Info
		mismatch := f.FactEdges(func(cm cmp) bool {
			return cm.Op == token.NEQ && isCallNamed(info, cm.L, "Seq") && exprShape(info, cm.R) == ".currentSeq+$key+1"
		})
		w := f.AfterEdgesMayReach(mismatch, nil, nil, assignTo(info, currentSeq))
		c.Check(w == nil && len(mismatch) > 0, "chunked/contiguous-results", "a chunked store whose results are not exactly currentSeq+1.. in order is never committed", c.P.Pos(csc.Decl.Pos()), f.describe(w))
	})

	c.Rule("producer-confirmation", func() {
		adv := c.FuncObj("actor", "producerController.advanceConfirmed")
		c.WhoMayCall("who", adv, map[string]string{"actor.(*producerController).handleRequest": "Request carries the watermark", "actor.(*producerController).handleAck": "Ack carries the watermark"})
		for _, name := range []string{"handleRequest", "handleAck"} {
			fn := c.Func("actor", "producerController."+name)
			f := c.NewFlow(fn)
			info := f.Info
			call := f.CallTo(adv)
			auth := f.BoolEdges(func(e ast.Expr) bool { return isCallNamed(info, e, "fromRegisteredConsumer") }, true)
			c.guardedBy(f, auth, call, "auth/"+name, "a confirmation is applied only from the registered consumer controller (session and nonce)", c.P.Pos(fn.Decl.Pos()))
			upper := f.FactEdges(func(cm cmp) bool { return cm.Op == token.LEQ && isCallNamed(info, cm.L, "ConfirmedSeq") && isFieldSel(info, cm.R, currentSeq) })
			c.guardedBy(f, upper, call, "range/"+name, "a confirmation is applied only when ConfirmedSeq ≤ currentSeq", c.P.Pos(fn.Decl.Pos()))
		}
		fn := c.Func("actor", "producerController.advanceConfirmed")
		f := c.NewFlow(fn)
		info := f.Info
		confirmedParam := fn.Obj.Type().(*types.Signature).Params().At(1)
		isParam := func(e ast.Expr) bool {
			id, ok := ast.Unparen(e).(*ast.Ident)
			return ok && info.Uses[id] == types.Object(confirmedParam)
		}
		mono := f.FactEdges(func(cm cmp) bool { return cm.Op == token.GTR && isParam(cm.L) && isFieldSel(info, cm.R, pcConfirmed) })
		c.guardedBy(f, mono, assignTo(info, pcConfirmed), "monotone", "the producer's confirmation watermark only moves forward", c.P.Pos(fn.Decl.Pos()))
		// the cut: Delete(unconfirmed, 0, cut) where cut advances only while entry.Seq() ≤ confirmed
		var cutObj types.Object
		okDelete := false
		ast.Inspect(fn.Decl.Body, func(n ast.Node) bool {
			call, ok := n.(*ast.CallExpr)
			if ok && isCallNamed(info, call, "Delete") && len(call.Args) == 3 && isFieldSel(info, call.Args[0], unconfirmed) {
				if v, isC := constInt(info, call.Args[1]); isC && v == 0 {
					if id, ok := ast.Unparen(call.Args[2]).(*ast.Ident); ok {
						cutObj = info.Uses[id]
						okDelete = true
					}
				}
			}
			return true
		})
		c.Check(okDelete, "cut/prefix", "confirmed entries leave the buffer as the prefix [0, cut)", c.P.Pos(fn.Decl.Pos()), "slices.Delete(x.unconfirmed, 0, cut) not found")
		if cutObj != nil {
			inc := func(n ast.Node) bool {
				s, ok := n.(*ast.IncDecStmt)
				if !ok {
					return false
				}
				id, ok := s.X.(*ast.Ident)
				return ok && info.Uses[id] == cutObj
			}
			within := f.FactEdges(func(cm cmp) bool { return cm.Op == token.LEQ && isCallNamed(info, cm.L, "Seq") && isParam(cm.R) })
			c.guardedBy(f, within, inc, "cut/only-confirmed", "the cut advances only over entries whose Seq ≤ the confirmation", c.P.Pos(fn.Decl.Pos()))
		}
		// resend only for timeout requests
		hr := c.Func("actor", "producerController.handleRequest")
		hf := c.NewFlow(hr)
		// terminal validation: a Request ends the flow (terminate) only for values that no correct consumer can send.
		// A watermark lower than one already applied is ordinary reordered or duplicated control traffic
		// (advanceConfirmed ignores it) and must not be terminal: the disjuncts of the guarding condition are the
		// confirmed table of impossible values, nothing that compares with the controller's confirmation state.
		{
			term := c.FuncObj("actor", "producerController.terminate")
			allowed := map[string]bool{
				"ConfirmedSeq()<0":                                   true,
				"ConfirmedSeq()>.currentSeq":                         true,
				"RequestUpToSeq()<ConfirmedSeq()":                    true,
				"RequestUpToSeq()>ConfirmedSeq()+" + maxWindowShape(c): true,
			}
			nTerm := 0
			ast.Inspect(hr.Decl.Body, func(n ast.Node) bool {
				ifs, ok := n.(*ast.IfStmt)
				if !ok || !containsNode(ifs.Body, func(m ast.Node) bool {
					call, ok := m.(*ast.CallExpr)
					return ok && callee(hf.Info, call) == term
				}) {
					return true
				}
				nTerm++
				var disj []ast.Expr
				var flat func(e ast.Expr)
				flat = func(e ast.Expr) {
					e = ast.Unparen(e)
					if be, ok := e.(*ast.BinaryExpr); ok && be.Op == token.LOR {
						flat(be.X)
						flat(be.Y)
						return
					}
					disj = append(disj, e)
				}
				flat(ifs.Cond)
				for _, d := range disj {
					sh := exprShape(hf.Info, d)
					c.Check(allowed[sh], "request/terminal-only-if-impossible/"+sh, "a Request is terminal only for an impossible demand range (negative or future confirmation, inverted or oversized window), never for a stale but legal one", c.P.Pos(d.Pos()), "terminal condition "+sh+" is not in the table of impossible values")
				}
				return true
			})
			if nTerm == 0 {
				c.Undecided("request/terminal-only-if-impossible", "the terminal validation of a Request is found", c.P.Pos(hr.Decl.Pos()), "no if-statement calling terminate in handleRequest")
			}
		}
		resend := c.FuncObj("actor", "producerController.resendUnconfirmed")
		c.WhoMayCall("who", resend, map[string]string{"actor.(*producerController).handleRequest": "timeout request"})
		via := hf.BoolEdges(func(e ast.Expr) bool { return isCallNamed(hf.Info, e, "ViaTimeout") }, true)
		c.guardedBy(hf, via, hf.CallTo(resend), "resend/timeout-only", "unconfirmed messages are resent only when the consumer asked through a timeout request", c.P.Pos(hr.Decl.Pos()))
	})

	c.Rule("dispatch", func() {
		cover := func(fnName string, want map[string]string) {
			fn := c.Func("actor", fnName)
			info := fn.Info()
			got := map[string]bool{}
			ast.Inspect(fn.Decl.Body, func(n ast.Node) bool {
				if ts, ok := n.(*ast.TypeSwitchStmt); ok {
					for _, st := range ts.Body.List {
						for _, e := range st.(*ast.CaseClause).List {
							if named := namedOf(info.TypeOf(e)); named != nil {
								got[named.Obj().Name()] = true
							}
						}
					}
				}
				return true
			})
			for _, t := range sortedKeys(want) {
				c.Check(got[t], "case/"+fnName+"/"+t, "the controller's Receive dispatches every protocol message it is sent", c.P.Pos(fn.Decl.Pos()), "no case for "+t+" ("+want[t]+"): the message is unhandled and the protocol stalls")
			}
		}
		cover("producerController.Receive", map[string]string{"RegisterConsumer": "registration", "Request": "demand", "Ack": "confirmation", "Produced": "producer offer", "StoredAck": "producer ack", "queueOpResult": "durable lane", "producerControllerTick": "retry", "Terminated": "peer death", "PostStart": "timer start"})
		cover("consumerController.Receive", map[string]string{"RegistrationAck": "session adoption", "SequencedMessage": "data", "Confirmed": "business confirmation", "consumerControllerTick": "retry", "Terminated": "peer death", "PostStart": "registration"})
	})
	_ = buffer
}

// maxWindowShape: the shape under which the package constant MaxReliableFlowControlWindow is rendered by exprShape.
func maxWindowShape(c *Ctx) string {
	if k, ok := c.pkg("actor").Types.Scope().Lookup("MaxReliableFlowControlWindow").(*types.Const); ok {
		return k.Val().ExactString()
	}
	return "?"
}
