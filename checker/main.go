package main

import (
	"flag"
	"fmt"
	"os"
	"sort"
	"strings"
	"time"
)

func main() {
	repo := flag.String("repo", "/repo", "repository root")
	props := flag.String("props", "all", "comma separated property ids or 'all'")
	tier := flag.String("tier", "quick", "quick|thorough")
	evdir := flag.String("evidence", "/verif/evidence", "evidence directory")
	kf := flag.String("known", "/verif/known_findings.txt", "known findings file")
	verbose := flag.Bool("v", false, "print every obligation")
	list := flag.Bool("list", false, "list registered properties")
	describe := flag.Bool("describe", false, "print the as-built description of every registered property (markdown)")
	manifest := flag.String("manifest", "", "print MANIFEST.json for the given comma separated list of all property ids")
	flag.Parse()

	if *manifest != "" {
		printManifest(strings.Split(*manifest, ","))
		return
	}
	if *list {
		for _, id := range registeredIDs() {
			fmt.Println(id)
		}
		return
	}
	if *describe {
		for _, id := range registeredIDs() {
			p := registry[id]
			fmt.Printf("### %s — %s\n\n*Technique.* %s.\n\n*Decided / not decided.* %s\n\n*Relies on (not decided).* %s. Vacuity floor: at least %d obligations.\n\n", id, p.title, p.technique, p.explanation, strings.Join(p.assumptions, "; "), p.minObl)
		}
		return
	}
	start := time.Now()
	ids := registeredIDs()
	if *props != "all" {
		ids = nil
		for _, s := range strings.Split(*props, ",") {
			s = strings.TrimSpace(s)
			if s == "" {
				continue
			}
			if _, ok := registry[s]; !ok {
				fmt.Fprintf(os.Stderr, "unknown property %s\n", s)
				os.Exit(2)
			}
			ids = append(ids, s)
		}
	}
	sort.Strings(ids)
	prog, err := loadProg(*repo)
	if err != nil {
		// A tree that does not load cannot be decided: fail every requested property.
		fmt.Fprintf(os.Stderr, "LOAD FAILURE: %v\n", err)
		for _, id := range ids {
			fmt.Printf("VIOLATION property=%s replay=%s/%s.json (tree does not load/type-check; undecided)\n", id, *evdir, id)
			writeLoadFailureEvidence(*evdir, id, *tier, err, time.Since(start))
		}
		os.Exit(1)
	}
	loadDur := time.Since(start)
	known, err := loadKnown(*kf)
	if err != nil {
		fmt.Fprintf(os.Stderr, "known findings: %v\n", err)
		os.Exit(2)
	}
	if d := os.Getenv("VERIF_DUMPFLOW"); d != "" {
		parts := strings.SplitN(d, ":", 2)
		c := newCtx(prog, "C00", *tier, known)
		c.def = &propDef{id: "C00"}
		c.Rule("dump", func() { fmt.Println(c.NewFlow(c.Func(parts[0], parts[1])).Dump()) })
		return
	}
	exit := 0
	for _, id := range ids {
		t0 := time.Now()
		c := newCtx(prog, id, *tier, known)
		runProp(c, registry[id])
		res := c.finish(*evdir, loadDur+time.Since(t0), *verbose)
		if !res {
			exit = 1
		}
	}
	os.Exit(exit)
}
