package main

func init() {
	register(&propDef{id: "C00", title: "smoke", explanation: "smoke", run: func(c *Ctx) {
		c.Rule("smoke", func() {
			fn := c.Func("actor", "PID.doStop")
			f := c.NewFlow(fn)
			c.Ok("flow", "flow builds", c.P.Pos(fn.Decl.Pos()), f.Name)
			us := c.UsesOf(fn.Obj)
			for _, u := range us {
				c.Ok("caller="+u.EnclName(), "caller", u.Where(c.P))
			}
		})
	}})
}
