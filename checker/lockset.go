package main

import (
	"fmt"
	"go/ast"
	"go/types"
	"sort"
	"strings"

	"golang.org/x/tools/go/cfg"
)

// Lockset engine (E3). A lock is identified by the mutex *field* (types.Var);
// two instances of the same struct are not distinguished (stated assumption).
// Modes: 0 not held, 1 read-held, 2 write-held.

type lockState map[*types.Var]int

func (s lockState) clone() lockState {
	n := lockState{}
	for k, v := range s {
		n[k] = v
	}
	return n
}

func meetLock(a, b lockState) lockState {
	n := lockState{}
	for k, v := range a {
		if w, ok := b[k]; ok {
			if w < v {
				v = w
			}
			if v > 0 {
				n[k] = v
			}
		}
	}
	return n
}

func eqLock(a, b lockState) bool {
	if len(a) != len(b) {
		return false
	}
	for k, v := range a {
		if b[k] != v {
			return false
		}
	}
	return true
}

// lockOp classifies a call as an operation on a mutex field.
// returns field, delta: +2 Lock, +1 RLock, -2 Unlock, -1 RUnlock.
func lockOp(info *types.Info, call *ast.CallExpr) (*types.Var, int) {
	fn := callee(info, call)
	if fn == nil {
		return nil, 0
	}
	var d int
	switch qualifiedName(fn) {
	case "sync.(*Mutex).Lock", "sync.(*RWMutex).Lock":
		d = 2
	case "sync.(*RWMutex).RLock":
		d = 1
	case "sync.(*Mutex).Unlock", "sync.(*RWMutex).Unlock":
		d = -2
	case "sync.(*RWMutex).RUnlock":
		d = -1
	case "sync.(*Mutex).TryLock", "sync.(*RWMutex).TryLock", "sync.(*RWMutex).TryRLock":
		return nil, 0
	default:
		return nil, 0
	}
	sel, ok := ast.Unparen(call.Fun).(*ast.SelectorExpr)
	if !ok {
		return nil, 0
	}
	// x.mu.Lock()  -> field mu ; x.Lock() with embedded mutex -> the embedded field
	if fv := selField(info, sel.X); fv != nil {
		return fv, d
	}
	if s := info.Selections[sel]; s != nil && len(s.Index()) > 1 {
		// promoted through embedded field(s): find the embedded mutex field
		t := s.Recv()
		var fld *types.Var
		for _, i := range s.Index()[:len(s.Index())-1] {
			if p, ok := t.Underlying().(*types.Pointer); ok {
				t = p.Elem()
			}
			st, ok := t.Underlying().(*types.Struct)
			if !ok {
				return nil, 0
			}
			fld = st.Field(i)
			t = fld.Type()
		}
		return fld, d
	}
	return nil, 0
}

type lockAnalysis struct {
	f   *Flow
	in  map[*cfg.Block]lockState
	ops int
}

// Locks computes the must-hold lockset at the entry of every block. entry is
// the lockset assumed at function entry (caller-holds functions).
func (f *Flow) Locks(entry lockState) *lockAnalysis {
	la := &lockAnalysis{f: f, in: map[*cfg.Block]lockState{}}
	if entry == nil {
		entry = lockState{}
	}
	la.in[f.G.Blocks[0]] = entry.clone()
	work := []*cfg.Block{f.G.Blocks[0]}
	for len(work) > 0 {
		b := work[0]
		work = work[1:]
		st := la.in[b].clone()
		for _, a := range f.atoms[b] {
			la.apply(st, a)
		}
		for _, s := range b.Succs {
			old, ok := la.in[s]
			var nw lockState
			if !ok {
				nw = st.clone()
			} else {
				nw = meetLock(old, st)
			}
			if !ok || !eqLock(old, nw) {
				la.in[s] = nw
				work = append(work, s)
			}
		}
	}
	return la
}

func (la *lockAnalysis) apply(st lockState, a *Atom) {
	if a.Deferred {
		return
	}
	call, ok := a.N.(*ast.CallExpr)
	if !ok {
		return
	}
	fv, d := lockOp(la.f.Info, call)
	if fv == nil {
		return
	}
	la.ops++
	switch {
	case d > 0:
		st[fv] = d
	case d < 0:
		delete(st, fv)
	}
}

// At returns the lockset holding just before atom a.
func (la *lockAnalysis) At(a *Atom) lockState {
	st, ok := la.in[a.Blk]
	if !ok {
		return lockState{}
	}
	st = st.clone()
	for _, x := range la.f.atoms[a.Blk] {
		if x == a {
			break
		}
		la.apply(st, x)
	}
	if a.Deferred {
		// deferred atoms run at exit: replay the whole block, then deferred unlocks that precede it
		st = la.in[a.Blk].clone()
		for _, x := range la.f.atoms[a.Blk] {
			la.apply(st, x)
		}
		for _, x := range la.f.exitAtoms[a.Blk] {
			if x == a {
				break
			}
			if call, ok := x.N.(*ast.CallExpr); ok {
				if fv, d := lockOp(la.f.Info, call); fv != nil && d < 0 {
					delete(st, fv)
				}
			}
		}
	}
	return st
}

// ---- guarded-by rule ----

type guardSpec struct {
	name      string
	lock      *types.Var
	fields    []*types.Var
	// functions in which accesses are exempt, with one line of reason each
	exemptFns map[string]string
	// readOK: reads need at least read lock (1); writes need write lock (2)
	// for plain sync.Mutex both need 2.
	maxDepth int
}

// GuardedBy checks that every access to spec.fields happens with spec.lock
// held. An access in a function that does not hold the lock locally moves the
// obligation to every static call site of that function (depth-limited); a
// function that is exported / escapes as a value with an unguarded access is a
// violation. Accesses through a freshly constructed, unpublished object are exempt.
func (c *Ctx) GuardedBy(spec guardSpec) {
	if spec.maxDepth == 0 {
		spec.maxDepth = 2
	}
	isRW := strings.Contains(spec.lock.Type().String(), "RWMutex")
	type need struct {
		fn    *types.Func
		mode  int
		why   string
		depth int
	}
	flows := map[*types.Func]*Flow{}
	locks := map[*types.Func]*lockAnalysis{}
	getFlow := func(obj *types.Func) (*Flow, *lockAnalysis) {
		if fl, ok := flows[obj]; ok {
			return fl, locks[obj]
		}
		fn := c.fnOfObj(obj)
		if fn == nil {
			flows[obj] = nil
			return nil, nil
		}
		fl := c.NewFlow(fn)
		flows[obj] = fl
		locks[obj] = fl.Locks(nil)
		return fl, locks[obj]
	}
	done := map[string]bool{}
	var pending []need
	// 1. direct accesses
	nAcc := 0
	for _, fld := range spec.fields {
		for _, u := range c.UsesOf(fld) {
			if u.EnclObj == nil {
				continue
			}
			// composite literal keys are not Uses of selector form; only x.f selectors counted
			if u.Sel == nil {
				continue
			}
			nAcc++
			mode := 1
			if u.IsWrite || !isRW {
				mode = 2
			}
			if !isRW {
				mode = 2
			}
			key := fmt.Sprintf("%s/%s.%s@%s", spec.name, fieldOwner(fld), fld.Name(), u.EnclName())
			if why, ok := spec.exemptFns[funcName(u.EnclObj)]; ok {
				if !done[key+"/exempt"] {
					done[key+"/exempt"] = true
					c.Ok(key+"/exempt", "access exempt from the lock rule: "+why, u.Where(c.P))
				}
				continue
			}
			if freshReceiver(u) {
				if !done[key+"/fresh"] {
					done[key+"/fresh"] = true
					c.Ok(key+"/fresh", "access through an object constructed in this function (not yet published)", u.Where(c.P))
				}
				continue
			}
			held, known := c.heldAtUse(u, spec.lock, getFlow)
			if !known {
				c.Undecided(key, "guarded field accessed with lock held", u.Where(c.P), "cannot locate the access in the function's flow graph (inside a skipped function literal?)")
				continue
			}
			if held >= mode || (held == 2) {
				k := key + modeSuffix(mode)
				if !done[k] {
					done[k] = true
					c.Ok(k, fmt.Sprintf("every %s of %s.%s holds %s", modeName(mode), fieldOwner(fld), fld.Name(), spec.lock.Name()), u.Where(c.P))
				}
				continue
			}
			if len(u.Lits) > 0 {
				// inside a function literal that is not placed in the flow: the literal runs elsewhere
				c.Bad(key+modeSuffix(mode), fmt.Sprintf("every %s of %s.%s holds %s", modeName(mode), fieldOwner(fld), fld.Name(), spec.lock.Name()), u.Where(c.P),
					fmt.Sprintf("access inside a function literal of %s without %s held in the literal", funcName(u.EnclObj), spec.lock.Name()))
				continue
			}
			pending = append(pending, need{fn: u.EnclObj, mode: mode, why: fmt.Sprintf("%s of %s at %s", modeName(mode), fld.Name(), u.Where(c.P)), depth: 0})
		}
	}
	if nAcc == 0 {
		c.Undecided(spec.name+"/no-access", "guarded fields have at least one access", "-", "no access found: field set stale?")
	}
	// 2. caller-holds propagation
	needSeen := map[string]bool{}
	for len(pending) > 0 {
		n := pending[0]
		pending = pending[1:]
		nk := fmt.Sprintf("%s|%d", funcName(n.fn), n.mode)
		if needSeen[nk] {
			continue
		}
		needSeen[nk] = true
		uses := c.UsesOf(n.fn)
		key := fmt.Sprintf("%s/caller-holds/%s%s", spec.name, funcName(n.fn), modeSuffix(n.mode))
		if len(uses) == 0 || n.depth >= spec.maxDepth {
			c.Bad(key, fmt.Sprintf("a function touching guarded state without locking is only called with %s held", spec.lock.Name()), c.P.Pos(c.P.declOf[n.fn.Origin()].Pos()),
				fmt.Sprintf("%s needs %s (%s) but has no static caller holding it (exported entry point / depth limit); chain depth %d", funcName(n.fn), spec.lock.Name(), n.why, n.depth))
			continue
		}
		for _, u := range uses {
			ck := key + "<-" + u.EnclName()
			if u.Call == nil {
				c.Bad(ck, "caller-holds function is not used as a value", u.Where(c.P), funcName(n.fn)+" escapes as a function value; its callers cannot be checked for "+spec.lock.Name())
				continue
			}
			if u.EnclObj == nil {
				c.Bad(ck, "caller holds lock", u.Where(c.P), "call at package level")
				continue
			}
			if why, ok := spec.exemptFns[funcName(u.EnclObj)]; ok {
				if !done[ck+"/exempt"] {
					done[ck+"/exempt"] = true
					c.Ok(ck+"/exempt", "call exempt from the lock rule: "+why, u.Where(c.P))
				}
				continue
			}
			if u.InGo {
				c.Bad(ck, "caller holds lock", u.Where(c.P), fmt.Sprintf("%s is started as a goroutine here and (transitively) touches state guarded by %s without locking: %s", funcName(n.fn), spec.lock.Name(), n.why))
				continue
			}
			held, known := c.heldAtUse(u, spec.lock, getFlow)
			if !known {
				c.Undecided(ck, "caller holds lock", u.Where(c.P), "call site not located in flow graph")
				continue
			}
			if held >= n.mode {
				if !done[ck] {
					done[ck] = true
					c.Ok(ck, fmt.Sprintf("%s is called with %s held", funcName(n.fn), spec.lock.Name()), u.Where(c.P))
				}
				continue
			}
			if len(u.Lits) > 0 {
				c.Bad(ck, "caller holds lock", u.Where(c.P), fmt.Sprintf("%s called inside a function literal without %s", funcName(n.fn), spec.lock.Name()))
				continue
			}
			pending = append(pending, need{fn: u.EnclObj, mode: n.mode, why: fmt.Sprintf("calls %s (%s)", funcName(n.fn), n.why), depth: n.depth + 1})
		}
	}
}

func modeSuffix(m int) string {
	if m == 2 {
		return "/W"
	}
	return "/R"
}
func modeName(m int) string {
	if m == 2 {
		return "write"
	}
	return "read"
}

func fieldOwner(f *types.Var) string {
	// best effort: the struct is not recorded on the Var; use position-free name via pkg
	if f.Pkg() != nil {
		return relPkg(f.Pkg().Path())
	}
	return "?"
}

// heldAtUse returns the mode in which lock is held at the use site.
func (c *Ctx) heldAtUse(u *Use, lock *types.Var, getFlow func(*types.Func) (*Flow, *lockAnalysis)) (int, bool) {
	fl, la := getFlow(u.EnclObj)
	if fl == nil {
		return 0, false
	}
	// locate the atom: the selector / call node
	var target ast.Node = u.Ident
	if u.Sel != nil {
		target = u.Sel
	}
	for _, b := range fl.G.Blocks {
		if !b.Live {
			continue
		}
		for _, a := range fl.blockAtoms(b) {
			if a.N == target {
				return la.At(a)[lock], true
			}
		}
	}
	// inside a skipped literal: analyse the literal on its own (lock must be taken inside it)
	if len(u.Lits) > 0 {
		lit := u.Lits[len(u.Lits)-1]
		lf := c.NewLitFlow(u.EnclName(), u.Pkg.TypesInfo, lit)
		lla := lf.Locks(nil)
		for _, b := range lf.G.Blocks {
			if !b.Live {
				continue
			}
			for _, a := range lf.blockAtoms(b) {
				if a.N == target {
					return lla.At(a)[lock], true
				}
			}
		}
	}
	return 0, false
}

// freshReceiver: the selector's root identifier is a local variable initialised
// in this function from a composite literal / new(T) / &T{}.
func freshReceiver(u *Use) bool {
	if u.Sel == nil {
		return false
	}
	root := rootIdent(u.Sel.X)
	if root == nil {
		return false
	}
	obj := u.Pkg.TypesInfo.ObjectOf(root)
	v, ok := obj.(*types.Var)
	if !ok || v.IsField() {
		return false
	}
	// find its defining assignment inside the enclosing decl
	if u.EnclDecl == nil {
		return false
	}
	fresh := false
	ast.Inspect(u.EnclDecl, func(n ast.Node) bool {
		as, ok := n.(*ast.AssignStmt)
		if !ok {
			return true
		}
		for i, l := range as.Lhs {
			id, ok := l.(*ast.Ident)
			if !ok || u.Pkg.TypesInfo.Defs[id] != obj {
				continue
			}
			if i < len(as.Rhs) && len(as.Lhs) == len(as.Rhs) {
				if isFreshExpr(as.Rhs[i]) {
					fresh = true
				}
			}
		}
		return true
	})
	return fresh
}

func isFreshExpr(e ast.Expr) bool {
	e = ast.Unparen(e)
	switch x := e.(type) {
	case *ast.CompositeLit:
		return true
	case *ast.UnaryExpr:
		_, ok := ast.Unparen(x.X).(*ast.CompositeLit)
		return ok
	case *ast.CallExpr:
		if id, ok := x.Fun.(*ast.Ident); ok && id.Name == "new" {
			return true
		}
	}
	return false
}

func rootIdent(e ast.Expr) *ast.Ident {
	for {
		switch x := ast.Unparen(e).(type) {
		case *ast.Ident:
			return x
		case *ast.SelectorExpr:
			e = x.X
		case *ast.IndexExpr:
			e = x.X
		case *ast.StarExpr:
			e = x.X
		case *ast.CallExpr:
			return nil
		default:
			return nil
		}
	}
}

// LockPairing: every Lock/RLock on the given mutex in fn that is not released
// by a defer is released exactly once on every path to a return.
func (c *Ctx) LockPairing(fn *Fn, lock *types.Var) {
	fl := c.NewFlow(fn)
	la := fl.Locks(nil)
	key := "lockpair/" + fn.String() + "/" + lock.Name()
	bad := 0
	n := 0
	for _, b := range fl.G.Blocks {
		if !b.Live || len(b.Succs) != 0 || fl.isPanicExit(b) {
			continue
		}
		n++
		st := la.in[b].clone()
		for _, a := range fl.atoms[b] {
			la.apply(st, a)
		}
		// deferred unlocks
		for _, a := range fl.exitAtoms[b] {
			if call, ok := a.N.(*ast.CallExpr); ok {
				if fv, d := lockOp(fl.Info, call); fv != nil && d < 0 && !a.May {
					delete(st, fv)
				}
			}
		}
		if st[lock] != 0 {
			bad++
			c.Bad(key+"/exit", "every exit releases the lock it acquired", fl.exitDesc(b), fmt.Sprintf("%s still held at %s", lock.Name(), fl.exitDesc(b)))
		}
	}
	if bad == 0 {
		c.Ok(key, fmt.Sprintf("all %d exits of %s release %s", n, fn.String(), lock.Name()), c.P.Pos(fn.Decl.Pos()))
	}
}

func sortedKeys[M ~map[string]V, V any](m M) []string {
	var ks []string
	for k := range m {
		ks = append(ks, k)
	}
	sort.Strings(ks)
	return ks
}
