package main

import (
	"strings"
	"go/ast"
	"go/token"
	"go/types"
)

func init() {
	register(&propDef{
		id: "C32", title: "Relocation places every actor and grain of a departed node exactly once",
		technique: "partition rule over loop bodies (every iteration appends the element to exactly one destination on every path), guard dominance for eligibility, slice-partition rule for the grain chunks, strict-comparator rule for least-loaded choice",
		explanation: "Decides: (1) allocateActors: every actor of the departed node is appended, on every path of the loop body, to exactly one of the leader's singleton share, the share of the chosen target, or the unplaceable list; a target is chosen only among targets whose roles make the actor eligible; 'unplaceable' only when no eligible target exists (best == -1); the choice is the first strictly smaller load and the chosen target's load is incremented after placement; singletons are tested first; (2) reassignByRole: every actor of a failed share goes to exactly one of a survivor share, the leader's list or the recorded failures; (3) allocateGrains: the leader's remainder slice [:r] and the chunked rest [r:] use the same bound, so they partition the input; the leader additionally takes chunk 0, and the peer loop in relocate starts at index 1 (chunk 0 is not also sent to a peer); (4) relocatableGrains drops only grains that disabled relocation; (5) in relocate, peer i-1 receives share i (index agreement) and unplaceable actors are recorded as failures. Added after seed C32a: lists derived from the peers list (survivingPeersExcept) are fresh slices; the peers list is neither written through nor re-used as backing store (purity engine). Made explicit after seed C32b: the candidate index is defined, as -1, inside the per-actor loop body.",
		assumptions: []string{"load optimality of the placement", "chunk.Chunkify splits its argument into consecutive chunks covering it exactly (checked by its unit tests)"},
		minObl:     13,
		run:        runC32,
	})
}

// exactlyOneAppend: on every path of the loop body the loop variable is appended exactly once to one of the sinks.
func exactlyOneSink(c *Ctx, key string, info *types.Info, rng *ast.RangeStmt, isSink func(n ast.Node, loopVar types.Object) bool, what string) {
	loopVar := info.ObjectOf(rng.Value.(*ast.Ident))
	body := &ast.FuncLit{Type: &ast.FuncType{}, Body: rng.Body}
	lf := c.NewLitFlow(key, info, body)
	sink := func(n ast.Node) bool { return isSink(n, loopVar) }
	sinks := lf.Find(sink)
	w0 := lf.ExitReachable(nil, sink, nil, nil)
	c.Check(w0 == nil && len(sinks) >= 2, key+"/at-least-once", "every element is placed on every path of the loop body: "+what, c.P.Pos(rng.Pos()), "an element can leave the loop body unplaced: "+lf.describe(w0))
	w2 := lf.MayReach(sinks, nil, sink)
	c.Check(w2 == nil, key+"/at-most-once", "no element is placed twice", c.P.Pos(rng.Pos()), lf.describe(w2))
}

func appendOf(info *types.Info, n ast.Node, loopVar types.Object) (dst ast.Expr, ok bool) {
	as, isAs := n.(*ast.AssignStmt)
	if !isAs || len(as.Rhs) != 1 {
		return nil, false
	}
	call, isCall := as.Rhs[0].(*ast.CallExpr)
	if !isCall {
		return nil, false
	}
	id, isId := call.Fun.(*ast.Ident)
	if !isId || id.Name != "append" || len(call.Args) != 2 {
		return nil, false
	}
	if objOf(info, call.Args[1]) != loopVar {
		return nil, false
	}
	return as.Lhs[0], true
}

func runC32(c *Ctx) {
	c.Rule("allocateActors", func() {
		fn := c.Func("actor", "allocateActors")
		info := fn.Info()
		var rng *ast.RangeStmt
		ast.Inspect(fn.Decl.Body, func(n ast.Node) bool {
			if r, ok := n.(*ast.RangeStmt); ok {
				if call, ok := r.X.(*ast.CallExpr); ok {
					if cal := callee(info, call); cal != nil && cal.Name() == "GetActors" {
						rng = r
					}
				}
			}
			return true
		})
		if rng == nil {
			c.Fail("allocateActors: loop over the departed node's actors not found")
		}
		exactlyOneSink(c, "allocateActors", info, rng, func(n ast.Node, lv types.Object) bool { _, ok := appendOf(info, n, lv); return ok }, "leader singleton share, chosen target's share, or unplaceable")
		// unplaceable only when best == -1; placement only when best != -1
		body := &ast.FuncLit{Type: &ast.FuncType{}, Body: rng.Body}
		lf := c.NewLitFlow("allocateActors$body", info, body)
		lv := info.ObjectOf(rng.Value.(*ast.Ident))
		// roles: the three results by position; best = the index local initialised to -1 inside the loop body;
		// loads = the []int local built with make
		results := fn.Obj.Type().(*types.Signature).Results()
		resultRole := map[types.Object]string{}
		for i, r := range []string{"leaderShares", "peersShares", "unplaceable"} {
			if results.Len() == 3 {
				resultRole[results.At(i)] = r
			}
		}
		var bestObj, loadsObj types.Object
		ast.Inspect(fn.Decl.Body, func(n ast.Node) bool {
			as, ok := n.(*ast.AssignStmt)
			if !ok || as.Tok != token.DEFINE || len(as.Lhs) != 1 || len(as.Rhs) != 1 {
				return true
			}
			o := info.ObjectOf(as.Lhs[0].(*ast.Ident))
			if v, isC := constInt(info, as.Rhs[0]); isC && v == -1 && as.Pos() >= rng.Body.Pos() && as.End() <= rng.Body.End() {
				bestObj = o
			}
			if call, ok := as.Rhs[0].(*ast.CallExpr); ok {
				if id, ok := call.Fun.(*ast.Ident); ok && id.Name == "make" {
					if sl, ok := o.Type().Underlying().(*types.Slice); ok {
						if b, ok := sl.Elem().Underlying().(*types.Basic); ok && b.Kind() == types.Int {
							loadsObj = o
						}
					}
				}
			}
			return true
		})
		c.Check(bestObj != nil, "allocateActors/best-reset-per-actor", "the candidate index starts at -1 for every actor (it is defined, as -1, inside the per-actor loop body): a value carried over from the previous actor places this actor on that actor's target, eligible or not, and hides an unplaceable actor", c.P.Pos(rng.Pos()), "no variable is defined as -1 inside the loop over the departed node's actors")
		isRole := func(o types.Object, name string) bool {
			switch name {
			case "best":
				return o != nil && o == bestObj
			case "loads":
				return o != nil && o == loadsObj
			}
			return o != nil && resultRole[o] == name
		}
		dstNamed := func(name string) Match {
			return func(n ast.Node) bool {
				d, ok := appendOf(info, n, lv)
				if !ok {
					return false
				}
				if ix, isIx := d.(*ast.IndexExpr); isIx {
					d = ix.X
				}
				o := objOf(info, d)
				return isRole(o, name)
			}
		}
		none := lf.EdgesWhere(func(cond ast.Expr) (bool, bool) {
			cm, ok := asCmp(cond, true)
			if ok && cm.Op == token.EQL {
				if isRole(objOf(info, cm.L), "best") {
					if v, isC := constInt(info, cm.R); isC && v == -1 {
						return true, true
					}
				}
			}
			return false, false
		})
		found := lf.EdgesWhere(func(cond ast.Expr) (bool, bool) {
			cm, ok := asCmp(cond, true)
			if ok && cm.Op == token.EQL {
				if isRole(objOf(info, cm.L), "best") {
					if v, isC := constInt(info, cm.R); isC && v == -1 {
						return true, false
					}
				}
			}
			return false, false
		})
		// restrict to the post-search test (the edge right before the unplaceable append): unplaceable unreachable without a best==-1 edge
		w := lf.search(searchSpec{avoidEdges: none, target: dstNamed("unplaceable")})
		c.Check(w == nil && len(none) > 0, "allocateActors/unplaceable-only-if-no-target", "an actor is declared unplaceable only when no eligible target was found", c.P.Pos(rng.Pos()), lf.describe(w))
		_ = found
		// eligibility dominates the comparison that can select a target
		elig := lf.EdgesWhere(func(cond ast.Expr) (bool, bool) {
			if call, ok := cond.(*ast.CallExpr); ok {
				if cal := callee(info, call); cal != nil && cal.Name() == "eligibleForRole" {
					return true, true
				}
			}
			return false, false
		})
		assignBest := func(n ast.Node) bool {
			as, ok := n.(*ast.AssignStmt)
			if !ok || len(as.Lhs) != 1 || as.Tok != token.ASSIGN {
				return false
			}
			return isRole(objOf(info, as.Lhs[0]), "best")
		}
		w = lf.search(searchSpec{avoidEdges: elig, target: assignBest})
		c.Check(w == nil && len(elig) > 0 && len(lf.Find(assignBest)) == 1, "allocateActors/eligible-only", "a target is selected only after eligibleForRole accepted it for the actor's role", c.P.Pos(rng.Pos()), lf.describe(w))
		// strict comparison of loads, increment after placement
		strict := false
		ast.Inspect(rng.Body, func(n ast.Node) bool {
			if be, ok := n.(*ast.BinaryExpr); ok && be.Op == token.LSS {
				l, lok := be.X.(*ast.IndexExpr)
				r, rok := be.Y.(*ast.IndexExpr)
				if lok && rok {
					if isRole(objOf(info, l.X), "loads") && isRole(objOf(info, r.X), "loads") && isRole(objOf(info, r.Index), "best") {
						strict = true
					}
				}
			}
			return true
		})
		c.Check(strict, "allocateActors/least-loaded-strict", "the candidate replaces the current best only on a strictly smaller load (ties keep the lower index)", c.P.Pos(rng.Pos()), "")
		inc := func(n ast.Node) bool {
			s, ok := n.(*ast.IncDecStmt)
			if !ok || s.Tok != token.INC {
				return false
			}
			ix, ok := s.X.(*ast.IndexExpr)
			if !ok {
				return false
			}
			return isRole(objOf(info, ix.X), "loads")
		}
		w = lf.MustFollow(lf.Find(dstNamed("peersShares")), inc, nil)
		c.Check(w == nil && len(lf.Find(dstNamed("peersShares"))) == 1, "allocateActors/load-accounted", "placing an actor increments the chosen target's load", c.P.Pos(rng.Pos()), lf.describe(w))
		// singleton test first
		sing := lf.EdgesWhere(func(cond ast.Expr) (bool, bool) {
			cm, ok := asCmp(cond, true)
			if ok && cm.Op == token.NEQ && isNilIdent(info, cm.R) {
				if call, ok := cm.L.(*ast.CallExpr); ok {
					if cal := callee(info, call); cal != nil && cal.Name() == "GetSingleton" {
						return true, true
					}
				}
			}
			return false, false
		})
		w = lf.AfterEdgesMustPass(sing, dstNamed("leaderShares"), nil)
		c.Check(w == nil && len(sing) > 0, "allocateActors/singleton→leader", "a singleton always goes to the leader's share", c.P.Pos(rng.Pos()), lf.describe(w))
	})

	c.Rule("reassignByRole", func() {
		fn := c.Func("actor", "reassignByRole")
		info := fn.Info()
		var inner *ast.RangeStmt
		ast.Inspect(fn.Decl.Body, func(n ast.Node) bool {
			if r, ok := n.(*ast.RangeStmt); ok {
				if call, ok := r.X.(*ast.CallExpr); ok {
					if cal := callee(info, call); cal != nil && cal.Name() == "GetActors" {
						inner = r
					}
				}
			}
			return true
		})
		if inner == nil {
			c.Fail("reassignByRole: loop over the share's actors not found")
		}
		exactlyOneSink(c, "reassignByRole", info, inner, func(n ast.Node, lv types.Object) bool {
			if _, ok := appendOf(info, n, lv); ok {
				return true
			}
			// failures.record(wireActor.GetAddress(), ...)
			call, ok := n.(*ast.CallExpr)
			if !ok {
				return false
			}
			cal := callee(info, call)
			return cal != nil && cal.Name() == "record"
		}, "a survivor's share, the leader's list, or the recorded failures")
	})

	c.Rule("allocateGrains", func() {
		fn := c.Func("actor", "allocateGrains")
		info := fn.Info()
		var low, high *ast.SliceExpr
		ast.Inspect(fn.Decl.Body, func(n ast.Node) bool {
			if se, ok := n.(*ast.SliceExpr); ok {
				if se.Low == nil && se.High != nil {
					low = se
				}
				if se.Low != nil && se.High == nil {
					high = se
				}
			}
			return true
		})
		ok := low != nil && high != nil && sameVar(info, low.High, high.Low) && sameVar(info, low.X, high.X)
		c.Check(ok, "remainder+chunks-partition", "the leader's remainder x[:r] and the chunked rest x[r:] split the same slice at the same bound", c.P.Pos(fn.Decl.Pos()), "slice bounds differ")
		// remainder = count % totalPeers, quotient = count / totalPeers
		rem, quo := false, false
		ast.Inspect(fn.Decl.Body, func(n ast.Node) bool {
			if be, ok := n.(*ast.BinaryExpr); ok {
				if be.Op == token.REM {
					rem = true
				}
				if be.Op == token.QUO {
					quo = true
				}
			}
			return true
		})
		c.Check(rem && quo, "quotient-remainder", "chunk size is count/targets and the leader's extra share is count%targets", c.P.Pos(fn.Decl.Pos()), "")
		// relocate: the peer loop starts at 1 and uses peers[i-1]
		rl := c.Func("actor", "relocationWorker.relocate")
		rinfo := rl.Info()
		okLoop := false
		ast.Inspect(rl.Decl.Body, func(n ast.Node) bool {
			fs, isFor := n.(*ast.ForStmt)
			if !isFor || fs.Init == nil {
				return true
			}
			as, isAs := fs.Init.(*ast.AssignStmt)
			if !isAs {
				return true
			}
			if v, isC := constInt(rinfo, as.Rhs[0]); !isC || v != 1 {
				return true
			}
			iObj := rinfo.ObjectOf(as.Lhs[0].(*ast.Ident))
			usesShareI, usesPeerIminus1 := false, false
			ast.Inspect(fs.Body, func(m ast.Node) bool {
				if ix, isIx := m.(*ast.IndexExpr); isIx {
					if objOf(rinfo, ix.Index) == iObj {
						usesShareI = true
					}
					if be, isBe := ix.Index.(*ast.BinaryExpr); isBe && be.Op == token.SUB && objOf(rinfo, be.X) == iObj {
						if v, isC := constInt(rinfo, be.Y); isC && v == 1 {
							usesPeerIminus1 = true
						}
					}
				}
				return true
			})
			okLoop = usesShareI && usesPeerIminus1
			return true
		})
		c.Check(okLoop, "relocate/share-i→peer-i-1", "share 0 stays with the leader; share i (i ≥ 1) is sent to peers[i-1]", c.P.Pos(rl.Decl.Pos()), "peer loop shape changed")
	})

	c.Rule("peers-list-not-mutated", func() {
		// the peers list maps share index to target for the whole relocation and is read by every concurrent share task:
		// helpers that derive lists from it (survivors, eligible targets) must build fresh slices and never write through it
		c.P.BuildSSA()
		eng := newPureEngine(c)
		n := 0
		for _, name := range []string{"survivingPeersExcept"} {
			fn := c.Func("actor", name)
			sf := c.SSA(fn)
			params := map[int]bool{}
			for i, p := range sf.Params {
				if _, isSlice := p.Type().Underlying().(*types.Slice); isSlice {
					params[i] = true
				}
			}
			n++
			_, all, _ := eng.analyse(sf, params, true)
			var findings []pureFinding
			for _, fd := range all {
				// element pointers (*cluster.Peer) are meant to be shared; only the list itself must be fresh
				if strings.Contains(fd.what, "stored into the result") || strings.Contains(fd.what, "placed into the result") {
					continue
				}
				findings = append(findings, fd)
			}
			if len(findings) == 0 {
				c.Ok("fresh/"+name, "the derived list is a fresh slice: the input list is neither written through nor re-used as backing store", c.P.Pos(fn.Decl.Pos()))
			}
			for _, fd := range findings {
				c.Bad("fresh/"+name, "a list derived from the peers list is a fresh slice (the peers list is shared by the dispatch loop and by every concurrent share task)", c.P.Pos(fd.pos), fd.what)
			}
		}
		if n == 0 {
			c.Undecided("fresh/sites", "list-deriving helpers found", "-", "none")
		}
	})

	c.Rule("filters", func() {
		rg := c.Func("actor", "relocatableGrains")
		info := rg.Info()
		var rng *ast.RangeStmt
		ast.Inspect(rg.Decl.Body, func(n ast.Node) bool {
			if r, ok := n.(*ast.RangeStmt); ok {
				rng = r
			}
			return true
		})
		if rng == nil {
			c.Fail("relocatableGrains: loop not found")
		}
		body := &ast.FuncLit{Type: &ast.FuncType{}, Body: rng.Body}
		lf := c.NewLitFlow("relocatableGrains$body", info, body)
		lv := info.ObjectOf(rng.Value.(*ast.Ident))
		app := func(n ast.Node) bool { _, ok := appendOf(info, n, lv); return ok }
		disabled := lf.CondEdges(func(e ast.Expr) bool {
			call, ok := e.(*ast.CallExpr)
			if !ok {
				return false
			}
			cal := callee(info, call)
			return cal != nil && cal.Name() == "GetDisableRelocation"
		}, false)
		w := lf.search(searchSpec{startEdges: edgesList(disabled), avoid: app, exits: true})
		c.Check(w == nil && len(disabled) > 0, "grains/only-disabled-are-dropped", "a grain is left out of relocation only when it disabled relocation", c.P.Pos(rng.Pos()), lf.describe(w))
		// unplaceable → failure record in relocate
		rl := c.Func("actor", "relocationWorker.relocate")
		rinfo := rl.Info()
		rec := false
		// the third result of allocateActors (the actors nobody is eligible to host)
		unplaceableVars := map[types.Object]bool{}
		ast.Inspect(rl.Decl.Body, func(n ast.Node) bool {
			if as, ok := n.(*ast.AssignStmt); ok && len(as.Lhs) == 3 && len(as.Rhs) == 1 {
				if call, ok := as.Rhs[0].(*ast.CallExpr); ok && callee(rinfo, call) == c.FuncObj("actor", "allocateActors") {
					if o := objOf(rinfo, as.Lhs[2]); o != nil {
						unplaceableVars[o] = true
					}
				}
			}
			return true
		})
		ast.Inspect(rl.Decl.Body, func(n ast.Node) bool {
			if r, ok := n.(*ast.RangeStmt); ok {
				if o := objOf(rinfo, r.X); o != nil && unplaceableVars[o] {
					ast.Inspect(r.Body, func(m ast.Node) bool {
						if call, ok := m.(*ast.CallExpr); ok {
							if cal := callee(rinfo, call); cal != nil && cal.Name() == "record" {
								rec = true
							}
						}
						return true
					})
				}
			}
			return true
		})
		c.Check(rec, "relocate/unplaceable-recorded", "every unplaceable actor is recorded as a relocation failure", c.P.Pos(rl.Decl.Pos()), "")
	})
}
