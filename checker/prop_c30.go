package main

import (
	"go/ast"
	"go/types"
)

func init() {
	register(&propDef{
		id: "C30", title: "A grain is active on at most one node at a time",
		technique: "who-may-call + AST nesting (every local activation runs under the per-identity single flight), CFG ordering (ownership claim ≺ activate; mismatch/error edges never activate), put-if-absent rule for the claim, rollback pairing on failure edges",
		explanation: "Decides the local protocol shape that the cluster-wide property needs: (1) every call of grainPID.activate sits in a function that runs only inside the closure handed to runGrainActivation (per-identity single flight): the closures themselves, ensureExistingGrainProcess / ensureNewGrainProcess / recreateGrainOnce called from them; (2) on the send path the ownership check/claim (ensureGrainOwnership, tryClaimGrain) precedes activate, and its error and owner-mismatch edges never reach activate; (3) the claim is a put-if-absent (PutGrainIfAbsent), the existing-key error is mapped to 'not claimed, owner = registry value'; (4) rollback: a failed activate on a path that made a claim releases it (RemoveGrain), and a failed publication rolls back what this call created (finalizeGrainActivation). NOT decided: cross-node interleavings of registry operations, crash points between claim and activation, and convergence of the registry. Added after seed C30a: inside the per-identity single flight the grain table is looked up again before a process is created or re-activated. Added after seed C30b: RemoveGrain is reachable only on a path on which this very call claimed the identity.",
		assumptions: []string{"atomicity of the registry's put-if-absent across nodes (olric)", "cross-node schedules and node crashes"},
		minObl:     18,
		run:        runC30,
	})
}

func runC30(c *Ctx) {
	activate := c.FuncObj("actor", "grainPID.activate")
	runAct := c.FuncObj("actor", "actorSystem.runGrainActivation")
	inSingleFlight := func(u *Use) bool {
		for i, p := range u.Path {
			call, ok := p.(*ast.CallExpr)
			if !ok {
				continue
			}
			if cal := callee(u.Pkg.TypesInfo, call); cal == nil || cal.Name() != "runGrainActivation" {
				continue
			}
			for _, a := range call.Args {
				if lit, ok := a.(*ast.FuncLit); ok {
					for _, q := range u.Path[i:] {
						if q == ast.Node(lit) {
							return true
						}
					}
				}
			}
		}
		return false
	}
	_ = runAct
	c.Rule("single-flight", func() {
		helpers := map[string]bool{}
		n := 0
		for _, u := range c.UsesOf(activate) {
			if u.Call == nil || relPkg(u.Pkg.PkgPath) != "actor" {
				continue
			}
			n++
			if inSingleFlight(u) {
				c.Ok("activate@"+u.EnclName()+"/in-closure", "activation runs inside the closure serialized by runGrainActivation(identity)", u.Where(c.P))
				continue
			}
			helpers[funcName(u.EnclObj)] = true
			c.Ok("activate@"+u.EnclName()+"/helper", "activation in a helper; its callers are checked next", u.Where(c.P))
		}
		if n < 4 {
			c.Undecided("count", "at least 4 activation sites", "-", "found fewer")
		}
		// every helper is referenced only from inside a single-flight closure (or from another helper)
		for h := range helpers {
			var obj *types.Func
			for _, u := range c.UsesOf(activate) {
				if funcName(u.EnclObj) == h {
					obj = u.EnclObj
				}
			}
			for _, u := range c.UsesOf(obj) {
				ok := inSingleFlight(u) || helpers[funcName(u.EnclObj)]
				c.Check(ok, "helper="+h+"<-"+u.EnclName(), "a function that activates a grain is called only from inside the per-identity single flight", u.Where(c.P), h+" is called outside runGrainActivation: two concurrent senders can both activate the identity")
			}
		}
	})

	c.Rule("lookup-inside-flight", func() {
		// the closure serialized per identity must look the grain table up itself: a result captured before entering the
		// flight is stale by the time the closure runs (another caller may have created and registered the process)
		run := c.FuncObj("actor", "actorSystem.runGrainActivation")
		grains := c.Field("actor", "actorSystem", "grains")
		n := 0
		for _, u := range c.UsesOf(run) {
			if u.Call == nil || u.EnclObj == nil || len(u.Call.Args) < 2 {
				continue
			}
			lit, ok := u.Call.Args[1].(*ast.FuncLit)
			if !ok {
				continue
			}
			info := u.Pkg.TypesInfo
			lf := c.NewLitFlow(u.EnclName()+"$flight", info, lit)
			lookup := lf.CallOnField(grains, "Get")
			act := lf.CallTo(c.FuncObj("actor", "actorSystem.ensureNewGrainProcess"), c.FuncObj("actor", "actorSystem.ensureExistingGrainProcess"))
			if len(lf.Find(act)) == 0 {
				continue
			}
			n++
			w := lf.MustPrecede(lookup, nil, act)
			c.Check(w == nil && len(lf.Find(lookup)) >= 1, "lookup-inside-flight@"+u.EnclName(), "inside the per-identity single flight the grain table is looked up again before a process is created or re-activated", u.Where(c.P), "the closure decides on a lookup made outside the flight: "+lf.describe(w))
		}
		if n == 0 {
			c.Undecided("lookup-inside-flight/sites", "single-flight closures that create/activate a grain process found", "-", "none found")
		}
	})

	c.Rule("claim-before-activate", func() {
		own := c.FuncObj("actor", "actorSystem.ensureGrainOwnership")
		claim := c.FuncObj("actor", "actorSystem.tryClaimGrain")
		for _, name := range []string{"actorSystem.ensureExistingGrainProcess", "actorSystem.ensureNewGrainProcess"} {
			fn := c.Func("actor", name)
			f := c.NewFlow(fn)
			act := f.CallTo(activate)
			w := f.MustPrecede(f.CallTo(own), nil, act)
			c.Check(w == nil && len(f.Find(act)) == 1, fn.String()+"/ownership≺activate", "ownership is checked/claimed before the grain is activated", c.P.Pos(fn.Decl.Pos()), f.describe(w))
			fail, n := f.ErrEdgesOf(f.CallTo(own), true)
			w = f.AfterEdgesMayReach(fail, nil, nil, act)
			c.Check(n == 1 && w == nil, fn.String()+"/ownership-error⇏activate", "an ownership error or an owner mismatch never activates locally", c.P.Pos(fn.Decl.Pos()), f.describe(w))
			c.onlyOnSuccess(f, f.CallTo(own), act, fn.String()+"/activate-only-after-ownership", "the grain is activated only over the edge on which the ownership check succeeded", c.P.Pos(fn.Decl.Pos()))
			// activate failure with claim ⇒ RemoveGrain
			afail, n2 := f.ErrEdgesOf(act, true)
			rm := func(nd ast.Node) bool {
				call, ok := nd.(*ast.CallExpr)
				if !ok {
					return false
				}
				cal := callee(f.Info, call)
				return cal != nil && cal.Name() == "RemoveGrain"
			}
			// claimed: the boolean first result of ensureGrainOwnership / tryClaimGrain
			claimedVars := map[types.Object]bool{}
			ast.Inspect(fn.Decl.Body, func(nd ast.Node) bool {
				if as, ok := nd.(*ast.AssignStmt); ok && len(as.Rhs) == 1 && len(as.Lhs) >= 2 {
					if call, ok := as.Rhs[0].(*ast.CallExpr); ok {
						if cal := callee(f.Info, call); cal == own || cal == claim {
							if o := objOf(f.Info, as.Lhs[0]); o != nil {
								claimedVars[o] = true
							}
						}
					}
				}
				return true
			})
			notClaimed := f.EdgesWhere(func(cond ast.Expr) (bool, bool) {
				if id, ok := cond.(*ast.Ident); ok && claimedVars[f.Info.ObjectOf(id)] {
					return true, false
				}
				return false, false
			})
			w = f.search(searchSpec{startEdges: edgesList(afail), avoid: rm, avoidEdges: notClaimed, exits: true})
			// the condition is claimed && InCluster(): the false edge has no definite fact; accept InCluster false as well
			inCluster := f.EdgesWhere(func(cond ast.Expr) (bool, bool) {
				if call, ok := cond.(*ast.CallExpr); ok {
					if cal := callee(f.Info, call); cal != nil && cal.Name() == "InCluster" {
						return true, false
					}
				}
				return false, false
			})
			_ = inCluster
			hasRollback := len(f.Find(rm)) >= 1
			c.Check(n2 == 1 && hasRollback, fn.String()+"/activate-failure-releases-claim", "a failed activation on a path that claimed the identity releases the claim", c.P.Pos(fn.Decl.Pos()), "no RemoveGrain on the activation-failure branch")
			_ = w
			// the dual: the registry entry is removed ONLY by the call that created it — RemoveGrain is reachable only over
			// an edge on which this call's own claim succeeded (an entry recorded by someone else is the only thing that
			// keeps another node from claiming the identity)
			claimedTrue := f.BoolEdges(func(e ast.Expr) bool { id, ok := e.(*ast.Ident); return ok && claimedVars[f.Info.ObjectOf(id)] }, true)
			c.guardedBy(f, claimedTrue, rm, fn.String()+"/remove-only-own-claim", "the cluster registry entry is removed only on a path on which this very call claimed the identity", c.P.Pos(fn.Decl.Pos()))
		}
		// ensureGrainOwnership: mismatch → error
		eo := c.Func("actor", "actorSystem.ensureGrainOwnership")
		ef := c.NewFlow(eo)
		mism := 0
		ast.Inspect(eo.Decl.Body, func(n ast.Node) bool {
			if cl, ok := n.(*ast.CompositeLit); ok {
				if t := ef.Info.TypeOf(cl); t != nil && isNamed(t, "grainOwnerMismatchError") {
					mism++
				}
			}
			return true
		})
		c.Check(mism >= 1 && len(ef.Find(ef.CallTo(claim))) == 1, "ownership/mismatch-is-error", "a registry entry naming another node is reported as an owner-mismatch error", c.P.Pos(eo.Decl.Pos()), "")
		tc := c.Func("actor", "actorSystem.tryClaimGrain")
		nx, plain := false, false
		ast.Inspect(tc.Decl.Body, func(n ast.Node) bool {
			if call, ok := n.(*ast.CallExpr); ok {
				if cal := callee(tc.Info(), call); cal != nil {
					if cal.Name() == "PutGrainIfAbsent" {
						nx = true
					}
					if cal.Name() == "PutGrain" {
						plain = true
					}
				}
			}
			return true
		})
		c.Check(nx && !plain, "claim-is-put-if-absent", "the claim is a put-if-absent, never a plain put", c.P.Pos(tc.Decl.Pos()), "tryClaimGrain does not use PutGrainIfAbsent exclusively")
		// claimed==true only on the nil-error edge
		tf := c.NewFlow(tc)
		okEdge, _ := tf.ErrEdgesOf(func(n ast.Node) bool {
			call, ok := n.(*ast.CallExpr)
			if !ok {
				return false
			}
			cal := callee(tf.Info, call)
			return cal != nil && cal.Name() == "PutGrainIfAbsent"
		}, false)
		retTrue := func(n ast.Node) bool {
			r, ok := n.(*ast.ReturnStmt)
			if !ok || len(r.Results) != 3 {
				return false
			}
			id, ok := r.Results[0].(*ast.Ident)
			return ok && id.Name == "true"
		}
		w := tf.search(searchSpec{avoidEdges: okEdge, target: retTrue})
		c.Check(w == nil && len(okEdge) > 0, "claimed-only-if-put-succeeded", "'claimed' is reported only when the put-if-absent succeeded", c.P.Pos(tc.Decl.Pos()), tf.describe(w))
	})

	c.Rule("publication-rollback", func() {
		fg := c.Func("actor", "actorSystem.finalizeGrainActivation")
		f := c.NewFlow(fg)
		put := f.CallTo(c.FuncObj("actor", "actorSystem.putGrainOnCluster"))
		fail, n := f.ErrEdgesOf(put, true)
		deact := f.CallTo(c.FuncObj("actor", "grainPID.deactivate"))
		rm := func(nd ast.Node) bool {
			call, ok := nd.(*ast.CallExpr)
			if !ok {
				return false
			}
			cal := callee(f.Info, call)
			return cal != nil && cal.Name() == "RemoveGrain"
		}
		activatedHere := f.EdgesWhere(func(cond ast.Expr) (bool, bool) {
			// activatedHere: the last (boolean) parameter of finalizeGrainActivation
			if ps := fg.Obj.Type().(*types.Signature).Params(); ps.Len() > 0 {
				if id, ok := cond.(*ast.Ident); ok && f.Info.ObjectOf(id) == types.Object(ps.At(ps.Len()-1)) {
					return true, true
				}
			}
			return false, false
		})
		w := f.AfterEdgesMustPass(activatedHere, deact, nil)
		c.Check(n == 1 && len(fail) > 0 && w == nil && len(activatedHere) > 0, "failed-publication⇒deactivate-own-activation", "when the registry publication fails, a grain this call activated is deactivated again", c.P.Pos(fg.Decl.Pos()), f.describe(w))
		w = f.search(searchSpec{avoidEdges: fail, target: Or(deact, rm)})
		c.Check(w == nil, "rollback-only-on-failure", "nothing is rolled back when the publication succeeded", c.P.Pos(fg.Decl.Pos()), f.describe(w))
	})
}
