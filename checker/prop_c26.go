package main

import (
	"fmt"
	"go/ast"
	"go/constant"
	"go/token"
	"go/types"
	"strings"
)

func init() {
	register(&propDef{
		id: "C26", title: "Actor addresses survive their text form",
		technique: "writer-template / parser-cut agreement: the concatenation template is read from buildString, the cut sequence and occurrence policy from Parse; each delimiter must be outside the alphabet (from Validate's pattern literal) of the field its cut terminates; slice-bound rule for no-panic",
		explanation: "Decides: (1) buildString writes exactly scheme '://' system '@' host ':' port '/' [parent '/'] name, in that order; (2) Parse undoes it: every cut uses a delimiter that cannot occur inside the field the cut terminates — first-occurrence cuts need the delimiter outside the alphabet of the field to their left, last-occurrence cuts outside the alphabet of the field to their right; alphabets: system/name/parent from the regular expression literal in Validate, port = digits, host = anything a TCP address accepts, in particular ':' (IPv6) and '.', but not '/' or '@'; (3) the regions produced by the cuts are passed to New/NewWithParent in the matching argument positions; (4) HostPortOf cuts at the same delimiters and HostPort/FormatHostPort render host ':' port like buildString; (5) no panic: every slice expression in Parse/HostPortOf is bounded by a strings index result guarded against -1, and there is no other index expression; only total string functions are called.",
		assumptions: []string{"field alphabets: host characters are frozen as 'no / and no @' (what net accepts as a host)", "strconv/strings library functions are total", "Equals after parse is field-wise equality of the components checked"},
		minObl:     21,
		run:        runC26,
	})
}

type cutStep struct {
	delim   string
	last    bool   // last-occurrence policy
	operand string // variable being cut
	left    string // variable receiving the left part
	right   string
	pos     token.Pos
}

func strConst(info *types.Info, e ast.Expr) (string, bool) {
	tv, ok := info.Types[e]
	if !ok || tv.Value == nil {
		return "", false
	}
	switch tv.Value.Kind() {
	case constant.String:
		return constant.StringVal(tv.Value), true
	case constant.Int:
		if v, ok := constant.Int64Val(tv.Value); ok && v >= 0 && v < 128 {
			return string(rune(v)), true
		}
	}
	return "", false
}

// extractCuts lists the delimiter cuts of a parser function in source order.
func extractCuts(fn *Fn) ([]cutStep, []string) {
	info := fn.Info()
	var steps []cutStep
	var unknown []string
	idxVars := map[types.Object]*cutStep{} // i := strings.LastIndexByte(x, c)
	ast.Inspect(fn.Decl.Body, func(n ast.Node) bool {
		as, ok := n.(*ast.AssignStmt)
		if !ok {
			return true
		}
		if len(as.Rhs) == 1 {
			if call, ok := ast.Unparen(as.Rhs[0]).(*ast.CallExpr); ok {
				if cal := callee(info, call); cal != nil && cal.Pkg() != nil && cal.Pkg().Path() == "strings" {
					switch cal.Name() {
					case "Cut":
						d, okd := strConst(info, call.Args[1])
						if !okd || len(as.Lhs) != 3 {
							unknown = append(unknown, "strings.Cut with non-constant delimiter")
							return true
						}
						steps = append(steps, cutStep{delim: d, operand: types.ExprString(call.Args[0]), left: types.ExprString(as.Lhs[0]), right: types.ExprString(as.Lhs[1]), pos: call.Pos()})
					case "LastIndex", "LastIndexByte", "Index", "IndexByte":
						d, okd := strConst(info, call.Args[1])
						if !okd || len(as.Lhs) != 1 {
							unknown = append(unknown, cal.Name()+" with non-constant delimiter")
							return true
						}
						st := &cutStep{delim: d, last: strings.HasPrefix(cal.Name(), "Last"), operand: types.ExprString(call.Args[0]), pos: call.Pos()}
						if id, ok := as.Lhs[0].(*ast.Ident); ok {
							idxVars[info.ObjectOf(id)] = st
						}
					case "Contains", "HasPrefix", "HasSuffix", "TrimSpace", "EqualFold":
					default:
						unknown = append(unknown, "strings."+cal.Name())
					}
				}
			}
		}
		// a, b := x[:i], x[i+1:]
		if len(as.Lhs) == 2 && len(as.Rhs) == 2 {
			l, ok1 := ast.Unparen(as.Rhs[0]).(*ast.SliceExpr)
			r, ok2 := ast.Unparen(as.Rhs[1]).(*ast.SliceExpr)
			if ok1 && ok2 && l.High != nil && l.Low == nil && r.Low != nil && r.High == nil {
				if st := idxVars[objOf(info, l.High)]; st != nil && types.ExprString(l.X) == st.operand && types.ExprString(r.X) == st.operand {
					st2 := *st
					st2.left, st2.right = types.ExprString(as.Lhs[0]), types.ExprString(as.Lhs[1])
					steps = append(steps, st2)
					delete(idxVars, objOf(info, l.High))
				}
			}
		}
		return true
	})
	for _, st := range idxVars {
		unknown = append(unknown, "index of "+st.delim+" in "+st.operand+" not used as x[:i], x[i+1:]")
	}
	return steps, unknown
}

// writerTemplate reads the ordered Write* calls on a strings.Builder in fn.
func writerTemplate(fn *Fn) []string {
	info := fn.Info()
	var toks []string
	var walk func(n ast.Node, optional bool)
	walk = func(n ast.Node, optional bool) {
		ast.Inspect(n, func(m ast.Node) bool {
			if ifs, ok := m.(*ast.IfStmt); ok && m != n {
				if ifs.Init != nil {
					walk(ifs.Init, optional)
				}
				toks = append(toks, "[")
				walk(ifs.Body, true)
				toks = append(toks, "]")
				return false
			}
			call, ok := m.(*ast.CallExpr)
			if !ok {
				return true
			}
			cal := callee(info, call)
			if cal == nil || cal.Pkg() == nil || cal.Pkg().Path() != "strings" || len(call.Args) != 1 {
				return true
			}
			switch cal.Name() {
			case "WriteString", "WriteByte", "Write", "WriteRune":
				if s, ok := strConst(info, call.Args[0]); ok {
					toks = append(toks, "'"+s+"'")
				} else {
					toks = append(toks, accessorToken(fn, call.Args[0]))
				}
			}
			return true
		})
	}
	walk(fn.Decl.Body, false)
	// drop empty optional groups
	var out []string
	for i := 0; i < len(toks); i++ {
		if toks[i] == "[" && i+1 < len(toks) && toks[i+1] == "]" {
			i++
			continue
		}
		out = append(out, toks[i])
	}
	return out
}

// accessorToken names a written value by the Address accessors it is computed
// from (following local variable definitions), e.g. host := x.Host() → "Host",
// parentName = parent.Name() with parent := x.Parent() → "Name+Parent".
func accessorToken(fn *Fn, e ast.Expr) string {
	info := fn.Info()
	set := map[string]bool{}
	seen := map[types.Object]bool{}
	var visitExpr func(e ast.Node)
	visitExpr = func(e ast.Node) {
		ast.Inspect(e, func(n ast.Node) bool {
			switch x := n.(type) {
			case *ast.CallExpr:
				if cal := callee(info, x); cal != nil {
					if sig := cal.Type().(*types.Signature); sig.Recv() != nil && strings.HasSuffix(sig.Recv().Type().String(), "address.Address") {
						set[cal.Name()] = true
					}
				}
			case *ast.Ident:
				obj := info.ObjectOf(x)
				if v, ok := obj.(*types.Var); ok && !v.IsField() && !seen[obj] && obj.Parent() != nil && obj.Pkg() != nil && obj.Parent() != obj.Pkg().Scope() {
					seen[obj] = true
					ast.Inspect(fn.Decl.Body, func(m ast.Node) bool {
						if as, ok := m.(*ast.AssignStmt); ok {
							for i, l := range as.Lhs {
								if id, ok := l.(*ast.Ident); ok && info.ObjectOf(id) == obj && i < len(as.Rhs) {
									visitExpr(as.Rhs[i])
								} else if ok && info.ObjectOf(id) == obj && len(as.Rhs) == 1 {
									visitExpr(as.Rhs[0])
								}
							}
						}
						return true
					})
				}
			}
			return true
		})
	}
	visitExpr(e)
	if len(set) == 0 {
		return types.ExprString(e)
	}
	return strings.Join(sortedKeys(set), "+")
}

func runC26(c *Ctx) {
	build := c.Func("internal/address", "Address.buildString")
	parse := c.Func("internal/address", "Parse")
	hpOf := c.Func("internal/address", "HostPortOf")
	validate := c.Func("internal/address", "Address.Validate")

	// alphabets
	var pattern string
	ast.Inspect(validate.Decl.Body, func(n ast.Node) bool {
		if bl, ok := n.(*ast.BasicLit); ok && bl.Kind == token.STRING && strings.HasPrefix(bl.Value, "\"^[") {
			if s, ok := strConst(validate.Info(), bl); ok {
				pattern = s
			}
		}
		return true
	})
	nameMay := func(ch byte) bool { return true }
	c.Rule("alphabet", func() {
		if pattern == "" {
			c.Fail("Validate: name/system pattern literal not found")
		}
		// pattern ^[A][B]*$ : union of the two classes
		classes := ""
		for _, part := range strings.Split(pattern, "[")[1:] {
			if i := strings.Index(part, "]"); i >= 0 {
				classes += part[:i]
			}
		}
		allowed := map[byte]bool{}
		for i := 0; i < len(classes); i++ {
			ch := classes[i]
			if ch == '\\' && i+1 < len(classes) {
				i++
				allowed[classes[i]] = true
				continue
			}
			if i+2 < len(classes) && classes[i+1] == '-' && classes[i+2] != ']' && isAlnum(ch) && isAlnum(classes[i+2]) {
				for x := ch; x <= classes[i+2]; x++ {
					allowed[x] = true
				}
				i += 2
				continue
			}
			allowed[ch] = true
		}
		nameMay = func(ch byte) bool { return allowed[ch] }
		bad := ""
		for _, d := range []byte{':', '/', '@'} {
			if allowed[d] {
				bad += string(d)
			}
		}
		c.Check(bad == "", "name-system-exclude-delimiters", "the validated alphabet of system and actor names contains none of the delimiters ':' '/' '@'", c.P.Pos(validate.Decl.Pos()), "pattern "+pattern+" admits "+bad)
		// validators are applied to system and name
		n := 0
		ast.Inspect(validate.Decl.Body, func(nd ast.Node) bool {
			if call, ok := nd.(*ast.CallExpr); ok {
				if cal := callee(validate.Info(), call); cal != nil && cal.Name() == "NewPatternValidator" {
					n++
				}
			}
			return true
		})
		c.Check(n >= 2, "pattern-applied", "the pattern is applied to both the system and the actor name", c.P.Pos(validate.Decl.Pos()), fmt.Sprintf("%d pattern validators", n))
	})
	fieldMay := func(field string, ch byte) bool {
		switch field {
		case "scheme":
			return strings.IndexByte("goakt", ch) >= 0
		case "system", "name", "parent":
			return nameMay(ch)
		case "port":
			return ch >= '0' && ch <= '9' || ch == '-'
		case "host":
			return ch != '/' && ch != '@' // may contain ':' (IPv6), '.', alnum, '-', '%'
		}
		return true
	}
	mayContain := func(fields []string, delim string) string {
		for _, f := range fields {
			all := true
			for i := 0; i < len(delim); i++ {
				if !fieldMay(f, delim[i]) {
					all = false
				}
			}
			if all {
				return f
			}
		}
		return ""
	}

	c.Rule("template", func() {
		got := strings.Join(writerTemplate(build), " ")
		want := "'goakt' '://' System '@' Host ':' Port '/' [ Name+Parent '/' ] Name"
		c.Check(got == want, "buildString", "String() is scheme '://' system '@' host ':' port '/' [parent '/'] name", c.P.Pos(build.Decl.Pos()), "template is: "+got)
		hp := c.Func("internal/address", "Address.HostPort")
		got = strings.Join(writerTemplate(hp), " ")
		c.Check(got == "Host ':' Port", "HostPort", "HostPort() renders host ':' port exactly as String() embeds it", c.P.Pos(hp.Decl.Pos()), "template is: "+got)
		// FormatHostPort: host + ":" + strconv.Itoa(port)
		fh := c.Func("internal/address", "FormatHostPort")
		okF := false
		ast.Inspect(fh.Decl.Body, func(n ast.Node) bool {
			if r, ok := n.(*ast.ReturnStmt); ok && len(r.Results) == 1 {
				// <string param> + ":" + strconv.Itoa(<int param>)
				if outer, ok := ast.Unparen(r.Results[0]).(*ast.BinaryExpr); ok && outer.Op == token.ADD {
					if inner, ok := ast.Unparen(outer.X).(*ast.BinaryExpr); ok && inner.Op == token.ADD {
						ps := fh.Obj.Type().(*types.Signature).Params()
						sep, isS := strConst(fh.Info(), inner.Y)
						call, isCall := ast.Unparen(outer.Y).(*ast.CallExpr)
						if ps.Len() == 2 && isS && sep == ":" && objOf(fh.Info(), inner.X) == types.Object(ps.At(0)) && isCall && len(call.Args) == 1 && objOf(fh.Info(), call.Args[0]) == types.Object(ps.At(1)) {
							if cal := callee(fh.Info(), call); cal != nil && cal.Name() == "Itoa" {
								okF = true
							}
						}
					}
				}
			}
			return true
		})
		c.Check(okF, "FormatHostPort", "FormatHostPort renders host ':' port (no IPv6 brackets)", c.P.Pos(fh.Decl.Pos()), "unexpected rendering")
	})

	// the frozen region table: which fields lie left / right of each cut, by the variable cut
	type region struct{ leftFields, rightFields []string }
	c.Rule("parse-cuts", func() {
		steps, unknown := extractCuts(parse)
		for _, u := range unknown {
			c.Undecided("unknown-op", "every string operation of Parse is in the recognised table", c.P.Pos(parse.Decl.Pos()), u)
		}
		// regions: operand variable (k-th cut) → fields to the left of the delimiter / to the right within the operand
		expect := []struct {
			delim string
			reg   region
			role  string
		}{
			{"://", region{[]string{"scheme"}, nil}, "scheme|rest"},
			{"@", region{[]string{"system"}, nil}, "system|rest"},
			{"/", region{[]string{"host", "port"}, nil}, "hostPort|path"},
			{":", region{[]string{"host"}, []string{"port"}}, "host|port"},
			{"/", region{[]string{"parent"}, []string{"name"}}, "parent|name"},
		}
		if len(steps) != len(expect) {
			c.Undecided("cut-count", "Parse performs the five cuts of the template", c.P.Pos(parse.Decl.Pos()), fmt.Sprintf("found %d cuts: %+v", len(steps), steps))
			return
		}
		for i, st := range steps {
			ex := expect[i]
			key := fmt.Sprintf("cut%d(%s)", i+1, ex.role)
			if st.delim != ex.delim {
				c.Undecided(key, "cut sequence matches the template", c.P.Pos(st.pos), "delimiter "+st.delim+" where "+ex.delim+" expected")
				continue
			}
			if st.last {
				f := mayContain(ex.reg.rightFields, st.delim)
				if ex.reg.rightFields == nil {
					c.Undecided(key, "last-occurrence cut has a bounded right side", c.P.Pos(st.pos), "a last-occurrence cut is used where the right side is the unparsed remainder")
					continue
				}
				c.Check(f == "", key, "a last-occurrence cut at '"+st.delim+"' requires the delimiter to be outside the alphabet of the field to its right", c.P.Pos(st.pos), "field "+f+" may contain '"+st.delim+"'")
			} else {
				f := mayContain(ex.reg.leftFields, st.delim)
				c.Check(f == "", key, "a first-occurrence cut at '"+st.delim+"' requires the delimiter to be outside the alphabet of every field to its left", c.P.Pos(st.pos),
					"field "+f+" may contain '"+st.delim+"' (e.g. an IPv6 host such as ::1), so String() output does not parse back: the cut lands inside the field")
			}
		}
		// the cut results reach New / NewWithParent in matching positions. Variables are identified by the cut that
		// binds them (roles), never by their names.
		info := parse.Info()
		roleNames := [][2]string{{"scheme", "rest1"}, {"system", "rest2"}, {"hostPort", "path"}, {"host", "portStr"}, {"parent", "name"}}
		role := map[string]string{} // variable name in Parse -> role; names are consistent within one function
		chain := ""
		for i, st := range steps {
			if _, dup := role[st.left]; !dup {
				role[st.left] = roleNames[i][0]
			}
			role[st.right] = roleNames[i][1] // "rest" is re-bound by successive cuts: the latest binding wins for later uses
			want := map[int]string{1: steps[0].right, 2: steps[1].right, 3: steps[2].left, 4: steps[2].right}
			if i > 0 && st.operand != want[i] {
				chain += fmt.Sprintf("cut%d operates on %s ", i+1, st.operand)
			}
		}
		c.Check(chain == "", "bindings", "each cut operates on the remainder bound by the cut before it (rest, rest, hostPort, path)", c.P.Pos(parse.Decl.Pos()), chain)
		var roleOf func(e ast.Expr, depth int) string
		roleOf = func(e ast.Expr, depth int) string {
			e = ast.Unparen(e)
			if depth > 6 {
				return "?"
			}
			switch x := e.(type) {
			case *ast.Ident:
				if r, ok := role[x.Name]; ok && info.ObjectOf(x) != nil {
					return r
				}
				obj := info.ObjectOf(x)
				set := map[string]bool{}
				ast.Inspect(parse.Decl.Body, func(n ast.Node) bool {
					as, ok := n.(*ast.AssignStmt)
					if !ok {
						return true
					}
					for i, l := range as.Lhs {
						if id, ok := l.(*ast.Ident); ok && info.ObjectOf(id) == obj {
							var rhs ast.Expr
							if len(as.Rhs) == len(as.Lhs) {
								rhs = as.Rhs[i]
							} else if len(as.Rhs) == 1 {
								rhs = as.Rhs[0]
							}
							if s, isS := strConst(info, rhs); isS && s == "" {
								continue
							}
							set[roleOf(rhs, depth+1)] = true
						}
					}
					return true
				})
				return strings.Join(sortedKeys(set), "|")
			case *ast.CallExpr:
				if tv, ok := info.Types[x.Fun]; ok && tv.IsType() && len(x.Args) == 1 {
					return roleOf(x.Args[0], depth+1)
				}
				if cal := callee(info, x); cal != nil {
					if (cal.Name() == "ParseInt32" || cal.Name() == "Atoi") && len(x.Args) == 1 {
						return "int(" + roleOf(x.Args[0], depth+1) + ")"
					}
					if cal.Name() == "New" && cal.Pkg() != nil && cal.Pkg().Path() == modPath+"/internal/address" {
						var as []string
						for _, a := range x.Args {
							as = append(as, roleOf(a, depth+1))
						}
						return "New(" + strings.Join(as, ",") + ")"
					}
				}
			}
			return "?"
		}
		okNew := 0
		ast.Inspect(parse.Decl.Body, func(n ast.Node) bool {
			call, ok := n.(*ast.CallExpr)
			if !ok {
				return true
			}
			cal := callee(info, call)
			if cal == nil || (cal.Name() != "New" && cal.Name() != "NewWithParent") || cal.Pkg().Path() != modPath+"/internal/address" {
				return true
			}
			args := []string{}
			for _, a := range call.Args {
				args = append(args, roleOf(a, 0))
			}
			s := strings.Join(args, ",")
			switch s {
			case "name|path,system,host,int(portStr)", "parent,system,host,int(portStr)", "name|path,system,host,int(portStr),New(parent,system,host,int(portStr))":
				okNew++
			default:
				c.Bad("new-args/"+s, "parsed components are passed to the constructor in (name, system, host, port) order", c.P.Pos(call.Pos()), "arguments by role: "+s)
			}
			return true
		})
		c.Check(okNew == 3, "new-args", "Parse builds the address (and its parent) from (name, system, host, port) with the parsed values", c.P.Pos(parse.Decl.Pos()), fmt.Sprintf("%d constructor calls recognised", okNew))
	})

	c.Rule("rejections", func() {
		// Parse may reject a string only for structural reasons (missing/extra delimiters, bad scheme, bad port
		// number). A rejection that looks at the characters of a field can reject the text form of a valid address.
		f := c.NewFlow(parse)
		info := f.Info
		var cutLeft []string
		if steps, _ := extractCuts(parse); len(steps) > 0 {
			for _, st := range steps {
				cutLeft = append(cutLeft, st.left)
			}
		}
		recognised := func(e ast.Expr) bool {
			e = ast.Unparen(e)
			switch x := e.(type) {
			case *ast.Ident:
				return commaOkLocals(info, parse.Decl.Body)[info.ObjectOf(x)]
			case *ast.CallExpr:
				if cal := callee(info, x); cal != nil && cal.Pkg() != nil && cal.Pkg().Path() == "strings" && (cal.Name() == "Contains" || cal.Name() == "HasPrefix") {
					lit, isLit := strConst(info, x.Args[1])
					// only the template's delimiters: a test for any other character looks inside a field
					return isLit && (lit == "://" || lit == "@" || lit == "/" || lit == ":")
				}
			case *ast.BinaryExpr:
				if _, ok := x.X.(*ast.IndexExpr); ok {
					return false
				}
				if _, ok := x.Y.(*ast.IndexExpr); ok {
					return false
				}
				lo := objOf(info, x.X)
				// the input itself compared with the empty string
				if ps := parse.Obj.Type().(*types.Signature).Params(); ps.Len() == 1 && lo == types.Object(ps.At(0)) {
					if sv, isS := strConst(info, x.Y); isS && sv == "" {
						return true
					}
				}
				// the scheme part (left of the first cut) compared with the package's scheme constant
				if k, isK := objOfConst(info, x.Y); isK && k.Name() == "scheme" && len(cutLeft) > 0 && lo != nil && lo.Name() == cutLeft[0] {
					return true
				}
				// an error result compared with nil
				if isNilIdent(info, x.Y) && lo != nil && types.Identical(lo.Type(), types.Universe.Lookup("error").Type()) {
					return true
				}
				// a strings index result compared with 0
				if id, ok := ast.Unparen(x.X).(*ast.Ident); ok && x.Op == token.LSS {
					if v, ok := constInt(info, x.Y); ok && v == 0 {
						if def, ok := singleLocalDefIn(info, parse.Decl.Body, info.ObjectOf(id)).(*ast.CallExpr); ok {
							if cal := callee(info, def); cal != nil && cal.Pkg() != nil && cal.Pkg().Path() == "strings" && strings.Contains(cal.Name(), "Index") {
								return true
							}
						}
					}
				}
			}
			return false
		}
		n := 0
		for _, b := range f.G.Blocks {
			if !b.Live || f.Cond(b) == nil {
				continue
			}
			// does the true edge lead straight to an error return?
			tb := b.Succs[0]
			isErrRet := false
			for _, nd := range tb.Nodes {
				if r, ok := nd.(*ast.ReturnStmt); ok && len(r.Results) == 2 && isNilIdent(info, r.Results[0]) {
					isErrRet = true
				}
			}
			if !isErrRet {
				continue
			}
			n++
			var facts []condFact
			condDisj(f.Cond(b), &facts)
			for fi, ft := range facts {
				c.Check(recognised(ft.E), fmt.Sprintf("reject-if/#%d.%d", n, fi), "Parse rejects only on structural conditions (delimiter missing or repeated, wrong scheme, non-numeric port), never on the characters inside a field", c.P.Pos(ft.E.Pos()),
					"rejection condition "+types.ExprString(ft.E)+" is not a structural test: the text form of a valid address (e.g. an IPv6 host ending in '::') may be rejected")
			}
		}
		if n < 5 {
			c.Undecided("count", "Parse has at least 5 rejection branches", c.P.Pos(parse.Decl.Pos()), "found fewer")
		}
	})

	c.Rule("hostport-cuts", func() {
		steps, unknown := extractCuts(hpOf)
		for _, u := range unknown {
			c.Undecided("unknown-op", "every string operation of HostPortOf is recognised", c.P.Pos(hpOf.Decl.Pos()), u)
		}
		okShape := len(steps) == 2 && steps[0].delim == "@" && !steps[0].last && steps[1].delim == "/" && !steps[1].last
		c.Check(okShape, "shape", "HostPortOf cuts at the first '@' and then at the first '/'", c.P.Pos(hpOf.Decl.Pos()), fmt.Sprintf("%+v", steps))
		if okShape {
			c.Check(mayContain([]string{"scheme", "system"}, "@") == "", "cut@", "'@' cannot occur in scheme or system", c.P.Pos(steps[0].pos), "")
			c.Check(mayContain([]string{"host", "port"}, "/") == "", "cut/", "'/' cannot occur in host or port", c.P.Pos(steps[1].pos), "")
		}
	})

	c.Rule("no-panic", func() {
		for _, fn := range []*Fn{parse, hpOf, c.Func("internal/address", "ParseWithIncarnationID")} {
			f := c.NewFlow(fn)
			info := f.Info
			nIdx := 0
			for _, a := range f.FindOnce(func(n ast.Node) bool {
				switch n.(type) {
				case *ast.IndexExpr, *ast.SliceExpr:
					return true
				}
				return false
			}) {
				nIdx++
				se, ok := a.N.(*ast.SliceExpr)
				if !ok {
					if ix := a.N.(*ast.IndexExpr); info.Types[ix.X].IsType() || info.TypeOf(ix.X) == nil {
						continue
					}
					c.Bad(fn.String()+"/index", "no unguarded index expression in the parser", c.P.Pos(a.N.Pos()), "index expression "+types.ExprString(a.N.(ast.Expr)))
					continue
				}
				// bound variable i from strings.(Last)Index*(X, ..) with fact i >= 0 dominating
				var bound ast.Expr
				if se.High != nil {
					bound = se.High
				} else if se.Low != nil {
					if be, ok := ast.Unparen(se.Low).(*ast.BinaryExpr); ok && be.Op == token.ADD {
						bound = be.X
					} else {
						bound = se.Low
					}
				}
				obj := objOf(info, bound)
				def := singleDef(info, fn.Decl.Body, obj)
				okDef := false
				if call, ok := def.(*ast.CallExpr); ok {
					if cal := callee(info, call); cal != nil && cal.Pkg() != nil && cal.Pkg().Path() == "strings" && strings.Contains(cal.Name(), "Index") && types.ExprString(call.Args[0]) == types.ExprString(se.X) {
						okDef = true
					}
				}
				ge := f.EdgesWhere(func(cond ast.Expr) (bool, bool) {
					for _, val := range []bool{true, false} {
						cm, ok := asCmp(cond, val)
						if !ok {
							continue
						}
						if v, isC := constInt(info, cm.R); isC && objOf(info, cm.L) == obj && ((cm.Op == token.GEQ && v == 0) || (cm.Op == token.GTR && v == -1)) {
							return true, val
						}
					}
					return false, false
				})
				w := f.search(searchSpec{avoidEdges: ge, target: func(n ast.Node) bool { return n == a.N }})
				c.Check(okDef && len(ge) > 0 && w == nil, fn.String()+"/slice/"+types.ExprString(se), "every slice bound is a strings index of the sliced string, used only where it is known to be >= 0", c.P.Pos(se.Pos()), "unguarded slice bound: "+f.describe(w))
			}
			// callees: only total functions
			bad := ""
			for _, a := range f.FindOnce(func(n ast.Node) bool { _, ok := n.(*ast.CallExpr); return ok }) {
				call := a.N.(*ast.CallExpr)
				cal := callee(info, call)
				if cal == nil {
					if tv, ok := info.Types[call.Fun]; ok && tv.IsType() {
						continue
					}
					if id, ok := call.Fun.(*ast.Ident); ok {
						if _, isB := info.Uses[id].(*types.Builtin); isB && id.Name != "panic" {
							continue
						}
					}
					bad += types.ExprString(call.Fun) + " "
					continue
				}
				p := ""
				if cal.Pkg() != nil {
					p = cal.Pkg().Path()
				}
				switch {
				case p == "strings" || p == "errors" || p == "strconv" || p == "github.com/google/uuid":
				case p == modPath+"/internal/strconvx" || p == modPath+"/internal/address":
				default:
					bad += qualifiedName(cal) + " "
				}
			}
			c.Check(bad == "", fn.String()+"/total-callees", "the parser calls only total string/number functions and the address constructors", c.P.Pos(fn.Decl.Pos()), "calls "+bad)
			_ = nIdx
		}
	})
}

func isAlnum(b byte) bool {
	return b >= 'a' && b <= 'z' || b >= 'A' && b <= 'Z' || b >= '0' && b <= '9'
}

// condDisj lists the disjuncts of a rejection condition (a || b || c), each with its && conjuncts flattened.
func condDisj(e ast.Expr, out *[]condFact) {
	e = ast.Unparen(e)
	if be, ok := e.(*ast.BinaryExpr); ok && (be.Op == token.LOR || be.Op == token.LAND) {
		condDisj(be.X, out)
		condDisj(be.Y, out)
		return
	}
	if ue, ok := e.(*ast.UnaryExpr); ok && ue.Op == token.NOT {
		condDisj(ue.X, out)
		return
	}
	*out = append(*out, condFact{e, true})
}
