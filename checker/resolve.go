package main

import (
	"fmt"
	"go/ast"
	"go/token"
	"go/types"
	"strings"

	"golang.org/x/tools/go/packages"
	"golang.org/x/tools/go/types/typeutil"
)

// Fn is a resolved first-party function with its declaration.
type Fn struct {
	Obj  *types.Func
	Decl *ast.FuncDecl
	Pkg  *packages.Package
}

func (f *Fn) Info() *types.Info { return f.Pkg.TypesInfo }
func (f *Fn) String() string    { return funcName(f.Obj) }

// funcName renders pkg.(*T).m / pkg.f with a module-relative package path.
func funcName(o *types.Func) string {
	if o == nil {
		return "<nil>"
	}
	pkg := ""
	if o.Pkg() != nil {
		pkg = relPkg(o.Pkg().Path())
	}
	sig, _ := o.Type().(*types.Signature)
	if sig != nil && sig.Recv() != nil {
		t := sig.Recv().Type()
		ptr := ""
		if p, ok := t.(*types.Pointer); ok {
			t = p.Elem()
			ptr = "*"
		}
		name := "?"
		switch tt := t.(type) {
		case *types.Named:
			name = tt.Obj().Name()
		case *types.Alias:
			name = tt.Obj().Name()
		default:
			name = t.String()
		}
		return fmt.Sprintf("%s.(%s%s).%s", pkg, ptr, name, o.Name())
	}
	return pkg + "." + o.Name()
}

func relPkg(path string) string {
	if path == modPath {
		return "goakt"
	}
	return strings.TrimPrefix(path, modPath+"/")
}

func (c *Ctx) pkg(rel string) *packages.Package {
	pk := c.P.Pkg(rel)
	if pk == nil {
		c.Fail("package %q not found", rel)
	}
	return pk
}

// Named resolves a named type of a first-party package.
func (c *Ctx) Named(pkgRel, name string) *types.Named {
	pk := c.pkg(pkgRel)
	o := pk.Types.Scope().Lookup(name)
	if o == nil {
		c.Fail("type %s.%s not found", pkgRel, name)
	}
	tn, ok := o.(*types.TypeName)
	if !ok {
		c.Fail("%s.%s is not a type", pkgRel, name)
	}
	n, ok := types.Unalias(tn.Type()).(*types.Named)
	if !ok {
		c.Fail("%s.%s is not a named type", pkgRel, name)
	}
	return n
}

// FuncObj resolves "name" (package-level function) or "T.name" (method of T,
// value or pointer receiver, or interface method).
func (c *Ctx) FuncObj(pkgRel, name string) *types.Func {
	pk := c.pkg(pkgRel)
	if i := strings.Index(name, "."); i >= 0 {
		tn, mn := name[:i], name[i+1:]
		named := c.Named(pkgRel, tn)
		obj, _, _ := types.LookupFieldOrMethod(types.NewPointer(named), true, pk.Types, mn)
		if obj == nil {
			obj, _, _ = types.LookupFieldOrMethod(named, true, pk.Types, mn)
		}
		f, ok := obj.(*types.Func)
		if !ok {
			c.Fail("method %s.%s not found", pkgRel, name)
		}
		return f
	}
	o := pk.Types.Scope().Lookup(name)
	f, ok := o.(*types.Func)
	if !ok {
		c.Fail("function %s.%s not found", pkgRel, name)
	}
	return f
}

// Func resolves a first-party function with a body.
func (c *Ctx) Func(pkgRel, name string) *Fn {
	obj := c.FuncObj(pkgRel, name)
	fn := c.fnOfObj(obj)
	if fn == nil {
		c.Fail("function %s.%s has no declaration with a body in the loaded tree", pkgRel, name)
	}
	return fn
}

func (c *Ctx) fnOfObj(obj *types.Func) *Fn {
	obj = obj.Origin()
	d := c.P.declOf[obj]
	if d == nil || d.Body == nil {
		return nil
	}
	c.analysed[funcName(obj)] = true
	return &Fn{Obj: obj, Decl: d, Pkg: c.P.pkgOf[obj]}
}

// TryFunc is Func without failing the rule.
func (c *Ctx) TryFunc(pkgRel, name string) (fn *Fn) {
	defer func() {
		if r := recover(); r != nil {
			if _, ok := r.(unresolvedErr); ok {
				fn = nil
				return
			}
			panic(r)
		}
	}()
	return c.Func(pkgRel, name)
}

// Field resolves a struct field of a named type.
func (c *Ctx) Field(pkgRel, typ, field string) *types.Var {
	named := c.Named(pkgRel, typ)
	st, ok := named.Underlying().(*types.Struct)
	if !ok {
		c.Fail("%s.%s is not a struct", pkgRel, typ)
	}
	for i := 0; i < st.NumFields(); i++ {
		if st.Field(i).Name() == field {
			return st.Field(i)
		}
	}
	c.Fail("field %s.%s.%s not found", pkgRel, typ, field)
	return nil
}

// Fields resolves several fields of one type.
func (c *Ctx) Fields(pkgRel, typ string, fields ...string) []*types.Var {
	var out []*types.Var
	for _, f := range fields {
		out = append(out, c.Field(pkgRel, typ, f))
	}
	return out
}

// Const resolves a package-level constant.
func (c *Ctx) Const(pkgRel, name string) *types.Const {
	pk := c.pkg(pkgRel)
	o, ok := pk.Types.Scope().Lookup(name).(*types.Const)
	if !ok {
		c.Fail("constant %s.%s not found", pkgRel, name)
	}
	return o
}

// ExtFunc resolves a function/method of a non-first-party package that is
// imported (directly or transitively) by the given first-party package.
func (c *Ctx) ExtFunc(pkgPath, name string) *types.Func {
	var tp *types.Package
	for _, pk := range c.P.Pkgs {
		tp = findImport(pk.Types, pkgPath, map[*types.Package]bool{})
		if tp != nil {
			break
		}
	}
	if tp == nil {
		c.Fail("external package %s not imported anywhere", pkgPath)
	}
	if i := strings.Index(name, "."); i >= 0 {
		tn, mn := name[:i], name[i+1:]
		o, ok := tp.Scope().Lookup(tn).(*types.TypeName)
		if !ok {
			c.Fail("external type %s.%s not found", pkgPath, tn)
		}
		obj, _, _ := types.LookupFieldOrMethod(types.NewPointer(o.Type()), true, tp, mn)
		if obj == nil {
			obj, _, _ = types.LookupFieldOrMethod(o.Type(), true, tp, mn)
		}
		f, ok := obj.(*types.Func)
		if !ok {
			c.Fail("external method %s.%s not found", pkgPath, name)
		}
		return f
	}
	f, ok := tp.Scope().Lookup(name).(*types.Func)
	if !ok {
		c.Fail("external function %s.%s not found", pkgPath, name)
	}
	return f
}

func findImport(p *types.Package, path string, seen map[*types.Package]bool) *types.Package {
	if p.Path() == path {
		return p
	}
	if seen[p] {
		return nil
	}
	seen[p] = true
	for _, q := range p.Imports() {
		if r := findImport(q, path, seen); r != nil {
			return r
		}
	}
	return nil
}

// ---- use index: every reference to a function or a field, with context ----

type Use struct {
	Obj       types.Object
	Ident     *ast.Ident
	Sel       *ast.SelectorExpr // the selector x.f if any
	Call      *ast.CallExpr     // non-nil when the reference is the callee of a call
	EnclDecl  *ast.FuncDecl     // enclosing top-level function (nil at package level)
	EnclObj   *types.Func
	Lits      []*ast.FuncLit // enclosing function literals, outermost first
	Pkg       *packages.Package
	IsWrite   bool // field: assigned, inc/dec'ed, address-taken, or map/slice element assigned through it
	IsAddr    bool // &x.f
	InGo      bool // the reference is (inside) the call operand of a go statement
	InDefer   bool
	Path      []ast.Node // ancestors, outermost first (excluding the ident)
}

func (u *Use) Where(p *Prog) string { return p.Pos(u.Ident.Pos()) }

// EnclName names the enclosing function (with a $lit suffix inside literals).
func (u *Use) EnclName() string {
	if u.EnclObj == nil {
		return relPkg(u.Pkg.PkgPath) + ".<package-level>"
	}
	s := funcName(u.EnclObj)
	if len(u.Lits) > 0 {
		s += fmt.Sprintf("$lit%d", len(u.Lits))
	}
	return s
}

type useIndex struct {
	byObj map[types.Object][]*Use
}

func (p *Prog) Uses() *useIndex {
	if p.uses != nil {
		return p.uses
	}
	ix := &useIndex{byObj: map[types.Object][]*Use{}}
	for _, pk := range p.Pkgs {
		info := pk.TypesInfo
		for _, file := range pk.Syntax {
			var stack []ast.Node
			ast.Inspect(file, func(n ast.Node) bool {
				if n == nil {
					stack = stack[:len(stack)-1]
					return true
				}
				if id, ok := n.(*ast.Ident); ok {
					obj := info.Uses[id]
					if obj != nil {
						switch o := obj.(type) {
						case *types.Func:
							ix.add(p, pk, info, o.Origin(), id, stack)
						case *types.Var:
							if o.IsField() {
								ix.add(p, pk, info, o.Origin(), id, stack)
							}
						}
					}
				}
				stack = append(stack, n)
				return true
			})
		}
	}
	p.uses = ix
	return ix
}

func (ix *useIndex) add(p *Prog, pk *packages.Package, info *types.Info, obj types.Object, id *ast.Ident, stack []ast.Node) {
	u := &Use{Obj: obj, Ident: id, Pkg: pk}
	u.Path = append([]ast.Node(nil), stack...)
	var cur ast.Node = id
	for i := len(stack) - 1; i >= 0; i-- {
		switch n := stack[i].(type) {
		case *ast.FuncDecl:
			u.EnclDecl = n
			if o, ok := info.Defs[n.Name].(*types.Func); ok {
				u.EnclObj = o
			}
		case *ast.FuncLit:
			u.Lits = append([]*ast.FuncLit{n}, u.Lits...)
		case *ast.GoStmt:
			u.InGo = true
		case *ast.DeferStmt:
			u.InDefer = true
		}
	}
	// immediate context
	if len(stack) > 0 {
		par := stack[len(stack)-1]
		if sel, ok := par.(*ast.SelectorExpr); ok && sel.Sel == id {
			u.Sel = sel
			cur = sel
			if len(stack) > 1 {
				par = stack[len(stack)-2]
			} else {
				par = nil
			}
		}
		// strip parens / index / star chains for write detection of fields
		if call, ok := par.(*ast.CallExpr); ok && call.Fun == cur {
			u.Call = call
		}
		if _, isVar := obj.(*types.Var); isVar {
			u.IsWrite, u.IsAddr = classifyWrite(cur, stack, u.Sel != nil)
		}
	}
	ix.byObj[obj] = append(ix.byObj[obj], u)
}

// classifyWrite decides whether expression e (a field selector) is written:
// direct assignment, op-assignment, ++/--, &e, or assignment to e[k] / e.x... (sub-element).
func classifyWrite(e ast.Node, stack []ast.Node, hasSel bool) (write, addr bool) {
	i := len(stack) - 1
	if hasSel {
		i--
	}
	cur := e
	for ; i >= 0; i-- {
		switch par := stack[i].(type) {
		case *ast.ParenExpr:
			cur = par
			continue
		case *ast.IndexExpr:
			if par.X == cur {
				cur = par
				continue
			}
			return false, false
		case *ast.SliceExpr:
			return false, false
		case *ast.StarExpr:
			cur = par
			continue
		case *ast.AssignStmt:
			for _, l := range par.Lhs {
				if l == cur {
					return true, false
				}
			}
			return false, false
		case *ast.IncDecStmt:
			return par.X == cur, false
		case *ast.UnaryExpr:
			if par.Op == token.AND && par.X == cur {
				return true, true
			}
			return false, false
		case *ast.RangeStmt:
			if par.Key == cur || par.Value == cur {
				return true, false
			}
			return false, false
		case *ast.CallExpr:
			// delete(m.f, k) / clear(m.f) mutate the container held by the field
			if id, ok := par.Fun.(*ast.Ident); ok && (id.Name == "delete" || id.Name == "clear") && len(par.Args) > 0 && par.Args[0] == cur {
				return true, false
			}
			return false, false
		default:
			return false, false
		}
	}
	return false, false
}

// UsesOf returns all references to a function or field object.
func (c *Ctx) UsesOf(obj types.Object) []*Use {
	switch o := obj.(type) {
	case *types.Func:
		obj = o.Origin()
	case *types.Var:
		obj = o.Origin()
	}
	us := c.P.Uses().byObj[obj]
	c.sites += len(us)
	return us
}

// callee resolves the static callee (function, method or interface method) of a call.
func callee(info *types.Info, call *ast.CallExpr) *types.Func {
	f, _ := typeutil.Callee(info, call).(*types.Func)
	if f != nil {
		return f.Origin()
	}
	return nil
}

// selField returns the field selected by expression e (x.f or x.y.f), or nil.
func selField(info *types.Info, e ast.Expr) *types.Var {
	e = ast.Unparen(e)
	if sel, ok := e.(*ast.SelectorExpr); ok {
		if v, ok := info.Uses[sel.Sel].(*types.Var); ok && v.IsField() {
			return v.Origin()
		}
	}
	return nil
}

// recvExpr returns the receiver expression of a method call x.m(...), or nil.
func recvExpr(call *ast.CallExpr) ast.Expr {
	if sel, ok := ast.Unparen(call.Fun).(*ast.SelectorExpr); ok {
		return sel.X
	}
	return nil
}

// implementsMethod reports first-party concrete methods that implement the
// interface method m (same name, receiver type implements the interface).
func (c *Ctx) Implementors(iface *types.Named, meth string) []*types.Func {
	it, ok := iface.Underlying().(*types.Interface)
	if !ok {
		c.Fail("%s is not an interface", iface)
	}
	var out []*types.Func
	for _, pk := range c.P.Pkgs {
		sc := pk.Types.Scope()
		for _, n := range sc.Names() {
			tn, ok := sc.Lookup(n).(*types.TypeName)
			if !ok || tn.IsAlias() {
				continue
			}
			named, ok := tn.Type().(*types.Named)
			if !ok || types.IsInterface(named) || named.TypeParams().Len() > 0 {
				continue
			}
			var recv types.Type
			if types.Implements(named, it) {
				recv = named
			} else if types.Implements(types.NewPointer(named), it) {
				recv = types.NewPointer(named)
			} else {
				continue
			}
			obj, _, _ := types.LookupFieldOrMethod(recv, true, pk.Types, meth)
			if f, ok := obj.(*types.Func); ok {
				out = append(out, f)
			}
		}
	}
	return out
}
