package main

import (
	"go/token"
	"go/ast"
	"go/types"
)

func init() {
	register(&propDef{
		id: "C17", title: "Stopping the actor system tears down every actor exactly once",
		technique: "CFG ordering of the shutdown phases (through the fail-fast chains), intake-gate dominance in doReceive, loop rules on the grain poisoning pass, type-switch set inclusion, deferred-tail rule for the dispatcher",
		explanation: "Decides: (1) shutdown marks the system as shutting down before any actor is stopped, stops the user guardian subtree first, then poisons the grains, then stops the system actors (topic actor, no-sender, system guardian, root guardian), removes the root node afterwards, and stops the dispatcher only in its deferred tail (workers are alive while actors drain); (2) intake gate: in doReceive, once the system is stopping, a non-system message reaches handleReceivedError and neither mailbox; system messages still pass (PoisonPill must be deliverable); (3) poisonAllGrains sends exactly one PoisonPill to every active grain and then waits for each one's deactivation signal or the context; inactive grains are dropped from the registry without a pill; handlePoisonPill deactivates only an active grain (once); (4) every control message (system-mailbox type) is also a system message (passes the gate): the case list of isControlMessage is a subset of isSystemMessage's; (5) PostStop once per actor follows from C06 (running test under stopLocker) and C09 (children first). Added after seed C17a: the passivation manager is stopped (not deferred) before user actors are stopped and grains are poisoned.",
		assumptions: []string{"messages in flight during shutdown beyond the gate (already enqueued user messages may be dropped with their mailbox)", "bounded shutdown time (context expiry skips remaining grains, logged)"},
		minObl:     20,
		run:        runC17,
	})
}

func runC17(c *Ctx) {
	sd := c.Func("actor", "actorSystem.shutdown")
	c.Rule("phases", func() {
		f := c.NewFlow(sd)
		info := f.Info
		named := func(name string) Match {
			return func(n ast.Node) bool {
				call, ok := n.(*ast.CallExpr)
				if !ok {
					return false
				}
				cal := callee(info, call)
				return cal != nil && cal.Name() == name
			}
		}
		flag := c.Field("actor", "actorSystem", "shuttingDown")
		mark := func(n ast.Node) bool {
			call, ok := n.(*ast.CallExpr)
			if !ok || !f.CallOnField(flag, "Store")(call) {
				return false
			}
			id, ok := call.Args[0].(*ast.Ident)
			return ok && id.Name == "true"
		}
		order := []struct {
			name string
			m    Match
		}{{"shuttingDown=true", mark}, {"user guardian", named("getUserGuardian")}, {"grains poisoned", named("poisonAllGrains")}, {"system guardian", named("getSystemGuardian")}, {"root guardian", named("getRootGuardian")}, {"root node removed", named("deleteNode")}}
		for i := 0; i+1 < len(order); i++ {
			a, b := order[i], order[i+1]
			if len(f.Find(a.m)) == 0 || len(f.Find(b.m)) == 0 {
				c.Undecided("phase/"+a.name+"≺"+b.name, "shutdown phase present", c.P.Pos(sd.Decl.Pos()), "phase not found")
				continue
			}
			// the first occurrence of b is preceded by a
			w := f.MustPrecede(a.m, nil, b.m)
			c.Check(w == nil, "phase/"+a.name+"≺"+b.name, "shutdown phases run in order: "+a.name+" before "+b.name, c.P.Pos(sd.Decl.Pos()), f.describe(w))
		}
		// the passivation manager is stopped (and its goroutine joined) before anything is torn down: it deactivates
		// grains and stops actors off their turn, so it must not run concurrently with the poison-pill phase
		passStop := f.CallOnField(c.Field("actor", "actorSystem", "passivator"), "Stop")
		if len(f.Find(passStop)) == 0 {
			c.Undecided("phase/passivator-stopped-first", "passivator stop present", c.P.Pos(sd.Decl.Pos()), "x.passivator.Stop not found in shutdown")
		} else {
			wp := f.search(searchSpec{avoid: passStop, avoidEdges: f.NilCheckEdges(func(e ast.Expr) bool { return selField(info, e) == c.Field("actor", "actorSystem", "passivator") }, false), target: Or(named("poisonAllGrains"), named("getUserGuardian"))})
			dfr := false
			for _, a := range f.Find(passStop) {
				if a.Deferred {
					dfr = true
				}
			}
			c.Check(wp == nil && !dfr, "phase/passivator-stopped-first", "the passivation manager is stopped before user actors are stopped and grains are poisoned (it is the barrier between an idle passivation in progress and the shutdown's own deactivation)", c.P.Pos(sd.Decl.Pos()), "passivator.Stop is deferred or does not precede the teardown: "+f.describe(wp))
		}
		// no user-guardian stop after the system actors were stopped
		w := f.MayReach(f.Find(named("getSystemGuardian")), nil, named("getUserGuardian"))
		c.Check(w == nil, "phase/no-user-stop-after-system", "user actors are not stopped after the system actors", c.P.Pos(sd.Decl.Pos()), f.describe(w))
		// dispatcher stopped only in the deferred tail
		sig := named("signalStop")
		bad := 0
		for _, a := range f.Find(sig) {
			if !a.Deferred {
				bad++
			}
		}
		c.Check(bad == 0 && len(f.Find(sig)) > 0, "dispatcher-stops-last", "the dispatcher is stopped only in shutdown's deferred tail (workers run while actors are stopped)", c.P.Pos(sd.Decl.Pos()), "signalStop outside the deferred tail")
		c.WhoMayCall("who", c.FuncObj("actor", "dispatcher.signalStop"), map[string]string{"actor.(*actorSystem).shutdown": "deferred tail", "actor.(*actorSystem).Start": "failed start cleanup", "actor.(*actorSystem).reset": "reset", "actor.(*actorSystem).startFailed": "failed start cleanup", "actor.(*actorSystem).startupCleanup": "failed start cleanup"})
	})

	c.Rule("intake-gate", func() {
		dr := c.Func("actor", "PID.doReceive")
		f := c.NewFlow(dr)
		info := f.Info
		// edge: isStopping() true and isSystemMessage false
		isStopping := f.EdgesWhere(func(cond ast.Expr) (bool, bool) {
			if call, ok := cond.(*ast.CallExpr); ok {
				if cal := callee(info, call); cal != nil && cal.Name() == "isStopping" {
					return true, true
				}
			}
			return false, false
		})
		notSys := f.EdgesWhere(func(cond ast.Expr) (bool, bool) {
			if call, ok := cond.(*ast.CallExpr); ok {
				if cal := callee(info, call); cal != nil && cal.Name() == "isSystemMessage" {
					return true, false
				}
			}
			return false, false
		})
		enq := f.CallTo(c.FuncObj("actor", "Mailbox.Enqueue"))
		hre := f.CallTo(c.FuncObj("actor", "PID.handleReceivedError"))
		// gate edge = notSys edges that are reachable only after isStopping true
		w := f.search(searchSpec{avoidEdges: isStopping, target: func(n ast.Node) bool {
			call, ok := n.(*ast.CallExpr)
			if !ok {
				return false
			}
			cal := callee(info, call)
			return cal != nil && cal.Name() == "isSystemMessage"
		}})
		c.Check(w == nil && len(isStopping) > 0 && len(notSys) > 0, "gate-shape", "the system-message test is made on the 'system is stopping' edge", c.P.Pos(dr.Decl.Pos()), f.describe(w))
		w = f.AfterEdgesMayReach(notSys, nil, nil, enq)
		c.Check(w == nil, "stopping∧user⇏enqueue", "while the system is stopping a non-system message never reaches a mailbox", c.P.Pos(dr.Decl.Pos()), f.describe(w))
		w = f.AfterEdgesMustPass(notSys, hre, nil)
		c.Check(w == nil, "stopping∧user⇒deadletter", "such a message is reported through handleReceivedError (ErrSystemShuttingDown)", c.P.Pos(dr.Decl.Pos()), f.describe(w))
		// the gate precedes every enqueue
		gateTest := func(n ast.Node) bool {
			call, ok := n.(*ast.CallExpr)
			if !ok {
				return false
			}
			cal := callee(info, call)
			return cal != nil && cal.Name() == "isStopping"
		}
		// the gate condition `system != nil && system.isStopping()` as a whole (a nil system, before start, has nothing to stop)
		gateCond := func(n ast.Node) bool {
			be, ok := n.(*ast.BinaryExpr)
			if !ok || be.Op != token.LAND {
				return false
			}
			found := false
			ast.Inspect(be, func(m ast.Node) bool {
				if gateTest(m) {
					found = true
				}
				return true
			})
			return found
		}
		w = f.MustPrecede(Or(gateCond, gateTest), nil, enq)
		c.Check(w == nil && len(f.Find(Or(gateCond, gateTest))) > 0, "gate≺enqueue", "the stopping test is evaluated before any enqueue", c.P.Pos(dr.Decl.Pos()), f.describe(w))
	})

	c.Rule("grains", func() {
		pg := c.Func("actor", "actorSystem.poisonAllGrains")
		info := pg.Info()
		var loops []*ast.RangeStmt
		ast.Inspect(pg.Decl.Body, func(n ast.Node) bool {
			if r, ok := n.(*ast.RangeStmt); ok {
				loops = append(loops, r)
			}
			return true
		})
		if len(loops) != 2 {
			c.Fail("poisonAllGrains: expected a send loop and a wait loop")
		}
		send, wait := loops[0], loops[1]
		body := &ast.FuncLit{Type: &ast.FuncType{}, Body: send.Body}
		lf := c.NewLitFlow("poisonAllGrains$send", info, body)
		recv := lf.CallTo(c.FuncObj("actor", "grainPID.receive"))
		active := lf.CondEdges(func(e ast.Expr) bool {
			call, ok := e.(*ast.CallExpr)
			if !ok {
				return false
			}
			cal := callee(info, call)
			return cal != nil && cal.Name() == "isActive"
		}, true)
		w := lf.search(searchSpec{avoidEdges: active, target: recv})
		c.Check(w == nil && len(active) > 0 && len(lf.Find(recv)) == 1, "pill-only-to-active", "a PoisonPill is sent only to grains that are active", c.P.Pos(send.Pos()), lf.describe(w))
		w = lf.MayReach(lf.Find(recv), nil, recv)
		c.Check(w == nil, "one-pill-each", "each active grain gets exactly one PoisonPill per shutdown", c.P.Pos(send.Pos()), lf.describe(w))
		// the message built is a PoisonPill
		pill := false
		ast.Inspect(send.Body, func(n ast.Node) bool {
			if call, ok := n.(*ast.CallExpr); ok {
				if id, ok := call.Fun.(*ast.Ident); ok && id.Name == "new" && len(call.Args) == 1 {
					if t, ok := call.Args[0].(*ast.Ident); ok && t.Name == "PoisonPill" {
						pill = true
					}
				}
			}
			return true
		})
		c.Check(pill, "pill-type", "the message sent is a PoisonPill", c.P.Pos(send.Pos()), "")
		// every grain that got a pill is appended to pending and awaited
		appended := false
		ast.Inspect(send.Body, func(n ast.Node) bool {
			if call, ok := n.(*ast.CallExpr); ok {
				if id, ok := call.Fun.(*ast.Ident); ok && id.Name == "append" {
					if o := objOf(info, call.Args[0]); o != nil && o == objOf(info, wait.X) {
						appended = true // the list the wait loop ranges over
					}
				}
			}
			return true
		})
		waitsOn := false
		if o := objOf(info, wait.X); o != nil {
			ast.Inspect(wait.Body, func(n ast.Node) bool {
				if ue, ok := n.(*ast.UnaryExpr); ok && ue.Op.String() == "<-" {
					if f := selField(info, ue.X); f != nil && f.Name() == "deactivated" {
						waitsOn = true
					}
				}
				return true
			})
		}
		c.Check(appended && waitsOn, "awaits-every-poisoned-grain", "every poisoned grain is awaited (its deactivated signal or the context)", c.P.Pos(wait.Pos()), "")
		// handlePoisonPill deactivates only when active
		hp := c.Func("actor", "grainPID.handlePoisonPill")
		hf := c.NewFlow(hp)
		deact := hf.CallTo(c.FuncObj("actor", "grainPID.deactivate"))
		act := hf.CondEdges(func(e ast.Expr) bool {
			call, ok := e.(*ast.CallExpr)
			if !ok {
				return false
			}
			cal := callee(hf.Info, call)
			return cal != nil && cal.Name() == "isActive"
		}, true)
		w = hf.search(searchSpec{avoidEdges: act, target: deact})
		c.Check(w == nil && len(act) > 0 && len(hf.Find(deact)) == 1, "pill-deactivates-once", "a PoisonPill deactivates the grain only if it is still active (a second pill is a no-op)", c.P.Pos(hp.Decl.Pos()), hf.describe(w))
	})

	c.Rule("control⊆system", func() {
		set := func(name string) map[string]bool {
			fn := c.Func("actor", name)
			info := fn.Info()
			out := map[string]bool{}
			ast.Inspect(fn.Decl.Body, func(n ast.Node) bool {
				cc, ok := n.(*ast.CaseClause)
				if !ok {
					return true
				}
				returnsTrue := false
				for _, st := range cc.Body {
					if r, ok := st.(*ast.ReturnStmt); ok && len(r.Results) == 1 {
						if id, ok := r.Results[0].(*ast.Ident); ok && id.Name == "true" {
							returnsTrue = true
						}
					}
				}
				if !returnsTrue {
					return true
				}
				for _, e := range cc.List {
					if t := info.TypeOf(e); t != nil {
						out[types.TypeString(t, nil)] = true
					}
				}
				return true
			})
			return out
		}
		ctl, sys := set("isControlMessage"), set("isSystemMessage")
		if len(ctl) < 5 || len(sys) < 5 {
			c.Undecided("sets", "both classifiers enumerate message types", "-", "type switch not recognised")
		}
		for t := range ctl {
			c.Check(sys[t], "control⊆system/"+t, "a control message (routed to the system mailbox) also passes the shutdown gate", c.P.Pos(c.Func("actor", "isControlMessage").Decl.Pos()), t+" is a control message but not a system message: during shutdown it would be dead-lettered")
		}
		c.Check(sys["*"+modPath+"/actor.PoisonPill"], "PoisonPill-passes-gate", "PoisonPill is deliverable while the system is stopping", "-", "")
	})
}
