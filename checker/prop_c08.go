package main

import (
	"go/ast"
	"go/token"
	"go/types"
)

func init() {
	register(&propDef{
		id: "C08", title: "Restart backoff and fault counting are arithmetically correct",
		technique: "guarded-arithmetic rule on the type-checked AST + CFG: every signed shift/multiply feeding a return has a dominating no-wrap guard; return-value classification; edge-fact dominance for the counter reset",
		explanation: "Decides for backoffDelay: (i) every returned expression is the constant 0, the maxDelay parameter, or a value computed by a shift that is guarded; (ii) 0 is returned exactly on the 'initialDelay <= 0 || faults < 1' edge; (iii) no-wrap: every signed left shift (or multiplication) of a delay value is dominated by a guard that entails initialDelay <= maxDelay >> shift with the same operands, and by shift < 63, so the result equals initialDelay·2^(n-1) whenever it is returned; (iv) a computed delay is returned only when it was compared against maxDelay (delay > maxDelay leads to maxDelay). For recordFault: the consecutive-fault counter is reset only on the edge window > 0 ∧ last > 0 ∧ now-last > window, the counter is incremented exactly once on every path and its new value is what is returned, and the last-fault timestamp is stored on every path. Option constructor: WithExponentialBackoff stores delays only when initialDelay > 0 and forces maxDelay >= initialDelay. handleRestartDirective: the budget test dominates every restart and the backoff delay is computed from the faulty child's count. Added after seed C07a: the consecutive-fault counter and its timestamp are modified only by recordFault (a restart's reset of per-incarnation fields must not erase the faults recorded on a restart group).",
		assumptions: []string{"int64 two's-complement arithmetic of time.Duration", "behaviour over sequences of faults and wall-clock gaps (only the per-call arithmetic shape is decided)"},
		minObl:     17,
		run:        runC08,
	})
}

func runC08(c *Ctx) {
	c.Rule("backoffDelay", func() {
		fn := c.Func("actor", "backoffDelay")
		f := c.NewFlow(fn)
		info := f.Info
		params := fn.Decl.Type.Params.List
		var pobjs []types.Object
		for _, fld := range params {
			for _, n := range fld.Names {
				pobjs = append(pobjs, info.Defs[n])
			}
		}
		if len(pobjs) != 3 {
			c.Fail("backoffDelay: expected (faults, initialDelay, maxDelay)")
		}
		faults, initial, maxD := pobjs[0], pobjs[1], pobjs[2]
		isVar := func(e ast.Expr, o types.Object) bool { return objOf(info, e) == o }

		// shifts / multiplications on signed operands
		nArith := 0
		for _, a := range f.FindOnce(func(n ast.Node) bool {
			be, ok := n.(*ast.BinaryExpr)
			if !ok || (be.Op != token.SHL && be.Op != token.MUL) {
				return false
			}
			t := info.TypeOf(be)
			return t != nil && isSignedInt(t)
		}) {
			be := a.N.(*ast.BinaryExpr)
			nArith++
			key := "nowrap/" + types.ExprString(be)
			if be.Op == token.MUL {
				c.Undecided(key, "signed multiplication of a delay has a recognised overflow guard", c.P.Pos(be.Pos()), "multiplication guards are not in the recognised-idiom table")
				continue
			}
			x, s := be.X, be.Y
			// guard: fact  x <= (M >> s)   (same x, same s)
			guardEdges := f.EdgesWhere(func(cond ast.Expr) (bool, bool) {
				for _, val := range []bool{true, false} {
					cm, ok := asCmp(cond, val)
					if !ok {
						continue
					}
					for _, k := range []cmp{cm, cm.flip()} {
						if k.Op != token.LEQ && k.Op != token.LSS {
							continue
						}
						if !sameVar(info, k.L, x) {
							continue
						}
						sh, ok := ast.Unparen(stripConv(info, k.R)).(*ast.BinaryExpr)
						if !ok || sh.Op != token.SHR || !sameVar(info, sh.Y, s) {
							continue
						}
						return true, val
					}
				}
				return false, false
			})
			target := func(n ast.Node) bool { return n == ast.Node(be) }
			if len(guardEdges) == 0 {
				c.Bad(key, "every signed left shift of a delay is dominated by a guard entailing x <= M >> s (no bits lost)", c.P.Pos(be.Pos()),
					"no guard of the form '"+types.ExprString(x)+" <= M >> "+types.ExprString(s)+"' exists in backoffDelay: "+types.ExprString(be)+" can wrap to a positive value below maxDelay (e.g. faults=42, initialDelay=8388609ns, maxDelay=1h gives 36m39s < the 1h of fault 41)")
				continue
			}
			w := f.search(searchSpec{avoidEdges: guardEdges, target: target})
			c.Check(w == nil, key, "every signed left shift of a delay is dominated by a guard entailing x <= M >> s (no bits lost)", c.P.Pos(be.Pos()), f.describe(w))
			// shift amount bounded below 63
			bound := f.EdgesWhere(func(cond ast.Expr) (bool, bool) {
				for _, val := range []bool{true, false} {
					cm, ok := asCmp(cond, val)
					if !ok {
						continue
					}
					for _, k := range []cmp{cm, cm.flip()} {
						if (k.Op == token.LSS || k.Op == token.LEQ) && sameVar(info, k.L, s) {
							if v, ok := constInt(info, k.R); ok && ((k.Op == token.LSS && v <= 63) || (k.Op == token.LEQ && v <= 62)) {
								return true, val
							}
						}
					}
				}
				return false, false
			})
			w = f.search(searchSpec{avoidEdges: bound, target: target})
			c.Check(w == nil && len(bound) > 0, key+"/shift<63", "the shift amount is bounded below 63 on every path to the shift", c.P.Pos(be.Pos()), f.describe(w))
		}
		if nArith == 0 {
			c.Undecided("nowrap/none", "backoffDelay computes the exponential with a shift or multiplication", c.P.Pos(fn.Decl.Pos()), "no signed shift/multiply found: the computation changed shape; re-confirm the rule")
		}
		// returns classification
		zeroEdges := map[Edge]bool{}
		for _, b := range f.G.Blocks {
			if !b.Live || f.Cond(b) == nil {
				continue
			}
			// cond is (initialDelay <= 0 || faults < 1) possibly in either order
			var disj []ast.Expr
			var split func(e ast.Expr)
			split = func(e ast.Expr) {
				if be, ok := ast.Unparen(e).(*ast.BinaryExpr); ok && be.Op == token.LOR {
					split(be.X)
					split(be.Y)
					return
				}
				disj = append(disj, ast.Unparen(e))
			}
			split(f.Cond(b))
			okI, okF := false, false
			for _, d := range disj {
				cm, ok := asCmp(d, true)
				if !ok {
					continue
				}
				for _, k := range []cmp{cm, cm.flip()} {
					v, isC := constInt(info, k.R)
					if !isC {
						continue
					}
					if isVar(k.L, initial) && ((k.Op == token.LEQ && v == 0) || (k.Op == token.LSS && v == 1)) {
						okI = true
					}
					if isVar(k.L, faults) && ((k.Op == token.LSS && v == 1) || (k.Op == token.LEQ && v == 0)) {
						okF = true
					}
				}
			}
			if okI && okF && len(disj) == 2 {
				zeroEdges[Edge{b, 0}] = true
			}
		}
		isRet0 := func(n ast.Node) bool {
			r, ok := n.(*ast.ReturnStmt)
			if !ok || len(r.Results) != 1 {
				return false
			}
			v, ok := constInt(info, r.Results[0])
			return ok && v == 0
		}
		if len(zeroEdges) == 0 {
			c.Bad("zero/guard", "backoff is disabled exactly when initialDelay <= 0 or faults < 1", c.P.Pos(fn.Decl.Pos()), "the guard 'initialDelay <= 0 || faults < 1' was not found")
		} else {
			w := f.search(searchSpec{avoidEdges: zeroEdges, target: isRet0})
			c.Check(w == nil, "zero/only-when-disabled", "0 is returned only on the 'initialDelay <= 0 || faults < 1' edge", c.P.Pos(fn.Decl.Pos()), f.describe(w))
			w = f.AfterEdgesMustPass(zeroEdges, isRet0, nil)
			c.Check(w == nil, "zero/always-when-disabled", "the 'initialDelay <= 0 || faults < 1' edge always returns 0", c.P.Pos(fn.Decl.Pos()), f.describe(w))
		}
		// every return is 0 | maxDelay | a local computed by the guarded shift and compared with maxDelay
		for _, a := range f.Returns() {
			r := a.N.(*ast.ReturnStmt)
			if len(r.Results) != 1 {
				c.Bad("ret/shape", "single result", c.P.Pos(r.Pos()), "")
				continue
			}
			e := r.Results[0]
			key := "ret/" + types.ExprString(e)
			switch {
			case isRet0(r):
				c.Ok(key, "returned value is the constant 0 (backoff disabled)", c.P.Pos(r.Pos()))
			case isVar(e, maxD):
				c.Ok(key, "returned value is the maxDelay parameter (cap)", c.P.Pos(r.Pos()))
			default:
				obj := objOf(info, e)
				if obj == nil {
					if be, ok := ast.Unparen(e).(*ast.BinaryExpr); ok && be.Op == token.SHL {
						c.Ok(key, "returned value is the guarded shift itself", c.P.Pos(r.Pos()))
						continue
					}
					c.Undecided(key, "returned value is 0, maxDelay or the guarded delay", c.P.Pos(r.Pos()), "unrecognised return expression")
					continue
				}
				// obj must be assigned once from a shift of initialDelay and the return must be dominated by !(delay > maxDelay)
				le := f.EdgesWhere(func(cond ast.Expr) (bool, bool) {
					for _, val := range []bool{true, false} {
						cm, ok := asCmp(cond, val)
						if !ok {
							continue
						}
						for _, k := range []cmp{cm, cm.flip()} {
							if (k.Op == token.LEQ) && objOf(info, k.L) == obj && isVar(k.R, maxD) {
								return true, val
							}
						}
					}
					return false, false
				})
				target := func(n ast.Node) bool { return n == ast.Node(r) }
				w := f.search(searchSpec{avoidEdges: le, target: target})
				c.Check(w == nil && len(le) > 0, key+"/≤maxDelay", "a computed delay is returned only on an edge where delay <= maxDelay holds", c.P.Pos(r.Pos()), f.describe(w))
				// definition is a shift of initialDelay
				defOK := false
				ast.Inspect(fn.Decl.Body, func(n ast.Node) bool {
					as, ok := n.(*ast.AssignStmt)
					if !ok || len(as.Lhs) != 1 || len(as.Rhs) != 1 {
						return true
					}
					if id, ok := as.Lhs[0].(*ast.Ident); ok && info.ObjectOf(id) == obj {
						if be, ok := ast.Unparen(as.Rhs[0]).(*ast.BinaryExpr); ok && be.Op == token.SHL && isVar(be.X, initial) {
							defOK = true
						}
					}
					return true
				})
				c.Check(defOK, key+"/def", "the computed delay is initialDelay << shift", c.P.Pos(r.Pos()), "definition of the returned variable is not a shift of initialDelay")
			}
		}
		// shift amount is faults-1
		shiftDef := false
		ast.Inspect(fn.Decl.Body, func(n ast.Node) bool {
			as, ok := n.(*ast.AssignStmt)
			if ok && len(as.Rhs) == 1 {
				if be, ok := ast.Unparen(as.Rhs[0]).(*ast.BinaryExpr); ok && be.Op == token.SUB && isVar(be.X, faults) {
					if v, ok := constInt(info, be.Y); ok && v == 1 {
						shiftDef = true
					}
				}
			}
			return true
		})
		c.Check(shiftDef, "shift=faults-1", "the exponent is faults-1 (first fault waits initialDelay)", c.P.Pos(fn.Decl.Pos()), "no 'faults - 1' definition found")
	})

	c.Rule("fault-counter-writers", func() {
		// the consecutive-fault count and its timestamp change only in recordFault: a restart (which shuts the actor down
		// and resets its per-incarnation fields) must not erase the faults just recorded on the members of a restart group
		n := 0
		for _, name := range []string{"consecutiveFaults", "lastFaultAtNano"} {
			fv := c.Field("actor", "PID", name)
			for _, u := range c.UsesOf(fv) {
				if u.Sel == nil || len(u.Path) < 3 {
					continue
				}
				call, ok := u.Path[len(u.Path)-3].(*ast.CallExpr)
				sel, ok2 := u.Path[len(u.Path)-2].(*ast.SelectorExpr)
				if !ok || !ok2 || call.Fun != ast.Expr(sel) {
					continue
				}
				switch sel.Sel.Name {
				case "Store", "Inc", "Dec", "Add", "Sub", "Swap", "CompareAndSwap", "CAS":
					n++
					c.Check(funcName(u.EnclObj) == "actor.(*PID).recordFault", name+"."+sel.Sel.Name+"@"+u.EnclName(), "the fault counter and its timestamp are modified only by recordFault", u.Where(c.P),
						name+" is modified in "+u.EnclName()+": the restart budget and the backoff exponent are computed from a count that something else resets")
				}
			}
		}
		if n < 3 {
			c.Undecided("fault-counter-writers/sites", "fault counter modification sites found", "-", "found "+itoa(n))
		}
	})

	c.Rule("recordFault", func() {
		fn := c.Func("actor", "PID.recordFault")
		f := c.NewFlow(fn)
		info := f.Info
		cf := c.Field("actor", "PID", "consecutiveFaults")
		lf := c.Field("actor", "PID", "lastFaultAtNano")
		reset := func(n ast.Node) bool {
			call, ok := n.(*ast.CallExpr)
			if !ok || !f.CallOnField(cf, "Store")(call) || len(call.Args) != 1 {
				return false
			}
			v, ok := constInt(info, call.Args[0])
			return ok && v == 0
		}
		window := info.Defs[fn.Decl.Type.Params.List[0].Names[0]]
		// edge with facts: window > 0, last > 0, now-last > window(.Nanoseconds())
		edges := map[Edge]bool{}
		for _, b := range f.G.Blocks {
			if !b.Live || f.Cond(b) == nil {
				continue
			}
			for s := 0; s < 2; s++ {
				var w0, l0, gap bool
				for _, fact := range f.EdgeFacts(b, s) {
					cm, ok := asCmp(fact.E, fact.Val)
					if !ok {
						continue
					}
					for _, k := range []cmp{cm, cm.flip()} {
						if k.Op != token.GTR {
							continue
						}
						if v, ok := constInt(info, k.R); ok && v == 0 {
							if objOf(info, k.L) == window {
								w0 = true
							} else if objOf(info, k.L) != nil {
								l0 = true
							}
						}
						if sub, ok := ast.Unparen(k.L).(*ast.BinaryExpr); ok && sub.Op == token.SUB {
							// now - last > window.Nanoseconds()
							mentionsWindow := false
							ast.Inspect(k.R, func(n ast.Node) bool {
								if id, ok := n.(*ast.Ident); ok && info.ObjectOf(id) == window {
									mentionsWindow = true
								}
								return true
							})
							if mentionsWindow {
								gap = true
							}
						}
					}
				}
				if w0 && l0 && gap {
					edges[Edge{b, s}] = true
				}
			}
		}
		if len(edges) == 0 {
			c.Bad("reset-guard", "the counter resets only when window > 0 ∧ last > 0 ∧ now-last > window", c.P.Pos(fn.Decl.Pos()), "guard not found")
		} else {
			w := f.search(searchSpec{avoidEdges: edges, target: reset})
			c.Check(w == nil && len(f.Find(reset)) > 0, "reset-guard", "the counter resets only when window > 0 ∧ last > 0 ∧ now-last > window", c.P.Pos(fn.Decl.Pos()), f.describe(w))
		}
		inc := f.CallOnField(cf, "Inc")
		w := f.ExitReachable(nil, inc, nil, nil)
		c.Check(w == nil, "inc-always", "every call increments the consecutive-fault counter", c.P.Pos(fn.Decl.Pos()), f.describe(w))
		w = f.MayReach(f.Find(inc), nil, inc)
		c.Check(w == nil, "inc-once", "the counter is incremented at most once per call", c.P.Pos(fn.Decl.Pos()), f.describe(w))
		w = f.MayReach(f.Find(inc), nil, reset)
		c.Check(w == nil, "reset≺inc", "a reset never follows the increment (count restarts from one)", c.P.Pos(fn.Decl.Pos()), f.describe(w))
		st := f.CallOnField(lf, "Store")
		w = f.ExitReachable(nil, st, nil, nil)
		c.Check(w == nil, "stamp-always", "the last-fault timestamp is refreshed on every call", c.P.Pos(fn.Decl.Pos()), f.describe(w))
		// return value is the Inc result
		okRet := true
		for _, a := range f.Returns() {
			r := a.N.(*ast.ReturnStmt)
			if len(r.Results) != 1 || !inc(ast.Unparen(r.Results[0])) {
				okRet = false
			}
		}
		c.Check(okRet, "returns-new-count", "recordFault returns the incremented counter", c.P.Pos(fn.Decl.Pos()), "a return does not return consecutiveFaults.Inc()")
	})

	c.Rule("option", func() {
		fn := c.Func("supervisor", "WithExponentialBackoff")
		info := fn.Info()
		var lit *ast.FuncLit
		ast.Inspect(fn.Decl.Body, func(n ast.Node) bool {
			if l, ok := n.(*ast.FuncLit); ok && lit == nil {
				lit = l
			}
			return true
		})
		if lit == nil {
			c.Fail("WithExponentialBackoff: option closure not found")
		}
		f := c.NewLitFlow(fn.String()+"$1", info, lit)
		ps := fn.Decl.Type.Params.List[0].Names
		initial, maxD := info.Defs[ps[0]], info.Defs[ps[1]]
		store := func(n ast.Node) bool {
			as, ok := n.(*ast.AssignStmt)
			if !ok {
				return false
			}
			for _, l := range as.Lhs {
				if fv := selField(info, l); fv != nil && (fv.Name() == "initialDelay" || fv.Name() == "maxDelay" || fv.Name() == "backoffResetAfter") {
					return true
				}
			}
			return false
		}
		pos := f.EdgesWhere(func(cond ast.Expr) (bool, bool) {
			cm, ok := asCmp(cond, true)
			if ok && objOf(info, cm.L) == initial && cm.Op == token.LEQ {
				if v, ok := constInt(info, cm.R); ok && v == 0 {
					return true, false
				}
			}
			return false, false
		})
		w := f.search(searchSpec{avoidEdges: pos, target: store})
		c.Check(w == nil && len(pos) > 0 && len(f.Find(store)) >= 3, "positive-initial", "backoff fields are stored only when initialDelay > 0", c.P.Pos(fn.Decl.Pos()), f.describe(w))
		// maxDelay >= initialDelay enforced: an assignment maxDelay = initialDelay on the edge maxDelay < initialDelay
		fix := false
		ast.Inspect(lit.Body, func(n ast.Node) bool {
			ifs, ok := n.(*ast.IfStmt)
			if !ok {
				return true
			}
			cm, ok := asCmp(ifs.Cond, true)
			if !ok {
				return true
			}
			for _, k := range []cmp{cm, cm.flip()} {
				if k.Op == token.LSS && objOf(info, k.L) == maxD && objOf(info, k.R) == initial {
					for _, st := range ifs.Body.List {
						if as, ok := st.(*ast.AssignStmt); ok && len(as.Lhs) == 1 && objOf(info, as.Lhs[0]) == maxD && objOf(info, as.Rhs[0]) == initial {
							fix = true
						}
					}
				}
			}
			return true
		})
		c.Check(fix, "max≥initial", "maxDelay is raised to initialDelay when it is smaller (cap never below the first delay)", c.P.Pos(fn.Decl.Pos()), "normalisation 'if maxDelay < initialDelay { maxDelay = initialDelay }' not found")
	})

	c.Rule("restart-directive", func() {
		fn := c.Func("actor", "PID.handleRestartDirective")
		f := c.NewFlow(fn)
		info := f.Info
		rec := f.CallTo(c.FuncObj("actor", "PID.recordFault"))
		bo := f.CallTo(c.FuncObj("actor", "backoffDelay"))
		restart := func(n ast.Node) bool {
			g, ok := n.(*ast.GoStmt)
			return ok && callee(info, g.Call) == c.FuncObj("actor", "PID.restartChild")
		}
		suspend := f.CallTo(c.FuncObj("actor", "PID.suspendGroup"))
		w := f.MayReach(f.Find(bo), nil, rec)
		c.Check(w == nil && len(f.Find(rec)) > 0 && len(f.Find(bo)) > 0, "count≺delay", "no fault is recorded after the backoff delay was computed (the delay sees the updated count)", c.P.Pos(fn.Decl.Pos()), f.describe(w))
		w = f.MustPrecede(bo, nil, restart)
		c.Check(w == nil && len(f.Find(restart)) > 0, "delay≺restart", "every restart is preceded by the backoff computation", c.P.Pos(fn.Decl.Pos()), f.describe(w))
		w = f.MayReach(f.Find(suspend), nil, restart)
		c.Check(w == nil && len(f.Find(suspend)) > 0, "exhausted⇏restart", "an exhausted budget never restarts", c.P.Pos(fn.Decl.Pos()), f.describe(w))
		// the fault count: a variable holding a recordFault result (directly or assigned from one); the window: the
		// variable passed to recordFault
		faultVars, windowVars := map[types.Object]bool{}, map[types.Object]bool{}
		recObj := c.FuncObj("actor", "PID.recordFault")
		isRec := func(e ast.Expr) bool {
			call, ok := ast.Unparen(e).(*ast.CallExpr)
			return ok && callee(info, call) == recObj
		}
		for pass := 0; pass < 2; pass++ {
			ast.Inspect(fn.Decl.Body, func(n ast.Node) bool {
				switch x := n.(type) {
				case *ast.CallExpr:
					if isRec(x) && len(x.Args) == 1 {
						if o := objOf(info, x.Args[0]); o != nil {
							windowVars[o] = true
						}
					}
				case *ast.AssignStmt:
					if len(x.Lhs) == 1 && len(x.Rhs) == 1 {
						if lo := objOf(info, x.Lhs[0]); lo != nil {
							if ro := objOf(info, x.Rhs[0]); isRec(x.Rhs[0]) || (ro != nil && faultVars[ro]) {
								faultVars[lo] = true
							}
						}
					}
				}
				return true
			})
		}
		// the budget test: faults > maxRetries with window > 0
		budget := map[Edge]bool{}
		for _, b := range f.G.Blocks {
			if !b.Live || f.Cond(b) == nil {
				continue
			}
			var gt, win bool
			for _, fact := range f.EdgeFacts(b, 0) {
				cm, ok := asCmp(fact.E, fact.Val)
				if !ok {
					continue
				}
				if cm.Op == token.GTR {
					if o := objOf(info, cm.L); o != nil && faultVars[o] {
						gt = true
					}
					if o := objOf(info, cm.L); o != nil && windowVars[o] {
						win = true
					}
				}
			}
			if gt && win {
				budget[Edge{b, 0}] = true
			}
		}
		w = f.AfterEdgesMustPass(budget, suspend, nil)
		c.Check(w == nil && len(budget) > 0, "budget⇒suspend", "faults > maxRetries within a positive window always suspends the group", c.P.Pos(fn.Decl.Pos()), f.describe(w))
		w = f.search(searchSpec{avoidEdges: budget, target: suspend})
		c.Check(w == nil, "suspend-only-if-exhausted", "the group is suspended only when the budget is exhausted", c.P.Pos(fn.Decl.Pos()), f.describe(w))
		// first argument of backoffDelay is the faulty child's count
		okArg := false
		for _, a := range f.Find(bo) {
			call := a.N.(*ast.CallExpr)
			if o := objOf(info, call.Args[0]); o != nil && faultVars[o] {
				okArg = true
			}
		}
		c.Check(okArg, "delay-from-faults", "backoffDelay is fed the recorded consecutive-fault count", c.P.Pos(fn.Decl.Pos()), "first argument is not the fault count")
	})
}
