package main

import (
	"go/ast"
	"go/token"
	"go/types"
)

func init() {
	register(&propDef{
		id: "C16", title: "Every reentrant request completes exactly once, on the requester's turn",
		technique: "lockset on the request state, who-may-call confinement of completion and continuation invocation, error-edge pairing (register ⇒ deregister on every failure path), sibling agreement PID ↔ grain, CAS-loop guard rule",
		explanation: "Decides: (1) every field of requestState is accessed under its mutex and complete() is a test-and-set of 'completed' in one critical section (exactly-once completion); (2) completion is reached only from the response handler on the requester's turn (completeRequest ← handleAsyncResponse / grain response handling), from teardown (cancelInFlightRequests, grain teardown) and for pre-completed handles; continuations are invoked only in completeRequest, setCallback (documented late Then on the caller's goroutine) and the grain teardown helper; (3) timeouts and cancels never complete directly: startTimeout and cancel only enqueue an AsyncResponse error through the requester's mailbox (enqueueAsyncError → doReceive / enqueueEnvelope); (4) bookkeeping symmetry for PID and grain: register increments inFlightCount (CAS loop guarded by current >= maxInFlight → error when a limit is set) and blockingCount under mode == StashNonReentrant, once a counter was incremented (or the in-flight slot taken by the CAS) registration cannot fail any more — a rejected request leaves no count behind —, deregister decrements both under the same test, and in request / requestName / requestGrain every failure after a successful register reaches deregisterRequestState; (5) the last blocking decrement to zero triggers unstashAll (PID) so stashed messages resume.",
		assumptions: []string{"races between reply, timeout and cancel beyond idempotent completion", "PID.cancelInFlightRequests discards continuations while the grain sibling runs them (noted sibling difference, not part of the statement)"},
		minObl:     40,
		run:        runC16,
	})
}

func runC16(c *Ctx) {
	complete := c.FuncObj("actor", "requestState.complete")
	c.Rule("state-locks", func() {
		mu := c.Field("actor", "requestState", "mu")
		c.GuardedBy(guardSpec{name: "requestState", lock: mu, fields: c.Fields("actor", "requestState", "completed", "result", "err", "callback", "cancelRequested", "stopTimeout"),
			exemptFns: map[string]string{"actor.newRequestState": "constructor"}})
		fn := c.Func("actor", "requestState.complete")
		f := c.NewFlow(fn)
		completed := c.Field("actor", "requestState", "completed")
		set := func(n ast.Node) bool {
			as, ok := n.(*ast.AssignStmt)
			return ok && len(as.Lhs) == 1 && selField(f.Info, as.Lhs[0]) == completed
		}
		already := f.CondEdges(func(e ast.Expr) bool { return selField(f.Info, e) == completed }, true)
		notYet := f.CondEdges(func(e ast.Expr) bool { return selField(f.Info, e) == completed }, false)
		c.guardedBy(f, notYet, set, "complete/set-only-if-unset", "'completed' is set only over the edge on which it was found unset", c.P.Pos(fn.Decl.Pos()))
		w := f.AfterEdgesMayReach(already, nil, nil, set)
		c.Check(w == nil && len(already) > 0 && len(f.Find(set)) == 1, "complete/test-and-set", "complete() sets 'completed' only when it found it unset, and reports the loser", c.P.Pos(fn.Decl.Pos()), f.describe(w))
		// no unlock between the test and the set
		la := f.Locks(nil)
		okCS := true
		for _, a := range append(f.Find(set), f.Find(func(n ast.Node) bool { s, ok := n.(*ast.SelectorExpr); return ok && selField(f.Info, s) == completed })...) {
			if la.At(a)[mu] != 2 {
				okCS = false
			}
		}
		unlocks := 0
		for _, a := range f.Find(func(n ast.Node) bool {
			call, ok := n.(*ast.CallExpr)
			if !ok {
				return false
			}
			_, d := lockOp(f.Info, call)
			return d < 0
		}) {
			_ = a
			unlocks++
		}
		c.Check(okCS && unlocks == 2, "complete/one-critical-section", "the test and the set happen in one critical section", c.P.Pos(fn.Decl.Pos()), "")
		c.LockPairing(fn, mu)
		c.LockPairing(c.Func("actor", "requestState.setCallback"), mu)
		c.LockPairing(c.Func("actor", "requestState.cancel"), mu)
	})

	c.Rule("who-completes", func() {
		c.WhoMayCall("who", complete, map[string]string{
			"actor.(*PID).completeRequest": "response handler, requester's turn", "actor.(*grainPID).completeRequest": "response handler, grain turn",
			"actor.(*PID).cancelInFlightRequests": "teardown (stop/restart)", "actor.(*grainPID).teardownInFlightRequests": "teardown on the poison-pill turn",
			"actor.completedRequestCall": "a handle that is born completed (fresh state, no requester)", "actor.(*grainPID).cancelInFlightRequests": "teardown",
		})
		c.WhoMayCall("who", c.FuncObj("actor", "PID.completeRequest"), map[string]string{"actor.(*PID).handleAsyncResponse": "dispatchOne → handleAsyncResponse (on the turn)"})
		c.WhoMayCall("who", c.FuncObj("actor", "grainPID.completeRequest"), map[string]string{"actor.(*grainPID).handleAsyncResponse": "grain turn", "actor.(*grainPID).dispatchOne": "grain turn", "actor.(*grainPID).handleResponseEnvelope": "grain turn"})
		c.WhoMayCall("who", c.FuncObj("actor", "PID.handleAsyncResponse"), map[string]string{"actor.(*PID).dispatchOne": "turn dispatch"})
		// timeouts/cancel route through the mailbox
		for _, name := range []string{"requestState.startTimeout", "requestState.cancel"} {
			fn := c.Func("actor", name)
			info := fn.Info()
			viaMailbox, direct := false, false
			ast.Inspect(fn.Decl.Body, func(n ast.Node) bool {
				if call, ok := n.(*ast.CallExpr); ok {
					if cal := callee(info, call); cal != nil {
						if cal.Name() == "enqueueAsyncError" {
							viaMailbox = true
						}
						if cal == complete || cal.Name() == "completeRequest" {
							direct = true
						}
					}
				}
				return true
			})
			c.Check(viaMailbox && !direct, name+"/through-mailbox", "a timeout/cancel is delivered as an AsyncResponse error through the requester's mailbox (completion then happens on its turn)", c.P.Pos(fn.Decl.Pos()), "completes directly")
		}
		for _, name := range []string{"PID.enqueueAsyncError", "grainPID.enqueueAsyncError"} {
			fn := c.Func("actor", name)
			info := fn.Info()
			ok := false
			ast.Inspect(fn.Decl.Body, func(n ast.Node) bool {
				if call, isCall := n.(*ast.CallExpr); isCall {
					if cal := callee(info, call); cal != nil && (cal.Name() == "doReceive" || cal.Name() == "enqueueEnvelope") {
						ok = true
					}
				}
				return true
			})
			c.Check(ok, name+"/enqueues", "enqueueAsyncError only enqueues onto the requester's own mailbox", c.P.Pos(fn.Decl.Pos()), "")
		}
	})

	c.Rule("continuations", func() {
		// calls of a func(any, error) value named callback / read from requestState.callback
		cbField := c.Field("actor", "requestState", "callback")
		sites := c.CallsWhere(func(info *types.Info, call *ast.CallExpr) bool {
			id, ok := call.Fun.(*ast.Ident)
			if !ok {
				return false
			}
			obj := info.ObjectOf(id)
			v, ok := obj.(*types.Var)
			if !ok {
				return false
			}
			sig, ok := v.Type().Underlying().(*types.Signature)
			if !ok || sig.Params().Len() != 2 || sig.Results().Len() != 0 {
				return false
			}
			_, firstIsAny := sig.Params().At(0).Type().Underlying().(*types.Interface)
			return types.Identical(sig.Params().At(1).Type(), types.Universe.Lookup("error").Type()) && firstIsAny
		})
		_ = cbField
		allow := map[string]string{"actor.(*PID).completeRequest": "", "actor.(*grainPID).completeRequest": "", "actor.(*requestState).setCallback": "late Then", "actor.(*grainPID).runTeardownCallback": "teardown on the grain turn"}
		n := 0
		for _, s := range sites {
			if relPkg(s.Pkg) != "actor" {
				continue
			}
			n++
			_, ok := allow[funcName(s.EnclObj)]
			c.Check(ok, "invoke@"+s.Name(), "request continuations are invoked only by completeRequest (on the turn), setCallback (late registration) and the grain teardown helper", c.P.Pos(s.Call.Pos()), "continuation invoked in "+s.Name())
		}
		if n < 3 {
			c.Undecided("count", "at least 3 continuation invocation sites", "-", "found fewer")
		}
	})

	c.Rule("bookkeeping", func() {
		for _, recv := range []string{"PID", "grainPID"} {
			reg := c.Func("actor", recv+".registerRequestState")
			dereg := c.Func("actor", recv+".deregisterRequestState")
			inflight := c.Field("actor", "reentrancyState", "inFlightCount")
			blocking := c.Field("actor", "reentrancyState", "blockingCount")
			rf, df := c.NewFlow(reg), c.NewFlow(dereg)
			modeEdge := func(f *Flow) map[Edge]bool {
				return f.EdgesWhere(func(cond ast.Expr) (bool, bool) {
					cm, ok := asCmp(cond, true)
					if ok && cm.Op == token.EQL {
						if k, isK := objOfConst(f.Info, cm.R); isK && k.Name() == "StashNonReentrant" {
							return true, true
						}
					}
					return false, false
				})
			}
			bInc := rf.CallOnField(blocking, "Inc")
			w := rf.search(searchSpec{avoidEdges: modeEdge(rf), target: bInc})
			c.Check(w == nil && len(rf.Find(bInc)) == 1, recv+".register/blocking-iff-stash-mode", "blockingCount is incremented exactly for StashNonReentrant requests", c.P.Pos(reg.Decl.Pos()), rf.describe(w))
			bDec := df.CallOnField(blocking, "Dec")
			w = df.search(searchSpec{avoidEdges: modeEdge(df), target: bDec})
			c.Check(w == nil && len(df.Find(bDec)) == 1, recv+".deregister/blocking-iff-stash-mode", "blockingCount is decremented under the same mode test", c.P.Pos(dereg.Decl.Pos()), df.describe(w))
			// inFlight: register increments on every success path; deregister decrements once after the presence test
			inc := Or(rf.CallOnField(inflight, "Inc"), rf.CallOnField(inflight, "CompareAndSwap"))
			set := rf.Find(func(n ast.Node) bool {
				call, ok := n.(*ast.CallExpr)
				if !ok {
					return false
				}
				sel, ok := call.Fun.(*ast.SelectorExpr)
				return ok && sel.Sel.Name == "Set" && len(call.Args) == 2
			})
			w = rf.MustPrecede(inc, nil, func(n ast.Node) bool { return len(set) == 1 && n == set[0].N })
			c.Check(w == nil && len(set) == 1, recv+".register/count≺track", "a request is tracked only after it was counted in flight", c.P.Pos(reg.Decl.Pos()), rf.describe(w))
			dec := df.CallOnField(inflight, "Dec")
			c.Check(len(df.Find(dec)) == 1, recv+".deregister/one-decrement", "deregister decrements inFlightCount once", c.P.Pos(dereg.Decl.Pos()), "")
			// limit guard
			limit := rf.EdgesWhere(func(cond ast.Expr) (bool, bool) {
				cm, ok := asCmp(cond, true)
				if ok && cm.Op == token.GEQ {
					// the limit: a value loaded from the maxInFlight field (directly or through a single-definition local)
					r := ast.Unparen(cm.R)
					if id, ok := r.(*ast.Ident); ok {
						if def := singleLocalDefIn(rf.Info, reg.Decl.Body, rf.Info.ObjectOf(id)); def != nil {
							r = ast.Unparen(def)
						}
					}
					if containsNode(r, func(n ast.Node) bool {
						call, ok := n.(*ast.CallExpr)
						if !ok {
							return false
						}
						sel, ok := ast.Unparen(call.Fun).(*ast.SelectorExpr)
						if !ok || sel.Sel.Name != "Load" {
							return false
						}
						fv := selField(rf.Info, sel.X)
						return fv != nil && fv.Name() == "maxInFlight"
					}) {
						return true, true
					}
				}
				return false, false
			})
			cas := rf.CallOnField(inflight, "CompareAndSwap")
			w = rf.AfterEdgesMayReach(limit, nil, rf.loopBackEdges(), cas)
			c.Check(w == nil && len(limit) > 0, recv+".register/limit", "at the in-flight limit registration fails instead of counting the request", c.P.Pos(reg.Decl.Pos()), rf.describe(w))
			// a failing registration leaves both counters untouched: once a counter was incremented no error return is reachable
			// (callers do not deregister a request whose registration failed, and deregister only undoes tracked requests)
			errRet := func(n ast.Node) bool {
				r, ok := n.(*ast.ReturnStmt)
				return ok && len(r.Results) == 1 && !isNilIdent(rf.Info, r.Results[0])
			}
			counted := append(rf.Find(bInc), rf.Find(rf.CallOnField(inflight, "Inc"))...)
			w = rf.search(searchSpec{starts: counted, target: errRet})
			c.Check(w == nil && len(counted) >= 2, recv+".register/counted⇒succeeds", "after blockingCount or inFlightCount was incremented the registration cannot fail any more (a rejected request leaves no count behind)", c.P.Pos(reg.Decl.Pos()), rf.describe(w))
			casOK := rf.BoolEdges(func(e ast.Expr) bool { call, ok := e.(*ast.CallExpr); return ok && cas(call) }, true)
			w = rf.search(searchSpec{startEdges: edgeList(casOK), target: errRet})
			c.Check(w == nil, recv+".register/admitted⇒succeeds", "after the in-flight slot was taken by the CAS the registration cannot fail any more", c.P.Pos(reg.Decl.Pos()), rf.describe(w))
		}
		// last blocking decrement resumes the stash (PID)
		dereg := c.Func("actor", "PID.deregisterRequestState")
		df := c.NewFlow(dereg)
		zero := df.EdgesWhere(func(cond ast.Expr) (bool, bool) {
			cm, ok := asCmp(cond, true)
			if ok && cm.Op == token.EQL {
				if v, isC := constInt(df.Info, cm.R); isC && v == 0 {
					// the count left after this request's own decrement of blockingCount
					l := ast.Unparen(cm.L)
					if id, ok := l.(*ast.Ident); ok {
						if def := singleLocalDefIn(df.Info, dereg.Decl.Body, df.Info.ObjectOf(id)); def != nil {
							l = ast.Unparen(def)
						}
					}
					if call, ok := l.(*ast.CallExpr); ok && df.CallOnField(c.Field("actor", "reentrancyState", "blockingCount"), "Dec")(call) {
						return true, true
					}
				}
			}
			return false, false
		})
		w := df.AfterEdgesMustPass(zero, df.CallTo(c.FuncObj("actor", "PID.unstashAll")), nil)
		c.Check(w == nil && len(zero) > 0, "PID.deregister/last-blocker⇒unstashAll", "when the last blocking request completes the stashed messages are released", c.P.Pos(dereg.Decl.Pos()), df.describe(w))
	})

	c.Rule("register-deregister-pairing", func() {
		n := 0
		for _, recv := range []string{"PID", "grainPID"} {
			reg := c.FuncObj("actor", recv+".registerRequestState")
			dereg := c.FuncObj("actor", recv+".deregisterRequestState")
			for _, u := range c.UsesOf(reg) {
				if u.Call == nil || u.EnclObj == nil {
					continue
				}
				fn := c.fnOfObj(u.EnclObj)
				f := c.NewFlow(fn)
				n++
				regAtoms := f.Find(func(nd ast.Node) bool { return nd == ast.Node(u.Call) })
				okEdges, _ := f.ErrEdgesOf(func(nd ast.Node) bool { return nd == ast.Node(u.Call) }, false)
				// after a successful register: every exit that returns a non-nil error passes deregister
				errRet := func(b *cfgBlock) bool {
					if len(b.Nodes) == 0 {
						return false
					}
					r, ok := b.Nodes[len(b.Nodes)-1].(*ast.ReturnStmt)
					if !ok || len(r.Results) == 0 {
						return false
					}
					last := r.Results[len(r.Results)-1]
					if isNilIdent(f.Info, last) {
						return false
					}
					t := f.Info.TypeOf(last)
					return t != nil && isErrorType(t)
				}
				_ = regAtoms
				var starts []Edge
				for e := range okEdges {
					starts = append(starts, e)
				}
				if len(starts) == 0 {
					c.Undecided(fn.String()+"/register-result", "the result of registerRequestState is tested", u.Where(c.P), "no error test found")
					continue
				}
				w := f.search(searchSpec{startEdges: starts, avoid: f.CallTo(dereg), exits: true, exitFilter: errRet})
				c.Check(w == nil, fn.String()+"/failure⇒deregister", "every failure after a successful register undoes the registration (no leaked in-flight/blocking count)", u.Where(c.P), f.describe(w))
			}
		}
		if n < 4 {
			c.Undecided("count", "at least 4 request entry points register state", "-", "found fewer")
		}
	})
}
