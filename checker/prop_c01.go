package main

import (
	"go/ast"
	"go/types"

	"golang.org/x/tools/go/ssa"
)

// shared anchors of the actor turn machinery
type turnAnchors struct {
	pidRunTurn, grainRunTurn         *Fn
	pidFinish, grainFinish           *Fn
	pidDispatchOne, grainDispatchOne *Fn
	schedPID, schedGrain             *types.Var
	take, yield, reset, trySched     *types.Func
	stateV                           *types.Var
	workerRun                        *Fn
}

func (c *Ctx) turn() *turnAnchors {
	return &turnAnchors{
		pidRunTurn: c.Func("actor", "PID.runTurn"), grainRunTurn: c.Func("actor", "grainPID.runTurn"),
		pidFinish: c.Func("actor", "PID.finishOrReclaim"), grainFinish: c.Func("actor", "grainPID.finishOrReclaim"),
		pidDispatchOne: c.Func("actor", "PID.dispatchOne"), grainDispatchOne: c.Func("actor", "grainPID.dispatchOne"),
		schedPID: c.Field("actor", "PID", "schedState"), schedGrain: c.Field("actor", "grainPID", "schedState"),
		take: c.FuncObj("actor", "dispatchState.TakeForProcessing"), yield: c.FuncObj("actor", "dispatchState.YieldToScheduled"),
		reset: c.FuncObj("actor", "dispatchState.reset"), trySched: c.FuncObj("actor", "dispatchState.TrySchedule"),
		stateV:    c.Field("actor", "dispatchState", "v"),
		workerRun: c.Func("actor", "worker.run"),
	}
}

// handlerSites: every place first-party code invokes a user message handler.
func (c *Ctx) handlerSites() []astSite {
	behavior := c.Named("actor", "Behavior")
	actorReceive := c.FuncObj("actor", "Actor.Receive")
	grainOnReceive := c.FuncObj("actor", "Grain.OnReceive")
	return c.CallsWhere(func(info *types.Info, call *ast.CallExpr) bool {
		if f := callee(info, call); f != nil {
			return f == actorReceive || f == grainOnReceive
		}
		t := info.TypeOf(call.Fun)
		if t == nil {
			return false
		}
		return types.Identical(types.Unalias(t), behavior)
	})
}

func init() {
	register(&propDef{
		id: "C01", title: "An actor's message handler never runs concurrently with itself",
		technique: "call-graph confinement (VTA) of handler invocations behind the turn gate + CFG must-precede on the Scheduled→Processing CAS + who-may-write of the dispatch state",
		explanation: "Decides structural necessary conditions of single-threaded handler execution: (1) every invocation site of a user handler (Behavior value, Actor.Receive, Grain.OnReceive) is reachable only through PID.runTurn / grainPID.runTurn, and in both turn loops only after a successful TakeForProcessing CAS; (2) the dispatch state word is written only by its own methods, its transitions follow a fixed table (CAS Idle→Scheduled, CAS Scheduled→Processing, Store(Scheduled) only in YieldToScheduled, Store(Idle) only in reset: a worker becomes the owner only by winning the CAS from Scheduled), and TakeForProcessing / YieldToScheduled / reset are called only from the turn loops, finishOrReclaim and the restart path; (3) a reset outside finishOrReclaim is not preceded, after the quiescence wait, by an event that re-enables intake (init / running state); (4) runTurn is invoked only by worker.run, once per take; (5) the PID and grain turn loops agree. It does not decide race freedom of the CAS machine over interleavings.",
		assumptions: []string{"race-freedom of the three-state CAS machine under all interleavings", "re-entrancy through user code", "VTA call graph over-approximates dynamic dispatch (sound for never-reachable)"},
		minObl:     32,
		run:        runC01,
	})
}

func runC01(c *Ctx) {
	var t *turnAnchors
	c.Rule("anchors", func() { t = c.turn(); c.Ok("turn", "turn anchors resolve", c.P.Pos(t.pidRunTurn.Decl.Pos())) })
	if t == nil {
		return
	}
	// (1) handler confinement
	c.Rule("confine", func() {
		sites := c.handlerSites()
		if len(sites) < 3 {
			c.Undecided("handler-sites", "at least 3 handler invocation sites exist (Behavior call, 2 × OnReceive)", "-", "found fewer: pattern lost")
		}
		var targets []*ssa.Function
		for _, s := range sites {
			if relPkg(s.Pkg) != "actor" {
				// handler invocations outside the runtime package (testkit, mocks) are not actor turns
				c.Ok("site-outside-runtime="+s.Name(), "handler invocation outside the actor runtime package (test kit / mock) is not a message turn", c.P.Pos(s.Call.Pos()))
				continue
			}
			targets = append(targets, c.siteSSA(s))
			c.Ok("site="+s.Name(), "handler invocation site identified", c.P.Pos(s.Call.Pos()))
		}
		gates := map[*ssa.Function]bool{c.SSA(t.pidRunTurn): true, c.SSA(t.grainRunTurn): true}
		c.Confine(confineSpec{key: "handler", rule: "a user message handler is invoked only on a dispatcher turn (through runTurn)", targets: targets, gates: gates, exportedAreRoots: true})
	})
	// (1b) in both turn loops dispatchOne only after TakeForProcessing()==true
	for _, pr := range []struct {
		fn    *Fn
		sched *types.Var
		disp  *Fn
	}{{t.pidRunTurn, t.schedPID, t.pidDispatchOne}, {t.grainRunTurn, t.schedGrain, t.grainDispatchOne}} {
		c.Rule("turn-gate", func() {
			f := c.NewFlow(pr.fn)
			takeCall := f.CallOnField(pr.sched, "TakeForProcessing")
			won := f.CondEdges(exprMatch(takeCall), true)
			disp := f.CallTo(pr.disp.Obj)
			if len(f.Find(disp)) == 0 || len(won) == 0 {
				c.Undecided(pr.fn.String(), "turn loop contains the take CAS and dispatchOne", c.P.Pos(pr.fn.Decl.Pos()), "pattern not found")
				return
			}
			// every path to dispatchOne crosses the won edge: block the won edge, dispatchOne must be unreachable
			w := f.search(searchSpec{avoidEdges: won, target: disp})
			c.Check(w == nil, pr.fn.String()+"/take≺dispatch", "dispatchOne is reached only over the true edge of schedState.TakeForProcessing()", c.P.Pos(pr.fn.Decl.Pos()), f.describe(w))
			// also: finishOrReclaim / dequeue only after the take
			deq := func(n ast.Node) bool {
				call, ok := n.(*ast.CallExpr)
				if !ok {
					return false
				}
				sel, ok := call.Fun.(*ast.SelectorExpr)
				return ok && sel.Sel.Name == "Dequeue"
			}
			w = f.search(searchSpec{avoidEdges: won, target: deq})
			c.Check(w == nil, pr.fn.String()+"/take≺dequeue", "mailboxes are dequeued only after the take CAS succeeded (single consumer)", c.P.Pos(pr.fn.Decl.Pos()), f.describe(w))
		})
	}
	// (2) who writes the state word / who calls the transitions
	c.Rule("state", func() {
		for _, u := range c.UsesOf(t.stateV) {
			ok := false
			if u.EnclObj != nil {
				if sig := u.EnclObj.Type().(*types.Signature); sig.Recv() != nil {
					rt := sig.Recv().Type()
					if p, isP := rt.(*types.Pointer); isP {
						rt = p.Elem()
					}
					ok = types.Identical(rt, c.Named("actor", "dispatchState"))
				}
			}
			c.Check(ok, "v@"+u.EnclName(), "dispatchState.v is accessed only by dispatchState's own methods", u.Where(c.P), "access outside the state machine's methods")
		}
		// transition table of the state word: ownership (Processing) is acquired only by a CAS from Scheduled
		idle, sched, proc := c.Const("actor", "dispatchIdle"), c.Const("actor", "dispatchScheduled"), c.Const("actor", "dispatchProcessing")
		constOf := func(info *types.Info, e ast.Expr) *types.Const {
			if id, ok := ast.Unparen(e).(*ast.Ident); ok {
				k, _ := info.Uses[id].(*types.Const)
				return k
			}
			return nil
		}
		for _, u := range c.UsesOf(t.stateV) {
			var call *ast.CallExpr
			ok := false
			if len(u.Path) >= 3 {
				call, ok = u.Path[len(u.Path)-3].(*ast.CallExpr)
			}
			if !ok {
				c.Bad("transition@"+u.EnclName()+"/shape", "the state word is used only through Load / CompareAndSwap / Store calls", u.Where(c.P), "dispatchState.v is used other than as the receiver of an atomic method call")
				continue
			}
			sel, _ := call.Fun.(*ast.SelectorExpr)
			if sel == nil {
				continue
			}
			info := u.Pkg.TypesInfo
			key := "transition@" + u.EnclName() + "/" + sel.Sel.Name
			rule := "the dispatch state changes only by CAS Idle→Scheduled, CAS Scheduled→Processing, Store(Scheduled) in YieldToScheduled and Store(Idle) in reset: a worker becomes the owner only by winning the CAS from Scheduled"
			switch sel.Sel.Name {
			case "Load":
				c.Ok(key, rule, u.Where(c.P))
			case "CompareAndSwap":
				from, to := constOf(info, call.Args[0]), constOf(info, call.Args[1])
				c.Check((from == idle && to == sched) || (from == sched && to == proc), key, rule, u.Where(c.P), "CompareAndSwap("+types.ExprString(call.Args[0])+", "+types.ExprString(call.Args[1])+") is not a transition of the table")
			case "Store":
				to := constOf(info, call.Args[0])
				okStore := (to == sched && u.EnclObj == t.yield) || (to == idle && u.EnclObj == t.reset)
				c.Check(okStore, key, rule, u.Where(c.P), "Store("+types.ExprString(call.Args[0])+") in "+u.EnclName()+" forces the state without a CAS: a worker that already owns the actor is overridden or a second owner is created")
			default:
				c.Bad(key, rule, u.Where(c.P), "atomic operation "+sel.Sel.Name+" is not part of the state machine")
			}
		}
		turnFns := map[string]string{
			"actor.(*PID).runTurn": "PID turn loop", "actor.(*grainPID).runTurn": "grain turn loop",
			"actor.(*PID).finishOrReclaim": "reclaim handshake", "actor.(*grainPID).finishOrReclaim": "reclaim handshake",
		}
		c.WhoMayCall("who", t.take, turnFns)
		c.WhoMayCall("who", t.yield, map[string]string{"actor.(*PID).runTurn": "budget exhausted", "actor.(*grainPID).runTurn": "budget exhausted"})
		c.WhoMayCall("who", t.reset, map[string]string{
			"actor.(*PID).finishOrReclaim": "release at end of turn", "actor.(*grainPID).finishOrReclaim": "release at end of turn",
			"actor.restartSubtree": "restart path; must be quiescent (rule reset-quiescence)",
		})
	})
	// (3) reset outside finishOrReclaim needs quiescence
	c.Rule("reset-quiescence", func() {
		for _, u := range c.UsesOf(t.reset) {
			if u.EnclObj == t.pidFinish.Obj || u.EnclObj == t.grainFinish.Obj || u.Call == nil || u.EnclObj == nil {
				continue
			}
			fn := c.fnOfObj(u.EnclObj)
			if fn == nil {
				c.Undecided("fn="+u.EnclName(), "reset site analysable", u.Where(c.P), "no body")
				continue
			}
			f := c.NewFlow(fn)
			resetCall := func(n ast.Node) bool { return n == ast.Node(u.Call) }
			// quiescence wait: a loop condition reading schedState.Load() == dispatchProcessing; its false edge = quiescent
			loadM := f.CallOnField(t.schedPID, "Load")
			quiet := f.EdgesWhere(func(cond ast.Expr) (bool, bool) {
				be, ok := ast.Unparen(cond).(*ast.BinaryExpr)
				if !ok {
					return false, false
				}
				if loadM(ast.Unparen(be.X)) || loadM(ast.Unparen(be.Y)) {
					return true, false // edge taken when "== Processing" is false
				}
				return false, false
			})
			key := "reset@" + u.EnclName()
			if len(quiet) == 0 {
				c.Bad(key+"/wait", "a reset outside the turn is dominated by a wait for schedState != Processing", u.Where(c.P), "no quiescence wait found in "+u.EnclName())
				continue
			}
			w := f.search(searchSpec{avoidEdges: quiet, target: resetCall})
			c.Check(w == nil, key+"/wait", "a reset outside the turn is dominated by a wait for schedState != Processing", u.Where(c.P), f.describe(w))
			// between the wait and the reset: no intake-enabling event
			initFn := c.FuncObj("actor", "PID.init")
			setState := c.FuncObj("actor", "PID.setState")
			enabling := func(n ast.Node) bool {
				call, ok := n.(*ast.CallExpr)
				if !ok {
					return false
				}
				cal := callee(f.Info, call)
				if cal == initFn {
					return true
				}
				if cal == setState && len(call.Args) == 2 {
					if id, ok := call.Args[0].(*ast.Ident); ok && id.Name == "runningState" {
						if v, ok := call.Args[1].(*ast.Ident); ok && v.Name == "true" {
							return true
						}
					}
				}
				return false
			}
			// all paths into reset: is there a path wait-edge → enabling → reset ?
			en := f.Find(enabling)
			var w2 *Witness
			if len(en) > 0 {
				w2 = f.MayReach(en, nil, resetCall)
			}
			c.Check(w2 == nil, key+"/no-intake-before-reset", "no event that re-enables message intake (PID.init / setState(runningState,true)) lies between the quiescence wait and the reset", u.Where(c.P),
				"the actor is re-initialised (running, schedulable) at "+f.lines(en)+" and schedState.reset() follows: a worker that took the actor in between is still Processing when the state is forced to Idle, so the next send schedules a second concurrent turn; "+f.describe(w2))
		}
	})
	// (4) runTurn invoked only by worker.run
	c.Rule("runturn-callers", func() {
		sched := c.FuncObj("actor", "schedulable.runTurn")
		for _, m := range []*types.Func{sched, t.pidRunTurn.Obj, t.grainRunTurn.Obj} {
			if m != sched && len(c.UsesOf(m)) == 0 {
				c.Ok("who/"+funcName(m)+"/no-static-reference", "the concrete runTurn is never referenced statically (only through schedulable.runTurn)", c.P.Pos(c.P.declOf[m].Pos()))
				continue
			}
			c.WhoMayCall("who", m, map[string]string{"actor.(*worker).run": "the dispatcher worker loop"})
		}
		f := c.NewFlow(t.workerRun)
		calls := f.Find(f.CallTo(sched))
		c.Check(len(calls) == 1, "worker.run/one-runTurn", "worker.run invokes runTurn at exactly one site per take", c.P.Pos(t.workerRun.Decl.Pos()), "expected one call site")
		takeQ := c.FuncObj("actor", "readyQueue.take")
		w := f.MustPrecede(f.CallTo(takeQ), nil, f.CallTo(sched))
		c.Check(w == nil, "worker.run/take≺runTurn", "each runTurn follows a readyQueue.take", c.P.Pos(t.workerRun.Decl.Pos()), f.describe(w))
	})
	// (5) sibling agreement: both finishOrReclaim have the same event sequence
	c.Rule("siblings", func() {
		seq := func(fn *Fn, sched *types.Var) string {
			f := c.NewFlow(fn)
			s := ""
			for _, b := range f.G.Blocks {
				if !b.Live {
					continue
				}
				for _, a := range f.atoms[b] {
					if call, ok := a.N.(*ast.CallExpr); ok {
						if sel, ok := call.Fun.(*ast.SelectorExpr); ok && selField(f.Info, sel.X) == sched {
							s += sel.Sel.Name + ";"
						}
					}
				}
			}
			return s
		}
		a, b := seq(t.pidFinish, t.schedPID), seq(t.grainFinish, t.schedGrain)
		c.Check(a == b && a != "", "finishOrReclaim", "PID and grain finishOrReclaim perform the same sequence of dispatch-state operations", c.P.Pos(t.pidFinish.Decl.Pos()), "PID: "+a+" grain: "+b)
		a, b = seq(t.pidRunTurn, t.schedPID), seq(t.grainRunTurn, t.schedGrain)
		c.Check(a == b && a != "", "runTurn", "PID and grain runTurn perform the same sequence of dispatch-state operations", c.P.Pos(t.pidRunTurn.Decl.Pos()), "PID: "+a+" grain: "+b)
	})
}
