package main

import (
	"go/ast"
	"go/token"
	"go/types"
)

func init() {
	register(&propDef{
		id: "C43", title: "The producer never outruns the consumer's demand",
		technique: "guard dominance on the CFG (edge facts) + who-may-call confinement of the sequenced-message constructors + field write tables with value shapes, on both producer controllers and the consumer controller",
		explanation: "Decides the structural part of the demand bound: (1) a SequencedMessage is constructed only inside the two emitSequenced functions (point-to-point and work-pulling), and there every path to the constructor passes the edge seq ≤ demandUpTo for the very sequence the message carries; (2) demandUpTo is written only from the confirmed table: reset to 0 / to currentSeq (PreStart, new registration, consumer death) or set to request.RequestUpToSeq(), the latter only after the sender was authenticated for the current session and registration nonce and after the range check RequestUpToSeq ≤ ConfirmedSeq + MaxReliableFlowControlWindow; (3) on the consumer side the grant sent in a Request is the value recorded in requestUpToSeq and equals confirmedSeq + window; a sequenced message is buffered or delivered only on the edge seq ≤ requestUpToSeq; the receive buffer grows only through slices.Insert on the edge len(buffer) < window, all other writes shrink or clear it; PreStart accepts only 1 ≤ window ≤ MaxReliableFlowControlWindow. That these guards imply the numeric bound for every interleaving of lost, duplicated and reordered controller messages is a protocol-level invariant over histories and is NOT decided.",
		assumptions: []string{"actor turn atomicity (one Receive at a time per controller)", "the inductive protocol invariant currentSeq ≤ demandUpTo + pending emission over message histories"},
		minObl:     30,
		run:        runC43,
	})
}

func runC43(c *Ctx) {
	pcDemand := c.Field("actor", "producerController", "demandUpTo")
	bwDemand := c.Field("actor", "bindingWork", "demandUpTo")
	ccBuffer := c.Field("actor", "consumerController", "buffer")
	ccWindow := c.Field("actor", "consumerController", "window")
	ccUpTo := c.Field("actor", "consumerController", "requestUpToSeq")
	ccConfirmed := c.Field("actor", "consumerController", "confirmedSeq")
	newSeq := c.FuncObj("internal/commands", "NewSequencedMessage")
	newChunk := c.FuncObj("internal/commands", "NewChunkedSequencedMessage")
	maxWin := c.Const("actor", "MaxReliableFlowControlWindow")

	c.Rule("emit", func() {
		allow := map[string]string{
			"actor.(*producerController).emitSequenced":            "the demand-checked emission point of the point-to-point controller",
			"actor.(*workPullingProducerController).emitSequenced": "the demand-checked emission point of the work-pulling controller",
			"internal/commands.(*DeliverySerializer).Deserialize":  "receiving side: rebuilds the message from the wire, sends nothing",
			"internal/commands.NewChunkedSequencedMessage":         "constructor built on NewSequencedMessage, itself confined",
		}
		c.WhoMayCall("ctor", newSeq, allow)
		c.WhoMayCall("ctor", newChunk, allow)
		for _, spec := range []struct {
			fn    string
			field *types.Var
		}{{"producerController.emitSequenced", pcDemand}, {"workPullingProducerController.emitSequenced", bwDemand}} {
			fn := c.Func("actor", spec.fn)
			f := c.NewFlow(fn)
			info := f.Info
			ctor := f.CallTo(newSeq, newChunk)
			for _, a := range f.FindOnce(ctor) {
				call := a.N.(*ast.CallExpr)
				seqArg := types.ExprString(call.Args[2])
				edges := f.FactEdges(func(cm cmp) bool {
					return cm.Op == token.LEQ && types.ExprString(cm.L) == seqArg && isFieldSel(info, cm.R, spec.field)
				})
				this := func(n ast.Node) bool { return n == ast.Node(call) }
				c.guardedBy(f, edges, this, "guard/"+fn.String()+"/"+callee(info, call).Name(), "a sequenced message is built only on the edge where its sequence is ≤ demandUpTo", c.P.Pos(call.Pos()))
			}
		}
	})

	c.Rule("demand-writes", func() {
		rule := "demandUpTo changes only by reset (0 / currentSeq) or to the upper bound of an authenticated, range-checked Request"
		c.checkWrites("pc", pcDemand, map[string][]string{
			"actor.(*producerController).PreStart":               {"const:0"},
			"actor.(*producerController).handleRegisterConsumer": {"field:currentSeq"},
			"actor.(*producerController).handleTerminated":       {"field:currentSeq"},
			"actor.(*producerController).handleRequest":          {"call:RequestUpToSeq"},
		}, rule)
		c.checkWrites("wp", bwDemand, map[string][]string{
			"actor.(*workPullingProducerController).handleRequest": {"call:RequestUpToSeq"},
		}, rule)
		for _, spec := range []struct {
			fn    string
			field *types.Var
			gate  string
		}{{"producerController.handleRequest", pcDemand, "fromRegisteredConsumer"}, {"workPullingProducerController.handleRequest", bwDemand, "bindingFrom"}} {
			fn := c.Func("actor", spec.fn)
			f := c.NewFlow(fn)
			info := f.Info
			write := assignTo(info, spec.field)
			// authentication gate: either `!x.fromRegisteredConsumer(..)` is false, or the binding returned by bindingFrom is non-nil
			auth := f.BoolEdges(func(e ast.Expr) bool { return isCallNamed(info, e, spec.gate) }, true)
			var bindingVar types.Object
			ast.Inspect(fn.Decl.Body, func(n ast.Node) bool {
				if as, ok := n.(*ast.AssignStmt); ok && len(as.Rhs) == 1 && isCallNamed(info, as.Rhs[0], spec.gate) {
					if id, ok := as.Lhs[0].(*ast.Ident); ok {
						bindingVar = info.ObjectOf(id)
					}
				}
				return true
			})
			if bindingVar != nil {
				for e := range f.NilCheckEdges(func(e ast.Expr) bool { id, ok := e.(*ast.Ident); return ok && info.ObjectOf(id) == bindingVar }, true) {
					auth[e] = true
				}
			}
			c.guardedBy(f, auth, write, "auth/"+fn.String(), "a demand grant is applied only when its sender is the registered consumer controller of the current session and nonce", c.P.Pos(fn.Decl.Pos()))
			ranged := f.FactEdges(func(cm cmp) bool {
				if cm.Op != token.LEQ || !isCallNamed(info, cm.L, "RequestUpToSeq") {
					return false
				}
				hasMax := false
				ast.Inspect(cm.R, func(n ast.Node) bool {
					if id, ok := n.(*ast.Ident); ok && info.Uses[id] == types.Object(maxWin) {
						hasMax = true
					}
					return true
				})
				return hasMax && containsCall(info, cm.R, "ConfirmedSeq")
			})
			c.guardedBy(f, ranged, write, "range/"+fn.String(), "a demand grant is applied only when RequestUpToSeq ≤ ConfirmedSeq + MaxReliableFlowControlWindow", c.P.Pos(fn.Decl.Pos()))
			lower := f.FactEdges(func(cm cmp) bool {
				return cm.Op == token.GEQ && isCallNamed(info, cm.L, "RequestUpToSeq") && isCallNamed(info, cm.R, "ConfirmedSeq")
			})
			c.guardedBy(f, lower, write, "range-lower/"+fn.String(), "a demand grant is applied only when RequestUpToSeq ≥ ConfirmedSeq", c.P.Pos(fn.Decl.Pos()))
		}
	})

	c.Rule("consumer", func() {
		c.checkWrites("cc", ccBuffer, map[string][]string{
			"actor.(*consumerController).PreStart":              {"nil"},
			"actor.(*consumerController).handleRegistrationAck": {"nil"},
			"actor.(*consumerController).drain":                 {"slices.Delete(self)"},
			"actor.(*consumerController).purgeBuffer":           {"slices.Delete(self)"},
			"actor.(*consumerController).bufferMessage":         {"slices.Insert(self)"},
		}, "the receive buffer grows only through the window-checked insert in bufferMessage")
		bm := c.Func("actor", "consumerController.bufferMessage")
		f := c.NewFlow(bm)
		info := f.Info
		room := f.FactEdges(func(cm cmp) bool {
			if cm.Op != token.LSS || !isFieldSel(info, cm.R, ccWindow) {
				return false
			}
			call, ok := ast.Unparen(cm.L).(*ast.CallExpr)
			if !ok || len(call.Args) != 1 {
				return false
			}
			id, ok := call.Fun.(*ast.Ident)
			return ok && id.Name == "len" && isFieldSel(info, call.Args[0], ccBuffer)
		})
		c.guardedBy(f, room, assignTo(info, ccBuffer), "buffer-cap", "an entry is inserted into the receive buffer only on the edge len(buffer) < window", c.P.Pos(bm.Decl.Pos()))

		// the grant: value sent == value recorded == confirmedSeq + window
		sr := c.Func("actor", "consumerController.sendRequest")
		sinfo := sr.Info()
		c.checkWrites("cc", ccUpTo, map[string][]string{
			"actor.(*consumerController).PreStart":    {"const:0"},
			"actor.(*consumerController).sendRequest": {"expr:.confirmedSeq+.window"},
		}, "the consumer records exactly the demand it grants")
		var sentArg, recorded, defShape string
		ast.Inspect(sr.Decl.Body, func(n ast.Node) bool {
			switch x := n.(type) {
			case *ast.CallExpr:
				if fn := callee(sinfo, x); fn != nil && fn.Name() == "NewRequest" && len(x.Args) == 5 {
					sentArg = types.ExprString(x.Args[3])
					if id, ok := ast.Unparen(x.Args[3]).(*ast.Ident); ok {
						if def := singleLocalDefIn(sinfo, sr.Decl.Body, sinfo.ObjectOf(id)); def != nil {
							defShape = exprShape(sinfo, def)
						}
					} else {
						defShape = exprShape(sinfo, x.Args[3])
					}
					if !isFieldSel(sinfo, x.Args[2], ccConfirmed) {
						c.Bad("grant/confirmed-arg", "a Request carries the consumer's confirmation watermark", c.P.Pos(x.Pos()), "third argument of NewRequest is "+types.ExprString(x.Args[2]))
					} else {
						c.Ok("grant/confirmed-arg", "a Request carries the consumer's confirmation watermark", c.P.Pos(x.Pos()))
					}
				}
			case *ast.AssignStmt:
				if len(x.Lhs) == 1 && len(x.Rhs) == 1 {
					if selField(sinfo, x.Lhs[0]) == ccUpTo {
						recorded = types.ExprString(x.Rhs[0])
					}
				}
			}
			return true
		})
		c.Check(sentArg != "" && sentArg == recorded, "grant/sent=recorded", "requestUpToSeq is set to the very value sent as the Request's upper bound", c.P.Pos(sr.Decl.Pos()), "sent "+sentArg+", recorded "+recorded)
		c.Check(defShape == ".confirmedSeq+.window", "grant/=confirmed+window", "the granted upper bound is confirmedSeq + window", c.P.Pos(sr.Decl.Pos()), "granted value is defined as "+defShape)

		// admission of sequenced messages
		hs := c.Func("actor", "consumerController.handleSequencedMessage")
		hf := c.NewFlow(hs)
		hinfo := hf.Info
		within := hf.FactEdges(func(cm cmp) bool { return cm.Op == token.LEQ && isFieldSel(hinfo, cm.R, ccUpTo) })
		admit := hf.CallTo(c.FuncObj("actor", "consumerController.bufferMessage"), c.FuncObj("actor", "consumerController.deliver"))
		c.guardedBy(hf, within, admit, "admit-within-grant", "a sequenced message is buffered or delivered only on the edge seq ≤ requestUpToSeq", c.P.Pos(hs.Decl.Pos()))
		c.WhoMayCall("admit", c.FuncObj("actor", "consumerController.bufferMessage"), map[string]string{"actor.(*consumerController).handleSequencedMessage": "the range-checked arrival path"})

		// window validated at start
		ps := c.Func("actor", "consumerController.PreStart")
		pf := c.NewFlow(ps)
		pinfo := pf.Info
		okWin := pf.FactEdges(func(cm cmp) bool {
			if cm.Op != token.LEQ || !isFieldSel(pinfo, cm.L, ccWindow) {
				return false
			}
			id, ok := ast.Unparen(cm.R).(*ast.Ident)
			return ok && pinfo.Uses[id] == types.Object(maxWin)
		})
		retNil := func(n ast.Node) bool {
			r, ok := n.(*ast.ReturnStmt)
			return ok && len(r.Results) == 1 && isNilIdent(pinfo, r.Results[0])
		}
		c.guardedBy(pf, okWin, retNil, "window-validated", "the consumer controller starts only with window ≤ MaxReliableFlowControlWindow", c.P.Pos(ps.Decl.Pos()))
		posWin := pf.FactEdges(func(cm cmp) bool {
			v, isC := constInt(pinfo, cm.R)
			return cm.Op == token.GEQ && isFieldSel(pinfo, cm.L, ccWindow) && isC && v == 1
		})
		c.guardedBy(pf, posWin, retNil, "window-positive", "the consumer controller starts only with window ≥ 1", c.P.Pos(ps.Decl.Pos()))
	})
}

func sentArgOr(a, b string) string {
	if a != "" {
		return a
	}
	return b
}

func containsCall(info *types.Info, e ast.Expr, name string) bool {
	found := false
	ast.Inspect(e, func(n ast.Node) bool {
		if x, ok := n.(ast.Expr); ok && isCallNamed(info, x, name) {
			found = true
		}
		return true
	})
	return found
}
