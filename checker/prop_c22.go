package main

import (
	"go/ast"
	"go/token"
	"go/types"
)

func init() {
	register(&propDef{
		id: "C22", title: "Client load balancers always pick a configured node",
		technique: "index-range rule on the type-checked AST (unsigned modulus / rand.IntN(len) / constant 0), returned-value provenance, counter-update shape for cyclic order, lockset on the node slice",
		explanation: "Decides for RoundRobin.Next, Random.Next and LeastLoad.Next: (1) the value returned is always an element x.nodes[i] of the balancer's own node slice; (2) the index is in [0,len) for every value of the internal counter — it is an unsigned value reduced modulo len(x.nodes), rand.IntN(len(x.nodes)), or 0 — so a wrapped counter cannot produce a negative index; (3) round-robin's counter update stores (index+1) mod len, i.e. the successor in cyclic order, independent of any wrap; (4) nodes and the counter are accessed under the balancer's mutex in Set and Next; (5) the client constructor rejects an empty node list before the balancer is used and hands it the validated list.",
		assumptions: []string{"len(nodes) > 0 relies on the constructor's validation (checked) and on callers of the exported Set not passing an empty list", "least-load's stable sort comparator is a strict weak order on weights"},
		minObl:     16,
		run:        runC22,
	})
}

// returnsIndexOf checks every return of fn returns s[idx] with s == field and a provable index.
func checkIndexedReturns(c *Ctx, fn *Fn, field *types.Var) {
	f := c.NewFlow(fn)
	info := f.Info
	rets := f.Returns()
	if len(rets) == 0 {
		c.Undecided(fn.String()+"/returns", "function has returns", c.P.Pos(fn.Decl.Pos()), "none")
	}
	for _, a := range rets {
		r := a.N.(*ast.ReturnStmt)
		if len(r.Results) != 1 {
			c.Bad(fn.String()+"/ret-shape", "single result", c.P.Pos(r.Pos()), "")
			continue
		}
		ix, ok := ast.Unparen(r.Results[0]).(*ast.IndexExpr)
		if !ok || selField(info, ix.X) != field {
			c.Bad(fn.String()+"/returns-configured-node", "the returned node is an element of the configured node slice", c.P.Pos(r.Pos()), "returns "+types.ExprString(r.Results[0])+", not an element of x."+field.Name())
			continue
		}
		c.Ok(fn.String()+"/returns-configured-node", "the returned node is an element of the configured node slice", c.P.Pos(r.Pos()))
		good, why := indexVerdict(info, fn.Decl.Body, ix.Index, ix.X, 0)
		c.Check(good, fn.String()+"/index-in-range", "the index lies in [0,len(nodes)) for every counter value", c.P.Pos(ix.Pos()), why)
	}
}

func runC22(c *Ctx) {
	for _, typ := range []string{"RoundRobin", "Random", "LeastLoad"} {
		c.Rule(typ, func() {
			next := c.Func("client", typ+".Next")
			nodes := c.Field("client", typ, "nodes")
			locker := c.Field("client", typ, "locker")
			checkIndexedReturns(c, next, nodes)
			// lock discipline: Set and Next hold the locker around nodes
			for _, m := range []string{"Next", "Set"} {
				fn := c.Func("client", typ+"."+m)
				f := c.NewFlow(fn)
				la := f.Locks(nil)
				n, bad := 0, ""
				for _, at := range f.Find(func(nd ast.Node) bool { s, ok := nd.(*ast.SelectorExpr); return ok && selField(f.Info, s) == nodes }) {
					n++
					if la.At(at)[locker] != 2 {
						bad = c.P.Pos(at.N.Pos())
					}
				}
				c.Check(n > 0 && bad == "", typ+"."+m+"/nodes-under-lock", "the node slice is read and replaced only with the balancer's mutex held", c.P.Pos(fn.Decl.Pos()), "unlocked access at "+bad)
				c.LockPairing(fn, locker)
			}
		})
	}
	c.Rule("RoundRobin-cyclic", func() {
		fn := c.Func("client", "RoundRobin.Next")
		ctr := c.Field("client", "RoundRobin", "next")
		nodes := c.Field("client", "RoundRobin", "nodes")
		checkCyclicCounter(c, fn, ctr, func(info *types.Info, e ast.Expr) bool { return selField(info, e) == nodes })
	})
	c.Rule("LeastLoad-sort", func() {
		fn := c.Func("client", "LeastLoad.Next")
		f := c.NewFlow(fn)
		srt := f.Find(func(n ast.Node) bool {
			call, ok := n.(*ast.CallExpr)
			if !ok {
				return false
			}
			cal := callee(f.Info, call)
			return cal != nil && cal.Pkg() != nil && cal.Pkg().Path() == "slices" && (cal.Name() == "SortStableFunc" || cal.Name() == "SortFunc")
		})
		w := f.ExitReachable(nil, func(n ast.Node) bool { return len(srt) > 0 && n == srt[0].N }, nil, nil)
		c.Check(len(srt) == 1 && w == nil, "sort≺pick", "least-load sorts the node slice by weight on every path before returning its first element", c.P.Pos(fn.Decl.Pos()), "no sort dominating the return")
	})
	c.Rule("constructor", func() {
		fn := c.Func("client", "New")
		f := c.NewFlow(fn)
		set := f.Find(func(n ast.Node) bool {
			call, ok := n.(*ast.CallExpr)
			if !ok {
				return false
			}
			cal := callee(f.Info, call)
			return cal != nil && cal.Name() == "Set" && cal == c.FuncObj("client", "Balancer.Set")
		})
		if len(set) == 0 {
			c.Fail("client.New does not call Balancer.Set")
		}
		val := c.Func("client", "validateNodes")
		w := f.MustPrecede(f.CallTo(val.Obj), nil, func(n ast.Node) bool { return n == set[0].N })
		c.Check(w == nil, "validate≺Set", "the balancer receives its node list only after validateNodes succeeded (fail-fast chain, error edge returns)", c.P.Pos(fn.Decl.Pos()), f.describe(w))
		// validateNodes asserts len(nodes) != 0
		found := false
		ast.Inspect(val.Decl.Body, func(n ast.Node) bool {
			call, ok := n.(*ast.CallExpr)
			if !ok || len(call.Args) < 1 {
				return true
			}
			if sel, ok := call.Fun.(*ast.SelectorExpr); !ok || sel.Sel.Name != "AddAssertion" {
				return true
			}
			cm, ok := asCmp(call.Args[0], true)
			if !ok {
				return true
			}
			for _, k := range []cmp{cm, cm.flip()} {
				lc, isCall := ast.Unparen(k.L).(*ast.CallExpr)
				if !isCall {
					continue
				}
				if id, ok := lc.Fun.(*ast.Ident); !ok || id.Name != "len" {
					continue
				}
				v, isC := constInt(val.Info(), k.R)
				if isC && ((k.Op == token.NEQ && v == 0) || (k.Op == token.GTR && v == 0) || (k.Op == token.GEQ && v == 1)) {
					found = true
				}
			}
			return true
		})
		c.Check(found, "validate-non-empty", "validateNodes asserts that the node list is non-empty", c.P.Pos(val.Decl.Pos()), "assertion len(nodes) != 0 not found")
	})
}

// checkCyclicCounter: idx := load(ctr) % size ; store(ctr, (idx+1) % size) ; used index == idx.
func checkCyclicCounter(c *Ctx, fn *Fn, ctr *types.Var, isSlice func(info *types.Info, e ast.Expr) bool) {
	info := fn.Info()
	isCtrAddr := func(e ast.Expr) bool {
		ue, ok := ast.Unparen(e).(*ast.UnaryExpr)
		return ok && ue.Op == token.AND && selField(info, ue.X) == ctr
	}
	var storeArg ast.Expr
	var sliceExpr ast.Expr
	var idxObj types.Object
	nStore := 0
	ast.Inspect(fn.Decl.Body, func(n ast.Node) bool {
		switch x := n.(type) {
		case *ast.CallExpr:
			if cal := callee(info, x); cal != nil && cal.Pkg() != nil && cal.Pkg().Path() == "sync/atomic" && len(x.Args) >= 1 && isCtrAddr(x.Args[0]) {
				switch cal.Name() {
				case "StoreUint32", "StoreUint64":
					nStore++
					storeArg = x.Args[1]
				case "AddUint32", "AddUint64":
					nStore += 10 // free-running increment
				}
			}
		case *ast.AssignStmt:
			for i, l := range x.Lhs {
				if selField(info, l) == ctr && i < len(x.Rhs) {
					nStore++
					storeArg = x.Rhs[i]
				}
			}
		case *ast.IndexExpr:
			if isSlice(info, x.X) && objOf(info, x.Index) != nil {
				sliceExpr = x.X
				idxObj = objOf(info, x.Index)
			}
		}
		return true
	})
	key := fn.String()
	if nStore != 1 || storeArg == nil || sliceExpr == nil || idxObj == nil {
		c.Bad(key+"/cyclic", "the round-robin counter is stored as (index+1) mod len (cyclic successor, wrap-free)", c.P.Pos(fn.Decl.Pos()),
			"the counter is not updated by a single store of (index+1) % len (free-running increments break the cyclic order when the counter wraps unless len divides 2^32)")
		return
	}
	be, ok := ast.Unparen(stripConv(info, storeArg)).(*ast.BinaryExpr)
	good := ok && be.Op == token.REM && isLenOf(info, be.Y, sliceExpr, fn.Decl.Body)
	if good {
		sum, ok := ast.Unparen(be.X).(*ast.BinaryExpr)
		good = ok && sum.Op == token.ADD && objOf(info, sum.X) == idxObj
		if good {
			v, isC := constInt(info, sum.Y)
			good = isC && v == 1
		}
	}
	c.Check(good, key+"/cyclic", "the round-robin counter is stored as (index+1) mod len (cyclic successor, wrap-free)", c.P.Pos(storeArg.Pos()), "stored value is "+types.ExprString(storeArg))
	// idx is defined from the counter
	def := singleDef(info, fn.Decl.Body, idxObj)
	fromCtr := false
	if def != nil {
		ast.Inspect(def, func(n ast.Node) bool {
			if e, ok := n.(ast.Expr); ok && (selField(info, e) == ctr) {
				fromCtr = true
			}
			return true
		})
	}
	c.Check(fromCtr, key+"/index-from-counter", "the index used is derived from the stored counter", c.P.Pos(fn.Decl.Pos()), "index does not read the counter")
}
