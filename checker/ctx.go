package main

import (
	"bufio"
	"encoding/json"
	"fmt"
	"os"
	"path/filepath"
	"runtime/debug"
	"sort"
	"strings"
	"time"
)

// ---- registry ----

type propDef struct {
	id          string
	title       string
	explanation string   // what clause is decided, in words (goes to evidence)
	assumptions []string // what is not decided / trusted
	run         func(c *Ctx)
	minObl      int // hand-confirmed floor on the number of obligations (vacuity guard)
	technique   string
}

var registry = map[string]*propDef{}

func register(p *propDef) { registry[p.id] = p }

func registeredIDs() []string {
	var ids []string
	for id := range registry {
		ids = append(ids, id)
	}
	sort.Strings(ids)
	return ids
}

// ---- obligations ----

const (
	stDischarged = "discharged"
	stViolated   = "violated"
	stUnresolved = "unresolved"
	stKnown      = "known-finding"
)

type Obligation struct {
	Key    string `json:"key"`    // stable: rule/construct (no line numbers)
	Rule   string `json:"rule"`   // the rule template applied, in words
	Status string `json:"status"` // discharged | violated | unresolved | known-finding
	Where  string `json:"where"`  // file:line of the construct (informational)
	Detail string `json:"detail,omitempty"`
}

type Ctx struct {
	P     *Prog
	ID    string
	Tier  string
	def   *propDef
	known *Known
	obs   []*Obligation
	seen  map[string]bool
	group string

	analysed map[string]bool // functions looked at
	sites    int             // AST/CFG sites examined
}

func newCtx(p *Prog, id, tier string, k *Known) *Ctx {
	return &Ctx{P: p, ID: id, Tier: tier, def: registry[id], known: k, seen: map[string]bool{}, analysed: map[string]bool{}}
}

func (c *Ctx) Thorough() bool { return c.Tier == "thorough" }

type unresolvedErr struct{ msg string }

// Fail aborts the current rule group with an unresolved obligation.
func (c *Ctx) Fail(format string, a ...any) {
	panic(unresolvedErr{fmt.Sprintf(format, a...)})
}

// Rule runs one rule group; a missing anchor or a checker panic inside it
// becomes an unresolved obligation (never a silent pass).
func (c *Ctx) Rule(name string, f func()) {
	old := c.group
	c.group = name
	defer func() {
		c.group = old
		if r := recover(); r != nil {
			if u, ok := r.(unresolvedErr); ok {
				c.add(name+"/anchors", "every anchor of the rule resolves to a construct of the current tree", stUnresolved, "-", u.msg)
				return
			}
			st := string(debug.Stack())
			if len(st) > 1500 {
				st = st[:1500]
			}
			c.add(name+"/checker-panic", "the checker completes", stUnresolved, "-", fmt.Sprintf("panic: %v\n%s", r, st))
		}
	}()
	f()
}

func (c *Ctx) add(key, rule, status, where, detail string) {
	k := key
	for i := 2; c.seen[k]; i++ { // keys must be unique; duplicates get an ordinal of the construct
		k = fmt.Sprintf("%s#%d", key, i)
	}
	c.seen[k] = true
	if status == stViolated && c.known.match(c.ID, k) {
		status = stKnown
	}
	c.obs = append(c.obs, &Obligation{Key: k, Rule: rule, Status: status, Where: where, Detail: detail})
}

// Ok records a discharged obligation.
func (c *Ctx) Ok(key, rule, where string, detail ...string) {
	c.add(c.group+"/"+key, rule, stDischarged, where, strings.Join(detail, "; "))
}

// Bad records a violated obligation.
func (c *Ctx) Bad(key, rule, where, detail string) {
	c.add(c.group+"/"+key, rule, stViolated, where, detail)
}

// Undecided records an obligation the checker could not decide.
func (c *Ctx) Undecided(key, rule, where, detail string) {
	c.add(c.group+"/"+key, rule, stUnresolved, where, detail)
}

// Check records discharged or violated.
func (c *Ctx) Check(ok bool, key, rule, where, detailIfBad string) bool {
	if ok {
		c.Ok(key, rule, where)
	} else {
		c.Bad(key, rule, where, detailIfBad)
	}
	return ok
}

func runProp(c *Ctx, d *propDef) {
	c.Rule("main", func() { d.run(c) })
}

// ---- known findings ----

type Known struct {
	entries map[string]string // "Cxx key" -> description
	fixed   []string
}

func loadKnown(path string) (*Known, error) {
	k := &Known{entries: map[string]string{}}
	f, err := os.Open(path)
	if err != nil {
		if os.IsNotExist(err) {
			return k, nil
		}
		return nil, err
	}
	defer f.Close()
	sc := bufio.NewScanner(f)
	for sc.Scan() {
		line := strings.TrimSpace(sc.Text())
		if line == "" || strings.HasPrefix(line, "#") {
			continue
		}
		if strings.HasPrefix(line, "fixed:") {
			k.fixed = append(k.fixed, line)
			continue
		}
		if strings.HasPrefix(line, "finding:") {
			// finding: property=C08 key=<obligation key> :: <what fails>
			rest := strings.TrimSpace(strings.TrimPrefix(line, "finding:"))
			var prop, key, desc string
			if i := strings.Index(rest, "::"); i >= 0 {
				desc = strings.TrimSpace(rest[i+2:])
				rest = rest[:i]
			}
			for _, f := range strings.Fields(rest) {
				if strings.HasPrefix(f, "property=") {
					prop = strings.TrimPrefix(f, "property=")
				} else if strings.HasPrefix(f, "key=") {
					key = strings.TrimPrefix(f, "key=")
				}
			}
			if prop == "" || key == "" {
				return nil, fmt.Errorf("malformed known finding: %s", line)
			}
			k.entries[prop+" "+key] = desc
			continue
		}
		return nil, fmt.Errorf("unrecognised line in known findings: %s", line)
	}
	return k, sc.Err()
}

func (k *Known) match(prop, key string) bool {
	if k == nil {
		return false
	}
	_, ok := k.entries[prop+" "+key]
	return ok
}

// ---- evidence ----

type evidence struct {
	PropertyID  string         `json:"property_id"`
	Tier        string         `json:"tier"`
	Seed        int            `json:"seed"`
	Level       string         `json:"level"`
	Coverage    map[string]any `json:"coverage"`
	Assumptions []string       `json:"assumptions"`
	WallS       float64        `json:"wall_s"`
	Violations  int            `json:"violations"`
}

func (c *Ctx) finish(evdir string, dur time.Duration, verbose bool) bool {
	// vacuity guard
	if c.def.minObl > 0 && len(c.obs) < c.def.minObl {
		c.add("vacuity/instance-floor", fmt.Sprintf("at least %d obligations (hand-confirmed instance floor) are generated", c.def.minObl), stUnresolved, "-",
			fmt.Sprintf("only %d obligations were generated; a rule lost its instances", len(c.obs)))
	}
	var nD, nV, nU, nK int
	byRule := map[string]int{}
	for _, o := range c.obs {
		switch o.Status {
		case stDischarged:
			nD++
		case stViolated:
			nV++
		case stUnresolved:
			nU++
		case stKnown:
			nK++
		}
		byRule[strings.SplitN(o.Key, "/", 2)[0]]++
	}
	sort.SliceStable(c.obs, func(i, j int) bool { return c.obs[i].Key < c.obs[j].Key })
	evpath := filepath.Join(evdir, c.ID+".json")
	ok := nV == 0 && nU == 0
	for _, o := range c.obs {
		switch o.Status {
		case stKnown:
			fmt.Printf("KNOWN-FINDING: property=%s %s at %s: %s [%s]\n", c.ID, o.Key, o.Where, oneLine(o.Detail), c.known.entries[c.ID+" "+o.Key])
		case stViolated:
			fmt.Printf("%s: violated %s\n    rule: %s\n    at %s\n    %s\n", c.ID, o.Key, o.Rule, o.Where, o.Detail)
		case stUnresolved:
			fmt.Printf("%s: UNDECIDED %s\n    rule: %s\n    at %s\n    %s\n", c.ID, o.Key, o.Rule, o.Where, o.Detail)
		default:
			if verbose {
				fmt.Printf("%s: ok %s  (%s) %s\n", c.ID, o.Key, o.Where, oneLine(o.Detail))
			}
		}
	}
	var samples []any
	var problems []any
	for _, o := range c.obs {
		if o.Status != stDischarged {
			problems = append(problems, o)
		}
	}
	step := 1
	if nD > 12 {
		step = nD / 12
	}
	i := 0
	for _, o := range c.obs {
		if o.Status == stDischarged {
			if i%step == 0 && len(samples) < 14 {
				samples = append(samples, o)
			}
			i++
		}
	}
	if len(samples) == 0 {
		for _, o := range c.obs {
			samples = append(samples, o)
			if len(samples) > 5 {
				break
			}
		}
	}
	var fns []string
	for f := range c.analysed {
		fns = append(fns, f)
	}
	sort.Strings(fns)
	cov := map[string]any{
		"explanation":        c.def.explanation,
		"obligations":        len(c.obs),
		"discharged":         nD,
		"violated":           nV,
		"undecided":          nU,
		"known_findings":     nK,
		"obligations_by_rule": byRule,
		"checker_cmd":        fmt.Sprintf("/verif/check %s %s", c.ID, c.Tier),
		"trusted_base":       []string{"go/types (go1.26.8)", "golang.org/x/tools v0.29.0 go/packages, go/cfg, go/ssa, callgraph/vta", "the rule tables in /verif/checker/prop_" + strings.ToLower(c.ID) + ".go"},
		"packages_loaded":    len(c.P.Pkgs),
		"files_parsed":       c.P.NumFiles,
		"func_decls_in_scope": c.P.NumFuncDecls,
		"functions_analysed": fns,
		"sites_examined":     c.sites,
		"samples":            samples,
		"exhaustive":         false,
	}
	if len(problems) > 0 {
		cov["not_discharged"] = problems
	}
	ev := evidence{PropertyID: c.ID, Tier: c.Tier, Seed: 0, Level: "other", Coverage: cov, Assumptions: c.def.assumptions, WallS: dur.Seconds(), Violations: nV + nU}
	if ev.Assumptions == nil {
		ev.Assumptions = []string{}
	}
	os.MkdirAll(evdir, 0o755)
	b, _ := json.MarshalIndent(ev, "", " ")
	if err := os.WriteFile(evpath, append(b, '\n'), 0o644); err != nil {
		fmt.Fprintf(os.Stderr, "cannot write evidence: %v\n", err)
		ok = false
	}
	status := "HELD"
	if !ok {
		status = "FAILED"
		fmt.Printf("VIOLATION property=%s replay=%s\n", c.ID, evpath)
	}
	fmt.Printf("%s %s: %d obligations, %d discharged, %d violated, %d undecided, %d known findings (%s, %.1fs)\n", c.ID, status, len(c.obs), nD, nV, nU, nK, c.Tier, dur.Seconds())
	return ok
}

func oneLine(s string) string {
	s = strings.ReplaceAll(s, "\n", " | ")
	if len(s) > 300 {
		s = s[:300] + "…"
	}
	return s
}

func writeLoadFailureEvidence(evdir, id, tier string, err error, dur time.Duration) {
	ev := evidence{PropertyID: id, Tier: tier, Level: "other", Coverage: map[string]any{
		"explanation": "the tree did not load or type-check; nothing could be decided: " + err.Error(), "obligations": 1, "discharged": 0,
	}, Assumptions: []string{}, WallS: dur.Seconds(), Violations: 1}
	os.MkdirAll(evdir, 0o755)
	b, _ := json.MarshalIndent(ev, "", " ")
	os.WriteFile(filepath.Join(evdir, id+".json"), append(b, '\n'), 0o644)
}
