package main

import (
	"go/ast"
	"go/types"
)

func init() {
	register(&propDef{
		id: "C02", title: "Accepted messages to a live actor are processed exactly once",
		technique: "go/cfg path rules: publish-then-wake (Enqueue ⇒◇ TrySchedule ⇒ schedule), release–recheck–reclaim at every ownership-flag release, turn-exit classification, single-consumer who-may-call",
		explanation: "Decides the lost-wake-up and single-consumer protocol shape: (1) every producer onto an actor's own mailbox performs Enqueue, then on every non-error path TrySchedule, and a won TrySchedule always reaches dispatcher.schedule; every Enqueue site on those mailboxes is such a producer; (2) every release of an ownership flag (schedState.reset in finishOrReclaim; senderBox.active.Store(false) in the fair mailbox) is followed on every path by a re-read of the work indicator and a conditional re-acquire, and the emptiness test never precedes the release; fair-mailbox producers always test the active flag after publishing; (3) every exit of runTurn after the take is finishOrReclaim()==true or YieldToScheduled followed by reschedule; (4) in doReceive a failed Enqueue reaches handleReceivedError and not the scheduler, a successful one never reaches handleReceivedError; (5) the actor mailboxes are dequeued only by the turn loops (stash box only by unstash/unstashAll). Exactly-once across restarts and scheduler liveness are not decided. Added after seed C02b: a counter that any party updates with an atomic read-modify-write (the length the emptiness re-check reads) is never overwritten by a Store of a value computed from an earlier Load of the same field of the same object (the pair is not atomic: a producer's increment in between is lost and IsEmpty reports an accepted message away).",
		assumptions: []string{"exactly-once delivery while a restart is in flight", "liveness of the worker pool (a scheduled actor is eventually run)", "internal correctness of each mailbox under interleavings (see C04)"},
		minObl:     45,
		run:        runC02,
	})
}

// methodNamed matches a call x.<name>(...) whose receiver selects field fld.
func fieldCall(info *types.Info, fld *types.Var, name string) Match { return callOnFieldMatch(info, fld, name) }

func runC02(c *Ctx) {
	var t *turnAnchors
	c.Rule("anchors", func() { t = c.turn(); c.Ok("turn", "turn anchors resolve", c.P.Pos(t.pidRunTurn.Decl.Pos())) })
	if t == nil {
		return
	}
	pidMailbox := c.Field("actor", "PID", "mailbox")
	pidSys := c.Field("actor", "PID", "systemMailbox")
	grMailbox := c.Field("actor", "grainPID", "mailbox")
	grResp := c.Field("actor", "grainPID", "responses")
	pidDisp := c.Field("actor", "PID", "dispatcher")
	grDisp := c.Field("actor", "grainPID", "dispatcher")
	schedule := c.FuncObj("actor", "dispatcher.schedule")
	own := map[*types.Var]*types.Var{pidMailbox: t.schedPID, pidSys: t.schedPID, grMailbox: t.schedGrain, grResp: t.schedGrain}
	_ = pidDisp
	_ = grDisp

	// (1) producers: discovery over every Enqueue on an actor's own mailbox field
	c.Rule("producer", func() {
		producers := map[*types.Func]bool{}
		mbEnq := c.FuncObj("actor", "Mailbox.Enqueue")
		gEnq := c.FuncObj("actor", "grainMailbox.Enqueue")
		// every function that wakes an actor (TrySchedule) outside the reclaim handshake is a producer
		for _, u := range c.UsesOf(t.trySched) {
			if u.EnclObj == nil || u.EnclObj == t.pidFinish.Obj || u.EnclObj == t.grainFinish.Obj {
				continue
			}
			producers[u.EnclObj] = true
		}
		// every Enqueue on an actor's own mailbox field must sit in a producer
		for fld := range own {
			for _, u := range c.UsesOf(fld) {
				var outer *ast.SelectorExpr
				for i := len(u.Path) - 1; i >= 0; i-- {
					if s, ok := u.Path[i].(*ast.SelectorExpr); ok && u.Sel != nil && s.X == ast.Expr(u.Sel) {
						outer = s
						break
					}
				}
				if outer == nil || outer.Sel.Name != "Enqueue" || u.EnclObj == nil {
					continue
				}
				c.Check(producers[u.EnclObj], "enqueue-site@"+u.EnclName()+"/"+fld.Name(), "every Enqueue on an actor's own mailbox is in a function that also wakes the actor", u.Where(c.P), "Enqueue without TrySchedule in the same function")
			}
		}
		if len(producers) < 5 {
			c.Undecided("count", "at least 5 producer functions wake an actor (doReceive, grainPID.receive, enqueueEnvelope, deliverTimerTick, enqueuePassivationPill)", "-", "found fewer: pattern lost")
		}
		for obj := range producers {
			fn := c.fnOfObj(obj)
			if fn == nil {
				c.Undecided("fn="+funcName(obj), "producer analysable", "-", "no body")
				continue
			}
			f := c.NewFlow(fn)
			sched := t.schedPID
			if len(f.Find(f.CallOnField(t.schedGrain, "TrySchedule"))) > 0 {
				sched = t.schedGrain
			}
			enq := f.CallTo(mbEnq, gEnq)
			key := fn.String()
			enqAtoms := f.Find(enq)
			if len(enqAtoms) == 0 {
				c.Undecided(key+"/enqueue", "producer contains its Enqueue", c.P.Pos(fn.Decl.Pos()), "no Enqueue atom located")
				continue
			}
			try := f.CallOnField(sched, "TrySchedule")
			failEdges, _ := f.ErrEdgesOf(enq, true)
			w := f.MustFollow(enqAtoms, try, failEdges)
			c.Check(w == nil, key+"/enqueue⇒◇TrySchedule", "after Enqueue every non-error path to an exit passes schedState.TrySchedule() (publish, then wake)", c.P.Pos(fn.Decl.Pos()), f.describe(w))
			// Enqueue precedes TrySchedule (never wake before publish)
			w = f.MustPrecede(enq, nil, try)
			c.Check(w == nil, key+"/enqueue≺TrySchedule", "TrySchedule is reached only after an Enqueue", c.P.Pos(fn.Decl.Pos()), f.describe(w))
			won := f.CondEdges(exprMatch(try), true)
			if len(won) == 0 {
				c.Bad(key+"/won⇒schedule", "a won TrySchedule reaches dispatcher.schedule", c.P.Pos(fn.Decl.Pos()), "TrySchedule is not used as a branch condition")
				continue
			}
			w = f.AfterEdgesMustPass(won, f.CallTo(schedule), nil)
			c.Check(w == nil, key+"/won⇒schedule", "when TrySchedule wins the Idle→Scheduled transition the actor is pushed on the ready queue on every path", c.P.Pos(fn.Decl.Pos()), f.describe(w))
			// schedule only on the won edge (no duplicate pushes)
			w = f.search(searchSpec{avoidEdges: won, target: f.CallTo(schedule)})
			c.Check(w == nil, key+"/schedule-only-if-won", "dispatcher.schedule is called only by the winner of TrySchedule (no duplicate ready-queue entries)", c.P.Pos(fn.Decl.Pos()), f.describe(w))
		}
		// schedule() callers
		c.WhoMayCall("who", schedule, map[string]string{
			"actor.(*PID).doReceive": "producer", "actor.(*grainPID).receive": "producer", "actor.(*grainPID).enqueueEnvelope": "producer",
			"actor.(*grainPID).deliverTimerTick": "producer", "actor.(*grainPID).enqueuePassivationPill": "producer",
		})
	})

	// (1b) the re-check after release reads the mailbox's own emptiness: a length counter that producers bump with
	// an atomic add must not be overwritten by a load-then-store of the consumer (a lost increment makes IsEmpty
	// report an accepted message away, and nothing wakes the actor for it)
	c.Rule("emptiness-counter", func() {
		if n := c.NoLostUpdate("rmw", "actor"); n < 1 {
			c.Undecided("count", "at least one Store on a field that is also updated by read-modify-write", "-", "found none")
		}
	})

	// (2) release–recheck–reclaim
	c.Rule("reclaim", func() {
		for _, pr := range []struct {
			fn    *Fn
			sched *types.Var
			work  Match
			emptyEdge func(f *Flow) map[Edge]bool
		}{
			{t.pidFinish, t.schedPID, nil, nil}, {t.grainFinish, t.schedGrain, nil, nil},
		} {
			f := c.NewFlow(pr.fn)
			reset := f.CallOnField(pr.sched, "reset")
			try := f.CallOnField(pr.sched, "TrySchedule")
			var work Match
			if pr.fn == t.pidFinish {
				work = Or(f.CallOnField(pidMailbox, "IsEmpty"), f.CallOnField(pidSys, "IsEmpty"))
			} else {
				work = f.CallTo(c.FuncObj("actor", "grainPID.hasPendingWork"))
			}
			key := pr.fn.String()
			ra := f.Find(reset)
			if len(ra) != 1 {
				c.Bad(key+"/one-release", "finishOrReclaim releases ownership exactly once", c.P.Pos(pr.fn.Decl.Pos()), "expected exactly one schedState.reset()")
				continue
			}
			w := f.MustPrecede(reset, nil, work)
			c.Check(w == nil, key+"/release≺recheck", "the work indicator is read only after ownership was released (check-then-release would lose a wake-up)", c.P.Pos(pr.fn.Decl.Pos()), f.describe(w))
			w = f.MustFollow(ra, work, nil)
			c.Check(w == nil, key+"/release⇒◇recheck", "after releasing ownership every path re-reads the work indicator", c.P.Pos(pr.fn.Decl.Pos()), f.describe(w))
			// no-work edges: IsEmpty()==true (all) / hasPendingWork()==false
			var idle map[Edge]bool
			if pr.fn == t.pidFinish {
				// both mailboxes empty: the edge on which both IsEmpty facts are true
				idle = map[Edge]bool{}
				for _, b := range f.G.Blocks {
					if !b.Live || f.Cond(b) == nil {
						continue
					}
					for s := 0; s < 2; s++ {
						nm, ns := false, false
						for _, fact := range f.EdgeFacts(b, s) {
							if fact.Val && f.CallOnField(pidMailbox, "IsEmpty")(fact.E) {
								nm = true
							}
							if fact.Val && f.CallOnField(pidSys, "IsEmpty")(fact.E) {
								ns = true
							}
						}
						if nm && ns {
							idle[Edge{b, s}] = true
						}
					}
				}
			} else {
				idle = f.CondEdges(exprMatch(work), false)
			}
			if len(idle) == 0 {
				c.Bad(key+"/idle-edge", "the no-work decision tests every input queue", c.P.Pos(pr.fn.Decl.Pos()), "no edge on which all work indicators report empty")
				continue
			}
			// after release, every path to exit either goes over an idle edge or attempts TrySchedule
			w = f.MustFollow(ra, try, idle)
			c.Check(w == nil, key+"/work⇒reacquire", "if work is pending after the release, the turn tries to re-acquire (TrySchedule) before returning", c.P.Pos(pr.fn.Decl.Pos()), f.describe(w))
			// won TrySchedule ⇒ TakeForProcessing
			won := f.CondEdges(exprMatch(try), true)
			take := f.CallOnField(pr.sched, "TakeForProcessing")
			w = f.AfterEdgesMustPass(won, take, nil)
			c.Check(w == nil && len(won) > 0, key+"/won⇒take", "a re-acquired Scheduled state is taken back to Processing by the same turn (or lost to another worker), never left Scheduled without a queue entry", c.P.Pos(pr.fn.Decl.Pos()), f.describe(w))
		}
		// no other release of turn ownership exists: a reset elsewhere has no recheck
		c.WhoMayCall("release-sites", t.reset, map[string]string{
			"actor.(*PID).finishOrReclaim": "release with recheck (above)", "actor.(*grainPID).finishOrReclaim": "release with recheck (above)",
			"actor.restartSubtree": "restart of a quiescent, not yet re-initialised actor (C01 reset-quiescence)",
		})
		// fair mailbox: every active.Store(false) is followed by a recheck + CAS
		active := c.Field("actor", "senderBox", "active")
		pending := c.Field("actor", "senderBox", "pending")
		sbMailbox := c.Field("actor", "senderBox", "mailbox")
		n := 0
		seenFn := map[*types.Func]bool{}
		for _, u := range c.UsesOf(active) {
			if u.EnclObj == nil || seenFn[u.EnclObj] {
				continue
			}
			seenFn[u.EnclObj] = true
			fn := c.fnOfObj(u.EnclObj)
			if fn == nil {
				continue
			}
			f := c.NewFlow(fn)
			rel := func(nd ast.Node) bool {
				call, ok := nd.(*ast.CallExpr)
				if !ok || !f.CallOnField(active, "Store")(call) || len(call.Args) != 1 {
					return false
				}
				id, ok := call.Args[0].(*ast.Ident)
				return ok && id.Name == "false"
			}
			rels := f.Find(rel)
			if len(rels) == 0 {
				continue
			}
			n++
			recheck := func(nd ast.Node) bool {
				if f.CallOnField(sbMailbox, "IsEmpty")(nd) {
					return true
				}
				// atomic.LoadInt64(&sq.pending)
				call, ok := nd.(*ast.CallExpr)
				if !ok || len(call.Args) != 1 {
					return false
				}
				if cal := callee(f.Info, call); cal == nil || cal.Pkg() == nil || cal.Pkg().Path() != "sync/atomic" || cal.Name() != "LoadInt64" {
					return false
				}
				if ue, ok := call.Args[0].(*ast.UnaryExpr); ok {
					return selField(f.Info, ue.X) == pending
				}
				return false
			}
			w := f.MustFollow(rels, recheck, nil)
			c.Check(w == nil, fn.String()+"/deactivate⇒◇recheck", "every senderBox.active.Store(false) is followed on every path by a re-read of the sender's work indicator (pending / sub-queue emptiness)", c.P.Pos(fn.Decl.Pos()), f.describe(w))
			cas := f.CallOnField(active, "CompareAndSwap")
			w2 := f.MayReach(rels, nil, cas)
			c.Check(w2 != nil, fn.String()+"/deactivate…reactivate", "a conditional re-activation (CAS false→true) is reachable after every deactivation", c.P.Pos(fn.Decl.Pos()), "no CompareAndSwap after Store(false)")
		}
		if n < 2 {
			c.Undecided("fair/deactivation-sites", "the fair mailbox has at least 2 deactivation sites (Dequeue nil path, finalizeSender)", "-", "found fewer")
		}
		// fair producer: after publishing, the active flag is always tested
		enq := c.Func("actor", "UnboundedFairMailbox.Enqueue")
		f := c.NewFlow(enq)
		inner := f.Find(f.CallOnField(sbMailbox, "Enqueue"))
		if len(inner) == 0 {
			c.Undecided("fair/producer", "fair Enqueue publishes to the per-sender queue", c.P.Pos(enq.Decl.Pos()), "inner Enqueue not found")
		} else {
			w := f.MustFollow(inner, Or(f.CallOnField(active, "CompareAndSwap"), f.CallOnField(active, "Load")), nil)
			c.Check(w == nil, "fair/producer-tests-active", "after publishing to the per-sender queue every producer tests the sender's active flag (activation must not depend on the pending counter alone: producers of one sender complete out of order)", c.P.Pos(enq.Decl.Pos()), f.describe(w))
		}
	})

	// (3) turn exits
	for _, pr := range []struct {
		fn, fin *Fn
		sched   *types.Var
	}{{t.pidRunTurn, t.pidFinish, t.schedPID}, {t.grainRunTurn, t.grainFinish, t.schedGrain}} {
		c.Rule("turn-exit", func() {
			f := c.NewFlow(pr.fn)
			take := f.CallOnField(pr.sched, "TakeForProcessing")
			won := f.CondEdges(exprMatch(take), true)
			fin := f.CallTo(pr.fin.Obj)
			finTrue := f.CondEdges(exprMatch(fin), true)
			yield := f.CallOnField(pr.sched, "YieldToScheduled")
			resched := f.CallTo(c.FuncObj("actor", "worker.reschedule"))
			key := pr.fn.String()
			if len(won) == 0 || len(finTrue) == 0 {
				c.Undecided(key, "turn loop shape recognised", c.P.Pos(pr.fn.Decl.Pos()), "take/finishOrReclaim conditions not found")
				return
			}
			// after winning the take: every exit passes finishOrReclaim()==true edge or a Yield
			w := f.AfterEdgesMustPass(won, yield, finTrue)
			c.Check(w == nil, key+"/exit-kinds", "after the take every exit of the turn is finishOrReclaim()==true or YieldToScheduled (never left in Processing)", c.P.Pos(pr.fn.Decl.Pos()), f.describe(w))
			ya := f.Find(yield)
			w = f.MustFollow(ya, resched, nil)
			c.Check(w == nil && len(ya) > 0, key+"/yield⇒reschedule", "YieldToScheduled is always followed by worker.reschedule (Scheduled ⇒ on a queue)", c.P.Pos(pr.fn.Decl.Pos()), f.describe(w))
			w = f.MustPrecede(yield, nil, resched)
			c.Check(w == nil, key+"/yield≺reschedule", "reschedule happens only after the state was set back to Scheduled", c.P.Pos(pr.fn.Decl.Pos()), f.describe(w))
			// a nil dequeue never dispatches: dispatchOne only on non-nil
		})
	}

	// (4) doReceive accept/reject discipline
	c.Rule("accept", func() {
		fn := c.Func("actor", "PID.doReceive")
		f := c.NewFlow(fn)
		enqUser := f.CallOnField(pidMailbox, "Enqueue")
		hre := f.CallTo(c.FuncObj("actor", "PID.handleReceivedError"))
		fail, n := f.ErrEdgesOf(enqUser, true)
		ok2, _ := f.ErrEdgesOf(enqUser, false)
		if n == 0 || len(fail) == 0 {
			c.Undecided("doReceive/err-edge", "the user-mailbox Enqueue error is tested", c.P.Pos(fn.Decl.Pos()), "no error test found")
			return
		}
		w := f.AfterEdgesMustPass(fail, hre, nil)
		c.Check(w == nil, "doReceive/enqueue-error⇒deadletter", "a rejected Enqueue always reaches handleReceivedError (no silent drop)", c.P.Pos(fn.Decl.Pos()), f.describe(w))
		w = f.AfterEdgesMayReach(fail, nil, nil, f.CallOnField(t.schedPID, "TrySchedule"))
		c.Check(w == nil, "doReceive/enqueue-error⇏schedule", "a rejected Enqueue does not schedule the actor", c.P.Pos(fn.Decl.Pos()), f.describe(w))
		w = f.AfterEdgesMayReach(ok2, nil, nil, hre)
		c.Check(w == nil, "doReceive/accepted⇏deadletter", "an accepted message is never also dead-lettered", c.P.Pos(fn.Decl.Pos()), f.describe(w))
		// at most one enqueue per call: no path from one Enqueue to another
		anyEnq := Or(enqUser, f.CallOnField(pidSys, "Enqueue"))
		w = f.MayReach(f.Find(anyEnq), nil, anyEnq)
		c.Check(w == nil, "doReceive/one-enqueue", "a message is enqueued at most once per doReceive", c.P.Pos(fn.Decl.Pos()), f.describe(w))
	})

	// (5) single consumer
	c.Rule("consumer", func() {
		mbDeq := c.FuncObj("actor", "Mailbox.Dequeue")
		gDeq := c.FuncObj("actor", "grainMailbox.Dequeue")
		allow := map[string]string{
			"actor.(*PID).runTurn": "turn loop", "actor.(*grainPID).runTurn": "turn loop", "actor.(*grainPID).dequeueResponse": "called from the grain turn loop only",
			"actor.(*PID).unstash": "stash box (own queue, on the turn)", "actor.(*PID).unstashAll": "stash box (own queue, on the turn)",
			"actor.(*UnboundedFairMailbox).Dequeue": "fair mailbox delegates to its per-sender sub-queue inside its own Dequeue",
		}
		for _, m := range []*types.Func{mbDeq, gDeq} {
			for _, u := range c.UsesOf(m) {
				if relPkg(u.Pkg.PkgPath) != "actor" {
					c.Ok("outside="+u.EnclName(), "Dequeue outside the runtime package operates on a mailbox it owns (test kit)", u.Where(c.P))
					continue
				}
				top := funcName(u.EnclObj)
				_, ok := allow[top]
				c.Check(ok, "dequeue<-"+u.EnclName(), "mailboxes are dequeued only by their single consumer", u.Where(c.P), top+" dequeues a mailbox but is not a registered consumer")
			}
		}
		c.WhoMayCall("who", c.FuncObj("actor", "grainPID.dequeueResponse"), map[string]string{"actor.(*grainPID).runTurn": "turn loop"})
		// the stash helpers dequeue only the stash box
		for _, name := range []string{"PID.unstash", "PID.unstashAll"} {
			fn := c.Func("actor", name)
			f := c.NewFlow(fn)
			bad := 0
			for _, a := range f.Find(f.CallTo(mbDeq)) {
				call := a.N.(*ast.CallExpr)
				r := recvExpr(call)
				if fv := selField(f.Info, r); fv == nil || fv.Name() != "box" {
					bad++
				}
			}
			c.Check(bad == 0, "stash-only/"+fn.String(), "unstash helpers dequeue only the stash box", c.P.Pos(fn.Decl.Pos()), "dequeues something other than stashState.box")
		}
	})
}
