package main

import (
	"fmt"
	"go/ast"
	"go/token"
	"go/types"
)

func init() {
	register(&propDef{
		id: "C45", title: "Linear stream pipelines compute exactly their list semantics",
		technique: "per-message-case CFG conservation rules on the generic stage actors (flow, fused flow, sink, pull source) and dataflow-shape rules on the operator closures (Map, Filter, FlatMap, Flatten, Scan, Deduplicate)",
		explanation: "Decides the conservation skeleton of linear stages: FLOW stage (1) in the element case every path either buffers every output of the transform, in order, or ends the stream by telling downstream a streamError carrying the transform's own error, or takes the documented Resume drop; (2) buffered outputs are emitted only as values popped from the FIFO buffer, under downstream demand, one demand unit each; (3) completion is passed downstream only on the edge 'buffer empty', and only after upstream completed; FUSED stage: a passing element is forwarded with the fused function's result, an error ends the stream with that error; SINK: the consumer function receives the received value, the terminal error is preserved, and the user-visible completion callback runs only inside a sync.Once; PULL SOURCE: pulled elements are forwarded in slice order and completion is sent only when the pull function reports exhaustion; OPERATORS: Map emits exactly fn(elem); Filter emits the element itself exactly on the predicate's true edge; FlatMap/Flatten copy position i to position i of a result of the same length; Scan threads the accumulator (acc = fn(acc, elem)) and emits it; Deduplicate suppresses only on 'has previous and equal to previous' and records every emitted element as previous. The list semantics of whole compositions, Batch/Buffer/ParallelMap/OrderedParallelMap (timers, worker pools, resequencing heap), and exactly-once of intermediate completion messages are NOT decided. Added after seed C45a: every closure that is stored for later execution inside a loop of the stream package (fusion's composed functions, the fused stage's actorFn, the junction slot factories) captures only variables with one instance per iteration that are not assigned after the closure's creation, so each stage runs its own function and not the last iteration's.",
		assumptions: []string{"per-sender FIFO delivery between stage actors (C04)", "actor turn atomicity", "user functions are deterministic"},
		minObl:     30,
		run:        runC45,
	})
}

func runC45(c *Ctx) {
	isTellOf := func(info *types.Info, typ string) Match {
		return func(n ast.Node) bool { _, ok := asElemTell(info, n, typ); return ok }
	}
	fieldOf := func(typ, f string) *types.Var { return c.Field("stream", typ, f) }
	errFieldOf := func(info *types.Info, n ast.Node) ast.Expr {
		call := n.(*ast.CallExpr)
		lit := call.Args[1].(*ast.UnaryExpr).X.(*ast.CompositeLit)
		for _, el := range lit.Elts {
			if kv, ok := el.(*ast.KeyValueExpr); ok && kv.Key.(*ast.Ident).Name == "err" {
				return kv.Value
			}
		}
		return nil
	}

	c.Rule("flow", func() {
		fn := c.Func("stream", "flowActor.Receive")
		f, clause := c.caseFlow(fn, "streamElement")
		if f == nil {
			c.Undecided("case", "element case found", c.P.Pos(fn.Decl.Pos()), "")
			return
		}
		info := f.Info
		where := c.P.Pos(clause.Pos())
		outBuf := fieldOf("flowActor", "outputBuf")
		// outs variable: first result of a.transformFn(msg.value)
		var outsObj, errObj types.Object
		ast.Inspect(&ast.BlockStmt{List: clause.Body}, func(n ast.Node) bool {
			if as, ok := n.(*ast.AssignStmt); ok && as.Tok == token.DEFINE && len(as.Lhs) == 2 && len(as.Rhs) == 1 {
				if call, ok := as.Rhs[0].(*ast.CallExpr); ok && isFieldSel(info, call.Fun, fieldOf("flowActor", "transformFn")) && len(call.Args) == 1 && exprShape(info, call.Args[0]) == ".value" {
					outsObj, errObj = info.Defs[as.Lhs[0].(*ast.Ident)], info.Defs[as.Lhs[1].(*ast.Ident)]
				}
			}
			return true
		})
		if !c.Check(outsObj != nil, "transform(value)", "the transform is applied to the received value", where, "no outs, err := a.transformFn(msg.value)") {
			return
		}
		// the loop pushing every output in order
		var loop *ast.RangeStmt
		ast.Inspect(&ast.BlockStmt{List: clause.Body}, func(n ast.Node) bool {
			if r, ok := n.(*ast.RangeStmt); ok {
				if id, ok := r.X.(*ast.Ident); ok && info.Uses[id] == outsObj {
					loop = r
				}
			}
			return true
		})
		okLoop := false
		if loop != nil && loop.Value != nil {
			vObj := info.ObjectOf(loop.Value.(*ast.Ident))
			lf := c.newFlow("flow push loop", info, loop.Body)
			push := func(n ast.Node) bool {
				call, ok := n.(*ast.CallExpr)
				if !ok || !isCallNamed(info, call, "push") || !isFieldSel(info, recvExpr(call), outBuf) || len(call.Args) != 1 {
					return false
				}
				id, ok := call.Args[0].(*ast.Ident)
				return ok && info.ObjectOf(id) == vObj
			}
			okLoop = lf.search(searchSpec{avoid: push, exits: true}) == nil && len(lf.Find(push)) == 1
		}
		c.Check(okLoop, "outputs⇒all-buffered-in-order", "every output of the transform is appended to the FIFO output buffer, in the transform's order", where, "no 'for _, v := range outs { a.outputBuf.push(v) }' covering every iteration")
		// every path: loop | error downstream | Resume drop
		isLoop := func(n ast.Node) bool { return loop != nil && (n == ast.Node(loop) || n == ast.Node(loop.X)) }
		errTell := isTellOf(info, "streamError")
		resume := f.FactEdges(func(cm cmp) bool {
			id, ok := ast.Unparen(cm.R).(*ast.Ident)
			return ok && cm.Op == token.EQL && id.Name == "Resume" && exprShape(info, cm.L) == ".ErrorStrategy"
		})
		// go/cfg turns `switch x { case Resume: }` into comparisons x == Resume
		w := f.search(searchSpec{avoid: Or(isLoop, errTell), avoidEdges: resume, exits: true})
		c.Check(w == nil && len(resume) > 0, "element⇒buffered|error|resume-drop", "an element leaves the flow stage only as buffered outputs, as a stream error, or through the documented Resume drop", where, f.describe(w))
		for _, a := range f.FindOnce(errTell) {
			e := errFieldOf(info, a.N)
			id, ok := ast.Unparen(e).(*ast.Ident)
			okErr := false
			if ok {
				obj := info.ObjectOf(id)
				okErr = obj == errObj || isErrFromTransform(info, clause, obj, fieldOf("flowActor", "transformFn"))
			}
			c.Check(okErr, "error=transform-error", "a failing stage ends the stream with the transform's own error", c.P.Pos(a.N.Pos()), "streamError carries "+types.ExprString(e))
			et, _ := asElemTell(info, a.N, "streamError")
			c.Check(exprShape(info, et.target) == ".downstream", "error→downstream", "the error is sent downstream", c.P.Pos(a.N.Pos()), "")
		}
		// emission
		tf := c.Func("stream", "flowActor.tryFlushOutput")
		ef := c.NewFlow(tf)
		einfo := ef.Info
		elemTell := isTellOf(einfo, "streamElement")
		demand := ef.FactEdges(func(cm cmp) bool {
			v, isC := constInt(einfo, cm.R)
			return cm.Op == token.GTR && isC && v == 0 && isFieldSel(einfo, cm.L, fieldOf("flowActor", "downstreamDemand"))
		})
		c.guardedBy(ef, demand, elemTell, "emit⇒demand", "an output is emitted only under downstream demand", c.P.Pos(tf.Decl.Pos()))
		for _, a := range ef.FindOnce(elemTell) {
			et, _ := asElemTell(einfo, a.N, "streamElement")
			call, isCall := ast.Unparen(et.value).(*ast.CallExpr)
			c.Check(isCall && isCallNamed(einfo, call, "pop") && isFieldSel(einfo, recvExpr(call), outBuf) && exprShape(einfo, et.target) == ".downstream", "emit=pop(outputBuf)", "the emitted value is the head of the output buffer and goes downstream", c.P.Pos(a.N.Pos()), "")
		}
		dec := func(n ast.Node) bool {
			s, ok := n.(*ast.IncDecStmt)
			return ok && s.Tok == token.DEC && isFieldSel(einfo, s.X, fieldOf("flowActor", "downstreamDemand"))
		}
		w = ef.search(searchSpec{starts: ef.Find(elemTell), avoid: dec, target: elemTell})
		w2 := ef.search(searchSpec{starts: ef.Find(elemTell), avoid: dec, exits: true})
		c.Check(w == nil && w2 == nil, "emit⇒demand--", "each emission consumes one unit of demand", c.P.Pos(tf.Decl.Pos()), ef.describe(w)+ef.describe(w2))
		// completion after drain, after upstream completed
		for _, spec := range []struct {
			name string
			f    *Flow
		}{{"tryFlushOutput", ef}} {
			sf := spec.f
			comp := isTellOf(sf.Info, "streamComplete")
			empty := sf.BoolEdges(func(e ast.Expr) bool {
				call, ok := e.(*ast.CallExpr)
				return ok && isCallNamed(sf.Info, call, "empty") && isFieldSel(sf.Info, recvExpr(call), outBuf)
			}, true)
			completing := sf.BoolEdges(func(e ast.Expr) bool { return isFieldSel(sf.Info, e, fieldOf("flowActor", "completing")) }, true)
			c.guardedBy(sf, empty, comp, spec.name+"/complete⇒drained", "completion is passed downstream only when the output buffer is empty", c.P.Pos(tf.Decl.Pos()))
			c.guardedBy(sf, completing, comp, spec.name+"/complete⇒upstream-completed", "completion is passed downstream only after upstream completed", c.P.Pos(tf.Decl.Pos()))
		}
		cf, ccl := c.caseFlow(fn, "streamComplete")
		if cf != nil {
			comp := isTellOf(cf.Info, "streamComplete")
			empty := cf.BoolEdges(func(e ast.Expr) bool {
				call, ok := e.(*ast.CallExpr)
				return ok && isCallNamed(cf.Info, call, "empty") && isFieldSel(cf.Info, recvExpr(call), outBuf)
			}, true)
			if len(cf.Find(comp)) > 0 {
				c.guardedBy(cf, empty, comp, "case-complete/complete⇒drained", "completion is passed downstream only when the output buffer is empty", c.P.Pos(ccl.Pos()))
			}
			w := cf.search(searchSpec{avoid: assignTo(cf.Info, fieldOf("flowActor", "completing")), exits: true})
			c.Check(w == nil, "case-complete/marks-completing", "upstream completion is recorded so that the drain can finish the stream", c.P.Pos(ccl.Pos()), cf.describe(w))
		}
		c.checkWrites("flow", fieldOf("flowActor", "completing"), map[string][]string{"stream.(*flowActor).Receive": {"const:true"}}, "completing is only ever set")
	})

	c.Rule("fused", func() {
		fn := c.Func("stream", "fusedFlowActor.Receive")
		f, clause := c.caseFlow(fn, "streamElement")
		if f == nil {
			c.Undecided("case", "element case found", c.P.Pos(fn.Decl.Pos()), "")
			return
		}
		info := f.Info
		where := c.P.Pos(clause.Pos())
		var resObj, passObj, errObj types.Object
		ast.Inspect(&ast.BlockStmt{List: clause.Body}, func(n ast.Node) bool {
			if as, ok := n.(*ast.AssignStmt); ok && as.Tok == token.DEFINE && len(as.Lhs) == 3 && len(as.Rhs) == 1 {
				if call, ok := as.Rhs[0].(*ast.CallExpr); ok && isFieldSel(info, call.Fun, fieldOf("fusedFlowActor", "fn")) && exprShape(info, call.Args[0]) == ".value" {
					resObj, passObj, errObj = info.Defs[as.Lhs[0].(*ast.Ident)], info.Defs[as.Lhs[1].(*ast.Ident)], info.Defs[as.Lhs[2].(*ast.Ident)]
				}
			}
			return true
		})
		if !c.Check(resObj != nil, "fn(value)", "the fused function is applied to the received value", where, "") {
			return
		}
		isObj := func(e ast.Expr, o types.Object) bool { id, ok := ast.Unparen(e).(*ast.Ident); return ok && info.ObjectOf(id) == o }
		elemTell := isTellOf(info, "streamElement")
		errTell := isTellOf(info, "streamError")
		pass := f.BoolEdges(func(e ast.Expr) bool { return isObj(e, passObj) }, true)
		noPass := f.BoolEdges(func(e ast.Expr) bool { return isObj(e, passObj) }, false)
		c.guardedBy(f, pass, elemTell, "forward⇒pass", "an element is forwarded only when the fused function lets it pass", where)
		w := f.search(searchSpec{avoid: Or(elemTell, errTell), avoidEdges: noPass, exits: true})
		c.Check(w == nil, "element⇒forwarded|error|filtered", "an element leaves the fused stage forwarded, as a stream error, or filtered out by the function", where, f.describe(w))
		for _, a := range f.FindOnce(elemTell) {
			et, _ := asElemTell(info, a.N, "streamElement")
			c.Check(isObj(et.value, resObj) && exprShape(info, et.target) == ".downstream", "forward=result", "the forwarded value is the fused function's result", c.P.Pos(a.N.Pos()), "")
		}
		for _, a := range f.FindOnce(errTell) {
			c.Check(isObj(errFieldOf(info, a.N), errObj), "error=fn-error", "a failing fused stage ends the stream with the function's error", c.P.Pos(a.N.Pos()), "")
		}
		errEdge := f.NilCheckEdges(func(e ast.Expr) bool { return isObj(e, errObj) }, true)
		w = f.AfterEdgesMayReach(errEdge, nil, nil, elemTell)
		c.Check(w == nil && len(errEdge) > 0, "error⇒nothing-forwarded", "nothing is forwarded for an element whose processing failed", where, f.describe(w))
	})

	c.Rule("closures", func() {
		// Stage descriptors carry closures (actorFn, fuseFn compositions) that run at materialisation, long after
		// the loop that built them: a closure that captures a variable shared between iterations computes with the
		// last stage's function instead of its own.
		n := c.checkFrozenCaptures("frozen", "stream", nil)
		if c.Thorough() {
			// discovery pass: the same late-binding rule over every other first-party package
			for _, pk := range c.P.Pkgs {
				if r := relPkg(pk.PkgPath); r != "stream" && r != "" {
					c.checkFrozenCaptures("frozen-module-wide", r, nil)
				}
			}
		}
		if n < 2 {
			c.Undecided("count", "at least two captured variables of stored closures in loops (the fusion pass)", "-", fmt.Sprintf("found %d", n))
		}
	})

	c.Rule("sink", func() {
		fn := c.Func("stream", "sinkActor.Receive")
		f, clause := c.caseFlow(fn, "streamElement")
		if f == nil {
			c.Undecided("case", "element case found", c.P.Pos(fn.Decl.Pos()), "")
			return
		}
		info := f.Info
		consume := func(n ast.Node) bool {
			call, ok := n.(*ast.CallExpr)
			return ok && isFieldSel(info, call.Fun, fieldOf("sinkActor", "consumeFn")) && len(call.Args) == 1 && exprShape(info, call.Args[0]) == ".value"
		}
		w := f.search(searchSpec{avoid: consume, exits: true})
		c.Check(w == nil, "element⇒consumed", "every element reaching the sink is handed to the consumer function with its value", c.P.Pos(clause.Pos()), f.describe(w))
		// completion callback only under the Once
		onC := fieldOf("sinkActor", "onComplete")
		for _, u := range c.UsesOf(onC) {
			if u.Call == nil && !isCalleeUse(u) {
				continue
			}
			inOnce := false
			for _, p := range u.Path {
				if call, ok := p.(*ast.CallExpr); ok && isCallNamed(u.Pkg.TypesInfo, call, "Do") && isFieldSel(u.Pkg.TypesInfo, recvExpr(call), fieldOf("sinkActor", "completeOnce")) {
					inOnce = true
				}
			}
			if isCalleeUse(u) {
				c.Check(inOnce, "complete-once@"+u.EnclName(), "the user-visible completion callback runs only inside the sink's sync.Once (the stream completes exactly once)", u.Where(c.P), "onComplete is invoked outside completeOnce.Do")
			}
		}
		// terminal error preserved
		ef, ecl := c.caseFlow(fn, "streamError")
		if ef != nil {
			okErr := false
			for _, a := range ef.Find(assignTo(ef.Info, fieldOf("sinkActor", "termErr"))) {
				as := a.N.(*ast.AssignStmt)
				okErr = exprShape(ef.Info, as.Rhs[0]) == ".err"
			}
			w := ef.search(searchSpec{avoid: assignTo(ef.Info, fieldOf("sinkActor", "termErr")), exits: true})
			c.Check(okErr && w == nil, "error-preserved", "a stream error reaching the sink is recorded as the stream's terminal error", c.P.Pos(ecl.Pos()), ef.describe(w))
			w = ef.search(searchSpec{avoid: ef.CallTo(c.FuncObj("stream", "sinkActor.callOnComplete")), exits: true})
			c.Check(w == nil, "error⇒completion", "a stream error completes the stream", c.P.Pos(ecl.Pos()), ef.describe(w))
		}
	})

	c.Rule("source", func() {
		fn := c.Func("stream", "pullSourceActor.produce")
		f := c.NewFlow(fn)
		info := f.Info
		var elemsObj, moreObj types.Object
		ast.Inspect(fn.Decl.Body, func(n ast.Node) bool {
			if as, ok := n.(*ast.AssignStmt); ok && as.Tok == token.DEFINE && len(as.Lhs) == 2 && len(as.Rhs) == 1 {
				if call, ok := as.Rhs[0].(*ast.CallExpr); ok && isFieldSel(info, call.Fun, fieldOf("pullSourceActor", "pullFn")) {
					elemsObj, moreObj = info.Defs[as.Lhs[0].(*ast.Ident)], info.Defs[as.Lhs[1].(*ast.Ident)]
				}
			}
			return true
		})
		okLoop := false
		ast.Inspect(fn.Decl.Body, func(n ast.Node) bool {
			r, ok := n.(*ast.RangeStmt)
			if !ok || r.Value == nil {
				return true
			}
			if id, ok := r.X.(*ast.Ident); !ok || info.Uses[id] != elemsObj {
				return true
			}
			vObj := info.ObjectOf(r.Value.(*ast.Ident))
			lf := c.newFlow("source loop", info, r.Body)
			tell := func(n ast.Node) bool {
				et, ok := asElemTell(info, n, "streamElement")
				if !ok {
					return false
				}
				id, ok := ast.Unparen(et.value).(*ast.Ident)
				return ok && info.ObjectOf(id) == vObj && exprShape(info, et.target) == ".downstream"
			}
			okLoop = lf.search(searchSpec{avoid: tell, exits: true}) == nil
			return true
		})
		c.Check(okLoop && elemsObj != nil, "pulled⇒forwarded-in-order", "every pulled element is forwarded downstream, in slice order", c.P.Pos(fn.Decl.Pos()), "")
		exhausted := f.BoolEdges(func(e ast.Expr) bool { id, ok := e.(*ast.Ident); return ok && moreObj != nil && info.ObjectOf(id) == moreObj }, false)
		c.guardedBy(f, exhausted, isTellOf(info, "streamComplete"), "complete⇒exhausted", "the source completes only when the pull function reports exhaustion", c.P.Pos(fn.Decl.Pos()))
	})

	c.Rule("operators", func() {
		// each operator's unfused transform closure: the FuncLit passed to newFlowActor inside the constructor
		lit := func(ctor string) (*ast.FuncLit, *types.Info, string) {
			fn := c.Func("stream", ctor)
			var out *ast.FuncLit
			ast.Inspect(fn.Decl.Body, func(n ast.Node) bool {
				if call, ok := n.(*ast.CallExpr); ok && isCallNamed(fn.Info(), call, "newFlowActor") && len(call.Args) == 2 {
					if l, ok := call.Args[0].(*ast.FuncLit); ok {
						out = l
					}
				}
				return true
			})
			return out, fn.Info(), c.P.Pos(fn.Decl.Pos())
		}
		retSingle := func(info *types.Info, r *ast.ReturnStmt) (ast.Expr, bool) {
			if len(r.Results) != 2 || !isNilIdent(info, r.Results[1]) {
				return nil, false
			}
			cl, ok := ast.Unparen(r.Results[0]).(*ast.CompositeLit)
			if !ok || len(cl.Elts) != 1 {
				return nil, false
			}
			return cl.Elts[0], true
		}
		// the element: elem, ok := v.(T)
		elemOf := func(info *types.Info, l *ast.FuncLit) types.Object {
			var o types.Object
			ast.Inspect(l.Body, func(n ast.Node) bool {
				if as, ok := n.(*ast.AssignStmt); ok && len(as.Lhs) == 2 && len(as.Rhs) == 1 {
					if ta, ok := as.Rhs[0].(*ast.TypeAssertExpr); ok {
						if id, ok := ta.X.(*ast.Ident); ok && info.ObjectOf(id) == info.ObjectOf(l.Type.Params.List[0].Names[0]) && o == nil {
							o = info.Defs[as.Lhs[0].(*ast.Ident)]
						}
					}
				}
				return true
			})
			return o
		}
		isObj := func(info *types.Info, e ast.Expr, o types.Object) bool {
			id, ok := ast.Unparen(e).(*ast.Ident)
			return ok && o != nil && info.ObjectOf(id) == o
		}

		// Map
		if l, info, where := lit("makeMapFlow"); c.Check(l != nil, "map/closure", "transform closure found", where, "") {
			elem := elemOf(info, l)
			f := c.newFlow("map closure", info, l.Body)
			var outObj types.Object
			ast.Inspect(l.Body, func(n ast.Node) bool {
				if as, ok := n.(*ast.AssignStmt); ok && as.Tok == token.DEFINE && len(as.Lhs) == 2 {
					if call, ok := as.Rhs[0].(*ast.CallExpr); ok && len(call.Args) == 1 && isObj(info, call.Args[0], elem) {
						if _, isTA := as.Rhs[0].(*ast.TypeAssertExpr); !isTA {
							outObj = info.Defs[as.Lhs[0].(*ast.Ident)]
						}
					}
				}
				return true
			})
			okRet := 0
			for _, a := range f.FindOnce(IsReturn) {
				if e, ok := retSingle(info, a.N.(*ast.ReturnStmt)); ok {
					if isObj(info, e, outObj) {
						okRet++
					} else {
						okRet = -100
					}
				}
			}
			c.Check(okRet == 1, "map/emits-fn(elem)", "Map emits exactly one output per input, the user function's result for that input", where, "")
		}
		// Filter
		if l, info, where := lit("Filter"); c.Check(l != nil, "filter/closure", "transform closure found", where, "") {
			elem := elemOf(info, l)
			f := c.newFlow("filter closure", info, l.Body)
			predTrue := f.BoolEdges(func(e ast.Expr) bool {
				call, ok := e.(*ast.CallExpr)
				return ok && len(call.Args) == 1 && isObj(info, call.Args[0], elem)
			}, true)
			emit := func(n ast.Node) bool {
				r, ok := n.(*ast.ReturnStmt)
				if !ok {
					return false
				}
				e, ok := retSingle(info, r)
				return ok && isObj(info, e, elem)
			}
			other := func(n ast.Node) bool {
				r, ok := n.(*ast.ReturnStmt)
				if !ok {
					return false
				}
				_, single := retSingle(info, r)
				return single && !emit(n)
			}
			c.guardedBy(f, predTrue, emit, "filter/emit⇒predicate", "Filter emits an element only when the predicate holds for it", where)
			w := f.AfterEdgesMustPass(predTrue, emit, nil)
			c.Check(w == nil && len(f.Find(other)) == 0, "filter/predicate⇒emit-same-element", "Filter emits exactly the element itself whenever the predicate holds", where, f.describe(w))
		}
		// FlatMap / Flatten: result[i] = o over range of the source slice, result length = len(source)
		for _, ctor := range []string{"FlatMap", "Flatten"} {
			l, info, where := lit(ctor)
			if !c.Check(l != nil, ctor+"/closure", "transform closure found", where, "") {
				continue
			}
			ok := false
			ast.Inspect(l.Body, func(n ast.Node) bool {
				r, isR := n.(*ast.RangeStmt)
				if !isR || r.Key == nil || r.Value == nil {
					return true
				}
				// the body stores the element at its own index on every iteration (other statements may surround it)
				var as *ast.AssignStmt
				var ix *ast.IndexExpr
				for _, st := range r.Body.List {
					a, isAs := st.(*ast.AssignStmt)
					if !isAs || len(a.Lhs) != 1 || len(a.Rhs) != 1 {
						continue
					}
					x, isIx := a.Lhs[0].(*ast.IndexExpr)
					if isIx && isObj(info, x.Index, info.ObjectOf(r.Key.(*ast.Ident))) && isObj(info, a.Rhs[0], info.ObjectOf(r.Value.(*ast.Ident))) {
						as, ix = a, x
					}
				}
				skips := false
				ast.Inspect(r.Body, func(m ast.Node) bool {
					if br, isBr := m.(*ast.BranchStmt); isBr && br.Tok == token.CONTINUE {
						skips = true
					}
					return true
				})
				if as == nil || skips || exitsLoopEarly(r.Body) {
					return true
				}
				// result := make([]any, len(src)) with src == range operand; and the closure returns result
				resObj := info.ObjectOf(ix.X.(*ast.Ident))
				srcStr := types.ExprString(r.X)
				ast.Inspect(l.Body, func(m ast.Node) bool {
					if d, isD := m.(*ast.AssignStmt); isD && d.Tok == token.DEFINE && len(d.Lhs) == 1 && info.Defs[d.Lhs[0].(*ast.Ident)] == resObj {
						if call, isC := d.Rhs[0].(*ast.CallExpr); isC && len(call.Args) == 2 && types.ExprString(call.Args[1]) == "len("+srcStr+")" {
							if lr := l.Body.List[len(l.Body.List)-1]; lr != nil {
								if ret, isRet := lr.(*ast.ReturnStmt); isRet && isObj(info, ret.Results[0], resObj) {
									ok = true
								}
							}
						}
					}
					return true
				})
				return true
			})
			c.Check(ok, ctor+"/order-preserving-copy", ctor+" emits the elements of the produced slice, all of them, in order", where, "")
		}
		// Scan
		if l, info, where := lit("Scan"); c.Check(l != nil, "scan/closure", "transform closure found", where, "") {
			elem := elemOf(info, l)
			var accObj types.Object
			okStep := false
			ast.Inspect(l.Body, func(n ast.Node) bool {
				if as, ok := n.(*ast.AssignStmt); ok && as.Tok == token.ASSIGN && len(as.Lhs) == 1 {
					if call, ok := as.Rhs[0].(*ast.CallExpr); ok && len(call.Args) == 2 {
						if id, ok := as.Lhs[0].(*ast.Ident); ok && isObj(info, call.Args[0], info.ObjectOf(id)) && isObj(info, call.Args[1], elem) {
							accObj = info.ObjectOf(id)
							okStep = true
						}
					}
				}
				return true
			})
			okEmit := false
			if r := l.Body.List[len(l.Body.List)-1]; r != nil {
				if ret, ok := r.(*ast.ReturnStmt); ok {
					if e, ok := retSingle(info, ret); ok && isObj(info, e, accObj) {
						okEmit = true
					}
				}
			}
			c.Check(okStep && okEmit, "scan/threads-accumulator", "Scan folds each element into the accumulator (acc = fn(acc, elem)) and emits the new accumulator", where, "")
		}
		// Deduplicate
		if l, info, where := lit("Deduplicate"); c.Check(l != nil, "dedup/closure", "transform closure found", where, "") {
			elem := elemOf(info, l)
			f := c.newFlow("dedup closure", info, l.Body)
			suppress := func(n ast.Node) bool {
				r, ok := n.(*ast.ReturnStmt)
				return ok && len(r.Results) == 2 && isNilIdent(info, r.Results[0]) && isNilIdent(info, r.Results[1])
			}
			same := f.FactEdges(func(cm cmp) bool { return cm.Op == token.EQL && isObj(info, cm.R, elem) })
			// the closure's state, declared outside it: a flag (bool) and the previous element (same type as the element)
			captured := func(id *ast.Ident) *types.Var {
				v, ok := info.ObjectOf(id).(*types.Var)
				if !ok || v.IsField() || (v.Pos() >= l.Pos() && v.Pos() < l.End()) {
					return nil
				}
				return v
			}
			has := f.BoolEdges(func(e ast.Expr) bool {
				id, ok := e.(*ast.Ident)
				if !ok {
					return false
				}
				v := captured(id)
				if v == nil {
					return false
				}
				b, isB := v.Type().Underlying().(*types.Basic)
				return isB && b.Info()&types.IsBoolean != 0
			}, true)
			c.guardedBy(f, same, suppress, "dedup/suppress⇒equal-previous", "Deduplicate suppresses an element only when it equals the previously emitted one", where)
			c.guardedBy(f, has, suppress, "dedup/suppress⇒has-previous", "Deduplicate suppresses nothing before the first element", where)
			emit := func(n ast.Node) bool {
				r, ok := n.(*ast.ReturnStmt)
				if !ok {
					return false
				}
				e, ok := retSingle(info, r)
				return ok && isObj(info, e, elem)
			}
			setLast := func(n ast.Node) bool {
				as, ok := n.(*ast.AssignStmt)
				if !ok || len(as.Lhs) != 1 {
					return false
				}
				id, ok := as.Lhs[0].(*ast.Ident)
				if !ok || !isObj(info, as.Rhs[0], elem) {
					return false
				}
				v := captured(id)
				return v != nil && elem != nil && types.Identical(v.Type(), elem.Type())
			}
			w := f.search(searchSpec{avoid: setLast, target: emit})
			c.Check(w == nil && len(f.Find(emit)) == 1, "dedup/emit⇒recorded", "every emitted element becomes the new 'previous'", where, f.describe(w))
		}
	})
}

func isCalleeUse(u *Use) bool {
	if len(u.Path) < 2 {
		return false
	}
	sel, ok := u.Path[len(u.Path)-1].(*ast.SelectorExpr)
	if !ok {
		return false
	}
	call, ok := u.Path[len(u.Path)-2].(*ast.CallExpr)
	return ok && call.Fun == ast.Expr(sel)
}

// isErrFromTransform: obj is assigned (second result) from a call of the transform function within the clause.
func isErrFromTransform(info *types.Info, clause *ast.CaseClause, obj types.Object, transform *types.Var) bool {
	found := false
	ast.Inspect(&ast.BlockStmt{List: clause.Body}, func(n ast.Node) bool {
		if as, ok := n.(*ast.AssignStmt); ok && len(as.Lhs) == 2 && len(as.Rhs) == 1 {
			if call, ok := as.Rhs[0].(*ast.CallExpr); ok && isFieldSel(info, call.Fun, transform) {
				if id, ok := as.Lhs[1].(*ast.Ident); ok && info.ObjectOf(id) == obj {
					found = true
				}
			}
		}
		return true
	})
	return found
}
