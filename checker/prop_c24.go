package main

import (
	"go/ast"
	"go/types"
	"strings"
)

func init() {
	register(&propDef{
		id: "C24", title: "Connection compression is transparent",
		technique: "wiring rules over the syntax tree and CFG: flush-before-acknowledge on the write path, codec pairing of reader and writer per ConnWrapper implementation, delegation shape of the flush adapters",
		explanation: "Decides the wiring the transparency of a compressed connection rests on, for every ConnWrapper implementation (gzip, zstd, brotli): (1) compressedConn.Write reports success only after the codec writer's Flush returned nil on the same path (the bytes of every successful Write are on the wire, which the request/response framing relies on), passes the caller's buffer unchanged and returns the count of the underlying Write; Read delegates to the codec reader with the caller's buffer; (2) every Wrap builds its connection from a reader and a writer of the SAME codec package, both attached to the connection it was given (writer Reset/constructed over conn, reader reading from conn), and passes that same connection as the raw one; (3) every first-party flushWriter adapter's Write and Flush delegate to the wrapped codec writer's Write and Flush (no no-op flush); (4) Close ends the codec stream (closer) before closing the raw connection. That a codec's decoder inverts its encoder for all inputs and segmentations is the codec library's contract and is NOT decided. Added after seed C24a: Write never reassigns or re-slices the caller's buffer. Added after the probe round: the lazily initialised gzip reader is Reset exactly once, inside its sync.Once.",
		assumptions: []string{"compress/gzip, klauspost/zstd and andybalholm/brotli decoders invert their encoders across arbitrary flush points"},
		minObl:     20,
		run:        runC24,
	})
}

func runC24(c *Ctx) {
	c.Rule("write-path", func() {
		fn := c.Func("internal/net", "compressedConn.Write")
		f := c.NewFlow(fn)
		info := f.Info
		writer := c.Field("internal/net", "compressedConn", "writer")
		flush := f.CallOnField(writer, "Flush")
		write := f.CallOnField(writer, "Write")
		okFlush, nf := f.ErrEdgesOf(flush, false)
		retOK := func(n ast.Node) bool {
			r, ok := n.(*ast.ReturnStmt)
			return ok && len(r.Results) == 2 && isNilIdent(info, r.Results[1])
		}
		c.Check(nf == 1, "flush-call", "Write flushes the codec writer", c.P.Pos(fn.Decl.Pos()), "found "+itoa(nf)+" Flush calls with a checked error")
		w := f.search(searchSpec{avoidEdges: okFlush, target: retOK})
		c.Check(w == nil && len(f.Find(retOK)) > 0, "success⇒flushed", "Write reports success only after Flush succeeded", c.P.Pos(fn.Decl.Pos()), f.describe(w))
		w = f.MustPrecede(write, nil, flush)
		c.Check(w == nil, "write≺flush", "the data is handed to the codec before the flush", c.P.Pos(fn.Decl.Pos()), f.describe(w))
		// buffer passed unchanged; count returned is the underlying Write's
		params := fn.Obj.Type().(*types.Signature).Params()
		var nObj types.Object
		okArg := false
		ast.Inspect(fn.Decl.Body, func(n ast.Node) bool {
			if as, ok := n.(*ast.AssignStmt); ok && len(as.Rhs) == 1 {
				if call, ok := as.Rhs[0].(*ast.CallExpr); ok && write(call) {
					if id, ok := as.Lhs[0].(*ast.Ident); ok {
						nObj = info.ObjectOf(id)
					}
					if len(call.Args) == 1 {
						if id, ok := call.Args[0].(*ast.Ident); ok && info.Uses[id] == types.Object(params.At(0)) {
							okArg = true
						}
					}
				}
			}
			return true
		})
		c.Check(okArg, "buffer-unchanged", "the caller's buffer is handed to the codec writer as is", c.P.Pos(fn.Decl.Pos()), "")
		reassigned := ""
		ast.Inspect(fn.Decl.Body, func(n ast.Node) bool {
			if as, ok := n.(*ast.AssignStmt); ok {
				for _, l := range as.Lhs {
					if id, ok := l.(*ast.Ident); ok && info.ObjectOf(id) == types.Object(params.At(0)) {
						reassigned = c.P.Pos(as.Pos())
					}
				}
			}
			return true
		})
		c.Check(reassigned == "", "buffer-not-truncated", "Write never reassigns or re-slices the caller's buffer: all of p is handed to the codec (callers ignore the count, relying on io.Writer's all-or-error contract)", c.P.Pos(fn.Decl.Pos()), "the buffer parameter is reassigned at "+reassigned+": a write may silently send only part of its input")
		allN := true
		for _, a := range f.Find(IsReturn) {
			r := a.N.(*ast.ReturnStmt)
			id, ok := r.Results[0].(*ast.Ident)
			if !ok || nObj == nil || info.Uses[id] != nObj {
				allN = false
			}
		}
		c.Check(allN, "count=underlying", "Write returns the byte count of the underlying Write", c.P.Pos(fn.Decl.Pos()), "")
		rd := c.Func("internal/net", "compressedConn.Read")
		okRead := false
		if r := lastReturn(rd.Decl); r != nil && len(r.Results) == 1 {
			if call, ok := r.Results[0].(*ast.CallExpr); ok && callOnFieldMatch(rd.Info(), c.Field("internal/net", "compressedConn", "reader"), "Read")(call) && len(call.Args) == 1 {
				if id, ok := call.Args[0].(*ast.Ident); ok && rd.Info().Uses[id] == types.Object(rd.Obj.Type().(*types.Signature).Params().At(0)) {
					okRead = true
				}
			}
		}
		c.Check(okRead, "read-delegates", "Read returns what the codec reader produced into the caller's buffer", c.P.Pos(rd.Decl.Pos()), "")
		cl := c.Func("internal/net", "compressedConn.Close")
		cf := c.NewFlow(cl)
		closer := c.Field("internal/net", "compressedConn", "closer")
		callCloser := func(n ast.Node) bool {
			call, ok := n.(*ast.CallExpr)
			return ok && selField(cf.Info, call.Fun) == closer
		}
		w = cf.MustPrecede(callCloser, nil, cf.CallOnField(c.Field("internal/net", "compressedConn", "raw"), "Close"))
		c.Check(w == nil && len(cf.Find(callCloser)) == 1, "close/codec≺raw", "the codec stream is ended before the raw connection is closed", c.P.Pos(cl.Decl.Pos()), cf.describe(w))
	})

	c.Rule("wrappers", func() {
		iface := c.Named("internal/net", "ConnWrapper")
		gcc := c.FuncObj("internal/net", "getCompressedConn")
		impls := c.Implementors(iface, "Wrap")
		n := 0
		for _, m := range impls {
			fn := c.fnOfObj(m)
			if fn == nil || !strings.HasSuffix(relPkg(m.Pkg().Path()), "internal/net") {
				continue
			}
			info := fn.Info()
			name := funcName(m)
			connParam := m.Type().(*types.Signature).Params().At(0)
			isConn := func(e ast.Expr) bool {
				id, ok := ast.Unparen(e).(*ast.Ident)
				return ok && info.Uses[id] == types.Object(connParam)
			}
			var ctor *ast.CallExpr
			ast.Inspect(fn.Decl.Body, func(x ast.Node) bool {
				if call, ok := x.(*ast.CallExpr); ok && callee(info, call) == gcc {
					ctor = call
				}
				return true
			})
			if ctor == nil {
				continue // not a compressing wrapper (e.g. a pass-through)
			}
			n++
			c.Check(isConn(ctor.Args[0]), name+"/raw=conn", "the wrapped connection keeps the connection it was given as its raw side", c.P.Pos(ctor.Pos()), "raw is "+types.ExprString(ctor.Args[0]))
			rPkg := codecPkgOf(info, ctor.Args[1])
			wPkg := codecPkgOf(info, ctor.Args[2])
			c.Check(rPkg != "" && rPkg == wPkg, name+"/same-codec", "reader and writer of a wrapped connection belong to the same codec", c.P.Pos(ctor.Pos()), "reader codec '"+rPkg+"', writer codec '"+wPkg+"'")
			// both sides attached to conn: calls / literals in Wrap taking conn, on values of the codec package
			attached := map[string]bool{}
			ast.Inspect(fn.Decl.Body, func(x ast.Node) bool {
				switch y := x.(type) {
				case *ast.CallExpr:
					for _, a := range y.Args {
						if isConn(a) {
							if recv := recvExpr(y); recv != nil {
								attached[sideOf(info.TypeOf(recv))] = true
							}
						}
					}
				case *ast.CompositeLit:
					for _, el := range y.Elts {
						if kv, ok := el.(*ast.KeyValueExpr); ok && isConn(kv.Value) {
							attached[sideOf(info.TypeOf(y))] = true
						}
					}
				}
				return true
			})
			c.Check(attached["writer"], name+"/writer-on-conn", "the codec writer writes to the given connection", c.P.Pos(fn.Decl.Pos()), "no writer Reset/constructor over conn")
			c.Check(attached["reader"], name+"/reader-on-conn", "the codec reader reads from the given connection", c.P.Pos(fn.Decl.Pos()), "no reader Reset/constructor over conn")
		}
		if n < 3 {
			c.Undecided("count", "gzip, zstd and brotli wrappers found", "-", "found "+itoa(n))
		}
	})

	c.Rule("lazy-reader", func() {
		// the gzip read side is initialised lazily: its Reset (which consumes the stream header and discards all decoder
		// state) runs at most once per connection, i.e. only inside the sync.Once — a Reset on a later Read would
		// drop buffered input and re-parse payload bytes as a header
		fn := c.Func("internal/net", "gzipLazyReader.Read")
		info := fn.Info()
		gr := c.Field("internal/net", "gzipLazyReader", "gr")
		n, bad := 0, ""
		var stack []ast.Node
		ast.Inspect(fn.Decl.Body, func(nd ast.Node) bool {
			if nd == nil {
				stack = stack[:len(stack)-1]
				return true
			}
			stack = append(stack, nd)
			call, ok := nd.(*ast.CallExpr)
			if !ok {
				return true
			}
			sel, ok := ast.Unparen(call.Fun).(*ast.SelectorExpr)
			if !ok || sel.Sel.Name != "Reset" || selField(info, sel.X) != gr {
				return true
			}
			n++
			inOnce := false
			for j := len(stack) - 2; j >= 1; j-- {
				if lit, ok := stack[j].(*ast.FuncLit); ok {
					if oc, ok := stack[j-1].(*ast.CallExpr); ok && len(oc.Args) == 1 && oc.Args[0] == ast.Expr(lit) {
						if cal := callee(info, oc); cal != nil && qualifiedName(cal) == "sync.(*Once).Do" {
							inOnce = true
						}
					}
					break
				}
			}
			if !inOnce {
				bad = c.P.Pos(call.Pos())
			}
			return true
		})
		c.Check(n == 1 && bad == "", "reset-once", "the gzip reader is reset (header consumed, decoder state discarded) exactly once per connection, inside the sync.Once", c.P.Pos(fn.Decl.Pos()), "Reset outside the Once at "+bad)
	})

	c.Rule("adapters", func() {
		fw := c.Named("internal/net", "flushWriter")
		n := 0
		for _, m := range c.Implementors(fw, "Flush") {
			if m.Pkg() == nil || !strings.HasSuffix(relPkg(m.Pkg().Path()), "internal/net") {
				continue
			}
			n++
			recvT := m.Type().(*types.Signature).Recv().Type()
			for _, meth := range []string{"Flush", "Write"} {
				obj, _, _ := types.LookupFieldOrMethod(recvT, true, m.Pkg(), meth)
				fn := c.fnOfObj(obj.(*types.Func))
				ok := false
				if fn != nil {
					if r := lastReturn(fn.Decl); r != nil && len(r.Results) == 1 {
						if call, isCall := r.Results[0].(*ast.CallExpr); isCall {
							if cal := callee(fn.Info(), call); cal != nil && cal.Name() == meth && selField(fn.Info(), recvExpr(call)) != nil {
								ok = true
								if meth == "Write" {
									id, isId := call.Args[0].(*ast.Ident)
									ok = isId && fn.Info().Uses[id] == types.Object(fn.Obj.Type().(*types.Signature).Params().At(0))
								}
							}
						}
					}
				}
				c.Check(ok, funcName(m)[:strings.LastIndex(funcName(m), ".")]+"."+meth+"/delegates", "a flush adapter's "+meth+" is the wrapped codec writer's "+meth, c.P.Pos(m.Pos()), "adapter does not delegate")
			}
		}
		if n < 3 {
			c.Undecided("count", "flush adapters found", "-", "found "+itoa(n))
		}
	})
}

// codecPkgOf finds the third-party / std compression package behind a reader or writer expression:
// the package of its type, or for a first-party adapter the package of its codec-typed field.
func codecPkgOf(info *types.Info, e ast.Expr) string {
	t := info.TypeOf(e)
	named := namedOf(t)
	if named == nil || named.Obj().Pkg() == nil {
		return ""
	}
	if !strings.HasPrefix(named.Obj().Pkg().Path(), modPath) {
		return named.Obj().Pkg().Path()
	}
	if st, ok := named.Underlying().(*types.Struct); ok {
		for i := 0; i < st.NumFields(); i++ {
			if fn := namedOf(st.Field(i).Type()); fn != nil && fn.Obj().Pkg() != nil {
				p := fn.Obj().Pkg().Path()
				if !strings.HasPrefix(p, modPath) && p != "io" && p != "sync" && p != "sync/atomic" && p != "net" {
					return p
				}
			}
		}
	}
	return ""
}

// sideOf classifies a codec or adapter type as the writer or reader side by its method set.
func sideOf(t types.Type) string {
	if t == nil {
		return ""
	}
	has := func(name string) bool {
		for _, tt := range []types.Type{t, types.NewPointer(t)} {
			if obj, _, _ := types.LookupFieldOrMethod(tt, true, nil, name); obj != nil {
				if _, ok := obj.(*types.Func); ok {
					return true
				}
			}
		}
		return false
	}
	switch {
	case has("Write") && !has("Read"):
		return "writer"
	case has("Read") && !has("Write"):
		return "reader"
	}
	return ""
}
