package main

import (
	"fmt"
	"go/token"
	"go/types"
	"sort"
	"strings"

	"golang.org/x/tools/go/callgraph"
	"golang.org/x/tools/go/ssa"
)

// CG wraps the VTA call graph with (a) synthetic edges for function values
// handed to functions without bodies (third-party / std higher-order APIs:
// errgroup.Go, time.AfterFunc, singleflight, quartz jobs ...), marked async
// unless the callee is in the synchronous-combinator table, and (b) helper
// queries. The graph over-approximates: sound for "never reachable".
type CG struct {
	p     *Prog
	g     *callgraph.Graph
	extra map[*ssa.Function][]cgEdge // synthetic out-edges
	rev   map[*ssa.Function][]outEdge
}

type cgEdge struct {
	to    *ssa.Function
	async bool // runs on another goroutine / later (go statement, async higher-order API)
	pos   token.Pos
	via   string
}

func (p *Prog) CGx() *CG {
	if p.cgx != nil {
		return p.cgx
	}
	g := p.CallGraph()
	x := &CG{p: p, g: g, extra: map[*ssa.Function][]cgEdge{}}
	for fn := range p.allFns {
		if fn.Blocks == nil || !p.firstParty(fn) {
			continue
		}
		for _, b := range fn.Blocks {
			for _, ins := range b.Instrs {
				ci, ok := ins.(ssa.CallInstruction)
				if !ok {
					continue
				}
				cc := ci.Common()
				sc := cc.StaticCallee()
				hasBody := sc != nil && sc.Blocks != nil
				if sc != nil && hasBody && !isOpaque(sc) {
					continue
				}
				if sc == nil && !cc.IsInvoke() {
					continue // dynamic call of a func value: VTA handles
				}
				if cc.IsInvoke() {
					// interface invoke: if any first-party implementation exists VTA has edges; function-valued args to external impls are rare. skip.
					continue
				}
				name := ""
				if sc != nil && sc.Object() != nil {
					if fo, ok := sc.Object().(*types.Func); ok {
						name = qualifiedName(fo.Origin())
					}
				}
				_, isSync := syncCombinators[name]
				if sc != nil && isOpaque(sc) {
					isSync = true
				}
				for _, a := range cc.Args {
					for _, tgt := range funcValues(a) {
						x.extra[fn] = append(x.extra[fn], cgEdge{to: tgt, async: !isSync, pos: ins.Pos(), via: name})
					}
				}
			}
		}
	}
	p.cgx = x
	return x
}

// isOpaque: first-party higher-order helpers whose bodies are not traversed;
// a function value handed to them is attributed to the caller (it runs
// synchronously inside the call). internal/chain runs each runner eagerly
// inside AddRunner*, on the caller's goroutine.
func isOpaque(fn *ssa.Function) bool {
	if fn == nil {
		return false
	}
	for fn.Parent() != nil {
		fn = fn.Parent()
	}
	return fn.Pkg != nil && fn.Pkg.Pkg.Path() == modPath+"/internal/chain"
}

// funcValues returns the functions a value denotes when it is syntactically a
// function, a closure or a bound method value.
func funcValues(v ssa.Value) []*ssa.Function {
	switch x := v.(type) {
	case *ssa.Function:
		return []*ssa.Function{x}
	case *ssa.MakeClosure:
		if f, ok := x.Fn.(*ssa.Function); ok {
			return []*ssa.Function{f}
		}
	case *ssa.ChangeType:
		return funcValues(x.X)
	case *ssa.MakeInterface:
		return funcValues(x.X)
	}
	return nil
}

func (p *Prog) firstParty(fn *ssa.Function) bool {
	if fn.Pkg != nil {
		return strings.HasPrefix(fn.Pkg.Pkg.Path(), modPath)
	}
	if fn.Parent() != nil {
		return p.firstParty(fn.Parent())
	}
	if fn.Origin() != nil && fn.Origin() != fn {
		return p.firstParty(fn.Origin())
	}
	if o := fn.Object(); o != nil && o.Pkg() != nil {
		return strings.HasPrefix(o.Pkg().Path(), modPath)
	}
	return false
}

type outEdge struct {
	to    *ssa.Function
	async bool
	pos   token.Pos
	via   string
}

// Out lists successor functions of fn (call, defer, go; plus synthetic edges).
func (x *CG) Out(fn *ssa.Function) []outEdge {
	var out []outEdge
	if n := x.g.Nodes[fn]; n != nil && !isOpaque(fn) {
		for _, e := range n.Out {
			async := false
			if _, ok := e.Site.(*ssa.Go); ok {
				async = true
			}
			var pos token.Pos
			if e.Site != nil {
				pos = e.Site.Pos()
			}
			out = append(out, outEdge{to: e.Callee.Func, async: async, pos: pos})
		}
	}
	for _, e := range x.extra[fn] {
		out = append(out, outEdge{to: e.to, async: e.async, pos: e.pos, via: e.via})
	}
	// closures created in fn but never passed anywhere we can see are handled by VTA.
	return out
}

// In lists predecessor functions.
func (x *CG) In(fn *ssa.Function) []outEdge {
	x.buildRev()
	return x.rev[fn]
}

var _ = sort.Strings

func (x *CG) buildRev() {
	if x.rev != nil {
		return
	}
	x.rev = map[*ssa.Function][]outEdge{}
	for fn := range x.p.allFns {
		for _, e := range x.Out(fn) {
			x.rev[e.to] = append(x.rev[e.to], outEdge{to: fn, async: e.async, pos: e.pos, via: e.via})
		}
	}
}

// ReachFrom: forward reachability from roots. stop(fn) prunes (the function is
// not entered). syncOnly ignores async edges (stay on the calling goroutine).
// Returns parent links for witness chains.
func (x *CG) ReachFrom(roots []*ssa.Function, stop func(*ssa.Function) bool, syncOnly bool) map[*ssa.Function]*ssa.Function {
	par := map[*ssa.Function]*ssa.Function{}
	var q []*ssa.Function
	for _, r := range roots {
		if r == nil {
			continue
		}
		if _, ok := par[r]; !ok {
			par[r] = nil
			q = append(q, r)
		}
	}
	for len(q) > 0 {
		fn := q[0]
		q = q[1:]
		for _, e := range x.Out(fn) {
			if syncOnly && e.async {
				continue
			}
			if _, ok := par[e.to]; ok {
				continue
			}
			if stop != nil && stop(e.to) {
				continue
			}
			par[e.to] = fn
			q = append(q, e.to)
		}
	}
	return par
}

// Chain renders the call chain root → ... → fn from parent links.
func (x *CG) Chain(par map[*ssa.Function]*ssa.Function, fn *ssa.Function) string {
	var parts []string
	for f := fn; f != nil; f = par[f] {
		parts = append([]string{ssaName(f)}, parts...)
		if len(parts) > 25 {
			break
		}
	}
	return strings.Join(parts, " → ")
}

func ssaName(f *ssa.Function) string {
	if f == nil {
		return "<nil>"
	}
	s := f.String()
	s = strings.ReplaceAll(s, modPath+"/", "")
	s = strings.ReplaceAll(s, modPath, "goakt")
	return s
}

func (c *Ctx) SSA(fn *Fn) *ssa.Function {
	f := c.P.SSAFunc(fn.Obj)
	if f == nil {
		c.Fail("no SSA function for %s", fn)
	}
	return f
}

// SSAOf resolves any first-party func object to SSA.
func (c *Ctx) SSAOf(obj *types.Func) *ssa.Function {
	f := c.P.SSAFunc(obj)
	if f == nil {
		c.Fail("no SSA function for %s", funcName(obj))
	}
	return f
}

// InvokeSites returns the SSA call instructions, in first-party functions, that
// invoke interface method m (dynamic dispatch) or call a value of named func type t.
func (c *Ctx) InvokeSites(m *types.Func) []ssa.CallInstruction {
	c.P.BuildSSA()
	var out []ssa.CallInstruction
	for fn := range c.P.allFns {
		if fn.Blocks == nil || !c.P.firstParty(fn) {
			continue
		}
		for _, b := range fn.Blocks {
			for _, ins := range b.Instrs {
				ci, ok := ins.(ssa.CallInstruction)
				if !ok {
					continue
				}
				cc := ci.Common()
				if cc.IsInvoke() && cc.Method.Origin() == m.Origin() {
					out = append(out, ci)
				}
			}
		}
	}
	sort.Slice(out, func(i, j int) bool { return out[i].Pos() < out[j].Pos() })
	return out
}

func (c *Ctx) describeSite(ci ssa.CallInstruction) string {
	return fmt.Sprintf("%s in %s", c.P.Pos(ci.Pos()), ssaName(ci.Parent()))
}
