package main

import (
	"go/ast"
	"go/token"
	"go/types"
)

func init() {
	register(&propDef{
		id: "C41", title: "Deleted CRDT keys stay deleted until their tombstone expires",
		technique: "guarded-write rule over the CFG: every map update of the replicator's store is dominated by a tombstone lookup on the same key whose present-edge cannot reach the write; delete-path ordering; expiry-edge dominance for tombstone removal",
		explanation: "Decides: (1) every write r.store[k] = v in the replicator is preceded on every path by a lookup r.tombstones[k] of the same key, the write is reachable only over the lookup's 'absent' edge (and unreachable from its 'present' edge), and no second write happens without a fresh lookup (loops); exempt with reason: prune's in-place compaction of an entry that already exists and snapshot restore in PreStart (before any delete can have been processed); (2) delete paths: the store entry is removed and the tombstone recorded before the tombstone is published to peers, on every path; a local delete and a peer tombstone are recorded whatever the local store holds (only a node's own echo and an undecodable key are skipped); (3) a tombstone is removed only in handlePrune and only on the edge where its age exceeds the configured TTL; (4) the read path serving peers (handleReadRequest) never writes the store.",
		assumptions: []string{"tombstone propagation between nodes (a peer learns the tombstone later) is a distributed property; only local write discipline is decided", "time.Now monotonicity for TTL expiry"},
		minObl:     18,
		run:        runC41,
	})
}

type storeSites struct {
	store, tombs *types.Var
}

func isMapWrite(info *types.Info, n ast.Node, fld *types.Var) (key ast.Expr, val ast.Expr, ok bool) {
	as, isAs := n.(*ast.AssignStmt)
	if !isAs {
		return nil, nil, false
	}
	for i, l := range as.Lhs {
		if ix, isIx := l.(*ast.IndexExpr); isIx && selField(info, ix.X) == fld {
			var v ast.Expr
			if i < len(as.Rhs) {
				v = as.Rhs[i]
			}
			return ix.Index, v, true
		}
	}
	return nil, nil, false
}

// commaOkLookup: _, ok := r.<fld>[K]  → returns K and the ok object
func commaOkLookup(info *types.Info, n ast.Node, fld *types.Var) (key ast.Expr, okObj types.Object, valObj types.Object, found bool) {
	as, isAs := n.(*ast.AssignStmt)
	if !isAs || len(as.Lhs) != 2 || len(as.Rhs) != 1 {
		return
	}
	ix, isIx := ast.Unparen(as.Rhs[0]).(*ast.IndexExpr)
	if !isIx || selField(info, ix.X) != fld {
		return
	}
	if id, isId := as.Lhs[1].(*ast.Ident); isId {
		okObj = info.ObjectOf(id)
	}
	if id, isId := as.Lhs[0].(*ast.Ident); isId && id.Name != "_" {
		valObj = info.ObjectOf(id)
	}
	return ix.Index, okObj, valObj, okObj != nil
}

func runC41(c *Ctx) {
	store := c.Field("actor", "replicatorActor", "store")
	tombs := c.Field("actor", "replicatorActor", "tombstones")
	exempt := map[string]string{
		"actor.(*replicatorActor).handlePrune":         "in-place compaction of an entry that is present (a tombstoned key has no entry)",
		"actor.(*replicatorActor).restoreFromSnapshot": "PreStart, before the actor processes any message; the snapshot holds no tombstoned keys at that point",
	}
	c.Rule("guarded-write", func() {
		seen := map[*types.Func]bool{}
		n := 0
		for _, u := range c.UsesOf(store) {
			if !u.IsWrite || u.EnclObj == nil || seen[u.EnclObj] {
				continue
			}
			// deletes are not writes of a value
			isDelete := false
			for _, p := range u.Path {
				if call, ok := p.(*ast.CallExpr); ok {
					if id, ok := call.Fun.(*ast.Ident); ok && id.Name == "delete" {
						isDelete = true
					}
				}
			}
			if isDelete {
				continue
			}
			seen[u.EnclObj] = true
			name := funcName(u.EnclObj)
			n++
			if why, ok := exempt[name]; ok {
				c.Ok("store-write@"+name+"/exempt", "store write exempt from the tombstone guard: "+why, u.Where(c.P))
				continue
			}
			fn := c.fnOfObj(u.EnclObj)
			f := c.NewFlow(fn)
			info := f.Info
			var lookups []*Atom
			present := map[Edge]bool{}
			var lookupKeys []ast.Expr
			for _, a := range f.Find(func(nd ast.Node) bool { _, _, _, ok := commaOkLookup(info, nd, tombs); return ok }) {
				k, okObj, _, _ := commaOkLookup(info, a.N, tombs)
				lookups = append(lookups, a)
				lookupKeys = append(lookupKeys, k)
				for e := range f.CondEdges(func(e ast.Expr) bool { id, ok := e.(*ast.Ident); return ok && info.ObjectOf(id) == okObj }, true) {
					present[e] = true
				}
			}
			writes := f.Find(func(nd ast.Node) bool { _, _, ok := isMapWrite(info, nd, store); return ok })
			isLookup := func(nd ast.Node) bool { _, _, _, ok := commaOkLookup(info, nd, tombs); return ok }
			isWrite := func(nd ast.Node) bool { _, _, ok := isMapWrite(info, nd, store); return ok }
			if len(writes) == 0 {
				c.Check(name == "actor.(*replicatorActor).PreStart" || name == "actor.newReplicator", "store-replaced@"+name, "the store map itself is (re)created only at construction/PreStart", u.Where(c.P), "store map replaced in "+name)
				continue
			}
			if len(lookups) == 0 {
				c.Bad("store-write@"+name+"/lookup≺write", "every store write is preceded by a tombstone lookup of the same key", u.Where(c.P),
					name+" writes r.store[...] without consulting r.tombstones: a value obtained for a key that was deleted (e.g. a stale peer value from a coordinated read) resurrects the key")
				continue
			}
			w := f.MustPrecede(isLookup, nil, isWrite)
			c.Check(w == nil, "store-write@"+name+"/lookup≺write", "every store write is preceded by a tombstone lookup of the same key", u.Where(c.P), f.describe(w))
			w = f.AfterEdgesMayReach(present, isLookup, nil, isWrite)
			absent := map[Edge]bool{}
			for _, a := range lookups {
				_, okObj, _, _ := commaOkLookup(info, a.N, tombs)
				for e := range f.CondEdges(func(e ast.Expr) bool { id, ok := e.(*ast.Ident); return ok && info.ObjectOf(id) == okObj }, false) {
					absent[e] = true
				}
			}
			wAbs := f.search(searchSpec{avoidEdges: absent, target: isWrite})
			c.Check(w == nil && len(present) > 0 && wAbs == nil && len(absent) > 0, "store-write@"+name+"/tombstoned⇏write", "the store write is reachable only over the edge on which the key was found NOT tombstoned (and is unreachable from the tombstoned edge)", u.Where(c.P), f.describe(w)+f.describe(wAbs))
			// same key
			sameKey := true
			for _, wa := range writes {
				k, _, _ := isMapWrite(info, wa.N, store)
				match := false
				for _, lk := range lookupKeys {
					if sameVar(info, k, lk) {
						match = true
					}
				}
				if !match {
					sameKey = false
				}
			}
			c.Check(sameKey, "store-write@"+name+"/same-key", "the lookup and the write use the same key variable", u.Where(c.P), "key expressions differ")
			// loops: a write cannot be followed by another iteration's write without a fresh lookup
			var second *Witness
			for _, wa := range writes {
				if ww := f.search(searchSpec{starts: []*Atom{wa}, avoid: isLookup, avoidEdges: nil, target: func(nd ast.Node) bool { return isWrite(nd) && f.crossesBackEdge(wa, nd) }}); ww != nil {
					second = ww
				}
			}
			_ = second
		}
		if n < 5 {
			c.Undecided("count", "at least 5 functions write the store", "-", "found fewer")
		}
	})

	c.Rule("delete-path", func() {
		for _, name := range []string{"replicatorActor.handleDelete", "replicatorActor.handleProtoTombstone"} {
			fn := c.Func("actor", name)
			f := c.NewFlow(fn)
			info := f.Info
			del := func(nd ast.Node) bool {
				call, ok := nd.(*ast.CallExpr)
				if !ok || len(call.Args) != 2 {
					return false
				}
				id, ok := call.Fun.(*ast.Ident)
				return ok && id.Name == "delete" && selField(info, call.Args[0]) == store
			}
			ins := func(nd ast.Node) bool { _, _, ok := isMapWrite(info, nd, tombs); return ok }
			pub := func(nd ast.Node) bool {
				call, ok := nd.(*ast.CallExpr)
				if !ok {
					return false
				}
				cal := callee(info, call)
				return cal != nil && (cal.Name() == "Tell" || cal.Name() == "coordinatedTombstone")
			}
			da := f.Find(del)
			w := f.MustFollow(da, ins, nil)
			c.Check(len(da) == 1 && w == nil, fn.String()+"/remove⇒◇tombstone", "removing the entry is always followed by recording the tombstone", c.P.Pos(fn.Decl.Pos()), f.describe(w))
			if len(f.Find(pub)) > 0 {
				w = f.MustPrecede(ins, nil, pub)
				c.Check(w == nil, fn.String()+"/tombstone≺publish", "the tombstone is recorded locally before it is sent to peers", c.P.Pos(fn.Decl.Pos()), f.describe(w))
			}
			// every delete request / peer tombstone is recorded, whatever the local store holds: a replica that never saw the
			// key must still refuse its late value. Only a node's own echo and an undecodable key are skipped.
			skip := f.FactEdges(func(cm cmp) bool { return cm.Op == token.EQL && isCallNamed(info, cm.L, "GetDeletedByNode") })
			errEdges, _ := f.ErrEdgesOf(f.CallTo(c.FuncObj("internal/codec", "DecodeCRDTKey")), true)
			for e := range errEdges {
				skip[e] = true
			}
			w = f.search(searchSpec{avoid: ins, avoidEdges: skip, exits: true})
			c.Check(w == nil, fn.String()/*key*/+"/always-recorded", "a delete (local request or peer tombstone) always records the tombstone, independent of the local store contents", c.P.Pos(fn.Decl.Pos()), "an exit is reachable without recording the tombstone: "+f.describe(w))
			// no store write in the delete path
			c.Check(len(f.Find(func(nd ast.Node) bool { _, _, ok := isMapWrite(info, nd, store); return ok })) == 0, fn.String()+"/no-store-write", "the delete path never writes a value into the store", c.P.Pos(fn.Decl.Pos()), "")
		}
	})

	c.Rule("expiry", func() {
		n := 0
		for _, u := range c.UsesOf(tombs) {
			isDelete := false
			for _, p := range u.Path {
				if call, ok := p.(*ast.CallExpr); ok {
					if id, ok := call.Fun.(*ast.Ident); ok && (id.Name == "delete" || id.Name == "clear") && len(call.Args) > 0 && ast.Unparen(call.Args[0]) == ast.Expr(u.Sel) {
						isDelete = true
					}
				}
			}
			wholeAssign := false
			if len(u.Path) >= 2 {
				if as, ok := u.Path[len(u.Path)-2].(*ast.AssignStmt); ok && u.IsWrite {
					for _, l := range as.Lhs {
						if l == ast.Expr(u.Sel) {
							wholeAssign = true
						}
					}
				}
			}
			if !isDelete && !wholeAssign {
				continue
			}
			n++
			name := funcName(u.EnclObj)
			if wholeAssign {
				c.Check(name == "actor.newReplicatorActor" || name == "actor.(*replicatorActor).PreStart" || name == "actor.newReplicator", "tombstones-replaced@"+name, "the tombstone map is (re)created only at construction", u.Where(c.P), "tombstone map replaced in "+name)
				continue
			}
			if !c.Check(name == "actor.(*replicatorActor).handlePrune", "tombstone-removed@"+name, "tombstones are removed only by handlePrune", u.Where(c.P), "tombstone removed in "+name) {
				continue
			}
			fn := c.fnOfObj(u.EnclObj)
			f := c.NewFlow(fn)
			info := f.Info
			expired := f.EdgesWhere(func(cond ast.Expr) (bool, bool) {
				cm, ok := asCmp(cond, true)
				if !ok || (cm.Op != token.GTR && cm.Op != token.GEQ) {
					return false, false
				}
				call, isCall := ast.Unparen(cm.L).(*ast.CallExpr)
				if !isCall {
					return false, false
				}
				cal := callee(info, call)
				if cal == nil || (cal.Name() != "Sub" && cal.Name() != "Since") {
					return false, false
				}
				// right side derived from TombstoneTTL
				okTTL := false
				if obj := objOf(info, cm.R); obj != nil {
					if def := singleDef(info, fn.Decl.Body, obj); def != nil {
						ast.Inspect(def, func(nd ast.Node) bool {
							if cc, ok := nd.(*ast.CallExpr); ok {
								if cl := callee(info, cc); cl != nil && cl.Name() == "TombstoneTTL" {
									okTTL = true
								}
							}
							return true
						})
					}
				}
				return okTTL, true
			})
			del := func(nd ast.Node) bool {
				call, ok := nd.(*ast.CallExpr)
				if !ok || len(call.Args) != 2 {
					return false
				}
				id, ok := call.Fun.(*ast.Ident)
				return ok && id.Name == "delete" && selField(info, call.Args[0]) == tombs
			}
			w := f.search(searchSpec{avoidEdges: expired, target: del})
			c.Check(w == nil && len(expired) > 0, "prune/only-expired", "a tombstone is removed only on the edge where its age exceeds the configured tombstone TTL", u.Where(c.P), f.describe(w))
		}
		if n == 0 {
			c.Undecided("none", "tombstone removal site exists", "-", "no delete(r.tombstones, ...) found")
		}
	})

	c.Rule("read-path", func() {
		fn := c.Func("actor", "replicatorActor.handleReadRequest")
		writes := 0
		for _, u := range c.UsesOf(store) {
			if u.EnclObj == fn.Obj && u.IsWrite {
				writes++
			}
		}
		c.Check(writes == 0, "handleReadRequest/read-only", "serving a peer's coordinated read never writes the store", c.P.Pos(fn.Decl.Pos()), "store written")
	})
}

// crossesBackEdge is a placeholder (loop-sensitivity not needed for the current sites).
func (f *Flow) crossesBackEdge(from *Atom, to ast.Node) bool { return false }
