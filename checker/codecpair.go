package main

import (
	"go/ast"
	"go/token"
	"go/types"
	"sort"
	"strings"
)

// E6 codec-pair engine: field coverage of writer and reader sides.

type fieldSet map[*types.Var]string // field -> first position

type sideFacts struct {
	fns      map[*types.Func]bool
	written  fieldSet // struct fields assigned / set in composite literals
	read     fieldSet // struct fields read (selector) or fetched through GetX()
	oneofNew map[string]string // oneof wrapper types constructed (type name -> pos)
	oneofSw  map[string]string // oneof wrapper types switched on / asserted
	consts   map[*types.Const]bool
}

// collectSide gathers facts over the functions reachable from roots through
// static first-party calls (depth-limited), including their function literals.
func (c *Ctx) collectSide(roots []*types.Func, depth int, stop func(*types.Func) bool) *sideFacts {
	s := &sideFacts{fns: map[*types.Func]bool{}, written: fieldSet{}, read: fieldSet{}, oneofNew: map[string]string{}, oneofSw: map[string]string{}, consts: map[*types.Const]bool{}}
	type item struct {
		f *types.Func
		d int
	}
	var q []item
	for _, r := range roots {
		if r != nil && !s.fns[r.Origin()] {
			s.fns[r.Origin()] = true
			q = append(q, item{r.Origin(), 0})
		}
	}
	for len(q) > 0 {
		it := q[0]
		q = q[1:]
		fn := c.fnOfObj(it.f)
		if fn == nil {
			continue
		}
		info := fn.Info()
		var stack []ast.Node
		ast.Inspect(fn.Decl, func(n ast.Node) bool {
			if n == nil {
				stack = stack[:len(stack)-1]
				return true
			}
			stack = append(stack, n)
			switch x := n.(type) {
			case *ast.CompositeLit:
				t := info.TypeOf(x)
				if t != nil {
					if named := namedOf(t); named != nil {
						if st, ok := named.Underlying().(*types.Struct); ok {
							for _, el := range x.Elts {
								if kv, ok := el.(*ast.KeyValueExpr); ok {
									if id, ok := kv.Key.(*ast.Ident); ok {
										for i := 0; i < st.NumFields(); i++ {
											if st.Field(i).Name() == id.Name {
												s.written[st.Field(i)] = c.P.Pos(kv.Pos())
											}
										}
									}
								}
							}
							if strings.Contains(named.Obj().Name(), "_") {
								s.oneofNew[named.Obj().Name()] = c.P.Pos(x.Pos())
							}
						}
					}
				}
			case *ast.SelectorExpr:
				if fv := selField(info, x); fv != nil {
					w, _ := classifyWrite(x, stack[:len(stack)-1], false)
					if w {
						s.written[fv] = c.P.Pos(x.Pos())
					} else {
						s.read[fv] = c.P.Pos(x.Pos())
					}
				}
				if k, ok := info.Uses[x.Sel].(*types.Const); ok {
					s.consts[k] = true
				}
			case *ast.Ident:
				if k, ok := info.Uses[x].(*types.Const); ok {
					s.consts[k] = true
				}
			case *ast.CallExpr:
				cal := callee(info, x)
				if cal == nil {
					return true
				}
				// GetX() on a generated message reads field X
				if strings.HasPrefix(cal.Name(), "Get") && cal.Type().(*types.Signature).Recv() != nil {
					rt := cal.Type().(*types.Signature).Recv().Type()
					if named := namedOf(rt); named != nil {
						if st, ok := named.Underlying().(*types.Struct); ok {
							want := strings.TrimPrefix(cal.Name(), "Get")
							for i := 0; i < st.NumFields(); i++ {
								if st.Field(i).Name() == want {
									s.read[st.Field(i)] = c.P.Pos(x.Pos())
								}
							}
							// oneof getter: GetTimeBased() etc. reads the oneof field
							for i := 0; i < st.NumFields(); i++ {
								f := st.Field(i)
								if _, isIface := f.Type().Underlying().(*types.Interface); isIface {
									// wrapper types named <Msg>_<want>
									if w := named.Obj().Pkg().Scope().Lookup(named.Obj().Name() + "_" + want); w != nil {
										s.read[f] = c.P.Pos(x.Pos())
										s.oneofSw[named.Obj().Name()+"_"+want] = c.P.Pos(x.Pos())
									}
								}
							}
						}
					}
				}
				if it.d < depth && cal.Pkg() != nil && strings.HasPrefix(cal.Pkg().Path(), modPath) && !s.fns[cal] && (stop == nil || !stop(cal)) {
					if c.P.declOf[cal] != nil {
						s.fns[cal] = true
						q = append(q, item{cal, it.d + 1})
					}
				}
			case *ast.TypeSwitchStmt:
				for _, st := range x.Body.List {
					for _, e := range st.(*ast.CaseClause).List {
						if t := info.TypeOf(e); t != nil {
							if named := namedOf(t); named != nil && strings.Contains(named.Obj().Name(), "_") {
								s.oneofSw[named.Obj().Name()] = c.P.Pos(e.Pos())
							}
						}
					}
				}
			case *ast.TypeAssertExpr:
				if x.Type != nil {
					if t := info.TypeOf(x.Type); t != nil {
						if named := namedOf(t); named != nil && strings.Contains(named.Obj().Name(), "_") {
							s.oneofSw[named.Obj().Name()] = c.P.Pos(x.Pos())
						}
					}
				}
			}
			return true
		})
	}
	return s
}

func namedOf(t types.Type) *types.Named {
	if p, ok := t.(*types.Pointer); ok {
		t = p.Elem()
	}
	n, _ := types.Unalias(t).(*types.Named)
	return n
}

// wireFields lists the data fields of a generated protobuf message struct.
func wireFields(named *types.Named) []*types.Var {
	st, ok := named.Underlying().(*types.Struct)
	if !ok {
		return nil
	}
	var out []*types.Var
	for i := 0; i < st.NumFields(); i++ {
		f := st.Field(i)
		if !f.Exported() {
			continue // state, sizeCache, unknownFields
		}
		out = append(out, f)
	}
	return out
}

// domainFields lists the fields of a domain struct, minus synchronisation fields.
func domainFields(named *types.Named) []*types.Var {
	st, ok := named.Underlying().(*types.Struct)
	if !ok {
		return nil
	}
	var out []*types.Var
	for i := 0; i < st.NumFields(); i++ {
		f := st.Field(i)
		ts := f.Type().String()
		if strings.HasPrefix(ts, "sync.") || strings.HasPrefix(ts, "*sync.") || f.Name() == "_" {
			continue
		}
		out = append(out, f)
	}
	return out
}

// checkWireMessage: W = R = all data fields (minus exemptions).
func (c *Ctx) checkWireMessage(key string, msg *types.Named, enc, dec *sideFacts, exempt map[string]string) {
	for _, f := range wireFields(msg) {
		k := key + "/" + msg.Obj().Name() + "." + f.Name()
		if why, ok := exempt[msg.Obj().Name()+"."+f.Name()]; ok {
			c.Ok(k+"/exempt", "wire field exempt from the coverage rule: "+why, "-")
			continue
		}
		_, w := enc.written[f]
		_, r := dec.read[f]
		switch {
		case w && r:
			c.Ok(k, "wire field is written by the encoder and read by the decoder", enc.written[f])
		case w && !r:
			c.Bad(k, "every wire field the encoder writes is read by the decoder", enc.written[f], "field "+f.Name()+" of "+msg.Obj().Name()+" is encoded but never decoded: the value is lost on the receiving side")
		case !w && r:
			c.Bad(k, "every wire field the decoder reads is written by the encoder", dec.read[f], "field "+f.Name()+" of "+msg.Obj().Name()+" is decoded but never encoded: the receiver always sees the zero value")
		default:
			c.Bad(k, "every field of the wire message takes part in the codec", "-", "field "+f.Name()+" of "+msg.Obj().Name()+" is neither encoded nor decoded")
		}
	}
}

// checkDomain: every configuration field of a domain type is read when
// encoding and written when decoding.
func (c *Ctx) checkDomain(key string, dom *types.Named, enc, dec *sideFacts, exempt map[string]string) {
	for _, f := range domainFields(dom) {
		k := key + "/" + dom.Obj().Name() + "." + f.Name()
		if why, ok := exempt[dom.Obj().Name()+"."+f.Name()]; ok {
			c.Ok(k+"/exempt", "domain field exempt: "+why, "-")
			continue
		}
		if _, ok := enc.read[f]; ok {
			c.Ok(k+"/encoded", "the encoder reads this configuration field", enc.read[f])
		} else {
			c.Bad(k+"/encoded", "every configuration field of "+dom.Obj().Name()+" is read by its encoder", c.P.Pos(f.Pos()), "field "+f.Name()+" is never read on the encode path: the setting does not survive the wire")
		}
		if _, ok := dec.written[f]; ok {
			c.Ok(k+"/decoded", "the decoder (through constructors/options) writes this configuration field", dec.written[f])
		} else {
			c.Bad(k+"/decoded", "every configuration field of "+dom.Obj().Name()+" is written on the decode path", c.P.Pos(f.Pos()), "field "+f.Name()+" is never set on the decode path: the decoded value always has the default")
		}
	}
}

// enumMap extracts const→const pairs from a function that is a switch on its parameter returning constants.
func (c *Ctx) enumMap(fn *Fn) map[string]string {
	info := fn.Info()
	out := map[string]string{}
	ast.Inspect(fn.Decl.Body, func(n ast.Node) bool {
		cc, ok := n.(*ast.CaseClause)
		if !ok {
			return true
		}
		if cc.List == nil {
			for _, st := range cc.Body {
				if r, ok := st.(*ast.ReturnStmt); ok && len(r.Results) >= 1 {
					if k, ok := objOfConst(info, r.Results[0]); ok {
						out["<default>"] = k.Name()
					}
				}
			}
			return true
		}
		var ret string
		for _, st := range cc.Body {
			if r, ok := st.(*ast.ReturnStmt); ok && len(r.Results) >= 1 {
				if k, ok := objOfConst(info, r.Results[0]); ok {
					ret = k.Name()
				}
			}
		}
		if ret == "" {
			return true
		}
		for _, e := range cc.List {
			if k, ok := objOfConst(info, e); ok {
				out[k.Name()] = ret
			}
		}
		return true
	})
	return out
}

// checkEnumInverse: dec(enc(x)) == x on the explicit cases of enc, and every constant of the domain enum has an explicit case.
func (c *Ctx) checkEnumInverse(key string, enc, dec *Fn, domain *types.Named) {
	em, dm := c.enumMap(enc), c.enumMap(dec)
	if len(em) == 0 || len(dm) == 0 {
		c.Undecided(key+"/shape", "enum mapping functions are switches over constants", c.P.Pos(enc.Decl.Pos()), "no constant cases found")
		return
	}
	var ks []string
	for k := range em {
		ks = append(ks, k)
	}
	sort.Strings(ks)
	look := func(m map[string]string, k string) (string, bool) {
		if v, ok := m[k]; ok {
			return v, true
		}
		v, ok := m["<default>"]
		return v, ok
	}
	for _, k := range ks {
		if k == "<default>" {
			continue
		}
		back, ok := look(dm, em[k])
		c.Check(ok && back == k, key+"/"+k, "the decode mapping inverts the encode mapping on "+k, c.P.Pos(enc.Decl.Pos()), k+" encodes to "+em[k]+" which decodes to "+back)
	}
	if domain != nil {
		for _, k := range c.enumConsts(domain) {
			e, ok := look(em, k.Name())
			back, ok2 := look(dm, e)
			c.Check(ok && ok2 && back == k.Name(), key+"/covers/"+k.Name(), "every constant of the domain enum survives encode+decode (explicit case or matching defaults)", c.P.Pos(enc.Decl.Pos()), k.Name()+" encodes to "+e+" which decodes to "+back)
		}
	}
}

var _ = token.ADD
