package main

import (
	"go/ast"
	"go/types"
	"sort"
	"strings"

	"golang.org/x/tools/go/ssa"
)

func init() {
	register(&propDef{
		id: "C23", title: "Wire frames round-trip and malformed frames are rejected safely",
		technique: "guarded-arithmetic abstract interpretation on go/ssa (linear forms + intervals, Fourier–Motzkin entailment, wrap-aware conversions, inductive phi<=len invariant) for every slice/index/wire-read/allocation of the decoders; writer/reader layout token agreement; pooled-frame use-after-release rule",
		explanation: "Decides: (1) no panic / no out-of-range read / bounded allocation in the decoders (ProtoSerializer.UnmarshalBinary, UnmarshalBinaryWithMetadata, Metadata.UnmarshalBinary, readProtoFrame, Client.unmarshalProtoResponse, ProtoServer.handleConn): every slice expression, index, binary.BigEndian.UintN read and unsafe.String view on the input is entailed in bounds by the dominating guards for every input — arithmetic done in a narrower unsigned type is treated as wrapping, so a length computed in uint32 loses its relation to its operands; every allocation sized from wire data is dominated by a comparison against a constant or the configured maximum frame size; (2) writer/reader layout agreement: the header fields written by MarshalBinaryTo / MarshalBinaryWithMetadataTo / Metadata.MarshalBinary (sequence of fixed-width big-endian fields, then name, metadata, payload) equal the fields read by the matching decoder; (3) frames are read one by one: the reader consumes exactly totalLen bytes (4-byte header plus frame[4:] of a frame of length totalLen); (4) a pooled frame and the zero-copy type name viewing it are not used after framePool.Put on any path.",
		assumptions: []string{"int is 64 bits (GOARCH=amd64/arm64); slice lengths are below 2^56", "protobuf Marshal/Unmarshal round trip and message equality are the protobuf library's", "deadline tolerance of the metadata block is a timing property"},
		minObl:     74,
		run:        runC23,
	})
}

func runC23(c *Ctx) {
	decoders := []string{"ProtoSerializer.UnmarshalBinary", "ProtoSerializer.UnmarshalBinaryWithMetadata", "Metadata.UnmarshalBinary", "readProtoFrame", "Client.unmarshalProtoResponse", "ProtoServer.handleConn"}
	c.Rule("bounds", func() {
		c.P.BuildSSA()
		for _, name := range decoders {
			fn := c.Func("internal/net", name)
			sf := c.SSA(fn)
			a := newArith(c, sf)
			reps := a.checkBounds()
			if len(reps) == 0 {
				c.Undecided(fn.String()+"/none", "decoder has bounds obligations", c.P.Pos(fn.Decl.Pos()), "no slice/index/read found")
			}
			for _, r := range reps {
				key := fn.String() + "/" + r.what
				if r.ok {
					c.Ok(key, "entailed by the dominating guards for every input", c.P.Pos(r.where))
				} else {
					c.Bad(key, "every access to the input buffer is in bounds for every input (no panic on malformed frames)", c.P.Pos(r.where), r.detail)
				}
			}
			// inner anonymous functions
			for _, an := range sf.AnonFuncs {
				aa := newArith(c, an)
				for _, r := range aa.checkBounds() {
					key := fn.String() + "$lit/" + r.what
					if r.ok {
						c.Ok(key, "entailed by the dominating guards for every input", c.P.Pos(r.where))
					} else {
						c.Bad(key, "every access is in bounds", c.P.Pos(r.where), r.detail)
					}
				}
			}
		}
	})

	if c.Thorough() {
		// discovery pass: every first-party function that reads fixed-width big/little-endian fields from a byte slice
		// (encoding/binary UintN) is held to the same bounds rule, not only the decoders listed above
		c.Rule("bounds-module-wide", func() {
			c.P.BuildSSA()
			listed := map[string]bool{}
			for _, name := range decoders {
				listed[c.Func("internal/net", name).String()] = true
			}
			for _, d := range c25Decoders {
				listed[c.Func(d.pkg, d.name).String()] = true
			}
			seen := map[*types.Func]bool{}
			n := 0
			for _, pk := range c.P.Pkgs {
				for _, file := range pk.Syntax {
					for _, decl := range file.Decls {
						fd, ok := decl.(*ast.FuncDecl)
						if !ok || fd.Body == nil {
							continue
						}
						reads := false
						ast.Inspect(fd.Body, func(nd ast.Node) bool {
							if call, ok := nd.(*ast.CallExpr); ok {
								if cal := callee(pk.TypesInfo, call); cal != nil && cal.Pkg() != nil && cal.Pkg().Path() == "encoding/binary" && strings.HasPrefix(cal.Name(), "Uint") {
									reads = true
								}
							}
							return true
						})
						obj, _ := pk.TypesInfo.Defs[fd.Name].(*types.Func)
						if !reads || obj == nil || seen[obj] {
							continue
						}
						seen[obj] = true
						fn := c.fnOfObj(obj)
						if fn == nil || listed[fn.String()] {
							continue
						}
						n++
						sf := c.SSA(fn)
						for _, r := range newArith(c, sf).checkBounds() {
							key := "discovered/" + fn.String() + "/" + r.what
							if r.ok {
								c.Ok(key, "entailed by the dominating guards for every input", c.P.Pos(r.where))
							} else {
								c.Bad(key, "every access to the input buffer is in bounds for every input", c.P.Pos(r.where), r.detail)
							}
						}
					}
				}
			}
			c.Ok("scanned", "wire-reading functions outside the listed decoders: "+itoa(n), "-")
		})
	}

	c.Rule("layout", func() {
		pairs := []struct{ w, r string }{
			{"ProtoSerializer.MarshalBinaryTo", "ProtoSerializer.UnmarshalBinary"},
			{"ProtoSerializer.MarshalBinaryWithMetadataTo", "ProtoSerializer.UnmarshalBinaryWithMetadata"},
		}
		for _, p := range pairs {
			w := layoutTokens(c, c.Func("internal/net", p.w), true)
			r := layoutTokens(c, c.Func("internal/net", p.r), false)
			c.Check(w == r && w != "", p.w+"↔"+p.r, "the fixed-width header fields written equal, in order and width, the header fields read", c.P.Pos(c.Func("internal/net", p.w).Decl.Pos()), "writer: "+w+" reader: "+r)
		}
		// metadata block: writer and reader use the same field widths in the same order
		mw := layoutTokens(c, c.Func("internal/net", "Metadata.MarshalBinary"), true)
		mr := layoutTokens(c, c.Func("internal/net", "Metadata.UnmarshalBinary"), false)
		c.Check(mw == mr && mw != "", "Metadata.MarshalBinary↔UnmarshalBinary", "metadata block: same sequence of field widths on both sides", c.P.Pos(c.Func("internal/net", "Metadata.MarshalBinary").Decl.Pos()), "writer: "+mw+" reader: "+mr)
	})

	c.Rule("frame-by-frame", func() {
		for _, name := range []string{"readProtoFrame", "ProtoServer.handleConn"} {
			fn := c.Func("internal/net", name)
			f := c.NewFlow(fn)
			readFull := c.ExtFunc("io", "ReadFull")
			calls := f.Find(f.CallTo(readFull))
			ok := len(calls) == 2
			// second ReadFull reads frame[4:]
			var frameObj types.Object
			if ok {
				se, isSlice := ast.Unparen(calls[1].N.(*ast.CallExpr).Args[1]).(*ast.SliceExpr)
				if !isSlice || se.High != nil || se.Low == nil {
					ok = false
				} else if v, isC := constInt(f.Info, se.Low); !isC || v != 4 {
					ok = false
				} else {
					frameObj = objOf(f.Info, se.X)
				}
			}
			c.Check(ok && frameObj != nil, fn.String()+"/reads-total-len", "one frame = 4 header bytes + exactly the rest of a buffer of totalLen bytes (ReadFull on frame[4:])", c.P.Pos(fn.Decl.Pos()), "frame read shape changed")
		}
	})

	c.Rule("pooled-frame", func() {
		put := c.FuncObj("internal/net", "FramePool.Put")
		for _, name := range []string{"ProtoServer.handleConn", "readProtoFrame"} {
			fn := c.Func("internal/net", name)
			f := c.NewFlow(fn)
			info := f.Info
			for _, a := range f.Find(f.CallTo(put)) {
				call := a.N.(*ast.CallExpr)
				frame := objOf(info, call.Args[0])
				if frame == nil {
					c.Undecided(fn.String()+"/put-arg", "released frame is a local", c.P.Pos(call.Pos()), "")
					continue
				}
				// views: variables assigned from a decoder call that returns a zero-copy name (typeName)
				views := map[types.Object]bool{frame: true}
				ast.Inspect(fn.Decl.Body, func(n ast.Node) bool {
					as, ok := n.(*ast.AssignStmt)
					if !ok || len(as.Rhs) != 1 {
						return true
					}
					rc, ok := as.Rhs[0].(*ast.CallExpr)
					if !ok {
						return true
					}
					usesFrame := false
					for _, arg := range rc.Args {
						if objOf(info, arg) == frame {
							usesFrame = true
						}
					}
					if !usesFrame {
						return true
					}
					for _, l := range as.Lhs {
						if id, ok := l.(*ast.Ident); ok {
							if o := info.ObjectOf(id); o != nil {
								if named, ok := o.Type().(*types.Named); ok && named.Obj().Name() == "FullName" {
									views[o] = true
								}
							}
						}
					}
					return true
				})
				use := func(n ast.Node) bool {
					id, ok := n.(*ast.Ident)
					return ok && views[info.Uses[id]]
				}
				// loop: the next iteration re-assigns frame; stop at the loop back edge
				w := f.search(searchSpec{starts: []*Atom{a}, avoidEdges: f.loopBackEdges(), target: use})
				c.Check(w == nil, fn.String()+"/no-use-after-Put@"+c.P.Pos(call.Pos()), "after framePool.Put neither the frame nor the zero-copy type name viewing it is used (the buffer may already serve another connection)", c.P.Pos(call.Pos()), f.describe(w))
			}
		}
	})
}

// layoutTokens renders the fixed-width big-endian fields a codec function
// writes (PutUintN) or reads (UintN), in source order: e.g. "u32 u32 u32".
func layoutTokens(c *Ctx, fn *Fn, write bool) string {
	sf := c.SSA(fn)
	type tok struct {
		pos int
		s   string
	}
	var toks []tok
	var visit func(f *ssa.Function)
	visit = func(f *ssa.Function) {
		for _, b := range f.Blocks {
			for _, ins := range b.Instrs {
				call, ok := ins.(*ssa.Call)
				if !ok {
					continue
				}
				cal := call.Call.StaticCallee()
				if cal == nil {
					continue
				}
				var w int
				if write {
					w = wireWriteWidth(cal)
					if w == 0 && cal.Pkg != nil && cal.Pkg.Pkg.Path() == "encoding/binary" && strings.HasPrefix(cal.Name(), "AppendUint") {
						switch cal.Name() {
						case "AppendUint16":
							w = 2
						case "AppendUint32":
							w = 4
						case "AppendUint64":
							w = 8
						}
					}
				} else {
					w = wireReadWidth(cal)
				}
				if w > 0 {
					toks = append(toks, tok{int(call.Pos()), "u" + itoa(w*8)})
				}
			}
		}
	}
	visit(sf)
	sort.Slice(toks, func(i, j int) bool { return toks[i].pos < toks[j].pos })
	var out []string
	for _, t := range toks {
		out = append(out, t.s)
	}
	return strings.Join(out, " ")
}

func itoa(i int) string {
	s := ""
	if i == 0 {
		return "0"
	}
	for i > 0 {
		s = string(rune('0'+i%10)) + s
		i /= 10
	}
	return s
}
