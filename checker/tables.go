package main

import (
	"go/ast"
	"go/types"
	"sort"
)

// enumConsts lists the package-level constants of a named type.
func (c *Ctx) enumConsts(named *types.Named) []*types.Const {
	var out []*types.Const
	sc := named.Obj().Pkg().Scope()
	for _, n := range sc.Names() {
		if k, ok := sc.Lookup(n).(*types.Const); ok && types.Identical(k.Type(), named) {
			out = append(out, k)
		}
	}
	sort.Slice(out, func(i, j int) bool { return out[i].Name() < out[j].Name() })
	return out
}

type switchCase struct {
	consts  []*types.Const
	isDef   bool
	callees []*types.Func
	clause  *ast.CaseClause
}

// switchOn finds the switch statements in fn whose tag has the named type and
// returns, per case, the constants and the functions called in the body.
func (c *Ctx) switchOn(fn *Fn, named *types.Named) [][]switchCase {
	info := fn.Info()
	var out [][]switchCase
	ast.Inspect(fn.Decl.Body, func(n ast.Node) bool {
		sw, ok := n.(*ast.SwitchStmt)
		if !ok || sw.Tag == nil {
			return true
		}
		t := info.TypeOf(sw.Tag)
		if t == nil || !types.Identical(t, named) {
			return true
		}
		var cases []switchCase
		for _, st := range sw.Body.List {
			cc := st.(*ast.CaseClause)
			sc := switchCase{clause: cc, isDef: cc.List == nil}
			for _, e := range cc.List {
				if k, ok := objOfConst(info, e); ok {
					sc.consts = append(sc.consts, k)
				}
			}
			for _, b := range cc.Body {
				ast.Inspect(b, func(m ast.Node) bool {
					if call, ok := m.(*ast.CallExpr); ok {
						if cal := callee(info, call); cal != nil {
							sc.callees = append(sc.callees, cal)
						}
					}
					return true
				})
			}
			cases = append(cases, sc)
		}
		out = append(out, cases)
		return true
	})
	return out
}

func objOfConst(info *types.Info, e ast.Expr) (*types.Const, bool) {
	switch x := ast.Unparen(e).(type) {
	case *ast.Ident:
		k, ok := info.Uses[x].(*types.Const)
		return k, ok
	case *ast.SelectorExpr:
		k, ok := info.Uses[x.Sel].(*types.Const)
		return k, ok
	}
	return nil, false
}

func hasCallee(sc switchCase, f *types.Func) bool {
	for _, c := range sc.callees {
		if c == f {
			return true
		}
	}
	return false
}
