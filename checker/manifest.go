package main

import (
	"encoding/json"
	"fmt"
	"sort"
)

// notApplicable: properties not claimed, with the reason.
var notApplicable = map[string]string{}

func na(id, reason string) { notApplicable[id] = reason }

func printManifest(allProps []string) {
	type lvl struct {
		Category  string `json:"category"`
		Text      string `json:"text"`
		DesignRef string `json:"design_ref"`
	}
	type chk struct {
		PropertyID   string `json:"property_id"`
		QuickCmd     string `json:"quick_cmd"`
		ThoroughCmd  string `json:"thorough_cmd"`
		EvidenceFile string `json:"evidence_file"`
		ReplayCmd    string `json:"replay_cmd_template"`
		Engine       string `json:"engine"`
		Level        lvl    `json:"level_claimed"`
		LevelNote    string `json:"level_note"`
		Technique    string `json:"technique"`
	}
	checks := []chk{}
	var ids []string
	for id := range registry {
		if id == "C00" {
			continue
		}
		ids = append(ids, id)
	}
	sort.Strings(ids)
	for _, id := range ids {
		d := registry[id]
		checks = append(checks, chk{
			PropertyID: id, QuickCmd: "./check " + id + " quick", ThoroughCmd: "./check " + id + " thorough",
			EvidenceFile: "/verif/evidence/" + id + ".json", ReplayCmd: "./check " + id + " thorough  # violations are listed in {path} under coverage.not_discharged",
			Engine: "verifcheck",
			Level:  lvl{Category: "other", Text: d.explanation, DesignRef: "DESIGN.md §4 " + id},
			LevelNote: d.levelNote(), Technique: d.technique,
		})
	}
	type naT struct {
		PropertyID string `json:"property_id"`
		Reason     string `json:"reason"`
	}
	nas := []naT{}
	for _, id := range allProps {
		if _, ok := registry[id]; ok {
			continue
		}
		r, ok := notApplicable[id]
		if !ok {
			r = "no sound structural clause implemented; not claimed"
		}
		nas = append(nas, naT{id, r})
	}
	served := []string{}
	served = append(served, ids...)
	m := map[string]any{
		"version":   1,
		"setup_cmd": "./setup.sh",
		"hooks": map[string]any{
			"guard": "verif", "enable": "none: the checks are purely static and need no instrumentation of /repo (no hook commits)",
			"baseline_off_cmd": "cd /repo && go test -mod=mod -vet=off -count=1 -timeout 25m ./...", "source_commits": []string{}, "add_only": true,
		},
		"engines": []any{map[string]any{"name": "verifcheck", "path": "/verif/checker", "serves_properties": served,
			"kind_free_text": "repo-specific static analyser: go/packages + go/types resolved AST, go/cfg path rules (must-precede / must-follow / may-reach with branch-edge facts), lockset, go/ssa + VTA call-graph confinement, codec field-coverage, guarded arithmetic"}},
		"checks":         checks,
		"not_applicable": nas,
		"notes":          "Every check decides structural necessary conditions of its property from /repo's current source (no execution, no solver); what a check does not decide is stated in its level text and never reported as held. Quick = the deciding run (exit 0 held / exit 1 with a VIOLATION line; an obligation that can no longer be decided also fails). Thorough = the same deciding run plus the mutation self-test of the check (tools/selftest.sh: every mutant under /verif/mutants/<id> and every archived seeded change under /verif/seeded/<id>* is applied to a scratch copy of the current tree, outside /repo and /verif, and must be reported; exit 4 = the check missed a mutant and must not be believed). See DESIGN.md (section 5: reports on the unchanged tree and their triage; section 7: seeds and mutants; Appendix A: what each check decides). Known findings: /verif/known_findings.txt.",
	}
	b, _ := json.MarshalIndent(m, "", " ")
	fmt.Println(string(b))
}

func (d *propDef) levelNote() string {
	s := "Decides only the structural clauses named in the text; NOT decided: "
	if len(d.assumptions) == 0 {
		return s + "the dynamic behaviour itself. Trusted: go/types, go/cfg, go/ssa, VTA over-approximation, rule tables in the checker."
	}
	out := s
	for i, a := range d.assumptions {
		if i > 0 {
			out += "; "
		}
		out += a
	}
	return out + ". Trusted: go/types, go/cfg, go/ssa, VTA over-approximation, rule tables in the checker."
}
