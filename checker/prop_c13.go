package main

import (
	"go/ast"
	"go/types"
)

func init() {
	register(&propDef{
		id: "C13", title: "Stashed messages are neither lost, duplicated nor reordered",
		technique: "field-coverage rule on the context clone (every field of ReceiveContext is copied or exempted by name with a reason), value-provenance rule (only clones enter a second mailbox), loop-shape and error-edge rules on stash/unstash",
		explanation: "Decides: (1) a context enters the stash box or re-enters the mailbox only as the result of cloneContext (the live context is still linked into its mailbox through the intrusive next pointer); (2) cloneContext copies every field of ReceiveContext — message, sender, self, context, response channel, response state, request metadata, error — except the intrusive link 'next', so an unstashed message is handled exactly like the original (in particular an Ask keeps an open reply path); (3) stash/unstash/unstashAll report ErrStashBufferNotSet on the missing-buffer edge and ReceiveContext.Stash/Unstash/UnstashAll forward any error to Err; (4) unstashAll drains until empty with one re-enqueue per dequeued message, unstash moves exactly one (order rules shared with C03); (5) the stash box is touched only by these functions, the stash-size metric and the reentrancy stash path.",
		assumptions: []string{"order of unstashed messages relative to messages that arrive concurrently", "FIFO of the stash box itself (UnboundedMailbox, C04)"},
		minObl:     20,
		run:        runC13,
	})
}

func runC13(c *Ctx) {
	clone := c.Func("actor", "cloneContext")
	doReceive := c.FuncObj("actor", "PID.doReceive")
	box := c.Field("actor", "stashState", "box")

	c.Rule("clone-coverage", func() {
		rc := c.Named("actor", "ReceiveContext")
		st := rc.Underlying().(*types.Struct)
		info := clone.Info()
		assigned := map[string]bool{}
		// the clone is the variable the function returns; the original is its parameter
		var dstObj types.Object
		ast.Inspect(clone.Decl.Body, func(n ast.Node) bool {
			if r, ok := n.(*ast.ReturnStmt); ok && len(r.Results) == 1 {
				if o := objOf(info, r.Results[0]); o != nil {
					dstObj = o
				}
			}
			return true
		})
		ast.Inspect(clone.Decl.Body, func(n ast.Node) bool {
			switch x := n.(type) {
			case *ast.AssignStmt:
				for i, l := range x.Lhs {
					lf := selField(info, l)
					if lf == nil || i >= len(x.Rhs) {
						continue
					}
					if rf := selField(info, x.Rhs[i]); rf == lf {
						if o := objOf(info, l.(*ast.SelectorExpr).X); o != nil && o == dstObj {
							assigned[lf.Name()] = true
						}
					}
				}
			case *ast.CallExpr:
				// dst.f.Store(src.f.Load())
				if sel, ok := x.Fun.(*ast.SelectorExpr); ok && sel.Sel.Name == "Store" && len(x.Args) == 1 {
					lf := selField(info, sel.X)
					if inner, ok := x.Args[0].(*ast.CallExpr); ok {
						if isel, ok := inner.Fun.(*ast.SelectorExpr); ok && isel.Sel.Name == "Load" && selField(info, isel.X) == lf && lf != nil {
							assigned[lf.Name()] = true
						}
					}
				}
			}
			return true
		})
		exempt := map[string]string{"next": "intrusive mailbox link: the clone must start unlinked"}
		for i := 0; i < st.NumFields(); i++ {
			f := st.Field(i)
			if why, ok := exempt[f.Name()]; ok {
				c.Check(!assigned[f.Name()], "field/"+f.Name()+"/not-copied", "field is deliberately not copied: "+why, c.P.Pos(clone.Decl.Pos()), "the intrusive link is copied")
				continue
			}
			c.Check(assigned[f.Name()], "field/"+f.Name(), "cloneContext copies every message-scoped field of ReceiveContext (the destination comes from a pool and keeps stale values otherwise)", c.P.Pos(clone.Decl.Pos()),
				"field "+f.Name()+" is not copied: the clone keeps whatever the pooled context last held (e.g. a stale responseClosed=true makes the clone of an unanswered Ask drop its reply)")
		}
		// destination comes from the pool
		okDst := false
		ast.Inspect(clone.Decl.Body, func(n ast.Node) bool {
			if as, ok := n.(*ast.AssignStmt); ok && len(as.Rhs) == 1 {
				if call, ok := as.Rhs[0].(*ast.CallExpr); ok {
					if cal := callee(info, call); cal != nil && cal.Name() == "getContext" {
						okDst = true
					}
				}
			}
			return true
		})
		c.Check(okDst, "dst-from-pool", "the clone is a distinct context (from the pool), never the source itself", c.P.Pos(clone.Decl.Pos()), "")
	})

	c.Rule("only-clones-move", func() {
		for _, name := range []string{"PID.stash", "PID.unstash", "PID.unstashAll"} {
			fn := c.Func("actor", name)
			f := c.NewFlow(fn)
			info := f.Info
			n := 0
			for _, a := range f.Find(Or(f.CallOnField(box, "Enqueue"), f.CallTo(doReceive))) {
				n++
				call := a.N.(*ast.CallExpr)
				arg := ast.Unparen(call.Args[0])
				inner, ok := arg.(*ast.CallExpr)
				c.Check(ok && callee(info, inner) == clone.Obj, fn.String()+"/moves-a-clone", "what enters the stash box / re-enters the mailbox is cloneContext(...) of the message, never the context that is still linked in its mailbox", c.P.Pos(call.Pos()), "argument is "+types.ExprString(arg))
			}
			c.Check(n == 1, fn.String()+"/one-move-site", "one hand-over site per stash operation", c.P.Pos(fn.Decl.Pos()), "")
			// missing buffer → ErrStashBufferNotSet
			errNotSet := c.pkg("errors").Types.Scope().Lookup("ErrStashBufferNotSet")
			nilEdges := f.EdgesWhere(func(cond ast.Expr) (bool, bool) {
				cm, ok := asCmp(cond, true)
				if ok && isNilIdent(info, cm.R) {
					return true, true
				}
				return false, false
			})
			_ = nilEdges
			rets := 0
			for _, r := range f.Returns() {
				rs := r.N.(*ast.ReturnStmt)
				if len(rs.Results) == 1 && objOf(info, rs.Results[0]) == errNotSet {
					rets++
				}
			}
			c.Check(rets == 1, fn.String()+"/missing-buffer-error", "a missing stash buffer is reported as ErrStashBufferNotSet", c.P.Pos(fn.Decl.Pos()), "")
			// the hand-over is unreachable when the buffer is nil
			w := f.search(searchSpec{avoidEdges: f.EdgesWhere(func(cond ast.Expr) (bool, bool) {
				// state == nil || state.box == nil  : false edge has both non-nil facts
				cm, ok := asCmp(cond, true)
				if ok && isNilIdent(info, cm.R) {
					return true, false
				}
				return false, false
			}), target: Or(f.CallOnField(box, "Enqueue"), f.CallOnField(box, "Dequeue"))})
			c.Check(w == nil, fn.String()+"/nil-check≺use", "the stash box is used only after both the stash state and its box were found non-nil", c.P.Pos(fn.Decl.Pos()), f.describe(w))
		}
	})

	c.Rule("api-forwards-errors", func() {
		for api, impl := range map[string]string{"ReceiveContext.Stash": "PID.stash", "ReceiveContext.Unstash": "PID.unstash", "ReceiveContext.UnstashAll": "PID.unstashAll"} {
			fn := c.Func("actor", api)
			f := c.NewFlow(fn)
			target := c.FuncObj("actor", impl)
			fail, n := f.ErrEdgesOf(f.CallTo(target), true)
			w := f.AfterEdgesMustPass(fail, f.CallTo(c.FuncObj("actor", "ReceiveContext.Err")), nil)
			c.Check(n == 1 && w == nil && len(fail) > 0, api+"→"+impl, "the public method delegates to its stash operation and forwards a failure to Err", c.P.Pos(fn.Decl.Pos()), f.describe(w))
		}
	})

	c.Rule("box-confined", func() {
		allow := map[string]string{"actor.(*PID).stash": "", "actor.(*PID).unstash": "", "actor.(*PID).unstashAll": "", "actor.(*PID).StashSize": "metric (Len)", "actor.(*PID).toWireActor": "reports whether stashing is enabled",
			"actor.(*PID).toSerialize": "reports whether stashing is enabled", "actor.withStash": "spawn option constructor", "actor.(*PID).enableStash": "creates the box", "actor.(*PID).handleAsyncRequest": "", "actor.(*PID).registerRequestState": "creates the box for the reentrancy stash", "actor.(*PID).ensureStash": "creates the box"}
		for _, u := range c.UsesOf(box) {
			if u.Sel == nil || u.EnclObj == nil {
				continue
			}
			_, ok := allow[funcName(u.EnclObj)]
			// any function that only nil-tests or constructs is fine; flag functions that call Enqueue/Dequeue on the box
			isOp := false
			if len(u.Path) >= 2 {
				if sel, ok := u.Path[len(u.Path)-2].(*ast.SelectorExpr); ok && (sel.Sel.Name == "Enqueue" || sel.Sel.Name == "Dequeue") {
					isOp = true
				}
			}
			if !isOp {
				continue
			}
			c.Check(ok, "box-op@"+u.EnclName(), "the stash box is enqueued/dequeued only by stash, unstash and unstashAll", u.Where(c.P), "stash box operated on in "+u.EnclName())
		}
	})
}
