package main

import (
	"go/ast"
	"go/types"
)

func init() {
	register(&propDef{
		id: "C09", title: "Stopping an actor stops its whole subtree, children first",
		technique: "CFG ordering through the fail-fast chains of doStop, fan-out/join rule on freeChildren (every errgroup.Go joined by Wait before success), lockset on the actor tree, paired index-update rule, who-may-call on node removal",
		explanation: "Decides: (0) a local Shutdown returns success only after taking the stop lock (it waits for a stop in flight instead of returning early); (1) in doStop watchees are released, then children freed, then PostStop runs, then watchers are notified; PostStop is reached only if freeing the children succeeded; (2) freeChildren starts one stop task per element of tree.children(pid), each task shuts the child down when it is running or suspended, and every path to a successful return joins all tasks with Wait first (children complete before the parent's PostStop); a join error is returned; (3) every read/write of the tree indexes (pids, names, rootNode) and of every node's relation maps happens under tree.mu (write lock for mutations); *Locked helpers are only called with the lock held; (4) index pairing: every insertion into pids is paired with an insertion into names and one counter increment in the same block, every removal from pids with the name removal and one decrement; removal proceeds children before parents (post-order); (5) nodes are deleted only from the listed sites (death watch on Terminated, stop directive after a successful Shutdown, system shutdown, spawn rollback). Added after seed C09b: in restartChild, after the backoff sleep the child is un-watched / restarted only over the edge on which the supervising parent was found still running (a guard evaluated before the sleep does not count). Corrected with F27: a stop task skips Shutdown only when the child is neither running, suspended nor stopping (Shutdown of a stopping child blocks until the stop in flight has finished).",
		assumptions: []string{"concurrent overlapping stops/spawns of the same subtree", "'no actor of the subtree resolvable when Stop returns' depends on the asynchronous death watch removing nodes"},
		minObl:     47,
		run:        runC09,
	})
}

func runC09(c *Ctx) {
	doStop := c.Func("actor", "PID.doStop")
	postStop := c.FuncObj("actor", "Actor.PostStop")
	c.Rule("shutdown-waits", func() {
		// Shutdown reports success only from inside the stop lock: either it ran doStop itself, or it found the actor
		// offline AFTER waiting for a stop in flight (whose doStop frees the children before PostStop). A success return
		// that does not take the lock lets a second caller believe the subtree is down while it is still being stopped.
		sh := c.Func("actor", "PID.Shutdown")
		f := c.NewFlow(sh)
		lock := f.CallOnField(c.Field("actor", "PID", "stopLocker"), "Lock")
		retNil := func(n ast.Node) bool {
			r, ok := n.(*ast.ReturnStmt)
			return ok && len(r.Results) == 1 && isNilIdent(f.Info, r.Results[0])
		}
		w := f.MustPrecede(lock, nil, retNil)
		c.Check(w == nil && len(f.Find(retNil)) >= 1 && len(f.Find(lock)) == 1, "success-only-under-stop-lock", "a local Shutdown returns success only after taking the stop lock (it waits for a stop in flight instead of returning early)", c.P.Pos(sh.Decl.Pos()), f.describe(w))
	})

	c.Rule("delayed-restart", func() {
		// A backoff delay can outlive the supervising parent (its stop has, by then, shut the suspended child down and
		// removed both from the tree): after the sleep the parent's liveness is examined again before the child is
		// touched. A guard evaluated before the sleep says nothing about the moment the restart runs.
		rc := c.Func("actor", "PID.restartChild")
		f := c.NewFlow(rc)
		info := f.Info
		sleep := func(n ast.Node) bool {
			call, ok := n.(*ast.CallExpr)
			if !ok {
				return false
			}
			cal := callee(info, call)
			if cal == nil || cal.Pkg() == nil {
				return false
			}
			return (relPkg(cal.Pkg().Path()) == "internal/pause" && cal.Name() == "For") || qualifiedName(cal) == "time.Sleep"
		}
		sleeps := f.Find(sleep)
		restartObj := c.FuncObj("actor", "PID.Restart")
		touch := func(n ast.Node) bool {
			switch x := n.(type) {
			case *ast.CallExpr:
				if cal := callee(info, x); cal != nil && (cal == restartObj || cal.Name() == "UnWatch") {
					return true
				}
			case *ast.SelectorExpr:
				// spid.Restart passed as a method value (retrier.RunContext(ctx, spid.Restart))
				if sel, ok := info.Selections[x]; ok && sel.Obj() == types.Object(restartObj) {
					return true
				}
			}
			return false
		}
		recvParam := rc.Decl.Recv.List[0].Names[0]
		alive := f.BoolEdges(func(e ast.Expr) bool {
			call, ok := e.(*ast.CallExpr)
			if !ok {
				return false
			}
			cal := callee(info, call)
			return cal != nil && cal.Name() == "IsRunning" && objOf(info, recvExpr(call)) == info.ObjectOf(recvParam)
		}, true)
		if len(sleeps) == 0 || len(f.Find(touch)) == 0 {
			c.Undecided("recheck-after-sleep", "the supervising parent's liveness is re-examined after the backoff sleep", c.P.Pos(rc.Decl.Pos()), "sleep or restart site not found")
			return
		}
		w := f.search(searchSpec{starts: sleeps, avoidEdges: alive, target: touch})
		c.Check(w == nil && len(alive) > 0, "recheck-after-sleep", "after the backoff sleep the child is restarted only over the edge on which the supervising parent was found still running", c.P.Pos(rc.Decl.Pos()), f.describe(w))
	})

	c.Rule("dostop-order", func() {
		f := c.NewFlow(doStop)
		fwee := f.CallTo(c.FuncObj("actor", "PID.freeWatchees"))
		fch := f.CallTo(c.FuncObj("actor", "PID.freeChildren"))
		ps := f.CallTo(postStop)
		fwer := f.CallTo(c.FuncObj("actor", "PID.freeWatchers"))
		for _, pr := range []struct {
			k    string
			a, b Match
		}{{"freeWatchees≺freeChildren", fwee, fch}, {"freeChildren≺PostStop", fch, ps}, {"PostStop≺freeWatchers", ps, fwer}} {
			w := f.MustPrecede(pr.a, nil, pr.b)
			c.Check(w == nil && len(f.Find(pr.b)) == 1 && len(f.Find(pr.a)) == 1, pr.k, "doStop runs its phases in this order; a later phase runs only if the earlier one succeeded (fail-fast chain)", c.P.Pos(doStop.Decl.Pos()), f.describe(w))
		}
	})

	c.Rule("freeChildren", func() {
		fc := c.Func("actor", "PID.freeChildren")
		f := c.NewFlow(fc)
		info := f.Info
		children := c.FuncObj("actor", "tree.children")
		var rng *ast.RangeStmt
		var childrenObj types.Object
		ast.Inspect(fc.Decl.Body, func(n ast.Node) bool {
			if as, ok := n.(*ast.AssignStmt); ok && len(as.Rhs) == 1 {
				if call, ok := as.Rhs[0].(*ast.CallExpr); ok && callee(info, call) == children {
					childrenObj = info.ObjectOf(as.Lhs[0].(*ast.Ident))
				}
			}
			if r, ok := n.(*ast.RangeStmt); ok && childrenObj != nil && objOf(info, r.X) == childrenObj {
				rng = r
			}
			return true
		})
		if rng == nil {
			c.Fail("freeChildren: range over tree.children(pid) not found")
		}
		loopVar := info.ObjectOf(rng.Value.(*ast.Ident))
		// body: exactly one eg.Go(func) whose literal shuts the loop variable down under the running/suspended test
		goCalls, shut, guarded, early := 0, false, false, false
		shutdown := c.FuncObj("actor", "PID.Shutdown")
		for _, st := range rng.Body.List {
			es, ok := st.(*ast.ExprStmt)
			if !ok {
				early = true
				continue
			}
			call, ok := es.X.(*ast.CallExpr)
			if !ok {
				continue
			}
			if cal := callee(info, call); cal != nil && cal.Name() == "Go" && cal.Pkg() != nil && cal.Pkg().Path() == "golang.org/x/sync/errgroup" {
				goCalls++
				if lit, ok := call.Args[0].(*ast.FuncLit); ok {
					lf := c.NewLitFlow("freeChildren$task", info, lit)
					sd := lf.Find(func(n ast.Node) bool {
						cl, ok := n.(*ast.CallExpr)
						return ok && callee(info, cl) == shutdown && objOf(info, recvExpr(cl)) == loopVar
					})
					shut = len(sd) == 1
					alive := lf.EdgesWhere(func(cond ast.Expr) (bool, bool) {
						if cl, ok := cond.(*ast.CallExpr); ok {
							if cal := callee(info, cl); cal != nil && (cal.Name() == "IsRunning" || cal.Name() == "IsSuspended") && objOf(info, recvExpr(cl)) == loopVar {
								return true, true
							}
						}
						return false, false
					})
					_ = alive
					// the Shutdown is skipped only when the child is neither running nor suspended
					dead := map[Edge]bool{}
					for _, b := range lf.G.Blocks {
						if !b.Live || lf.Cond(b) == nil {
							continue
						}
						nR, nS, nSt := false, false, false
						for _, fact := range lf.EdgeFacts(b, 1) {
							if cl, ok := fact.E.(*ast.CallExpr); ok && !fact.Val {
								if cal := callee(info, cl); cal != nil && objOf(info, recvExpr(cl)) == loopVar {
									if cal.Name() == "IsRunning" {
										nR = true
									}
									if cal.Name() == "IsSuspended" {
										nS = true
									}
									if cal.Name() == "IsStopping" {
										nSt = true
									}
								}
							}
						}
						// F27: a child whose own stop is in flight is neither running nor suspended, yet not down: the
						// skip must also have established that it is not stopping
						if nR && nS && nSt {
							dead[Edge{b, 1}] = true
						}
					}
					w := lf.ExitReachable(nil, func(n ast.Node) bool { return len(sd) == 1 && n == sd[0].N }, dead, nil)
					guarded = w == nil && len(dead) > 0
				}
			}
		}
		c.Check(goCalls == 1 && !early, "one-task-per-child", "one stop task is started for every child returned by tree.children(pid)", c.P.Pos(rng.Pos()), "loop body changed")
		c.Check(shut && guarded, "task-stops-live-child", "each task shuts its child down (Shutdown blocks until a stop in flight has finished) unless the child is neither running, suspended nor stopping", c.P.Pos(rng.Pos()), "the task can finish without stopping, or waiting for, a child that is not down yet")
		// join before success
		wait := func(n ast.Node) bool {
			call, ok := n.(*ast.CallExpr)
			if !ok {
				return false
			}
			cal := callee(info, call)
			return cal != nil && cal.Name() == "Wait" && cal.Pkg() != nil && cal.Pkg().Path() == "golang.org/x/sync/errgroup"
		}
		goAtoms := f.Find(func(n ast.Node) bool {
			call, ok := n.(*ast.CallExpr)
			if !ok {
				return false
			}
			cal := callee(info, call)
			return cal != nil && cal.Name() == "Go" && cal.Pkg() != nil && cal.Pkg().Path() == "golang.org/x/sync/errgroup"
		})
		w := f.MustFollow(goAtoms, wait, nil)
		c.Check(w == nil && len(goAtoms) > 0, "join-before-return", "after starting the stop tasks every path to a return joins them with Wait (children finish before the parent continues)", c.P.Pos(fc.Decl.Pos()), f.describe(w))
		fail, n := f.ErrEdgesOf(wait, true)
		retNil := func(n ast.Node) bool {
			r, ok := n.(*ast.ReturnStmt)
			return ok && len(r.Results) == 1 && isNilIdent(info, r.Results[0])
		}
		w = f.AfterEdgesMayReach(fail, nil, nil, retNil)
		c.Check(n == 1 && w == nil, "join-error-propagates", "a failed child stop makes freeChildren fail (so PostStop of the parent does not run)", c.P.Pos(fc.Decl.Pos()), f.describe(w))
	})

	c.Rule("tree-locks", func() {
		mu := c.Field("actor", "tree", "mu")
		c.GuardedBy(guardSpec{name: "tree", lock: mu, fields: append(c.Fields("actor", "tree", "pids", "names", "rootNode"), c.Fields("actor", "pidNode", "watchers", "watchees", "descendants", "parentNode")...),
			exemptFns: map[string]string{"actor.newTree": "constructor", "actor.newPidNode": "constructor of an unpublished node"}})
	})

	c.Rule("index-pairing", func() {
		pids := c.Field("actor", "tree", "pids")
		names := c.Field("actor", "tree", "names")
		counter := c.Field("actor", "tree", "counter")
		seen := map[*types.Func]bool{}
		n := 0
		for _, u := range c.UsesOf(pids) {
			if !u.IsWrite || u.EnclObj == nil || seen[u.EnclObj] {
				continue
			}
			seen[u.EnclObj] = true
			fn := c.fnOfObj(u.EnclObj)
			f := c.NewFlow(fn)
			info := f.Info
			for _, b := range f.G.Blocks {
				if !b.Live {
					continue
				}
				var insP, insN, delP, delN, inc, dec int
				for _, nd := range b.Nodes {
					ast.Inspect(nd, func(m ast.Node) bool {
						switch x := m.(type) {
						case *ast.AssignStmt:
							for _, l := range x.Lhs {
								if ix, ok := l.(*ast.IndexExpr); ok {
									if selField(info, ix.X) == pids {
										insP++
									}
									if selField(info, ix.X) == names {
										insN++
									}
								}
							}
						case *ast.CallExpr:
							if id, ok := x.Fun.(*ast.Ident); ok && id.Name == "delete" && len(x.Args) == 2 {
								if selField(info, x.Args[0]) == pids {
									delP++
								}
								if selField(info, x.Args[0]) == names {
									delN++
								}
							}
							if f.CallOnField(counter, "Add")(x) {
								if v, ok := constInt(info, x.Args[0]); ok {
									if v > 0 {
										inc++
									} else {
										dec++
									}
								}
							}
							if f.CallOnField(counter, "Inc")(x) {
								inc++
							}
							if f.CallOnField(counter, "Dec")(x) {
								dec++
							}
						}
						return true
					})
				}
				if insP > 0 {
					n++
					c.Check(insP == 1 && insN == 1 && inc == 1, fn.String()+"/insert@"+c.P.Pos(b.Nodes[0].Pos()), "an insertion into the ID index comes with the name-index insertion and exactly one counter increment in the same straight-line block", c.P.Pos(b.Nodes[0].Pos()), "partial index update")
				}
			}
			// removal: delete(pids) ⇒◇ counter decrement, and the name removal is attempted on the way
			delPm := func(nd ast.Node) bool {
				call, ok := nd.(*ast.CallExpr)
				if !ok || len(call.Args) != 2 {
					return false
				}
				id, ok := call.Fun.(*ast.Ident)
				return ok && id.Name == "delete" && selField(info, call.Args[0]) == pids
			}
			dels := f.Find(delPm)
			if len(dels) > 0 {
				n++
				decM := func(nd ast.Node) bool {
					call, ok := nd.(*ast.CallExpr)
					if !ok || !f.CallOnField(counter, "Add")(call) {
						return false
					}
					v, ok := constInt(info, call.Args[0])
					return ok && v < 0
				}
				w := f.search(searchSpec{starts: dels, avoid: decM, avoidEdges: f.loopBackEdges(), exits: true})
				w2 := f.search(searchSpec{starts: dels, avoid: decM, target: delPm})
				c.Check(w == nil && w2 == nil, fn.String()+"/remove⇒decrement", "every removal from the ID index is followed by one counter decrement before the next removal or the exit", c.P.Pos(fn.Decl.Pos()), f.describe(w)+f.describe(w2))
				nameRead := func(nd ast.Node) bool { s, ok := nd.(*ast.SelectorExpr); return ok && selField(info, s) == names }
				w = f.search(searchSpec{starts: dels, avoid: nameRead, target: decM})
				c.Check(w == nil, fn.String()+"/remove⇒name-index", "the name index is consulted for the removed node before the removal is counted", c.P.Pos(fn.Decl.Pos()), f.describe(w))
			}
		}
		if n < 2 {
			c.Undecided("sites", "an insertion and a removal site of the ID index exist", "-", "found fewer")
		}
		// post-order: deleteNode iterates its collected nodes from the end
		dn := c.Func("actor", "tree.deleteNode")
		rev := false
		ast.Inspect(dn.Decl.Body, func(n ast.Node) bool {
			if fs, ok := n.(*ast.ForStmt); ok && fs.Post != nil {
				if inc, ok := fs.Post.(*ast.IncDecStmt); ok && inc.Tok.String() == "--" {
					rev = true
				}
			}
			return true
		})
		c.Check(rev, "deleteNode/children-first", "deleteNode removes the collected subtree in reverse (children before parents)", c.P.Pos(dn.Decl.Pos()), "the removal loop does not run backwards over the pre-order list")
	})

	c.Rule("who-deletes", func() {
		c.WhoMayCall("who", c.FuncObj("actor", "tree.deleteNode"), map[string]string{
			"actor.(*deathWatch).handleTerminated": "death watch on Terminated", "actor.(*PID).handleStopDirective": "supervisor stop after a successful Shutdown",
			"actor.(*actorSystem).shutdown": "system shutdown", "actor.(*actorSystem).rollbackSpawn": "spawn rollback", "actor.(*actorSystem).completeSpawn": "spawn rollback",
			"actor.(*actorSystem).attachAndPublish": "spawn rollback", "actor.(*PID).SpawnChild": "spawn rollback", "actor.(*PID).spawnChildLocal": "spawn rollback",
			"actor.(*actorSystem).Stop": "system shutdown", "actor.(*actorSystem).resetState": "system shutdown", "actor.(*actorSystem).reset": "system shutdown",
		})
	})
}
