package main

import (
	"go/ast"
	"go/types"
)

func init() {
	register(&propDef{
		id: "C18", title: "Undeliverable messages surface as dead letters exactly once",
		technique: "drop-path discipline over the CFG (every failure exit passes exactly one dead-letter publication unless it is a documented no-information exit), loop-shape rule for batch failures, field-coverage rule on the Deadletter literal, same-path rule for counter and event",
		explanation: "Decides: (1) deliverRemoteTellMessage: every exit other than a successful dispatch passes deadLetterRemoteMessage, except the two documented no-information exits (payload cannot be decoded; receiver address cannot be parsed), and no path publishes twice; (2) the local drop paths: doReceive routes a rejected enqueue and a stopping system to handleReceivedError and never also enqueues (C02/C17), Unhandled reaches handleReceivedError exactly once, handleReceivedErrorWithMessage forwards everything except the three recursion-guard message types to toDeadletter exactly once; (3) a failed coalesced batch yields one dead-letter publication per message of the batch (loop over the batch, one call per element, skipped only when that element cannot be decoded); (4) the dead-letter actor increments its counter and publishes the event on the same path, once per SendDeadletter; (5) every construction of the Deadletter payload sets Sender, Receiver, Message, Reason and SendTime. Added after seed C18a: each dead letter of a failed coalesced batch carries the sender and receiver derived from its own message inside the iteration. Added after seed C18b: deliverRemoteTellMessage hands the message to its target only over the edge on which the target's IsRunning() (the full liveness predicate) was true.",
		assumptions: []string{"count equality under concurrent traffic and a full fan-out queue (enqueueCoalescedFailure drops the hand-off when its queue is full or the system is shutting down: logged, not dead-lettered)", "a missing event stream or dead-letter actor (system not fully started) drops silently by design"},
		minObl:     14,
		run:        runC18,
	})
}

func runC18(c *Ctx) {
	dl := c.FuncObj("actor", "actorSystem.deadLetterRemoteMessage")
	c.Rule("remote-tell", func() {
		fn := c.Func("actor", "actorSystem.deliverRemoteTellMessage")
		f := c.NewFlow(fn)
		info := f.Info
		pub := f.CallTo(dl)
		// exempt edges: (a) Deserialize error, (b) parseForFailure !ok, (c) handleRemoteTell success
		deser, _ := f.ErrEdgesOf(func(n ast.Node) bool {
			call, ok := n.(*ast.CallExpr)
			if !ok {
				return false
			}
			cal := callee(info, call)
			return cal != nil && cal.Name() == "Deserialize"
		}, true)
		oks := commaOkLocals(info, fn.Decl.Body)
		parseBad := f.EdgesWhere(func(cond ast.Expr) (bool, bool) {
			if id, ok := cond.(*ast.Ident); ok && oks[info.ObjectOf(id)] {
				return true, false
			}
			return false, false
		})
		okSend, nSend := f.ErrEdgesOf(f.CallTo(c.FuncObj("actor", "actorSystem.handleRemoteTell")), false)
		exempt := map[Edge]bool{}
		for _, m := range []map[Edge]bool{deser, parseBad, okSend} {
			for e := range m {
				exempt[e] = true
			}
		}
		w := f.search(searchSpec{avoid: pub, avoidEdges: exempt, exits: true})
		c.Check(w == nil && len(deser) > 0 && len(parseBad) >= 5 && nSend == 1, "every-failure-is-dead-lettered", "every exit other than a successful dispatch publishes a dead letter, except undecodable payload / unparseable receiver", c.P.Pos(fn.Decl.Pos()), f.describe(w))
		// the message is handed to the target only over the edge on which the target reported IsRunning() — the full
		// liveness predicate (running and not stopping, passivating or suspended). A weaker test (the running flag
		// alone) enqueues on a mailbox that is being torn down: the message is discarded with no dead letter.
		dispatch := f.CallTo(c.FuncObj("actor", "actorSystem.handleRemoteTell"))
		alive := f.BoolEdges(func(e ast.Expr) bool {
			call, ok := ast.Unparen(e).(*ast.CallExpr)
			return ok && callee(info, call) == c.FuncObj("actor", "PID.IsRunning")
		}, true)
		c.guardedBy(f, alive, dispatch, "dispatch-only-if-running", "a remote tell is handed to its target only over the edge on which the target's IsRunning() was true (else it is dead-lettered)", c.P.Pos(fn.Decl.Pos()))
		w = f.MayReach(f.Find(pub), nil, pub)
		c.Check(w == nil && len(f.Find(pub)) >= 5, "at-most-once", "no path publishes a dead letter twice for one message", c.P.Pos(fn.Decl.Pos()), f.describe(w))
		// the success edge does not publish
		w = f.AfterEdgesMayReach(okSend, nil, nil, pub)
		c.Check(w == nil, "delivered⇏dead-letter", "a delivered message is never also dead-lettered", c.P.Pos(fn.Decl.Pos()), f.describe(w))
	})

	c.Rule("local", func() {
		un := c.Func("actor", "ReceiveContext.Unhandled")
		uf := c.NewFlow(un)
		hre := uf.CallTo(c.FuncObj("actor", "PID.handleReceivedError"))
		w := uf.ExitReachable(nil, hre, nil, nil)
		c.Check(w == nil && len(uf.Find(hre)) == 1, "Unhandled/once", "Unhandled reports the message exactly once", c.P.Pos(un.Decl.Pos()), uf.describe(w))
		he := c.Func("actor", "PID.handleReceivedErrorWithMessage")
		hf := c.NewFlow(he)
		info := hf.Info
		td := hf.CallTo(c.FuncObj("actor", "PID.toDeadletter"))
		c.Check(len(hf.Find(td)) == 1, "handleReceivedError/one-publication-site", "one toDeadletter site", c.P.Pos(he.Decl.Pos()), "")
		w = hf.MayReach(hf.Find(td), nil, td)
		c.Check(w == nil, "handleReceivedError/at-most-once", "at most one dead letter per reported message", c.P.Pos(he.Decl.Pos()), hf.describe(w))
		// the recursion guard lists exactly PostStart, Terminated, SendDeadletter
		var guard []string
		ast.Inspect(he.Decl.Body, func(n ast.Node) bool {
			if cc, ok := n.(*ast.CaseClause); ok && cc.List != nil {
				for _, e := range cc.List {
					if t := info.TypeOf(e); t != nil {
						guard = append(guard, types.TypeString(t, func(p *types.Package) string { return p.Name() }))
					}
				}
			}
			return true
		})
		want := map[string]bool{"*actor.PostStart": true, "*actor.Terminated": true, "*commands.SendDeadletter": true}
		okGuard := len(guard) == 3
		for _, g := range guard {
			if !want[g] {
				okGuard = false
			}
		}
		c.Check(okGuard, "handleReceivedError/skip-list", "only PostStart, Terminated and SendDeadletter are exempt from dead-lettering (recursion guard)", c.P.Pos(he.Decl.Pos()), "skip list is "+joinStr(guard))
		h := c.Func("actor", "PID.handleReceivedError")
		hh := c.NewFlow(h)
		c.Check(len(hh.Find(hh.CallTo(he.Obj))) == 1, "handleReceivedError→WithMessage", "handleReceivedError forwards to the single publication path", c.P.Pos(h.Decl.Pos()), "")
	})

	c.Rule("coalesced-batch", func() {
		fn := c.Func("actor", "actorSystem.drainCoalescedFailures")
		info := fn.Info()
		var inner *ast.RangeStmt
		ast.Inspect(fn.Decl.Body, func(n ast.Node) bool {
			if r, ok := n.(*ast.RangeStmt); ok {
				if f := selField(info, r.X); f != nil && f.Name() == "messages" {
					inner = r
				}
			}
			return true
		})
		if inner == nil {
			c.Fail("drainCoalescedFailures: loop over failure.messages not found")
		}
		body := &ast.FuncLit{Type: &ast.FuncType{}, Body: inner.Body}
		lf := c.NewLitFlow("drainCoalescedFailures$msg", info, body)
		pub := lf.CallTo(dl)
		parseFail, _ := lf.ErrEdgesOf(func(n ast.Node) bool {
			call, ok := n.(*ast.CallExpr)
			if !ok {
				return false
			}
			cal := callee(info, call)
			return cal != nil && (cal.Name() == "Parse" || cal.Name() == "Deserialize")
		}, true)
		w := lf.search(searchSpec{avoid: pub, avoidEdges: parseFail, exits: true})
		c.Check(w == nil && len(lf.Find(pub)) == 1 && len(parseFail) == 2, "one-per-message", "each message of a failed batch is dead-lettered once (skipped only when it cannot be decoded)", c.P.Pos(inner.Pos()), lf.describe(w))
		// sender and receiver of each dead letter are derived from the message of the same iteration
		msgObj := info.ObjectOf(inner.Value.(*ast.Ident))
		derived := func(e ast.Expr, getter string) bool {
			// e, possibly through one single-definition local declared inside the loop body, mentions <msg>.<getter>()
			var fromMsg func(x ast.Expr, depth int) bool
			fromMsg = func(x ast.Expr, depth int) bool {
				found := false
				ast.Inspect(x, func(n ast.Node) bool {
					call, ok := n.(*ast.CallExpr)
					if ok && isCallNamed(info, call, getter) {
						if id, ok := ast.Unparen(recvExpr(call)).(*ast.Ident); ok && info.ObjectOf(id) == msgObj {
							found = true
						}
					}
					if id, ok := n.(*ast.Ident); ok && depth < 3 && !found {
						obj := info.ObjectOf(id)
						if obj != nil && obj.Pos() >= inner.Body.Pos() && obj.Pos() <= inner.Body.End() {
							if def := singleLocalDef(info, fn.Decl, obj); def != nil && fromMsg(def, depth+1) {
								found = true
							}
						}
					}
					return !found
				})
				return found
			}
			return fromMsg(e, 0)
		}
		for _, a := range lf.FindOnce(pub) {
			call := a.N.(*ast.CallExpr)
			okS := len(call.Args) >= 2 && derived(call.Args[0], "GetSender")
			okR := len(call.Args) >= 2 && derived(call.Args[1], "GetReceiver")
			c.Check(okS, "per-message-sender", "each dead letter of a failed batch carries the sender of its own message (resolved inside the iteration)", c.P.Pos(call.Pos()), "the sender handed to the dead letter is not derived from this iteration's message.GetSender()")
			c.Check(okR, "per-message-receiver", "each dead letter of a failed batch carries the receiver of its own message", c.P.Pos(call.Pos()), "the receiver is not derived from this iteration's message.GetReceiver()")
		}
		hasBreak := false
		ast.Inspect(inner.Body, func(n ast.Node) bool {
			if br, ok := n.(*ast.BranchStmt); ok && br.Tok.String() == "break" {
				hasBreak = true
			}
			if _, ok := n.(*ast.ReturnStmt); ok {
				hasBreak = true
			}
			return true
		})
		c.Check(!hasBreak, "no-early-exit", "an undecodable message does not stop the fan-out for the rest of the batch", c.P.Pos(inner.Pos()), "break/return in the batch loop")
		// the error handler hands the whole batch to the queue
		eq := c.Func("actor", "actorSystem.enqueueCoalescedFailure")
		okHand := false
		ast.Inspect(eq.Decl.Body, func(n ast.Node) bool {
			if cl, ok := n.(*ast.CompositeLit); ok {
				for _, el := range cl.Elts {
					if kv, ok := el.(*ast.KeyValueExpr); ok {
						if id, ok := kv.Key.(*ast.Ident); ok && id.Name == "messages" {
							ps := eq.Obj.Type().(*types.Signature).Params()
							for i := 0; i < ps.Len(); i++ {
								if _, isSlice := ps.At(i).Type().Underlying().(*types.Slice); isSlice && objOf(eq.Info(), kv.Value) == types.Object(ps.At(i)) {
									okHand = true
								}
							}
						}
					}
				}
			}
			return true
		})
		c.Check(okHand, "handler-hands-whole-batch", "the coalescer's error handler hands the whole failed batch to the dead-letter fan-out", c.P.Pos(eq.Decl.Pos()), "")
	})

	c.Rule("dead-letter-actor", func() {
		fn := c.Func("actor", "deadLetter.handleDeadletter")
		f := c.NewFlow(fn)
		counter := c.Field("actor", "deadLetter", "counter")
		inc := f.CallOnField(counter, "Inc")
		pub := func(n ast.Node) bool {
			call, ok := n.(*ast.CallExpr)
			if !ok {
				return false
			}
			cal := callee(f.Info, call)
			return cal != nil && cal.Name() == "Publish"
		}
		w1 := f.ExitReachable(nil, inc, nil, nil)
		w2 := f.ExitReachable(nil, pub, nil, nil)
		c.Check(w1 == nil && w2 == nil && len(f.Find(inc)) == 1 && len(f.Find(pub)) == 1, "count-and-publish-together", "every SendDeadletter increments the counter and publishes the event, once each, on every path", c.P.Pos(fn.Decl.Pos()), f.describe(w1)+f.describe(w2))
		rc := c.Func("actor", "deadLetter.Receive")
		n := 0
		for _, u := range c.UsesOf(fn.Obj) {
			if u.EnclObj == rc.Obj {
				n++
			}
		}
		c.Check(n == 1, "one-dispatch-site", "handleDeadletter is dispatched from one case of the actor's Receive", c.P.Pos(rc.Decl.Pos()), "")
	})

	c.Rule("payload-fields", func() {
		dlT := c.Named("internal/commands", "Deadletter")
		need := []string{"Sender", "Receiver", "Message", "Reason", "SendTime"}
		n := 0
		for _, pk := range c.P.Pkgs {
			if relPkg(pk.PkgPath) != "actor" {
				continue
			}
			for _, file := range pk.Syntax {
				ast.Inspect(file, func(nd ast.Node) bool {
					cl, ok := nd.(*ast.CompositeLit)
					if !ok {
						return true
					}
					t := pk.TypesInfo.TypeOf(cl)
					if t == nil || !types.Identical(types.Unalias(t), dlT) {
						return true
					}
					n++
					set := map[string]bool{}
					for _, el := range cl.Elts {
						if kv, ok := el.(*ast.KeyValueExpr); ok {
							set[kv.Key.(*ast.Ident).Name] = true
						}
					}
					missing := ""
					for _, k := range need {
						if !set[k] {
							missing += k + " "
						}
					}
					c.Check(missing == "", "literal@"+c.P.Pos(cl.Pos()), "a Deadletter payload carries sender, receiver, message, reason and send time", c.P.Pos(cl.Pos()), "missing "+missing)
					return true
				})
			}
		}
		if n < 2 {
			c.Undecided("count", "at least 2 Deadletter construction sites", "-", "found fewer")
		}
	})
}

func joinStr(xs []string) string {
	s := ""
	for i, x := range xs {
		if i > 0 {
			s += ", "
		}
		s += x
	}
	return s
}
