package main

import (
	"go/ast"
	"go/constant"
	"go/token"
	"go/types"
)

// stripConv removes parentheses and type conversions (T(x)) around an expression.
func stripConv(info *types.Info, e ast.Expr) ast.Expr {
	for {
		e = ast.Unparen(e)
		call, ok := e.(*ast.CallExpr)
		if !ok || len(call.Args) != 1 {
			return e
		}
		if tv, ok := info.Types[call.Fun]; ok && tv.IsType() {
			e = call.Args[0]
			continue
		}
		return e
	}
}

// objOf returns the variable denoted by e after stripping conversions (ident or field selector).
func objOf(info *types.Info, e ast.Expr) types.Object {
	e = stripConv(info, e)
	switch x := e.(type) {
	case *ast.Ident:
		return info.ObjectOf(x)
	case *ast.SelectorExpr:
		return info.ObjectOf(x.Sel)
	}
	return nil
}

func sameVar(info *types.Info, a, b ast.Expr) bool {
	oa, ob := objOf(info, a), objOf(info, b)
	return oa != nil && oa == ob
}

// constInt returns the constant integer value of e, if any.
func constInt(info *types.Info, e ast.Expr) (int64, bool) {
	tv, ok := info.Types[e]
	if !ok || tv.Value == nil {
		return 0, false
	}
	v := constant.ToInt(tv.Value)
	if v.Kind() != constant.Int {
		return 0, false
	}
	i, exact := constant.Int64Val(v)
	return i, exact
}

// cmp describes a normalised comparison  L op R.
type cmp struct {
	L, R ast.Expr
	Op   token.Token
}

// asCmp normalises fact (e == val) into a comparison; !(<) becomes >= etc.
func asCmp(e ast.Expr, val bool) (cmp, bool) {
	be, ok := ast.Unparen(e).(*ast.BinaryExpr)
	if !ok {
		return cmp{}, false
	}
	op := be.Op
	switch op {
	case token.LSS, token.LEQ, token.GTR, token.GEQ, token.EQL, token.NEQ:
	default:
		return cmp{}, false
	}
	if !val {
		switch op {
		case token.LSS:
			op = token.GEQ
		case token.LEQ:
			op = token.GTR
		case token.GTR:
			op = token.LEQ
		case token.GEQ:
			op = token.LSS
		case token.EQL:
			op = token.NEQ
		case token.NEQ:
			op = token.EQL
		}
	}
	return cmp{be.X, be.Y, op}, true
}

// flip returns the comparison with sides swapped.
func (c cmp) flip() cmp {
	op := c.Op
	switch c.Op {
	case token.LSS:
		op = token.GTR
	case token.LEQ:
		op = token.GEQ
	case token.GTR:
		op = token.LSS
	case token.GEQ:
		op = token.LEQ
	}
	return cmp{c.R, c.L, op}
}

// isSignedInt reports whether t is a signed integer type.
func isSignedInt(t types.Type) bool {
	b, ok := t.Underlying().(*types.Basic)
	return ok && b.Info()&types.IsInteger != 0 && b.Info()&types.IsUnsigned == 0
}

func isUnsignedInt(t types.Type) bool {
	b, ok := t.Underlying().(*types.Basic)
	return ok && b.Info()&types.IsUnsigned != 0
}
