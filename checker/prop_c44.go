package main

import (
	"go/ast"
	"go/token"
	"go/types"
)

func init() {
	register(&propDef{
		id: "C44", title: "Work-pulling delivers every job to some worker",
		technique: "conservation rules on the CFG (a job leaves one container only into another), field write tables with value shapes, guard dominance (edge facts), who-may-call confinement over the work-pulling producer controller",
		explanation: "Decides job conservation inside the work-pulling controller: a job lives in exactly one of {pending pool, a binding's unconfirmed list} until it is confirmed, and every move keeps it: (1) pending shrinks only in dispatchPending, where the removed head is appended to the chosen binding's unconfirmed list and emitted on every non-terminal path; pending grows only by acceptance (guarded by !owns, so a resubmitted job is not duplicated), by reload, and by requeue; (2) a binding is removed from the table only in endBinding, which first returns all of its unconfirmed jobs to the head of the pending pool with their MessageID, store sequence and payload; a replaced binding is ended before the new one is installed; every caller of endBinding runs progress() afterwards so requeued jobs are dispatched to the remaining workers; a worker's termination ends its binding; (3) entries leave an unconfirmed list only in advanceConfirmed as the prefix with workerSeq ≤ the confirmation, which is applied only for an authenticated binding after the range check; the producer-side confirmation notice is sent for exactly that prefix, once; a (re)registering worker is told to resume after its last CONFIRMED sequence (confirmedSeq+1); (4) worker sequences are assigned contiguously (currentSeq++ at dispatch) and emission is demand-checked (C43). That some worker eventually confirms (liveness) and exactly-once under all join/leave/fault histories are NOT decided. Added after seed C44b: in handleRegisterConsumer a binding is created only after its companion was watched on every path.",
		assumptions: []string{"actor turn atomicity", "liveness of workers and timers", "durable queue contract (reload returns every unconfirmed job)"},
		minObl:     39,
		run:        runC44,
	})
}

func runC44(c *Ctx) {
	wp := func(f string) *types.Var { return c.Field("actor", "workPullingProducerController", f) }
	bw := func(f string) *types.Var { return c.Field("actor", "bindingWork", f) }
	wpFn := func(n string) *types.Func { return c.FuncObj("actor", "workPullingProducerController."+n) }
	pending, bindings, order := wp("pending"), wp("bindings"), wp("bindingOrder")
	bUnconf, bCur, bConf := bw("unconfirmed"), bw("currentSeq"), bw("confirmedSeq")
	P := "actor.(*workPullingProducerController)."

	c.Rule("containers", func() {
		c.checkWrites("wp", pending, map[string][]string{
			P + "PreStart":        {"nil", "call:actor.pendingFromWorkQueueState"},
			P + "completeAccept":  {"append(self)"},
			P + "dispatchPending": {"elem:lit", "self[1:]"},
			P + "endBinding":      {"append(other,self...)"},
		}, "the pending pool changes only by acceptance, reload, dispatch of its head, and requeue at the head")
		c.checkWrites("bw", bUnconf, map[string][]string{
			P + "dispatchPending":  {"append(self)"},
			P + "advanceConfirmed": {"slices.Delete(self)"},
		}, "a binding's unconfirmed list grows only at dispatch and shrinks only by the confirmed prefix")
		c.checkWrites("wp", bindings, map[string][]string{
			"actor.newWorkPullingProducerController": {"make"},
			P + "PreStart":                            {"make"},
			P + "handleRegisterConsumer":              {"elem:lit"},
			P + "endBinding":                          {"delete()"},
		}, "bindings are installed only by an authenticated registration and removed only by endBinding")
		c.checkWrites("bw", bCur, map[string][]string{P + "dispatchPending": {"++"}}, "worker sequences are assigned contiguously at dispatch")
		c.checkWrites("bw", bConf, map[string][]string{P + "advanceConfirmed": {"var:$param"}}, "a binding's watermark moves only in advanceConfirmed")
		_ = order
	})

	c.Rule("dispatch", func() {
		fn := c.Func("actor", "workPullingProducerController.dispatchPending")
		f := c.NewFlow(fn)
		info := f.Info
		pop := func(n ast.Node) bool {
			as, ok := n.(*ast.AssignStmt)
			if !ok || len(as.Lhs) != 1 || selField(info, as.Lhs[0]) != pending {
				return false
			}
			_, isSlice := ast.Unparen(as.Rhs[0]).(*ast.SliceExpr)
			return isSlice
		}
		push := assignTo(info, bUnconf)
		term := f.CallTo(wpFn("terminate"))
		pops := f.Find(pop)
		w := f.search(searchSpec{starts: pops, avoid: Or(push, term), exits: true})
		c.Check(len(pops) == 1 && w == nil, "pop⇒push", "a job removed from the pending pool is appended to a binding's unconfirmed list (or the controller terminates)", c.P.Pos(fn.Decl.Pos()), f.describe(w))
		// nor may the loop come round to the next pop without the push
		w = f.search(searchSpec{starts: pops, avoid: Or(push, term), target: pop})
		c.Check(w == nil, "pop⇒push/loop", "no second job is taken before the first one is recorded", c.P.Pos(fn.Decl.Pos()), f.describe(w))
		emit := f.CallTo(wpFn("emitSequenced"))
		w = f.MustFollow(f.Find(push), emit, nil)
		c.Check(w == nil, "push⇒emit", "a dispatched job is emitted to its worker", c.P.Pos(fn.Decl.Pos()), f.describe(w))
		// the dispatched record carries the popped job: messageID, storeSeq, payload taken from the popped element, workerSeq from the binding's counter
		var lit *ast.CompositeLit
		ast.Inspect(fn.Decl.Body, func(n ast.Node) bool {
			if cl, ok := n.(*ast.CompositeLit); ok {
				if named := namedOf(info.TypeOf(cl)); named != nil && named.Obj().Name() == "dispatchedWork" {
					lit = cl
				}
			}
			return true
		})
		checkCopyLit(c, info, lit, "dispatched-record", map[string]string{"messageID": ".messageID", "storeSeq": ".storeSeq", "payload": ".payload", "workerSeq": ".currentSeq"}, c.P.Pos(fn.Decl.Pos()))
		// a binding is chosen only with free demand
		ne := c.Func("actor", "workPullingProducerController.nextEligibleBinding")
		nf := c.NewFlow(ne)
		free := nf.FactEdges(func(cm cmp) bool { v, isC := constInt(nf.Info, cm.R); return cm.Op == token.GTR && isCallNamed(nf.Info, cm.L, "freeDemand") && isC && v == 0 })
		retBinding := func(n ast.Node) bool {
			r, ok := n.(*ast.ReturnStmt)
			return ok && len(r.Results) == 1 && !isNilIdent(nf.Info, r.Results[0])
		}
		c.guardedBy(nf, free, retBinding, "eligible⇒free-demand", "a binding is chosen for dispatch only when it has free demand", c.P.Pos(ne.Decl.Pos()))
	})

	c.Rule("end-binding", func() {
		eb := wpFn("endBinding")
		fn := c.Func("actor", "workPullingProducerController.endBinding")
		f := c.NewFlow(fn)
		info := f.Info
		drop := func(n ast.Node) bool {
			call, ok := n.(*ast.CallExpr)
			if !ok || len(call.Args) != 2 {
				return false
			}
			id, ok := call.Fun.(*ast.Ident)
			return ok && id.Name == "delete" && selField(info, call.Args[0]) == bindings
		}
		requeue := assignTo(info, pending)
		empty := f.FactEdges(func(cm cmp) bool {
			call, ok := ast.Unparen(cm.L).(*ast.CallExpr)
			if !ok || len(call.Args) != 1 {
				return false
			}
			id, ok := call.Fun.(*ast.Ident)
			v, isC := constInt(info, cm.R)
			return ok && id.Name == "len" && isFieldSel(info, call.Args[0], bUnconf) && cm.Op == token.LEQ && isC && v == 0
		})
		w := f.search(searchSpec{avoid: requeue, avoidEdges: empty, target: drop})
		c.Check(w == nil && len(f.Find(drop)) == 1 && len(empty) > 0, "requeue≺drop", "a binding is dropped only after its unconfirmed jobs were returned to the pending pool (or it had none)", c.P.Pos(fn.Decl.Pos()), f.describe(w))
		// requeue covers the whole list with all job fields
		var lit *ast.CompositeLit
		var rng *ast.RangeStmt
		ast.Inspect(fn.Decl.Body, func(n ast.Node) bool {
			switch x := n.(type) {
			case *ast.RangeStmt:
				if isFieldSel(info, x.X, bUnconf) {
					rng = x
				}
			case *ast.CompositeLit:
				if named := namedOf(info.TypeOf(x)); named != nil && named.Obj().Name() == "pendingWork" {
					lit = x
				}
			}
			return true
		})
		c.Check(rng != nil && lit != nil && rng.Pos() < lit.Pos() && lit.End() < rng.End(), "requeue/all-entries", "the requeue iterates over the whole unconfirmed list", c.P.Pos(fn.Decl.Pos()), "no range over binding.unconfirmed building pendingWork entries")
		checkCopyLit(c, info, lit, "requeue-record", map[string]string{"messageID": ".messageID", "storeSeq": ".storeSeq", "payload": ".payload"}, c.P.Pos(fn.Decl.Pos()))

		// callers: progress() follows, so requeued jobs are re-dispatched
		progress := wpFn("progress")
		c.WhoMayCall("who", eb, map[string]string{P + "handleRegisterConsumer": "replaced companion", P + "handleRequest": "illegal demand range", P + "handleAck": "illegal confirmation", P + "handleTerminated": "worker terminated"})
		for _, name := range []string{"handleRegisterConsumer", "handleRequest", "handleAck", "handleTerminated"} {
			cf := c.Func("actor", "workPullingProducerController."+name)
			ff := c.NewFlow(cf)
			ends := ff.Find(ff.CallTo(eb))
			w := ff.search(searchSpec{starts: ends, avoid: Or(ff.CallTo(progress), ff.CallTo(wpFn("terminate"))), exits: true})
			c.Check(len(ends) > 0 && w == nil, "end⇒progress/"+name, "after a binding ends, pending jobs (including the requeued ones) are dispatched to the remaining workers", c.P.Pos(cf.Decl.Pos()), ff.describe(w))
		}
		// replacing a binding ends the old one first
		rc := c.Func("actor", "workPullingProducerController.handleRegisterConsumer")
		rf := c.NewFlow(rc)
		rinfo := rf.Info
		install := func(n ast.Node) bool {
			as, ok := n.(*ast.AssignStmt)
			if !ok || len(as.Lhs) != 1 {
				return false
			}
			ix, ok := as.Lhs[0].(*ast.IndexExpr)
			return ok && selField(rinfo, ix.X) == bindings
		}
		var bindingVar types.Object
		ast.Inspect(rc.Decl.Body, func(n ast.Node) bool {
			if as, ok := n.(*ast.AssignStmt); ok && as.Tok == token.DEFINE && len(as.Rhs) == 1 {
				if ix, ok := as.Rhs[0].(*ast.IndexExpr); ok && selField(rinfo, ix.X) == bindings {
					bindingVar = rinfo.Defs[as.Lhs[0].(*ast.Ident)]
				}
			}
			return true
		})
		wasNil := rf.NilCheckEdges(func(e ast.Expr) bool { id, ok := e.(*ast.Ident); return ok && bindingVar != nil && rinfo.ObjectOf(id) == bindingVar }, false)
		// only the innermost check `if binding != nil { endBinding }` counts: its nil edge or the endBinding call
		w = rf.search(searchSpec{avoid: rf.CallTo(eb), avoidEdges: innerNilEdges(rf, wasNil, rf.CallTo(eb)), target: install})
		c.Check(w == nil && len(rf.Find(install)) == 1, "replace⇒end-old", "a new binding replaces an existing one only after the old one was ended (its jobs requeued)", c.P.Pos(rc.Decl.Pos()), rf.describe(w))
		// authentication precedes installation
		errEdges, _ := rf.ErrEdgesOf(func(n ast.Node) bool { e, ok := n.(ast.Expr); return ok && isCallNamed(rinfo, e, "authenticateWorkPullingWorker") }, false)
		w = rf.search(searchSpec{avoidEdges: errEdges, target: install})
		c.Check(w == nil && len(errEdges) > 0, "install⇒authenticated", "a binding is installed only for an authenticated worker", c.P.Pos(rc.Decl.Pos()), rf.describe(w))

		// worker death ends the binding
		ht := c.Func("actor", "workPullingProducerController.handleTerminated")
		hf := c.NewFlow(ht)
		hinfo := hf.Info
		match := hf.BoolEdges(func(e ast.Expr) bool {
			call, ok := e.(*ast.CallExpr)
			return ok && isCallNamed(hinfo, call, "Equals") && len(call.Args) == 1 && containsField(hinfo, call.Args[0], bw("controller"))
		}, true)
		w = hf.AfterEdgesMustPass(match, hf.CallTo(eb), nil)
		c.Check(w == nil && len(match) > 0, "terminated⇒end", "the termination of a worker's controller ends its binding", c.P.Pos(ht.Decl.Pos()), hf.describe(w))
	})

	c.Rule("confirmation", func() {
		adv := wpFn("advanceConfirmed")
		c.WhoMayCall("who", adv, map[string]string{P + "handleRequest": "Request carries the watermark", P + "handleAck": "Ack carries the watermark"})
		for _, name := range []string{"handleRequest", "handleAck"} {
			fn := c.Func("actor", "workPullingProducerController."+name)
			f := c.NewFlow(fn)
			info := f.Info
			upper := f.FactEdges(func(cm cmp) bool { return cm.Op == token.LEQ && isCallNamed(info, cm.L, "ConfirmedSeq") && isFieldSel(info, cm.R, bCur) })
			c.guardedBy(f, upper, f.CallTo(adv), "range/"+name, "a confirmation is applied only when ConfirmedSeq ≤ the binding's currentSeq", c.P.Pos(fn.Decl.Pos()))
			var bindingVar types.Object
			ast.Inspect(fn.Decl.Body, func(n ast.Node) bool {
				if as, ok := n.(*ast.AssignStmt); ok && len(as.Rhs) == 1 && isCallNamed(info, as.Rhs[0], "bindingFrom") {
					bindingVar = info.ObjectOf(as.Lhs[0].(*ast.Ident))
				}
				return true
			})
			auth := f.NilCheckEdges(func(e ast.Expr) bool { id, ok := e.(*ast.Ident); return ok && bindingVar != nil && info.ObjectOf(id) == bindingVar }, true)
			c.guardedBy(f, auth, f.CallTo(adv), "auth/"+name, "a confirmation is applied only for the binding that authenticated the sender (session, controller, nonce)", c.P.Pos(fn.Decl.Pos()))
		}
		fn := c.Func("actor", "workPullingProducerController.advanceConfirmed")
		f := c.NewFlow(fn)
		info := f.Info
		confirmedParam := fn.Obj.Type().(*types.Signature).Params().At(2)
		isParam := func(e ast.Expr) bool {
			id, ok := ast.Unparen(e).(*ast.Ident)
			return ok && info.Uses[id] == types.Object(confirmedParam)
		}
		mono := f.FactEdges(func(cm cmp) bool { return cm.Op == token.GTR && isParam(cm.L) && isFieldSel(info, cm.R, bConf) })
		c.guardedBy(f, mono, assignTo(info, bConf), "monotone", "a binding's confirmation watermark only moves forward (a repeated confirmation confirms nothing twice)", c.P.Pos(fn.Decl.Pos()))
		var cutObj types.Object
		ast.Inspect(fn.Decl.Body, func(n ast.Node) bool {
			call, ok := n.(*ast.CallExpr)
			if ok && isCallNamed(info, call, "Delete") && len(call.Args) == 3 && isFieldSel(info, call.Args[0], bUnconf) {
				if v, isC := constInt(info, call.Args[1]); isC && v == 0 {
					if id, ok := ast.Unparen(call.Args[2]).(*ast.Ident); ok {
						cutObj = info.Uses[id]
					}
				}
			}
			return true
		})
		if !c.Check(cutObj != nil, "cut/prefix", "confirmed jobs leave the list as the prefix [0, cut)", c.P.Pos(fn.Decl.Pos()), "slices.Delete(binding.unconfirmed, 0, cut) not found") {
			return
		}
		inc := func(n ast.Node) bool {
			s, ok := n.(*ast.IncDecStmt)
			if !ok {
				return false
			}
			id, ok := s.X.(*ast.Ident)
			return ok && info.Uses[id] == cutObj
		}
		within := f.FactEdges(func(cm cmp) bool {
			return cm.Op == token.LEQ && isParam(cm.R) && exprShape(info, cm.L) == ".workerSeq"
		})
		c.guardedBy(f, within, inc, "cut/only-confirmed", "the cut advances only over jobs whose workerSeq ≤ the confirmation", c.P.Pos(fn.Decl.Pos()))
		// the notice covers exactly the removed prefix, and removal follows it
		send := wpFn("sendConfirmation")
		c.WhoMayCall("who", send, map[string]string{P + "advanceConfirmed": "the confirmed prefix"})
		okPrefix := false
		var completedObj types.Object
		ast.Inspect(fn.Decl.Body, func(n ast.Node) bool {
			if as, ok := n.(*ast.AssignStmt); ok && as.Tok == token.DEFINE && len(as.Rhs) == 1 {
				if se, ok := as.Rhs[0].(*ast.SliceExpr); ok && isFieldSel(info, se.X, bUnconf) && se.Low == nil {
					if id, ok := se.High.(*ast.Ident); ok && info.Uses[id] == cutObj {
						completedObj = info.Defs[as.Lhs[0].(*ast.Ident)]
					}
				}
			}
			if call, ok := n.(*ast.CallExpr); ok && isCallNamed(info, call, "sendConfirmation") && len(call.Args) == 2 {
				if id, ok := call.Args[1].(*ast.Ident); ok && completedObj != nil && info.Uses[id] == completedObj {
					okPrefix = true
				}
			}
			return true
		})
		c.Check(okPrefix, "notice=prefix", "the producer is notified for exactly the prefix that is removed", c.P.Pos(fn.Decl.Pos()), "sendConfirmation is not called with binding.unconfirmed[:cut]")
		w := f.MustFollow(f.Find(f.CallTo(send)), assignTo(info, bUnconf), nil)
		c.Check(w == nil, "notice⇒removed", "the notified prefix is removed in the same turn, so it is never notified again", c.P.Pos(fn.Decl.Pos()), f.describe(w))
	})

	c.Rule("registration", func() {
		n := 0
		for _, u := range c.UsesOf(c.FuncObj("internal/commands", "NewRegistrationAck")) {
			if u.Call == nil || u.EnclObj == nil || funcName(u.EnclObj) != P+"handleRegisterConsumer" {
				continue
			}
			n++
			shape := exprShape(u.Pkg.TypesInfo, u.Call.Args[1])
			c.Check(shape == ".confirmedSeq+1", "registration-ack/next=confirmed+1", "a worker that (re)registers is told to resume after its last CONFIRMED sequence: jobs dispatched to it but not confirmed are still expected by it (announcing currentSeq+1 makes the worker discard them as duplicates while the producer keeps them as unconfirmed)", u.Where(c.P), "NextSeq is "+shape)
		}
		if n == 0 {
			c.Undecided("registration-ack/site", "RegistrationAck construction found", "-", "no NewRegistrationAck in handleRegisterConsumer")
		}
		// a stopped worker's jobs return to the pool only through Terminated → handleTerminated → endBinding, so every
		// companion that gets a binding is watched: on every path, the creation of a binding is preceded by Watch
		hr := c.Func("actor", "workPullingProducerController.handleRegisterConsumer")
		hf := c.NewFlow(hr)
		bindings := c.Field("actor", "workPullingProducerController", "bindings")
		newBinding := func(nd ast.Node) bool { _, _, ok := isMapWrite(hf.Info, nd, bindings); return ok }
		watch := func(nd ast.Node) bool {
			call, ok := nd.(*ast.CallExpr)
			if !ok {
				return false
			}
			cal := callee(hf.Info, call)
			return cal != nil && cal.Name() == "Watch"
		}
		if len(hf.Find(newBinding)) == 0 {
			c.Undecided("binding⇒watched", "every companion that gets a binding is watched", c.P.Pos(hr.Decl.Pos()), "binding creation not found")
		} else {
			w := hf.MustPrecede(watch, nil, newBinding)
			c.Check(w == nil, "binding⇒watched", "a binding is created only after its companion was watched (the only route that requeues a stopped worker's jobs is its Terminated)", c.P.Pos(hr.Decl.Pos()), hf.describe(w))
		}
	})

	c.Rule("acceptance", func() {
		fn := c.Func("actor", "workPullingProducerController.completeAccept")
		f := c.NewFlow(fn)
		info := f.Info
		notOwned := f.BoolEdges(func(e ast.Expr) bool { return isCallNamed(info, e, "owns") }, false)
		c.guardedBy(f, notOwned, assignTo(info, pending), "accept/not-owned", "an accepted job enters the pending pool only if the controller does not already hold it", c.P.Pos(fn.Decl.Pos()))
		// owns() looks at the pool and at every binding's unconfirmed list
		ow := c.Func("actor", "workPullingProducerController.owns")
		reads := map[*types.Var]bool{}
		ast.Inspect(ow.Decl.Body, func(n ast.Node) bool {
			if e, ok := n.(ast.Expr); ok {
				if fv := selField(ow.Info(), e); fv != nil {
					reads[fv] = true
				}
			}
			return true
		})
		c.Check(reads[pending] && reads[bindings] && reads[bUnconf], "owns/covers-both-containers", "ownership is judged over the pending pool and every binding's unconfirmed list", c.P.Pos(ow.Decl.Pos()), "owns() does not inspect both containers")
		var lit *ast.CompositeLit
		ast.Inspect(fn.Decl.Body, func(n ast.Node) bool {
			if cl, ok := n.(*ast.CompositeLit); ok {
				if named := namedOf(info.TypeOf(cl)); named != nil && named.Obj().Name() == "pendingWork" {
					lit = cl
				}
			}
			return true
		})
		checkCopyLit(c, info, lit, "accepted-record", map[string]string{"messageID": ".pendingMessageID", "storeSeq": ".pendingStoreSeq", "payload": ".pendingPayload"}, c.P.Pos(fn.Decl.Pos()))
		w := f.search(searchSpec{avoid: f.CallTo(c.FuncObj("actor", "workPullingProducerController.progress")), exits: true})
		c.Check(w == nil, "accept⇒progress", "acceptance is followed by a dispatch attempt", c.P.Pos(fn.Decl.Pos()), f.describe(w))
	})
}

// checkCopyLit: a composite literal sets every listed field from a source of the listed shape.
func checkCopyLit(c *Ctx, info *types.Info, lit *ast.CompositeLit, key string, want map[string]string, where string) {
	if lit == nil {
		c.Undecided(key, "record literal found", where, "composite literal not found: anchor lost?")
		return
	}
	got := map[string]string{}
	for _, el := range lit.Elts {
		if kv, ok := el.(*ast.KeyValueExpr); ok {
			if id, ok := kv.Key.(*ast.Ident); ok {
				got[id.Name] = exprShape(info, kv.Value)
			}
		}
	}
	for _, fld := range sortedKeys(want) {
		c.Check(got[fld] == want[fld], key+"/"+fld, "a job keeps its identity, store sequence and payload when it moves between containers", c.P.Pos(lit.Pos()), "field "+fld+" is set from '"+got[fld]+"', expected a value of shape '"+want[fld]+"'")
	}
}

func containsField(info *types.Info, e ast.Expr, field *types.Var) bool {
	found := false
	ast.Inspect(e, func(n ast.Node) bool {
		if x, ok := n.(ast.Expr); ok && selField(info, x) == field {
			found = true
		}
		return true
	})
	return found
}

// innerNilEdges keeps, of the given nil-check edges, those whose branching block's other successor leads directly to a target call
// (i.e. the check `if v != nil { target(v) }`).
func innerNilEdges(f *Flow, edges map[Edge]bool, target Match) map[Edge]bool {
	out := map[Edge]bool{}
	for e := range edges {
		other := e.From.Succs[1-e.Succ]
		for _, a := range f.blockAtoms(other) {
			if target(a.N) {
				out[e] = true
			}
		}
	}
	return out
}
