#!/bin/bash
# usage: mkrenames.sh  -- regenerates mutants/benign/renames_1.diff: local variables and parameters that rules once
# matched by name, renamed in a scratch copy of /repo (behaviour-preserving; every check must stay silent on it)
set -eu
here=$(cd "$(dirname "$0")/.." && pwd)
export GOFLAGS=-mod=mod GOPROXY=off GOSUMDB=off GOTOOLCHAIN=local
s=${TMPDIR:-/tmp}/verif-renames; rm -rf "$s"; mkdir -p "$s/a" "$s/b"
rsync -a --exclude .git ${VERIF_REPO:-/repo}/ "$s/a/"; rsync -a "$s/a/" "$s/b/"
(cd "$here/tools/renamelocals" && go1.26 build -o "$here/bin/renamelocals" .)
"$here/bin/renamelocals" "$s/b" \
 actor/unbounded_mailbox.go:UnboundedMailbox.Dequeue:next:succ \
 actor/worker.go:worker.run:ok:more \
 actor/pid.go:PID.handlePanicking:directive:dir \
 actor/pid.go:PID.handlePanicking:includeSiblings:whole \
 actor/pid.go:PID.handleStopDirective:includeSiblings:whole \
 actor/pid.go:PID.handleRestartDirective:faults:nFaults \
 actor/pid.go:PID.handleRestartDirective:window:span \
 actor/pid.go:PID.handleRestartDirective:count:got \
 actor/actor_system.go:actorSystem.attachAndPublish:canonical:existing \
 actor/passivation_manager.go:passivationManager.trigger:expected:want \
 actor/passivation_manager.go:passivationEntry.refreshDeadline:last:lastSeen \
 actor/pools.go:cloneContext:dst:out \
 actor/pools.go:cloneContext:src:in \
 actor/pid.go:PID.deregisterRequestState:remaining:left \
 actor/pid.go:PID.registerRequestState:maxInFlight:limit \
 actor/remote_server.go:actorSystem.enqueueCoalescedFailure:messages:msgs \
 actor/scheduler.go:scheduler.claimClusterFire:claim:rec \
 actor/scheduler.go:scheduler.makeJobFn:claim:rec \
 actor/scheduler.go:scheduler.makeJobFn:won:first \
 actor/router.go:router.routeByStrategy:routees:candidates \
 internal/remoteclient/coalescer.go:coalescer.run:batch:outgoing \
 breaker/breaker.go:CircuitBreaker.transitionTo:target:to \
 breaker/breaker.go:CircuitBreaker.transitionTo:current:from \
 actor/reliable_delivery_producer_controller.go:producerController.handleRequest:request:req
(cd "$s/b" && go1.26 build ./... )
(cd "$s" && diff -ruN a b | sed -E 's/^((---|\+\+\+) [ab]\/[^\t]+)\t.*$/\1/' > "$here/mutants/benign/renames_1.diff.tmp") || true
{ echo "# benign: locals and parameters renamed (tools/mkrenames.sh)"; cat "$here/mutants/benign/renames_1.diff.tmp"; } > "$here/mutants/benign/renames_1.diff"
rm -f "$here/mutants/benign/renames_1.diff.tmp"; rm -rf "$s"
grep -c '^@@' "$here/mutants/benign/renames_1.diff"
