// renamelocals rewrites local variable / parameter names inside named functions of a scratch tree. It is used only to
// produce behaviour-preserving refactors for the benign corpus (tools/benigntest.sh): usage
//
//	renamelocals <tree> file:Func:old:new ...     (Func is "Name" or "Recv.Name")
package main

import (
	"bytes"
	"fmt"
	"go/ast"
	"go/format"
	"go/parser"
	"go/token"
	"os"
	"path/filepath"
	"strings"
)

func recvName(fd *ast.FuncDecl) string {
	if fd.Recv == nil || len(fd.Recv.List) == 0 {
		return ""
	}
	t := fd.Recv.List[0].Type
	for {
		switch x := t.(type) {
		case *ast.StarExpr:
			t = x.X
			continue
		case *ast.IndexExpr:
			t = x.X
			continue
		case *ast.IndexListExpr:
			t = x.X
			continue
		case *ast.Ident:
			return x.Name
		}
		return ""
	}
}

// renameAll appends a suffix to every local variable and parameter of every function in the given files.
func renameAll(tree string, files []string) {
	for _, file := range files {
		path := filepath.Join(tree, file)
		fset := token.NewFileSet()
		f, err := parser.ParseFile(fset, path, nil, parser.ParseComments)
		if err != nil {
			fmt.Fprintln(os.Stderr, err)
			os.Exit(1)
		}
		n := 0
		for _, d := range f.Decls {
			fd, ok := d.(*ast.FuncDecl)
			if !ok || fd.Body == nil {
				continue
			}
			keys := map[*ast.Ident]bool{}
			ast.Inspect(fd, func(m ast.Node) bool {
				if cl, ok := m.(*ast.CompositeLit); ok {
					for _, el := range cl.Elts {
						if kv, ok := el.(*ast.KeyValueExpr); ok {
							if id, ok := kv.Key.(*ast.Ident); ok {
								keys[id] = true
							}
						}
					}
				}
				return true
			})
			structFields := map[any]bool{}
			ast.Inspect(fd, func(m ast.Node) bool {
				switch x := m.(type) {
				case *ast.StructType:
					for _, fl := range x.Fields.List {
						structFields[fl] = true
					}
				case *ast.InterfaceType:
					for _, fl := range x.Methods.List {
						structFields[fl] = true
					}
				case *ast.FuncType:
					if x != fd.Type { // parameter names of function types / literals' own params are fine to rename, but
						// names inside a func *type* expression are not resolvable uses: leave them
					}
				}
				return true
			})
			seen := map[*ast.Ident]bool{}
			ast.Inspect(fd, func(m ast.Node) bool {
				id, ok := m.(*ast.Ident)
				if !ok || seen[id] || keys[id] || id.Name == "_" || id.Obj == nil || id.Obj.Kind != ast.Var || structFields[id.Obj.Decl] {
					return true
				}
				if dp, ok := id.Obj.Decl.(ast.Node); ok && dp.Pos() >= fd.Pos() && dp.End() <= fd.End() {
					if _, isField := id.Obj.Decl.(*ast.Field); isField && fd.Type.TypeParams != nil {
						// keep: could be confused with type parameter lists
					}
					seen[id] = true
					id.Name += "_r"
					n++
				}
				return true
			})
		}
		var buf bytes.Buffer
		if err := format.Node(&buf, fset, f); err != nil {
			fmt.Fprintln(os.Stderr, err)
			os.Exit(1)
		}
		if err := os.WriteFile(path, buf.Bytes(), 0o644); err != nil {
			fmt.Fprintln(os.Stderr, err)
			os.Exit(1)
		}
		fmt.Printf("%s: %d idents\n", file, n)
	}
}

func main() {
	tree := os.Args[1]
	if len(os.Args) > 2 && os.Args[2] == "-all" {
		renameAll(tree, os.Args[3:])
		return
	}
	byFile := map[string][][3]string{}
	for _, s := range os.Args[2:] {
		p := strings.Split(s, ":")
		if len(p) != 4 {
			fmt.Fprintln(os.Stderr, "bad spec", s)
			os.Exit(2)
		}
		byFile[p[0]] = append(byFile[p[0]], [3]string{p[1], p[2], p[3]})
	}
	rc := 0
	for file, specs := range byFile {
		path := filepath.Join(tree, file)
		fset := token.NewFileSet()
		f, err := parser.ParseFile(fset, path, nil, parser.ParseComments)
		if err != nil {
			fmt.Fprintln(os.Stderr, err)
			os.Exit(1)
		}
		for _, sp := range specs {
			n := 0
			for _, d := range f.Decls {
				fd, ok := d.(*ast.FuncDecl)
				if !ok || fd.Body == nil {
					continue
				}
				name := fd.Name.Name
				if r := recvName(fd); r != "" {
					name = r + "." + name
				}
				if name != sp[0] {
					continue
				}
				// refuse when the new name is already used in the function
				clash := false
				ast.Inspect(fd, func(m ast.Node) bool {
					if id, ok := m.(*ast.Ident); ok && id.Name == sp[2] {
						clash = true
					}
					return true
				})
				if clash {
					fmt.Fprintf(os.Stderr, "SKIP %s:%s: %s already used\n", file, sp[0], sp[2])
					continue
				}
				keys := map[*ast.Ident]bool{} // struct-literal field keys are resolved to locals by the parser: leave them
				ast.Inspect(fd, func(m ast.Node) bool {
					if cl, ok := m.(*ast.CompositeLit); ok {
						for _, el := range cl.Elts {
							if kv, ok := el.(*ast.KeyValueExpr); ok {
								if id, ok := kv.Key.(*ast.Ident); ok {
									keys[id] = true
								}
							}
						}
					}
					return true
				})
				ast.Inspect(fd, func(m ast.Node) bool {
					id, ok := m.(*ast.Ident)
					if !ok || keys[id] || id.Name != sp[1] || id.Obj == nil || id.Obj.Kind != ast.Var {
						return true
					}
					if dp, ok := id.Obj.Decl.(ast.Node); ok && dp.Pos() >= fd.Pos() && dp.End() <= fd.End() {
						id.Name = sp[2]
						n++
					}
					return true
				})
			}
			if n == 0 {
				fmt.Fprintf(os.Stderr, "NOMATCH %s:%s:%s\n", file, sp[0], sp[1])
				rc = 1
			} else {
				fmt.Printf("renamed %s:%s %s->%s (%d idents)\n", file, sp[0], sp[1], sp[2], n)
			}
		}
		var buf bytes.Buffer
		if err := format.Node(&buf, fset, f); err != nil {
			fmt.Fprintln(os.Stderr, err)
			os.Exit(1)
		}
		if err := os.WriteFile(path, buf.Bytes(), 0o644); err != nil {
			fmt.Fprintln(os.Stderr, err)
			os.Exit(1)
		}
	}
	os.Exit(rc)
}
