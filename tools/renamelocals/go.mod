module renamelocals

go 1.23
