#!/usr/bin/env python3
"""Builds the mutant corpus /verif/mutants/<id>/<name>.diff from the recipes in
/verif/mutants/recipes.py. Each recipe edits a scratch copy of /repo (exact string
replacement, must match exactly once), checks that the module still builds, and
stores the unified diff with the obligation keys the check is expected to report.
usage: mkmutants.py [id ...]   (default: all recipes)"""
import os, subprocess, sys, shutil, importlib.util
here = os.path.dirname(os.path.abspath(__file__))
root = os.path.dirname(here)
spec = importlib.util.spec_from_file_location("recipes", os.path.join(root, "mutants", "recipes.py"))
rec = importlib.util.module_from_spec(spec); spec.loader.exec_module(rec)
repo = os.environ.get("VERIF_REPO", "/repo")
scratch = "/tmp/verif-mkmutants"
env = dict(os.environ, GOFLAGS="-mod=mod", GOPROXY="off", GOSUMDB="off")
want = set(sys.argv[1:])
bad = 0
allsets = dict(rec.MUTANTS)
if hasattr(rec, 'BENIGN'):
    allsets['benign'] = {k: dict(v, expect=[]) for k, v in rec.BENIGN.items()}
for pid, muts in allsets.items():
    if want and pid not in want: continue
    for name, m in muts.items():
        shutil.rmtree(scratch, ignore_errors=True)
        os.makedirs(scratch)
        subprocess.check_call(["rsync", "-a", "--exclude", ".git", repo + "/", scratch + "/a/"])
        subprocess.check_call(["rsync", "-a", scratch + "/a/", scratch + "/b/"])
        ok = True
        for e in m["edits"]:
            path, old, new = e[0], e[1], e[2]
            p = os.path.join(scratch, "b", path)
            s = open(p).read()
            if len(e) > 3 and e[3] == 'all' and s.count(old) >= 1:
                open(p, "w").write(s.replace(old, new)); continue
            if s.count(old) != 1:
                print(f"RECIPE-STALE {pid}/{name}: {path}: pattern occurs {s.count(old)} times"); ok = False; break
            open(p, "w").write(s.replace(old, new))
        if not ok: bad += 1; continue
        pkgs = sorted({"./" + os.path.dirname(e[0]) + "/" for e in m["edits"]})
        r = subprocess.run(["go1.26", "build"] + pkgs, cwd=scratch + "/b", env=env, capture_output=True, text=True)
        if r.returncode != 0:
            print(f"RECIPE-NOBUILD {pid}/{name}: {r.stderr[:400]}"); bad += 1; continue
        d = subprocess.run(["diff", "-ruN", "a", "b"], cwd=scratch, capture_output=True, text=True).stdout
        import re as _re
        d = _re.sub(r"(?m)^((?:---|\+\+\+) [ab]/\S+)\t.*$", r"\1", d)  # drop timestamps: stable output
        os.makedirs(os.path.join(root, "mutants", pid), exist_ok=True)
        with open(os.path.join(root, "mutants", pid, name + ".diff"), "w") as f:
            f.write(f"# mutant {pid}/{name}: {m['what']}\n")
            for k in m["expect"]: f.write(f"# expect: {k}\n")
            f.write(d)
        print(f"wrote mutants/{pid}/{name}.diff ({len(m['edits'])} edits, {len(m['expect'])} expected keys)")
shutil.rmtree(scratch, ignore_errors=True)
sys.exit(1 if bad else 0)
