#!/bin/bash
# usage: archive_seed.sh <prop id> <tag> <demo rel path> "<needs>" "<caught by>" ["<note>"]
set -e
id=$1; tag=$2; demo=$3; needs=$4; caught=$5; note=${6:-}
src=/tmp/seed/${id}${tag}-out
dst=/verif/seeded/${id}${tag}
mkdir -p $dst
cp $src/patch.diff $dst/patch.diff
d=$(ls $src/zz_*_test.go $src/*demo*_test.go 2>/dev/null | head -1)
cp $d $dst/$(basename $demo).txt
[ -f $src/NOTES.md ] && cp $src/NOTES.md $dst/AGENT_NOTES.md
res=$(grep RESULT $src/verify.log | tail -1)
full=$(cat $src/existing_tests.result 2>/dev/null | head -1)
jq -n --arg id "$id" --arg demo "$demo" --arg needs "$needs" --arg caught "$caught" --arg note "$note" --arg res "$res" --arg full "$full" --arg base "$(git -C /repo rev-parse --short HEAD)" \
 '{property:$id, demonstration_path:$demo, needs_to_manifest:$needs, caught_by:$caught, note:$note, base_commit:$base, confirmed:{quick:$res, existing_tests_with_patch:$full}, how_to_run:"tools/verify_seed.sh <dir> <demo path> <pkgs> ; tools/seed_full.sh <dir> <pkgs>"}' > $dst/meta.json
echo archived $dst
