#!/bin/bash
# usage: verify_seed.sh <seed dir with patch.diff + demo> <demo repo-relative path> <test pkg list (space sep)> [full]
# Confirms: patch applies+builds, demo FAILS with patch, demo PASSES without, package tests PASS with patch (no demo).
set -u
sd=$1; demo_rel=$2; pkgs=$3; mode=${4:-quick}
export GOFLAGS=-mod=mod GOPROXY=off GOSUMDB=off
name=$(basename $sd)
wt=/tmp/seedverify/$name
rm -rf $wt; git -C /repo worktree prune; git -C /repo worktree add --detach $wt HEAD >/dev/null 2>&1 || { echo "worktree failed"; exit 2; }
cd $wt
log=$sd/verify.log; : > $log
if ! git apply $sd/patch.diff 2>>$log; then
  if ! git apply -3 $sd/patch.diff 2>>$log; then echo "RESULT $name: patch does not apply to current HEAD" | tee -a $log; git -C /repo worktree remove --force $wt; exit 3; fi
fi
go1.26 build ./... >>$log 2>&1 || { echo "RESULT $name: does not build" | tee -a $log; git -C /repo worktree remove --force $wt; exit 4; }
demo_src=$(ls $sd/*demo*_test.go $sd/zz_*_test.go 2>/dev/null | head -1)
mkdir -p $(dirname $demo_rel); cp $demo_src $demo_rel
demo_pkg=./$(dirname $demo_rel)/
run=$(grep -o 'func Test[A-Za-z0-9_]*' $demo_rel | sed 's/func //' | paste -sd'|')
go1.26 test -vet=off -count=1 -run "^($run)\$" $demo_pkg >>$log 2>&1; with=$?
git diff -- . ':!'$demo_rel > /tmp/seedverify/$name.applied.diff
git apply -R /tmp/seedverify/$name.applied.diff
go1.26 test -vet=off -count=1 -run "^($run)\$" $demo_pkg >>$log 2>&1; without=$?
git apply /tmp/seedverify/$name.applied.diff
rm -f $demo_rel
tests=skipped
if [ "$mode" = full ]; then
  tests=pass
  for p in $pkgs; do go1.26 test -vet=off -count=1 -timeout 45m $p >>$log 2>&1 || tests="FAIL($p)"; done
fi
echo "RESULT $name: demo_with_patch_exit=$with (want !=0) demo_without_patch_exit=$without (want 0) existing_tests=$tests" | tee -a $log
# run the checks against the patched tree
cd /verif; VERIF_REPO=$wt VERIF_EVIDENCE=/tmp/seedverify/ev-$name ./check all quick > $sd/checks.log 2>&1
grep -E ": violated |UNDECIDED|FAILED" $sd/checks.log | grep -v "^    " | head -20 | tee -a $log
git -C /repo worktree remove --force $wt
