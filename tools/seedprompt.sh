#!/bin/bash
# usage: seedprompt.sh <property id> [variant-hint]  -- creates a scratch worktree and prints the sub-agent prompt
set -e
id=$1; tag=${2:-a}
wt=/tmp/seed/$id$tag
out=/tmp/seed/$id$tag-out
if [ ! -d "$wt" ]; then git -C /repo worktree add --detach "$wt" HEAD >/dev/null 2>&1; fi
mkdir -p "$out"
prop=$(jq -c "select(.id==\"$id\")" /verif/properties.jsonl)
cat <<P
You are working on the Go project Tochemey/goakt (an actor framework) in a scratch git worktree at $wt . Work ONLY inside $wt and $out . Do not read or touch /repo or /verif.

Here is a semantic property that the code base is meant to satisfy (JSON record):

$prop

TASK: produce a change to goakt's non-test source that BREAKS this property, while
 (a) the module still compiles (go1.26 build ./...), and
 (b) the EXISTING test suite still passes (at least every package you touched, and closely dependent packages; run them with go1.26 test -vet=off -count=1 -timeout 25m ./<pkg>/ ).
The change must be realistic - the sort of regression a maintainer could plausibly introduce (an "optimisation", a refactor, a dropped or weakened guard, reordered statements, a wrong lock, an off-by-one, a forgotten field) - and small (ideally under 30 changed lines). It must be SUBTLE: it has to need something specific in order to manifest (a particular interleaving, a crash or fault at a particular point, a multi-step sequence of operations, an unusual input, or two cooperating sites that each look fine alone), NOT something that ordinary use would expose at once.

Also write a DEMONSTRATION: a new Go test file (for example <pkg>/zz_seed_demo_test.go; it may be an internal test in the package) or a small program, which FAILS with your change applied and PASSES without it. Make it as deterministic as you can (force schedules with barriers / channels / test-only hooks inside the test file, or loop enough that failure is reliable). The demonstration must not need any non-test source edit beyond your patch.

DELIVERABLES in $out/ :
 - patch.diff : git diff of the non-test source change only (must apply with 'git apply' to the worktree HEAD)
 - the demonstration file(s), plus their intended repo-relative path
 - NOTES.md : what you changed; why it breaks the property; what it needs in order to manifest; the exact commands you ran with their outcomes (demo FAILS with patch, demo PASSES without patch, existing package tests PASS with patch and without the demo file).

ENVIRONMENT: no network. In every shell call first run: export GOFLAGS=-mod=mod GOPROXY=off GOSUMDB=off ; use the 'go1.26' command instead of 'go'. The machine is shared: be economical (target tests with -run while iterating; run the touched packages' full tests once at the end, EXCEPT the ./actor/ package: its full suite takes 40 minutes here, so for ./actor/ run only the tests related to the code you touched, selected with -run, plus 'go1.26 vet' is not needed; the full actor suite will be run separately by the maintainer). Do not commit anything and NEVER use git stash (the stash is shared between worktrees; to test without your patch use: git diff > /tmp/x.diff; git apply -R /tmp/x.diff; ...; git apply /tmp/x.diff). When finished, reply with a short summary (files written, what the change is, what it needs to manifest).
P
