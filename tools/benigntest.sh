#!/bin/bash
# usage: benigntest.sh   -- applies each behaviour-preserving refactor under /verif/mutants/benign/*.diff to a scratch
# copy of /repo's current tree and runs every check on it: all must still hold (a report here is a false alarm).
set -u
here=$(cd "$(dirname "$0")/.." && pwd)
repo=${VERIF_REPO:-/repo}
scratch=${VERIF_SCRATCH:-${TMPDIR:-/tmp}/verif-selftest}/benign
export GOFLAGS=-mod=mod GOPROXY=off GOSUMDB=off GOTOOLCHAIN=local; unset GOWORK
export PATH="$(go1.26 env GOROOT)/bin:$PATH"
rc=0
for p in "$here"/mutants/benign/*.diff; do
  rm -rf "$scratch"; mkdir -p "$scratch/tree" "$scratch/ev"
  rsync -a --exclude .git "$repo"/ "$scratch/tree/"
  if ! (cd "$scratch/tree" && patch -p1 -s -f --no-backup-if-mismatch < "$p") >/dev/null 2>&1; then echo "BENIGN-SKIP $(basename $p) (does not apply)"; continue; fi
  out=$("$here/bin/verifcheck" -repo "$scratch/tree" -props all -tier quick -evidence "$scratch/ev" -known "$here/known_findings.txt" 2>&1); s=$?
  if [ $s -eq 0 ]; then echo "BENIGN-OK $(basename $p): all checks silent"; else echo "BENIGN-FALSE-ALARM $(basename $p):"; grep -E ": (violated|UNDECIDED) " <<<"$out" | head; rc=1; fi
done
# rename every local variable and parameter of the module (tools/renamelocals -all): no rule may depend on a local's name
rm -rf "$scratch"; mkdir -p "$scratch/tree" "$scratch/ev"
rsync -a --exclude .git "$repo"/ "$scratch/tree/"
if (cd "$here/tools/renamelocals" && go1.26 build -o "$here/bin/renamelocals" .) >/dev/null 2>&1; then
  files=$(cd "$scratch/tree" && find . -name '*.go' ! -name '*_test.go' ! -name '*.pb.go' ! -path './mocks/*' ! -path './test/*' ! -path './goaktpb/*' ! -path './internal/internalpb/*' | sed 's#^\./##')
  if "$here/bin/renamelocals" "$scratch/tree" -all $files >/dev/null 2>&1 && (cd "$scratch/tree" && go1.26 build ./... >/dev/null 2>&1); then
    out=$("$here/bin/verifcheck" -repo "$scratch/tree" -props all -tier quick -evidence "$scratch/ev" -known "$here/known_findings.txt" 2>&1); s=$?
    if [ $s -eq 0 ]; then echo "BENIGN-OK rename-all-locals: all checks silent"; else echo "BENIGN-FALSE-ALARM rename-all-locals:"; grep -E ": (violated|UNDECIDED) " <<<"$out" | head; rc=1; fi
  else
    echo "BENIGN-SKIP rename-all-locals (renamed tree does not build)"
  fi
else
  echo "BENIGN-SKIP rename-all-locals (tool does not build)"
fi
rm -rf "$scratch"
exit $rc
