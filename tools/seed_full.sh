#!/bin/bash
# usage: seed_full.sh <seed out dir> "<pkgs>"   -- runs the existing tests of pkgs with the seed patch applied (no demo)
# writes <seed dir>/existing_tests.result : list of stable-baseline tests that fail with the patch
set -u
sd=$1; pkgs=$2
export GOFLAGS=-mod=mod GOPROXY=off GOSUMDB=off
name=$(basename $sd)
wt=/tmp/seedverify/full-$name
rm -rf $wt; git -C /repo worktree prune; git -C /repo worktree add --detach $wt HEAD >/dev/null 2>&1
cd $wt && git apply $sd/patch.diff || { echo "patch does not apply" > $sd/existing_tests.result; exit 1; }
go1.26 test -json -vet=off -count=1 -timeout 60m $pkgs > $sd/existing_tests.json 2>$sd/existing_tests.err
python3 - $sd <<'PY'
import json,sys
sd=sys.argv[1]
base=set(json.load(open('/root/.vp/BASELINE.json'))['stable_pass'])
fails=set(); passes=set()
for line in open(sd+'/existing_tests.json'):
    try: e=json.loads(line)
    except: continue
    if e.get('Test') and e.get('Action') in ('fail','pass'):
        k=e['Package']+'::'+e['Test']
        (fails if e['Action']=='fail' else passes).add(k)
bad=sorted(f for f in fails if f in base)
open(sd+'/existing_tests.result','w').write("passed=%d failed=%d failed_stable_baseline=%d\n"%(len(passes),len(fails),len(bad))+"\n".join(bad)+"\n")
print(open(sd+'/existing_tests.result').read())
PY
cd /; git -C /repo worktree remove --force $wt
