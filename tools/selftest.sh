#!/bin/bash
# usage: selftest.sh <property id>
# Mutation self-test of one property's check ("the checker fires on a variant with one instance broken"):
# every patch under /verif/mutants/<id>/*.diff and /verif/seeded/<id>*/patch.diff is applied to a scratch COPY of
# /repo's current working tree (outside /repo and /verif, removed afterwards); the check must then report a
# violation, and for mutants with '# expect:' headers every expected obligation key (as violated, or as undecided:
# an obligation the check can no longer decide fails the check just the same). A patch that no longer
# applies to the current tree is skipped (reported), never counted as a miss. Static analysis only: nothing is run
# but the checker. Prints one line per mutant and a summary 'SELFTEST property=<id> applied=N flagged=N missed=N skipped=N'.
# Exit status: 0 = no miss, 4 = at least one mutant was not reported (the check has lost detection power).
set -u
id=$1
here=$(cd "$(dirname "$0")/.." && pwd)
repo=${VERIF_REPO:-/repo}
scratch=${VERIF_SCRATCH:-${TMPDIR:-/tmp}/verif-selftest}/$id
export GOFLAGS=-mod=mod GOPROXY=off GOSUMDB=off GOTOOLCHAIN=local; unset GOWORK
export PATH="$(go1.26 env GOROOT)/bin:$PATH"
applied=0; flagged=0; missed=0; skipped=0
shopt -s nullglob
# seeded changes are exercised by the check of their own property, unless seeded/<dir>/check_with names the
# property whose check is the one that reports them (e.g. C04a is reported by C02's release/recheck rule)
seeds=()
for d in "$here"/seeded/*/; do
  [ -f "$d/patch.diff" ] || continue
  tgt=$(basename "$d" | grep -o '^C[0-9][0-9]')
  [ -f "$d/check_with" ] && tgt=$(tr -d ' \n' < "$d/check_with")
  [ "$tgt" = "$id" ] && seeds+=("${d}patch.diff")
done
for p in "$here"/mutants/$id/*.diff "${seeds[@]}"; do
  name=$(basename "$(dirname "$p")")/$(basename "$p")
  rm -rf "$scratch"; mkdir -p "$scratch/tree" "$scratch/ev"
  rsync -a --exclude .git "$repo"/ "$scratch/tree/"
  if ! (cd "$scratch/tree" && patch -p1 -s -f --no-backup-if-mismatch < "$p") >/dev/null 2>&1; then
    echo "SELFTEST-SKIP property=$id mutant=$name (patch does not apply to the current tree)"; skipped=$((skipped+1)); continue
  fi
  applied=$((applied+1))
  out=$("$here/bin/verifcheck" -repo "$scratch/tree" -props "$id" -tier quick -evidence "$scratch/ev" -known "$here/known_findings.txt" 2>&1); rc=$?
  miss=""
  if [ $rc -ne 1 ]; then miss="check exit status $rc (want 1)"; fi
  while IFS= read -r key; do
    [ -z "$key" ] && continue
    if ! grep -E ": (violated|UNDECIDED) " <<<"$out" | grep -qF -- "$key"; then miss="$miss; expected obligation not reported: $key"; fi
  done < <(sed -n 's/^# expect: //p' "$p")
  if [ -z "$miss" ]; then
    n=$(grep -cE ": (violated|UNDECIDED) " <<<"$out")
    echo "SELFTEST-OK property=$id mutant=$name violations=$n"; flagged=$((flagged+1))
  else
    echo "SELFTEST-MISS property=$id mutant=$name $miss"; missed=$((missed+1))
  fi
done
rm -rf "$scratch"
echo "SELFTEST property=$id applied=$applied flagged=$flagged missed=$missed skipped=$skipped"
[ $missed -eq 0 ] || exit 4
exit 0
