#!/bin/bash
set -e
cd /verif
ids=$(jq -r .id properties.jsonl | paste -sd,)
./bin/verifcheck -manifest "$ids" > MANIFEST.json.tmp && mv MANIFEST.json.tmp MANIFEST.json
python3-vt - <<'PY'
import json, jsonschema
m=json.load(open('/verif/MANIFEST.json')); s=json.load(open('/root/.vp/MANIFEST.schema.json'))
jsonschema.validate(m,s); print("MANIFEST valid:", len(m['checks']), "checks,", len(m['not_applicable']), "n/a")
PY
