#!/bin/bash
# usage: regen_docs.sh  -- regenerates Appendix A of DESIGN.md from the registered properties and MANIFEST.json
set -e
here=$(cd "$(dirname "$0")/.." && pwd)
cd "$here"
python3 - <<'PY'
import subprocess
d=open('DESIGN.md').read()
i=d.index('## Appendix A.')
j=d.index('\n',i)
# keep the heading line and the intro paragraph up to the first '### '
k=d.index('\n### ',j)
out=subprocess.run(['bin/verifcheck','-describe'],capture_output=True,text=True,check=True).stdout
open('DESIGN.md','w').write(d[:k+1]+out)
PY
tools/genmanifest.sh
